(* dkv/sst/compaction.go: Compactor.Compact transcribed (after repair D9, labelled break).
   Sizes: [tsize] is the byte size of a table (Table.Size()); the theorems hold for every size function,
   the correspondence check instantiates it with LsmBase.table_size.  Definitions only. *)
From Coq Require Import List NArith Bool.
From RV Require Import Base.Bytes Model.LsmBase.
Import ListNotations.
Open Scope N_scope.

Record ccfg := mkCfg {
  c_trigger : N;   (* L0RunNumCompactionTrigger *)
  c_maxamp : N;    (* MaxSizeAmplificationPercent *)
  c_smallest : N;  (* SmallestLevelSize *)
  c_target : N     (* TargetTableSize *)
}.

Definition maxint : N := 9223372036854775807.

(* SAR.Percentage: int(math.Round(eligible / base * 100)); Round is half away from zero.  Exact rational
   rounding (the float64 computation agrees except possibly at exact .5 ties of huge operands). *)
Definition pct (elig base : N) : N :=
  if elig =? 0 then 0 else if base =? 0 then maxint else (200 * elig + base) / (2 * base).

(* Table.Age() = startSeqNum = sequence number of the first entry *)
Definition age (t : table) : N := match t with [] => 0 | e :: _ => eseq e end.
Fixpoint ins_age (t : table) (l : list table) : list table :=
  match l with
  | [] => [t]
  | x :: r => if age t <? age x then t :: l else x :: ins_age t r
  end.
(* slices.SortedFunc(level.AllTables(), OrderOldToNew) *)
Definition sort_age (l : list table) : list table := fold_right ins_age [] (rev l).

Section Compaction.
  Variable tsize : table -> N.

  Definition lvl_size (l : list table) : N := fold_right (fun t a => tsize t + a) 0 l.
  Definition eligible (ll : levels) : N := fold_right (fun l a => lvl_size l + a) 0 (removelast ll).
  Definition base_size (ll : levels) : N := lvl_size (last ll []).

  (* inner loop of majorCompaction over the candidates of one level; true = goal met (break pickTables) *)
  Fixpoint pick_tables (maxamp : N) (cands : list table) (elig base : N) : list table * N * bool :=
    match cands with
    | [] => ([], elig, false)
    | c :: r =>
        let elig' := elig - tsize c in
        if pct elig' base <? maxamp then ([c], elig', true)
        else let '(p, e, d) := pick_tables maxamp r elig' base in (c :: p, e, d)
    end.

  (* outer loop: levels from the one above the base up to level 0; the picks of each level *)
  Fixpoint pick_levels (maxamp : N) (asc : list (list table)) (elig base : N) : list (list table) :=
    match asc with
    | [] => []
    | l :: r =>
        let '(p, e, d) := pick_tables maxamp (sort_age l) elig base in
        if d then p :: map (fun _ => []) r else p :: pick_levels maxamp r e base
    end.

  Definition major (cfg : ccfg) (ll : levels) : changeset :=
    let picks := pick_levels (c_maxamp cfg) (rev (removelast ll)) (eligible ll) (base_size ll) in
    let merged := concat picks ++ last ll [] in
    mkCS (length ll - 1) (write_run (merge_all merged) (c_target cfg)) merged.

  Definition merge_levels (cfg : ccfg) (ll : levels) (i : nat) : changeset :=
    let input := nth i ll [] ++ nth (S i) ll [] in
    mkCS (S i) (write_run (merge_all input) (c_target cfg)) input.

  (* the loop "for c.minorCompactionLevel < len(levels)-1" *)
  Fixpoint minor_loop (fuel : nat) (cfg : ccfg) (ll : levels) (mcl : nat) : option changeset * nat :=
    match fuel with
    | O => (None, 0%nat)
    | S f =>
        if Nat.ltb mcl (length ll - 1) then
          if c_smallest cfg * N.of_nat mcl <? lvl_size (nth mcl ll []) then (Some (merge_levels cfg ll mcl), S mcl)
          else minor_loop f cfg ll (S mcl)
        else (None, 0%nat)
    end.

  Definition minor (cfg : ccfg) (ll : levels) (mcl : nat) : option changeset * nat :=
    match mcl with
    | O => (Some (merge_levels cfg ll 0), 1%nat)
    | _ => minor_loop (length ll) cfg ll mcl
    end.

  (* Compactor.Compact: the change set (None = nil) and the new minorCompactionLevel *)
  Definition compact (cfg : ccfg) (mcl : nat) (ll : levels) : option changeset * nat :=
    if Nat.eqb mcl 0 && (N.of_nat (length (hd [] ll)) <? c_trigger cfg) then (None, mcl)
    else if c_maxamp cfg <? pct (eligible ll) (base_size ll) then (Some (major cfg ll), mcl)
    else minor cfg ll mcl.

  (* one step as the database performs it: Compact on [ll], level-0 tables [extra] added by flushes meanwhile, then
     the change set applied - unless Compact FAILED (a storage read error while scanning an input table: majorCompaction /
     minorCompaction return the error and no change set).  A failed step installs nothing; the cursor has already moved. *)
  Definition compact_step (failed : bool) (cfg : ccfg) (mcl : nat) (ll : levels) (extra : list table) : levels * nat :=
    let '(ocs, m) := compact cfg mcl ll in
    let ll1 := add_l0 extra ll in
    (match ocs with Some cs => if failed then ll1 else apply_cs cs ll1 | None => ll1 end, m).

  (* the loop of the compaction task in db.go ("run compact steps until there is no changeset") when no flush
     interferes; None = fuel exhausted *)
  Fixpoint compact_loop (fuel : nat) (cfg : ccfg) (mcl : nat) (ll : levels) : option (levels * nat) :=
    match fuel with
    | O => None
    | S f =>
        match compact cfg mcl ll with
        | (None, m) => Some (ll, m)
        | (Some cs, m) => compact_loop f cfg m (apply_cs cs ll)
        end
    end.

End Compaction.
