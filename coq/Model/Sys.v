(* Sys -- protocol model of the whole engine for C01 (exactly-once keyed state across failure and recovery).

   What is modelled (mirrors jobs/job.go, jobs/assembly.go, workers/sourcerunner/source_runner.go,
   workers/operator/operator.go + checkpoint.go, storage/snapshots/{store,snapshot}.go, partitioning/key_space.go):
     * the input: one record list per split; a record is (id, key);
     * a deployment generation with n workers (= n source runners + n operators): split s is read by runner s mod n,
       a key is owned by operator `owner n key`;
     * runners: AEmit s hands the next record of split s to its runner, which routes it into the FIFO channel
       (runner, owner key); ABarrier r takes the pending checkpoint barrier: the runner acknowledges its current
       positions to the job and appends the barrier to the channel of EVERY operator (createCheckpoint then broadcast);
     * operators: ADeliver r o handles the head of channel (r,o); a record is appended to the operator's applied log
       unless runner r is parked by alignment (its barrier has been received, others are missing); the last missing
       barrier takes the cut (the applied log at that moment) and acknowledges it (handleCheckpointBarrier);
     * the job: AStart starts a checkpoint when none is pending (CreateCheckpoint + StartCheckpoint); AAck i delivers the
       i-th in-flight acknowledgement -- ANY order; when all 2n acknowledgements arrived the checkpoint is published
       (per-operator cut + per-split positions);
     * ACrash who n': any subset of workers (or the job) dies at any moment; everything volatile is discarded (channels,
       operator logs, in-flight acknowledgements, the pending checkpoint) and a new generation with n' workers starts
       from the latest published checkpoint: every new operator gets the recorded cuts restricted to the keys it owns
       (Assembly.Deploy + AssignRanges + DKV restore), every split resumes at its recorded position.
   The per-key keyed state is the list of applied record ids (the reference handler of the harness keeps exactly that).
   Not modelled here: batching (batches are flushed before a cut is taken: C02/C04), the DKV (C07/C08), timers. *)
From Coq Require Import List NArith Bool Arith Lia.
Import ListNotations.

Module Sys.

Definition rec := (N * N)%type.                 (* id, key *)
Definition rkey (r : rec) : N := snd r.
Definition rid (r : rec) : N := fst r.

Inductive item := IRec (s : nat) (r : rec) | IBar.

Definition entry := (nat * rec)%type.           (* split, record : one element of an operator's applied log *)

(* acknowledgements carry the checkpoint id (the count of checkpoints started in the generation), as the real ones do:
   snapshots.Store rejects an acknowledgement whose id is not the pending one *)
Inductive ack :=
| AckSr (id : nat) (r : nat) (pos : nat -> nat) (* runner r: positions of the splits at its barrier *)
| AckOp (id : nat) (o : nat) (cut : list entry). (* operator o: its applied log at the cut *)
Definition ack_id (a : ack) : nat := match a with AckSr id _ _ => id | AckOp id _ _ => id end.

Record pending := { p_sr : list (nat * (nat -> nat)); p_op : list (nat * list entry) }.

Record published := { c_n : nat; c_cut : nat -> list entry; c_pos : nat -> nat }.

Record state := {
  n : nat;                                       (* workers of this generation *)
  pos : nat -> nat;                              (* split -> reader position *)
  chan : nat -> nat -> list item;                (* runner -> operator -> FIFO *)
  olog : nat -> list entry;                      (* operator -> applied log (in application order) *)
  got : nat -> list nat;                         (* operator -> runners whose barrier of the pending checkpoint arrived *)
  bars : nat -> nat;                             (* runner -> barriers emitted in this generation *)
  started : nat;                                 (* checkpoints started in this generation *)
  pend : option pending;
  inflight : list ack;
  pub : option published;                        (* latest published checkpoint (survives crashes) *)
}.

Section Model.
Variable splits : list (list rec).
Variable owner : nat -> N -> nat.                (* workers -> key -> operator *)

Definition nsplits := length splits.
Definition split (s : nat) : list rec := nth s splits [].
Definition runner_of (m s : nat) : nat := s mod m.

Definition upd {A} (f : nat -> A) (i : nat) (v : A) : nat -> A := fun j => if Nat.eqb j i then v else f j.
Definition upd2 {A} (f : nat -> nat -> A) (i j : nat) (v : A) : nat -> nat -> A :=
  fun a b => if Nat.eqb a i && Nat.eqb b j then v else f a b.

Definition fresh (m : nat) (p : nat -> nat) (cuts : nat -> list entry) (pb : option published) : state :=
  {| n := m; pos := p; chan := fun _ _ => []; olog := cuts; got := fun _ => []; bars := fun _ => 0;
     started := 0; pend := None; inflight := []; pub := pb |}.

Definition init (m : nat) : state := fresh m (fun _ => 0) (fun _ => []) None.

(* restart: the recorded cuts of all old operators, restricted to the keys the new operator owns.
   ONE published checkpoint is read, and BOTH the operators' state and the splits' positions come from it -- this is what
   jobs.Job.start does (`ckpt := CurrentCheckpoint()` once, then Assembly.Deploy(ckpt) and splitter.Start(ckpt's source
   checkpoint)). Reading the store twice (state from one publication, positions from a later one that lands while the
   assembly is deployed) is NOT this model; the correspondence check sees it as code 16. *)
Definition all_cut (c : published) : list entry := flat_map (c_cut c) (seq 0 (c_n c)).
Definition restart (m : nat) (pb : option published) : state :=
  match pb with
  | None => fresh m (fun _ => 0) (fun _ => []) None
  | Some c => fresh m (c_pos c) (fun o => filter (fun e => Nat.eqb (owner m (rkey (snd e))) o) (all_cut c)) (Some c)
  end.

Inductive action :=
| AEmit (s : nat)
| ABarrier (r : nat)
| ADeliver (r o : nat)
| AStart
| AAck (i : nat)
| ACrash (who : list nat) (m : nat).

Definition memn (x : nat) (l : list nat) : bool := existsb (Nat.eqb x) l.
Definition all_in (m : nat) (l : list nat) : bool := forallb (fun r => memn r l) (seq 0 m).

Fixpoint remove_nth {A} (i : nat) (l : list A) : list A :=
  match i, l with
  | _, [] => []
  | O, _ :: l' => l'
  | S i', x :: l' => x :: remove_nth i' l'
  end.

Definition lookup_sr (l : list (nat * (nat -> nat))) (r : nat) : nat -> nat :=
  match find (fun x => Nat.eqb (fst x) r) l with Some x => snd x | None => fun _ => 0 end.
Definition lookup_op (l : list (nat * list entry)) (o : nat) : list entry :=
  match find (fun x => Nat.eqb (fst x) o) l with Some x => snd x | None => [] end.

Definition complete (m : nat) (p : pending) : bool :=
  all_in m (map fst (p_sr p)) && all_in m (map fst (p_op p)).

Definition publish (m : nat) (p : pending) : published :=
  {| c_n := m; c_cut := lookup_op (p_op p); c_pos := fun s => lookup_sr (p_sr p) (runner_of m s) s |}.

(* every action is total: where it is not enabled it leaves the state unchanged (stutter) *)
Definition step (st : state) (a : action) : state :=
  let m := n st in
  match a with
  | AEmit s =>
      if Nat.ltb s nsplits then
        match nth_error (split s) (pos st s) with
        | Some r =>
            let rn := runner_of m s in
            let o := owner m (rkey r) in
            {| n := m; pos := upd (pos st) s (S (pos st s)); chan := upd2 (chan st) rn o (chan st rn o ++ [IRec s r]);
               olog := olog st; got := got st; bars := bars st; started := started st; pend := pend st;
               inflight := inflight st; pub := pub st |}
        | None => st
        end
      else st
  | ABarrier r =>
      if Nat.ltb r m && Nat.ltb (bars st r) (started st) then
        {| n := m; pos := pos st;
           chan := fun a b => if Nat.eqb a r && Nat.ltb b m then chan st a b ++ [IBar] else chan st a b;
           olog := olog st; got := got st; bars := upd (bars st) r (S (bars st r)); started := started st; pend := pend st;
           inflight := inflight st ++ [AckSr (started st) r (pos st)]; pub := pub st |}
      else st
  | ADeliver r o =>
      if Nat.ltb r m && Nat.ltb o m then
        match chan st r o with
        | [] => st
        | IRec s rc :: q =>
            if memn r (got st o) then st      (* parked by alignment *)
            else {| n := m; pos := pos st; chan := upd2 (chan st) r o q; olog := upd (olog st) o (olog st o ++ [(s, rc)]);
                    got := got st; bars := bars st; started := started st; pend := pend st; inflight := inflight st; pub := pub st |}
        | IBar :: q =>
            if memn r (got st o) then st
            else
              let g := r :: got st o in
              if all_in m g then
                {| n := m; pos := pos st; chan := upd2 (chan st) r o q; olog := olog st; got := upd (got st) o [];
                   bars := bars st; started := started st; pend := pend st;
                   inflight := inflight st ++ [AckOp (started st) o (olog st o)]; pub := pub st |}
              else
                {| n := m; pos := pos st; chan := upd2 (chan st) r o q; olog := olog st; got := upd (got st) o g;
                   bars := bars st; started := started st; pend := pend st; inflight := inflight st; pub := pub st |}
        end
      else st
  | AStart =>
      match pend st with
      | Some _ => st
      | None =>
          {| n := m; pos := pos st; chan := chan st; olog := olog st; got := got st; bars := bars st;
             started := S (started st); pend := Some {| p_sr := []; p_op := [] |}; inflight := inflight st; pub := pub st |}
      end
  | AAck i =>
      match nth_error (inflight st) i, pend st with
      | Some a, Some p =>
          let rest := remove_nth i (inflight st) in
          if negb (Nat.eqb (ack_id a) (started st)) then
            (* not the pending checkpoint's id: rejected by the store, the acknowledgement is lost *)
            {| n := m; pos := pos st; chan := chan st; olog := olog st; got := got st; bars := bars st;
               started := started st; pend := pend st; inflight := rest; pub := pub st |}
          else
          let p' := match a with
                    | AckSr _ r ps => {| p_sr := (r, ps) :: p_sr p; p_op := p_op p |}
                    | AckOp _ o c => {| p_sr := p_sr p; p_op := (o, c) :: p_op p |}
                    end in
          if complete m p' then
            {| n := m; pos := pos st; chan := chan st; olog := olog st; got := got st; bars := bars st;
               started := started st; pend := None; inflight := rest; pub := Some (publish m p') |}
          else
            {| n := m; pos := pos st; chan := chan st; olog := olog st; got := got st; bars := bars st;
               started := started st; pend := Some p'; inflight := rest; pub := pub st |}
      | _, _ => st
      end
  | ACrash _ m' => if Nat.ltb 0 m' then restart m' (pub st) else st
  end.

Definition run (st : state) (sched : list action) : state := fold_left step sched st.

(* ---- observation: keyed state = per key the ids of the applied records, in application order *)
Definition applied_of (st : state) (k : N) : list entry :=
  filter (fun e => N.eqb (rkey (snd e)) k) (olog st (owner (n st) k)).
Definition state_ids (st : state) (k : N) : list N := map (fun e => rid (snd e)) (applied_of st k).

(* the records of key k in split s, and those before position p *)
Definition sub (k : N) (l : list rec) : list rec := filter (fun r => N.eqb (rkey r) k) l.
Definition proj (s : nat) (l : list entry) : list rec := map snd (filter (fun e => Nat.eqb (fst e) s) l).

(* quiescence: every split fully read, every channel empty *)
Definition drained (st : state) : Prop :=
  (forall s, s < nsplits -> pos st s = length (split s)) /\ (forall r o, chan st r o = []).

(* records of (split s, key k) waiting in a channel, in order *)
Definition in_chan (s : nat) (k : N) (q : list item) : list rec :=
  flat_map (fun it => match it with
                      | IRec s' r => if Nat.eqb s' s && N.eqb (rkey r) k then [r] else []
                      | IBar => []
                      end) q.

(* what a published checkpoint must be: per key and split, exactly the records before the recorded position, in order *)
Definition ckpt_exact (c : published) : Prop :=
  forall k s, s < nsplits ->
    proj s (filter (fun e => N.eqb (rkey (snd e)) k) (all_cut c)) = sub k (firstn (c_pos c s) (split s)).

End Model.

(* ---- a canonical failure-free run, used by the correspondence check (one worker, emit and deliver everything) *)
Definition owner_mod (m : nat) (k : N) : nat := N.to_nat k mod m.

Definition ff_schedule (splits : list (list rec)) : list action :=
  flat_map (fun s => flat_map (fun _ => [AEmit s; ADeliver 0 0]) (nth s splits [])) (seq 0 (length splits)).

Definition failure_free_final (splits : list (list rec)) : state :=
  run splits owner_mod (init 1) (ff_schedule splits).

Definition state_of (st : state) (k : N) : list N := state_ids owner_mod st k.

End Sys.
