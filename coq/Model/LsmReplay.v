(* The LSM state machine with the implementation's scheduling DECISIONS taken as data (C07/C18 correspondence that does not
   depend on byte sizes): whether a Put/Delete rotated the memtable and which change set Compact returned are part of the
   action; the machine only demands that a change set is LEGAL for the layout it was computed on ([good_csb], the executable
   form of C18_Apply.good_cs: it removes existing tables, its outputs are the merge of its inputs, the removed set is closed
   towards the target level and older than what stays in level 0).  Everything else is Lsm.step.  Lsm.step is the instance
   in which the decisions are computed by the size accounting of memtable / WAL and by Compactor.Compact.  Definitions only. *)
From Coq Require Import List NArith Bool.
From RV Require Import Base.Bytes Model.LsmBase Model.LsmCompaction Model.Lsm.
Import ListNotations.
Open Scope N_scope.

(* ---------- executable legality of a change set ---------- *)

Definition in_rem (cs : changeset) (t : table) : bool := tmem t (cs_rem cs).
Definition lvl_has_rem (cs : changeset) (l : list table) : bool := existsb (in_rem cs) l.
Definition all_rem (cs : changeset) (l : list table) : bool := forallb (in_rem cs) l.
Definition seq_below (r t : table) : bool := forallb (fun e => forallb (fun e' => eseq e <? eseq e') t) r.
Definition nonemptyb (t : table) : bool := match t with [] => false | _ => true end.

Fixpoint closedb (cs : changeset) (i : nat) (ll : levels) : bool :=
  match ll with
  | [] => true
  | l :: r => (if lvl_has_rem cs l then forallb (all_rem cs) (firstn (cs_level cs - i) r) else true) && closedb cs (S i) r
  end.

Definition good_csb (ll : levels) (cs : changeset) : bool :=
  let T := cs_level cs in
  Nat.leb 1 T && Nat.ltb T (length ll) &&
  all_rem cs (nth T ll []) &&
  forallb (fun r => existsb (fun l => tmem r l) (firstn (S T) ll)) (cs_rem cs) &&
  table_eqb (concat (cs_add cs)) (merge_all (cs_rem cs)) && forallb nonemptyb (cs_add cs) &&
  closedb cs 0 ll &&
  forallb (fun r => if in_rem cs r then forallb (fun t => if in_rem cs t then true else seq_below r t) (hd [] ll) else true) (hd [] ll) &&
  forallb (fun l => negb (lvl_has_rem cs l)) (skipn (S T) ll).

(* ---------- executable validity of a layout ---------- *)

Fixpoint sepb (cs : list table) : bool :=
  match cs with [] => true | x :: r => forallb (seq_below x) r && sepb r end.
Definition aboveb (t t' : table) : bool :=
  forallb (fun e => forallb (fun e' => negb (beqb (ekey e) (ekey e')) || (eseq e' <? eseq e)) t') t.
Fixpoint ordb (ll : levels) : bool :=
  match ll with
  | [] => true
  | l :: r => forallb (fun t => forallb (fun l' => forallb (aboveb t) l') r) l && ordb r
  end.
Definition validb (ll : levels) : bool :=
  Nat.leb 2 (length ll) &&
  forallb (fun l => forallb (fun t => nonemptyb t && sortedb t) l) ll &&
  forallb (fun l => sortedb (concat l)) (tl ll) &&
  sepb (hd [] ll) && ordb ll.

(* ---------- the machine ---------- *)

Inductive ract :=
| RPut (k v : bytes) (rot : bool) | RDel (k : bytes) (rot : bool)
| RGet1 (k : bytes) | RGet2 | RScan1 (p : bytes) | RScan2
| RF1 | RF2
| RC1 (ocs : option changeset)   (* Compact returned this change set / nil *)
| RC1F                            (* Compact failed with a storage read error *)
| RC2
| RF2o (outs : list table). (* the locked swap of the flush task with the level-0 tables it actually wrote *)

Definition rinit (nlevels : nat) : db := mkDb [[]] 0 0 (repeat [] nlevels) 0 0 FIdle 0 CIdle 0 RNone.

Definition rwrite (st : db) (k v : bytes) (del rot : bool) : db :=
  let s := seqn st + 1 in
  let mts' := removelast (mts st) ++ [mt_put (mkE k s del v) (active st)] in
  if rot
  then mkDb (mts' ++ [[]]) 0 0 (lv st) s (S (fpend st)) (ft st) (cpend st) (ct st) (mcl st) (rd st)
  else mkDb mts' 0 0 (lv st) s (fpend st) (ft st) (cpend st) (ct st) (mcl st) (rd st).

(* the reader layout: level list with the memtables as newest level-0 components *)
Definition rlayout (st : db) : levels := (hd [] (lv st) ++ mts st) :: tl (lv st).

Definition set_ct (st : db) (n : nat) (c : ctask) : db :=
  mkDb (mts st) (msize st) (walb st) (lv st) (seqn st) (fpend st) (ft st) n c (mcl st) (rd st).

(* a flush may write the sealed memtables it consumed in any legal form - one table each (db.go today), one merged table, ... :
   non-empty key-sorted tables made only of entries of the consumed memtables, whose newest-per-key merge equals that of
   the consumed memtables, and which fit chronologically between the level-0 tables and the memtables that stay *)
Definition entry_in (e : entry) (ts : list table) : bool := existsb (fun t => existsb (entry_eqb e) t) ts.
Definition flush_okb (st : db) (snap outs : list table) : bool :=
  forallb (fun t => nonemptyb t && sortedb t) outs &&
  table_eqb (merge_all outs) (merge_all snap) &&
  forallb (fun t => forallb (fun e => entry_in e snap) t) outs &&
  sepb (hd [] (lv st) ++ outs ++ skipn (length snap) (mts st)).

Definition dummy_cfg : dbcfg := mkDbCfg 0 0 0 (mkCfg 1 0 0 1).

(* [chk] = demand that change sets are legal *)
Definition rstep (chk : bool) (st : db) (a : ract) : option (db * obs) :=
  match a with
  | RPut k v rot => match rd st with RNone => Some (rwrite st k v false rot, ORot rot) | _ => None end
  | RDel k rot => match rd st with RNone => Some (rwrite st k [] true rot, ORot rot) | _ => None end
  | RGet1 k => step dummy_cfg st (AGet1 k)
  | RGet2 => step dummy_cfg st AGet2
  | RScan1 p => step dummy_cfg st (AScan1 p)
  | RScan2 => step dummy_cfg st AScan2
  | RF1 => step dummy_cfg st AF1
  | RF2 => step dummy_cfg st AF2
  | RC2 => step dummy_cfg st AC2
  | RC1 ocs =>
      let go n :=
        match ocs with
        | None => Some (set_ct st n CIdle, OComp false)
        | Some cs =>
            if negb chk || (good_csb (rlayout st) cs && forallb (fun t => negb (in_rem cs t)) (mts st))
            then Some (set_ct st n (CSwap cs), OComp true) else None
        end in
      match ct st, cpend st with
      | CIdle, S n => go n
      | CIter, n => go n
      | _, _ => None
      end
  | RF2o outs =>
      match ft st with
      | FSwap snap =>
          if negb chk || flush_okb st snap outs
          then Some (mkDb (skipn (length snap) (mts st)) (msize st) (walb st) (add_l0 outs (lv st)) (seqn st) (fpend st) FIdle
                          (S (cpend st)) (ct st) (mcl st) (rd st), ONone)
          else None
      | _ => None
      end
  | RC1F =>
      match ct st, cpend st with
      | CIdle, S n => Some (set_ct st n CIdle, OComp false)
      | CIter, n => Some (set_ct st n CIdle, OComp false)
      | _, _ => None
      end
  end.

Fixpoint rrun (st : db) (acts : list ract) : option (db * list obs) :=
  match acts with
  | [] => Some (st, [])
  | a :: r =>
      match rstep true st a with
      | None => None
      | Some (st', o) => match rrun st' r with None => None | Some (st'', os) => Some (st'', o :: os) end
      end
  end.

Definition rspec_step (m : list (bytes * bytes)) (a : ract) : list (bytes * bytes) :=
  match a with
  | RPut k v _ => sm_put k v m
  | RDel k _ => sm_del k m
  | _ => m
  end.
