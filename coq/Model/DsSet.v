(* util/ds/set.go: insertion-ordered set (map m + slice l) and util/ds/sorted_map.go (map + key slice sorted on demand).
   Elements / keys are byte strings (Go string: == is byte equality, < is bytes.Compare). Go maps are modelled as
   association lists (only membership / lookup is ever observed). *)
From RV Require Import Base.Bytes.
Open Scope N_scope.

Definition mem (v : bytes) (l : list bytes) : bool := existsb (beqb v) l.

Record set := { sm : list bytes; sl : list bytes }.

Definition set_empty : set := {| sm := []; sl := [] |}.
Definition set_has (v : bytes) (s : set) : bool := mem v (sm s).
Definition set_add1 (s : set) (v : bytes) : set :=
  if set_has v s then s else {| sm := v :: sm s; sl := sl s ++ [v] |}.
Definition set_add (vs : list bytes) (s : set) : set := fold_left set_add1 vs s.
Definition set_without (vs : list bytes) (s : set) : set :=
  {| sm := filter (fun e => negb (mem e vs)) (sm s); sl := filter (fun e => negb (mem e vs)) (sl s) |}.
Definition set_size (s : set) : nat := length (sl s).
Definition set_slice (s : set) : list bytes := sl s.
Definition set_diff (s s2 : set) : set :=
  fold_left (fun d e => if set_has e s2 then d else set_add1 d e) (sl s) set_empty.

(* ---- specification vocabulary: the reference is a duplicate-free list in first-insertion order ---- *)
Definition ref_add (ref : list bytes) (vs : list bytes) : list bytes :=
  fold_left (fun l v => if mem v l then l else l ++ [v]) vs ref.
Definition ref_without (ref : list bytes) (vs : list bytes) : list bytes := filter (fun e => negb (mem e vs)) ref.
