(* Model of one DKV database object at entry level (C08): memtables, level set as a flat list of tables, WAL writer
   (segments with latestSeqNum, Cut, Rotate with carry-over, Truncate, Save content), checkpoint capture, restore
   (seqNum := LatestSeqNum, reader skip count After - first + 1, ownership filter, replay with fresh sequence numbers).
   Transcribed from dkv/db.go, dkv/wal/writer.go, dkv/wal/reader.go, dkv/recovery/checkpoint_list.go, dkv/sst/level_list.go,
   dkv/sst/table_writer.go (endSeqNum = maximum, after repair D6), dkv/memtable (size rule).
   Abstractions: a level set is a flat list of tables (which table a read consults first is C07/C18's subject: the content of a
   database is the newest entry per key over all components); integer widths unbounded (sequence numbers, sizes). *)
From Coq Require Import List NArith Bool.
Import ListNotations.
From RV Require Import Base.Bytes.
Open Scope N_scope.

Record entry := mkE { e_key : bytes; e_seq : N; e_del : bool; e_val : bytes }.

Definition fname := (N * N * N)%type.   (* directory, kind (0 sst | 1 wal | 2 checkpoints), number *)
Definition fname_eqb (a b : fname) : bool :=
  let '(d1, k1, n1) := a in let '(d2, k2, n2) := b in (d1 =? d2) && (k1 =? k2) && (n1 =? n2).
Definition mem_name (x : fname) (l : list fname) : bool := existsb (fname_eqb x) l.

(* ---------- memtable: key-sorted association list, one entry per key (ziptree Put replaces) ---------- *)
Fixpoint mt_put (m : list entry) (e : entry) : list entry :=
  match m with
  | [] => [e]
  | x :: m' => match bcmp (e_key e) (e_key x) with
               | Lt => e :: m
               | Eq => e :: m'
               | Gt => x :: mt_put m' e
               end
  end.
Fixpoint mt_find (m : list entry) (k : bytes) : option entry :=
  match m with
  | [] => None
  | x :: m' => if beqb k (e_key x) then Some x else mt_find m' k
  end.

(* size rule of memtable.Put/Delete: 17 + |key| + |value| per entry, a replaced entry is subtracted; full when size > target *)
Definition flush_size (e : entry) : N := 17 + N.of_nat (length (e_key e)) + N.of_nat (length (e_val e)).
Definition mt_size (m : list entry) : N := fold_right (fun e a => flush_size e + a) 0 m.
(* bytes one operation appends to the WAL buffer: u64 seq, var bytes key, tombstone, [var bytes value] *)
Definition wal_size (e : entry) : N :=
  8 + 4 + N.of_nat (length (e_key e)) + 1 + (if e_del e then 0 else 4 + N.of_nat (length (e_val e))).

(* ---------- newest entry per key over a list of entries; earlier positions win ties ---------- *)
Fixpoint newest (es : list entry) (k : bytes) : option entry :=
  match es with
  | [] => None
  | x :: es' =>
      if beqb k (e_key x) then
        match newest es' k with
        | Some y => if e_seq x <? e_seq y then Some y else Some x
        | None => Some x
        end
      else newest es' k
  end.
Definition value_of (o : option entry) : option bytes :=
  match o with Some e => if e_del e then None else Some (e_val e) | None => None end.

(* ---------- WAL writer ---------- *)
Record wseg := mkSeg { sg_es : list entry; sg_latest : N }.
Record walw := mkWal { w_id : N; w_sealed : list wseg; w_active : list entry; w_latest : N }.
Definition wal_new (id : N) : walw := mkWal id [] [] 0.
Definition wal_put (w : walw) (e : entry) : walw := mkWal (w_id w) (w_sealed w) (w_active w ++ [e]) (e_seq e).
Definition wal_active_bytes (w : walw) : N := fold_right (fun e a => wal_size e + a) 0 (w_active w).
Definition wal_cut (w : walw) : walw := mkWal (w_id w) (w_sealed w ++ [mkSeg (w_active w) (w_latest w)]) [] (w_latest w).
(* Rotate: the next writer carries every sealed segment (with its latestSeqNum, repair D7) plus the active buffer as a segment *)
Definition wal_rotate (w : walw) : walw :=
  mkWal (w_id w + 1) (w_sealed w ++ [mkSeg (w_active w) (w_latest w)]) [] (w_latest w).
(* Truncate: drop the leading segments whose latestSeqNum <= s; nothing greater found = drop all *)
Fixpoint drop_covered (segs : list wseg) (s : N) : list wseg :=
  match segs with
  | [] => []
  | g :: segs' => if s <? sg_latest g then segs else drop_covered segs' s
  end.
Definition wal_truncate (w : walw) (s : N) : walw := mkWal (w_id w) (drop_covered (w_sealed w) s) (w_active w) (w_latest w).
Definition wal_content (w : walw) : list entry := flat_map sg_es (w_sealed w) ++ w_active w.

(* ---------- tables ---------- *)
Record table := mkT { t_name : fname; t_es : list entry; t_end : N }.
Definition max_seq (es : list entry) : N := fold_right (fun e a => N.max (e_seq e) a) 0 es.
Definition tables_entries (ts : list table) : list entry := flat_map t_es ts.
Definition tables_latest (ts : list table) : N := fold_right (fun t a => N.max (t_end t) a) 0 ts.

Inductive own := OwnAll | OwnRange (lo hi : N).
Definition key_group (k : bytes) : N := match k with a :: b :: _ => a * 256 + b | _ => 0 end.
Definition owns (o : own) (k : bytes) : bool :=
  match o with OwnAll => true | OwnRange lo hi => (lo <=? key_group k) && (key_group k <? hi) end.

(* ---------- the database core ---------- *)
Record dbc := mkDb {
  d_seq : N;                       (* DB.seqNum *)
  d_active : list entry;           (* active memtable *)
  d_sealed : list (list entry);    (* sealed memtables, oldest first *)
  d_tables : list table;           (* current level set *)
  d_latest : N;                    (* LevelList.LatestSeqNum of the current level set *)
  d_wal : walw;
  d_mem : N;                       (* MemTableSize *)
  d_walmax : N                     (* MaxWALSize *)
}.

Definition db_new (mem walmax : N) : dbc := mkDb 0 [] [] [] 0 (wal_new 0) mem walmax.

Definition db_entries (d : dbc) : list entry :=
  d_active d ++ flat_map (fun m => m) (rev (d_sealed d)) ++ tables_entries (d_tables d).
Definition db_get (d : dbc) (k : bytes) : option bytes := value_of (newest (db_entries d) k).

(* rotateMemtable: seal the active memtable, cut the WAL *)
Definition db_rotate (d : dbc) : dbc :=
  mkDb (d_seq d) [] (d_sealed d ++ [d_active d]) (d_tables d) (d_latest d) (wal_cut (d_wal d)) (d_mem d) (d_walmax d).

(* Put / Delete: next sequence number into WAL and memtable; rotate when the WAL buffer or the memtable is full.
   Returns the new state and whether it rotated. *)
Definition db_write (d : dbc) (k : bytes) (del : bool) (v : bytes) : dbc * bool :=
  let e := mkE k (d_seq d + 1) del (if del then [] else v) in
  let w := wal_put (d_wal d) e in
  let m := mt_put (d_active d) e in
  let d1 := mkDb (d_seq d + 1) m (d_sealed d) (d_tables d) (d_latest d) w (d_mem d) (d_walmax d) in
  let wal_full := d_walmax d <=? wal_active_bytes w in
  let mt_full := d_mem d <? mt_size m in
  if wal_full || mt_full then (db_rotate d1, true) else (d1, false).

(* The same write with the rotation decision as DATA: [rot] says whether the implementation rotated after this write (observed by the
   harness). When a memtable or a WAL buffer counts as full is a policy (sizes, what is carried over a checkpoint) that the property
   does not talk about: the world model replays the observed decisions, and the theorems hold for every choice of [rot]. *)
Definition db_put (d : dbc) (k : bytes) (del : bool) (v : bytes) : dbc :=
  let e := mkE k (d_seq d + 1) del (if del then [] else v) in
  mkDb (d_seq d + 1) (mt_put (d_active d) e) (d_sealed d) (d_tables d) (d_latest d) (wal_put (d_wal d) e) (d_mem d) (d_walmax d).
Definition db_write_at (d : dbc) (k : bytes) (del : bool) (v : bytes) (rot : bool) : dbc :=
  if rot then db_rotate (db_put d k del v) else db_put d k del v.

(* flush task: F1 snapshots the sealed list and writes one table per memtable (numbers next, next+1, ...);
   F2 swaps: tables appended, the snapshotted memtables dequeued, LatestSeqNum raised, WAL truncated *)
Fixpoint mk_tables (dir next : N) (ms : list (list entry)) : list table :=
  match ms with
  | [] => []
  | m :: ms' => mkT (dir, 0, next) m (max_seq m) :: mk_tables dir (next + 1) ms'
  end.
Definition db_flush_swap (d : dbc) (nsnap : nat) (ts : list table) : dbc :=
  let tabs := d_tables d ++ ts in
  let latest := N.max (d_latest d) (tables_latest ts) in
  mkDb (d_seq d) (d_active d) (skipn nsnap (d_sealed d)) tabs latest (wal_truncate (d_wal d) latest) (d_mem d) (d_walmax d).

(* compaction apply: tables named in [removed] leave the level set, [added] join; LatestSeqNum only grows *)
Definition db_compact_apply (d : dbc) (removed : list fname) (added : list table) : dbc :=
  let kept := filter (fun t => negb (mem_name (t_name t) removed)) (d_tables d) in
  mkDb (d_seq d) (d_active d) (d_sealed d) (kept ++ added) (N.max (d_latest d) (tables_latest added)) (d_wal d) (d_mem d) (d_walmax d).

(* Checkpoint, locked part: rotate the WAL, capture the level set; the previous writer is what Save will write *)
Record capture := mkCap { cp_tables : list table; cp_walid : N; cp_wal : list entry; cp_after : N; cp_lastseq : N }.
Definition db_checkpoint (d : dbc) : dbc * capture :=
  (mkDb (d_seq d) (d_active d) (d_sealed d) (d_tables d) (d_latest d) (wal_rotate (d_wal d)) (d_mem d) (d_walmax d),
   mkCap (d_tables d) (w_id (d_wal d)) (wal_content (d_wal d)) (d_latest d) (d_seq d)).

(* wal.Reader.All: None = panic (start after < first - 1) ; Some (inl _) = error (skip ran into EOF) ; Some (inr es) *)
Inductive replay_res := RPanic | REof | ROk (es : list entry).
Definition wal_read (content : list entry) (after : N) : replay_res :=
  match content with
  | [] => ROk []
  | e0 :: _ =>
      let first := e_seq e0 in
      if after + 1 <? first then RPanic
      else let skip := N.to_nat (after + 1 - first) in
           if (length content <? skip)%nat then REof else ROk (skipn skip content)
  end.

(* wal.Reader.All when ONE storage read of the replay fails with an error that is not end-of-file. The reads of a replay are
   numbered 0,1,2,...: [skip_reads] of them happen before the first returned entry (first sequence number, skipped entries), then
   per entry: sequence number, key (length, bytes), tombstone and - unless deleted - value (length, bytes); the last read is the
   sequence-number read that meets end-of-file. The reader hands EVERY failed read to its caller (DB.Start returns it, Open does
   not return a database); only io.EOF at a sequence-number read ends the log. [REof] stands for "an error was returned". *)
Definition entry_reads (e : entry) : nat := if e_del e then 4%nat else 6%nat.
Fixpoint read_entries (es : list entry) (pos k : nat) : replay_res :=
  match es with
  | [] => if Nat.eqb pos k then REof else ROk []
  | e :: es' => if (Nat.leb pos k && Nat.ltb k (pos + entry_reads e))%bool then REof
                else match read_entries es' (pos + entry_reads e) k with ROk l => ROk (e :: l) | r => r end
  end.
Definition wal_read_fault (content : list entry) (after : N) (skip_reads k : nat) : replay_res :=
  match wal_read content after with
  | ROk es => if Nat.ltb k skip_reads then REof else read_entries es skip_reads k
  | r => r
  end.

(* DB.Start on a loaded checkpoint: level set of the document, seqNum := its LatestSeqNum, new WAL id, replay of owned entries *)
Definition db_replay (o : own) (d : dbc) (es : list entry) : dbc * nat :=
  fold_left (fun (acc : dbc * nat) e =>
               if owns o (e_key e) then
                 let '(d', r) := db_write (fst acc) (e_key e) (e_del e) (e_val e) in (d', if r then S (snd acc) else snd acc)
               else acc) es (d, 0%nat).
Definition db_restore (mem walmax : N) (o : own) (ts : list table) (walid : N) (replay : list entry) : dbc * nat :=
  let latest := tables_latest ts in
  db_replay o (mkDb latest [] [] ts latest (wal_new (walid + 1)) mem walmax) replay.

(* ---------- sorted scan of the content (observable ScanPrefix(nil)) ---------- *)
Fixpoint ins_key (k : bytes) (ks : list bytes) : list bytes :=
  match ks with
  | [] => [k]
  | x :: ks' => match bcmp k x with Lt => k :: ks | Eq => ks | Gt => x :: ins_key k ks' end
  end.
Definition sorted_keys (es : list entry) : list bytes := fold_right (fun e a => ins_key (e_key e) a) [] es.
Definition scan_entries (es : list entry) : list (bytes * bytes) :=
  flat_map (fun k => match value_of (newest es k) with Some v => [(k, v)] | None => [] end) (sorted_keys es).
Definition db_scan (d : dbc) : list (bytes * bytes) := scan_entries (db_entries d).
