(* dkv/sst/table_writer.go (writeEntry, Write), footer.go, search_index.go, table.go (Get, ScanPrefix, Document),
   dkv/storage/cursor.go (bounded cursor) at byte level.  A file is a byte list; the bounded cursor of Get/ScanPrefix
   is the prefix of the file of length entriesSize. *)
From RV Require Export Model.Bloom.
Open Scope N_scope.

Record entry := mkE { e_key : bytes; e_val : bytes; e_seq : N; e_del : bool }.

(* what a table can give back for an entry: a tombstone carries no value *)
Definition norm (e : entry) : entry :=
  if e_del e then mkE (e_key e) [] (e_seq e) true else e.

(* ---------- writeEntry ---------- *)
Definition ser_entry (e : entry) : bytes :=
  w_var (e_key e) ++ w_u64 (e_seq e) ++ w_tomb (e_del e) ++ (if e_del e then [] else w_var (e_val e)).
Definition ser_entries (es : list entry) : bytes := flat_map ser_entry es.

(* offsets at which the entries start, given the offset of the first *)
Fixpoint entry_offsets (off : N) (es : list entry) : list N :=
  match es with
  | [] => []
  | e :: r => off :: entry_offsets (off + blen (ser_entry e)) r
  end.

(* Writer-side constants of the format: the index spacing (search_index.go searchIndexSpacing) and the bloom filter
   NewTable creates (bloom.NewFilter(bits, hashes)). Readers never refer to them: the index block stores its own
   offset count and the bloom block its size and hash count. Everything below is parametric in them; the theorems
   hold for every spacing > 0 and every filter size. *)
Record tparams := mkTP { tp_spacing : nat; tp_bits : N; tp_hashes : N }.
Definition default_params : tparams := mkTP 16 32768 5.        (* the constants of the code as of 160f5f0 *)
Definition params_ok (tp : tparams) : Prop :=
  (0 < tp_spacing tp)%nat /\ 0 < tp_bits tp /\ tp_bits tp + 63 < 4294967296 /\ tp_hashes tp < 4294967296.

(* SearchIndex.IndexOffset: every sp-th entry (itemsWritten % sp == 0), starting with the first; uint32(offset) *)
Fixpoint sample (sp : nat) (c : nat) (l : list N) : list N :=
  match l with
  | [] => []
  | x :: r => match c with O => u32 x :: sample sp (sp - 1) r | S c' => sample sp c' r end
  end.
Definition index_of (tp : tparams) (es : list entry) : list N := sample (tp_spacing tp) 0 (entry_offsets 0 es).

Definition idx_encode (offs : list N) : bytes := w_u32 (blen offs) ++ flat_map w_u32 offs.
Fixpoint rd_offsets (n : nat) (d : bytes) : option (list N * bytes) :=
  match n with
  | O => Some ([], d)
  | S n' => match rd_u32 d with
            | Some (w, r) => match rd_offsets n' r with Some (ws, r') => Some (w :: ws, r') | None => None end
            | None => None
            end
  end.
Definition idx_decode (d : bytes) : option (list N * bytes) :=
  match rd_u32 d with
  | Some (n, r) => if n * 4 <=? blen r then rd_offsets (N.to_nat n) r else None
  | None => None
  end.

(* NewTable: bloom.NewFilter(bits, hashes), every key added *)
Definition bloom_of (tp : tparams) (es : list entry) : bloom :=
  bf_add_all (bf_new (tp_bits tp) (tp_hashes tp)) (map e_key es).

(* TableWriter.Write: entries, bloom block, index block, 12-byte footer *)
Definition ser_table (tp : tparams) (es : list entry) : bytes :=
  let body := ser_entries es in
  body ++ bf_encode (bloom_of tp es) ++ idx_encode (index_of tp es) ++ w_u64 (blen body) ++ w_u32 1.

(* the in-memory table: file + the fields of TableDocument; metadata either in memory (fresh from the writer)
   or loaded from the footer on first use (re-opened from a document) *)
Record table := mkT {
  t_file : bytes; t_size : N; t_esize : N;
  t_start : bytes; t_end : bytes; t_sseq : N; t_eseq : N;
  t_meta : option (bloom * list N)          (* Some = metadataLoaded *)
}.

Definition first_key (es : list entry) : bytes := match es with [] => [] | e :: _ => e_key e end.
Definition last_key (es : list entry) : bytes := match rev es with [] => [] | e :: _ => e_key e end.
Definition first_seq (es : list entry) : N := match es with [] => 0 | e :: _ => e_seq e end.
(* endSeqNum: maximum over the entries (3d67666; before it: the sequence number of the last key) *)
Definition max_seq (es : list entry) : N := fold_left (fun a e => N.max a (e_seq e)) es 0.

Definition write_table (tp : tparams) (es : list entry) : table :=
  let f := ser_table tp es in
  mkT f (blen f) (blen (ser_entries es)) (first_key es) (last_key es) (first_seq es) (max_seq es)
      (Some (bloom_of tp es, index_of tp es)).

(* Table.Document(): the descriptor stored in a checkpoint. The file is identified by its URI; here by its bytes. *)
Record tdoc := mkDoc { doc_start : bytes; doc_end : bytes; doc_size : N; doc_esize : N; doc_sseq : N; doc_eseq : N }.
Definition document (t : table) : tdoc :=
  mkDoc (t_start t) (t_end t) (t_size t) (t_esize t) (t_sseq t) (t_eseq t).

(* The checkpoint file stores descriptors with encoding/json. StartKey/EndKey are []byte (9c547e8, D30), which
   encoding/json writes as base64 and reads back byte for byte; the integers are decimal. The encoding is therefore
   modelled as the identity on descriptors (TRUSTED: not verified here; the correspondence check passes every
   descriptor through json.Marshal/json.Unmarshal and compares the re-opened ranges).  Before 9c547e8 the keys were
   Go strings and every byte sequence that is not valid UTF-8 came back as U+FFFD. *)
Definition json_doc (d : tdoc) : tdoc := d.

(* NewTableFromDocument: same file and numbers, metadata not loaded *)
Definition open_document (file : bytes) (d : tdoc) : table :=
  mkT file (doc_size d) (doc_esize d) (doc_start d) (doc_end d) (doc_sseq d) (doc_eseq d) None.

(* re-opening = Document(), JSON round trip, NewTableFromDocument *)
Definition reopen (t : table) : table := open_document (t_file t) (json_doc (document t)).

(* loadFooter: last 12 bytes hold the meta offset; bloom then index are decoded from there. None = panic *)
Definition load_footer (t : table) : option (bloom * list N) :=
  if 12 <=? t_size t then
    match rd_u64 (skipn (N.to_nat (t_size t - 12)) (t_file t)) with
    | Some (moff, _) =>
        if moff <=? blen (t_file t) then
          match bf_decode (skipn (N.to_nat moff) (t_file t)) with
          | Some (bf, r) => match idx_decode r with Some (offs, _) => Some (bf, offs) | None => None end
          | None => None
          end
        else None
    | None => None
    end
  else None.

Definition table_meta (t : table) : option (bloom * list N) :=
  match t_meta t with Some m => Some m | None => load_footer t end.

(* the region the bounded cursor can see *)
Definition body_of (t : table) : bytes := firstn (N.to_nat (t_esize t)) (t_file t).

Inductive get_res := GFound (e : entry) | GNotFound | GErr | GPanic.

(* readKey of Table.Get: Move(offset) (panics beyond the end bound) then ReadVarBytes *)
Definition read_key_at (body : bytes) (off : N) : option (option bytes) :=   (* None = panic; Some None = error *)
  if off <=? blen body then
    Some (match rd_var (skipn (N.to_nat off) body) with Some (k, _) => Some k | None => None end)
  else None.

(* slices.BinarySearchFunc: smallest i with not (cmp x[i] < 0); the loop runs at most length+1 times *)
Inductive bs_res := BsIdx (i : nat) | BsErr | BsPanic.
Fixpoint bsearch (fuel : nat) (cmpf : N -> option (option comparison)) (offs : list N) (i j : nat) : bs_res :=
  match fuel with
  | O => BsIdx i
  | S f =>
      if Nat.ltb i j then
        let h := Nat.div2 (i + j) in
        match cmpf (nth h offs 0) with
        | None => BsPanic
        | Some None => BsErr
        | Some (Some Lt) => bsearch f cmpf offs (S h) j
        | Some (Some _) => bsearch f cmpf offs i h
        end
      else BsIdx i
  end.

Definition max_int64 : N := 9223372036854775807.

(* SearchIndex.Search (with the clamp of the repaired code; [clamp = false] is the code before the fix) *)
Inductive search_res := SRange (start end_ : N) | SErr | SPanic.
(* [rk] = the readKey callback: None = panic, Some None = read error, Some (Some k) = the key at that offset *)
Definition search_index_with (rk : N -> option (option bytes)) (clamp : bool) (offs : list N) (key : bytes) : search_res :=
  match offs with
  | [] => SRange 0 max_int64
  | _ =>
      let cmpf := fun off => match rk off with
                             | None => None
                             | Some None => Some None
                             | Some (Some k) => Some (Some (bcmp k key))
                             end in
      let n := length offs in
      match bsearch (S n) cmpf offs 0 n with
      | BsPanic => SPanic
      | BsErr => SErr
      | BsIdx i =>
          let exact := if Nat.ltb i n then
                         match cmpf (nth i offs 0) with
                         | None => None | Some None => Some None
                         | Some (Some Eq) => Some (Some true) | Some (Some _) => Some (Some false)
                         end
                       else Some (Some false) in
          match exact with
          | None => SPanic
          | Some None => SErr
          | Some (Some ex) =>
              if negb ex && Nat.eqb i 0 && negb clamp then SPanic   (* offsets[-1] *)
              else
                let fi := if ex then i else Nat.pred i in
                SRange (nth fi offs 0) (if Nat.eqb fi (n - 1) then max_int64 else nth (S fi) offs 0)
          end
      end
  end.

Definition search_index (clamp : bool) (offs : list N) (body key : bytes) : search_res :=
  search_index_with (read_key_at body) clamp offs key.

(* a storage read that fails while the key at offset [bad] is read (one transient ReadAt failure) *)
Definition faulty (rk : N -> option (option bytes)) (bad : N) : N -> option (option bytes) :=
  fun off => if off =? bad then Some None else rk off.

(* the scan loop of Table.Get over the bytes from the current offset to the end bound *)
Fixpoint scan_get (fuel : nat) (d : bytes) (off end_ : N) (key : bytes) : get_res :=
  match fuel with
  | O => GErr
  | S f =>
      if off <? end_ then
        match d with
        | [] => GNotFound                                   (* io.EOF on the key length *)
        | _ =>
            match rd_var d with
            | None => GErr
            | Some (k, r1) =>
                match rd_u64 r1 with
                | None => GErr
                | Some (s, r2) =>
                    match rd_tomb r2 with
                    | None => GErr
                    | Some (true, r3) =>
                        if beqb k key then GFound (mkE k [] s true)
                        else scan_get f r3 (off + (blen d - blen r3)) end_ key
                    | Some (false, r3) =>
                        match rd_var r3 with
                        | None => GErr
                        | Some (v, r4) =>
                            if beqb k key then GFound (mkE k v s false)
                            else scan_get f r4 (off + (blen d - blen r4)) end_ key
                        end
                    end
                end
            end
        end
      else GNotFound
  end.

Definition table_get_gen (clamp : bool) (t : table) (key : bytes) : get_res :=
  match table_meta t with
  | None => GPanic
  | Some (bf, offs) =>
      if bf_might_have bf key then
        let body := body_of t in
        match search_index clamp offs body key with
        | SPanic => GPanic
        | SErr => GErr
        | SRange st en =>
            if st <=? blen body then scan_get (S (length body)) (skipn (N.to_nat st) body) st en key
            else GPanic
        end
      else GNotFound
  end.
Definition table_get := table_get_gen true.
Definition table_get_old := table_get_gen false.     (* before fix 4aa2ab7 (D26) *)

(* ScanPrefix: sequential read of the bounded region; None = error *)
Definition rd_entry (d : bytes) : option (entry * bytes) :=
  match rd_var d with
  | None => None
  | Some (k, r1) =>
      match rd_u64 r1 with
      | None => None
      | Some (s, r2) =>
          match rd_tomb r2 with
          | None => None
          | Some (true, r3) => Some (mkE k [] s true, r3)
          | Some (false, r3) =>
              match rd_var r3 with
              | None => None
              | Some (v, r4) => Some (mkE k v s false, r4)
              end
          end
      end
  end.

Fixpoint parse_entries (fuel : nat) (d : bytes) : option (list entry) :=
  match d with
  | [] => Some []
  | _ => match fuel with
         | O => None
         | S f => match rd_entry d with
                  | Some (e, r) => match parse_entries f r with Some es => Some (e :: es) | None => None end
                  | None => None
                  end
         end
  end.
Definition parse_body (d : bytes) : option (list entry) := parse_entries (length d) d.

Definition table_scan_prefix (t : table) (prefix : bytes) : option (list entry) :=
  match table_meta t with
  | None => None            (* panic in loadFooter *)
  | Some _ =>
      match parse_body (body_of t) with
      | Some es => Some (filter (fun e => is_prefix prefix (e_key e)) es)
      | None => None
      end
  end.

(* ---------- specification-level functions ---------- *)
Fixpoint find_key (key : bytes) (es : list entry) : option entry :=
  match es with
  | [] => None
  | e :: r => if beqb (e_key e) key then Some e else find_key key r
  end.
Definition get_spec (es : list entry) (key : bytes) : get_res :=
  match find_key key es with Some e => GFound (norm e) | None => GNotFound end.
Definition scan_spec (es : list entry) (prefix : bytes) : list entry :=
  map norm (filter (fun e => is_prefix prefix (e_key e)) es).

Fixpoint keys_sorted (es : list entry) : bool :=
  match es with
  | [] => true
  | e :: r => match r with [] => true | e' :: _ => bltb (e_key e) (e_key e') && keys_sorted r end
  end.
