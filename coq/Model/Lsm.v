(* dkv/db.go as a state machine over the entry-level structures of LsmBase / LsmCompaction.
   Foreground: Put, Delete, Get, ScanPrefix (a read is two actions: the memtable snapshot, then the level-list
   snapshot - the order after repair D5 - with background actions possibly in between).
   Background: the flush task (F1: snapshot the sealed memtables and write their tables; F2: the locked swap
   that adds the tables to level 0 and dequeues the memtables) and the compaction task (C1: Compact on the
   current level list; C2: the locked swap applying the change set), with the serial-queue discipline of bg.TaskQueue.
   Definitions only. *)
From Coq Require Import List NArith Bool.
From RV Require Import Base.Bytes Model.LsmBase Model.LsmCompaction.
Import ListNotations.
Open Scope N_scope.

Record dbcfg := mkDbCfg {
  d_mem : N;      (* MemTableSize *)
  d_wal : N;      (* MaxWALSize *)
  d_levels : nat; (* number of levels (the code hard-wires 6) *)
  d_comp : ccfg
}.

Inductive ftask := FIdle | FSwap (snap : list table).
Inductive ctask := CIdle | CIter | CSwap (cs : changeset).
Inductive rtask := RNone | RGet (k : bytes) (m : option entry) | RScan (p : bytes) (m : table).

Record db := mkDb {
  mts : list table;   (* memtables, oldest first, the last is the active one *)
  msize : N;          (* MemTable.size of the active table *)
  walb : N;           (* bytes in the active WAL buffer *)
  lv : levels;
  seqn : N;
  fpend : nat;        (* flush tasks enqueued, not started *)
  ft : ftask;
  cpend : nat;        (* compaction tasks enqueued, not started *)
  ct : ctask;
  mcl : nat;          (* Compactor.minorCompactionLevel *)
  rd : rtask
}.

Definition init (cfg : dbcfg) : db :=
  mkDb [[]] 0 0 (repeat [] (d_levels cfg)) 0 0 FIdle 0 CIdle 0 RNone.

Inductive getres := GFound (v : bytes) | GDeleted | GAbsent.
Definition to_getres (o : option entry) : getres :=
  match o with None => GAbsent | Some e => if edel e then GDeleted else GFound (eval e) end.

Inductive act :=
| APut (k v : bytes) | ADel (k : bytes)
| AGet1 (k : bytes) | AGet2
| AScan1 (p : bytes) | AScan2
| AF1 | AF2 | AC1 | AC2
| AC1F. (* Compact fails with a storage read error: no change set, the compaction task ends with the error *)

Inductive obs :=
| ONone
| ORot (rotated : bool)
| OGet (r : getres)
| OScan (r : list (bytes * bytes))
| OComp (some : bool).

Definition active (st : db) : table := last (mts st) [].

(* DB.Put / DB.Delete: WAL append, memtable insert, rotateMemtable when either is full *)
Definition write (cfg : dbcfg) (st : db) (k v : bytes) (del : bool) : db * bool :=
  let s := seqn st + 1 in
  let e := mkE k s del v in
  let old := tbl_get k (active st) in
  let msz := msize st + flush_size e - match old with Some o => flush_size o | None => 0 end in
  let wb := walb st + 13 + blen k + (if del then 0 else 4 + blen v) in
  let mts' := removelast (mts st) ++ [mt_put e (active st)] in
  let full := (d_wal cfg <=? wb) || (d_mem cfg <? msz) in
  if full
  then (mkDb (mts' ++ [[]]) 0 0 (lv st) s (S (fpend st)) (ft st) (cpend st) (ct st) (mcl st) (rd st), true)
  else (mkDb mts' msz wb (lv st) s (fpend st) (ft st) (cpend st) (ct st) (mcl st) (rd st), false).

Definition kvs (t : table) : list (bytes * bytes) := map (fun e => (ekey e, eval e)) t.

Definition set_rd (st : db) (r : rtask) : db :=
  mkDb (mts st) (msize st) (walb st) (lv st) (seqn st) (fpend st) (ft st) (cpend st) (ct st) (mcl st) r.

(* None = the action is not enabled in this state *)
Definition step (cfg : dbcfg) (st : db) (a : act) : option (db * obs) :=
  match a with
  | APut k v => match rd st with RNone => let '(st', r) := write cfg st k v false in Some (st', ORot r) | _ => None end
  | ADel k => match rd st with RNone => let '(st', r) := write cfg st k [] true in Some (st', ORot r) | _ => None end
  | AGet1 k => match rd st with RNone => Some (set_rd st (RGet k (ml_get k (mts st))), ONone) | _ => None end
  | AGet2 =>
      match rd st with
      | RGet k m =>
          let r := match m with Some e => Some e | None => ll_get k (lv st) end in
          Some (set_rd st RNone, OGet (to_getres r))
      | _ => None
      end
  | AScan1 p => match rd st with RNone => Some (set_rd st (RScan p (ml_scan_entries p (mts st))), ONone) | _ => None end
  | AScan2 =>
      match rd st with
      | RScan p m =>
          Some (set_rd st RNone, OScan (kvs (without_deletes (merge_all [m; ll_scan_entries p (lv st)]))))
      | _ => None
      end
  | AF1 =>
      match ft st, fpend st with
      | FIdle, S n =>
          Some (mkDb (mts st) (msize st) (walb st) (lv st) (seqn st) n (FSwap (removelast (mts st)))
                     (cpend st) (ct st) (mcl st) (rd st), ONone)
      | _, _ => None
      end
  | AF2 =>
      match ft st with
      | FSwap snap =>
          Some (mkDb (skipn (length snap) (mts st)) (msize st) (walb st) (add_l0 snap (lv st)) (seqn st) (fpend st) FIdle
                     (S (cpend st)) (ct st) (mcl st) (rd st), ONone)
      | _ => None
      end
  | AC1 =>
      let run n :=
        let '(ocs, m) := compact table_size (d_comp cfg) (mcl st) (lv st) in
        Some (mkDb (mts st) (msize st) (walb st) (lv st) (seqn st) (fpend st) (ft st) n
                   (match ocs with Some cs => CSwap cs | None => CIdle end) m (rd st),
              OComp (match ocs with Some _ => true | None => false end)) in
      match ct st, cpend st with
      | CIdle, S n => run n
      | CIter, n => run n
      | _, _ => None
      end
  | AC2 =>
      match ct st with
      | CSwap cs =>
          Some (mkDb (mts st) (msize st) (walb st) (apply_cs cs (lv st)) (seqn st) (fpend st) (ft st) (cpend st) CIter
                     (mcl st) (rd st), ONone)
      | _ => None
      end
  | AC1F =>
      (* only a step that scans tables can fail, i.e. one for which Compact would have produced a change set; the cursor
         minorCompactionLevel is advanced before the merge, the task returns the error and is over *)
      let run n :=
        let '(ocs, m) := compact table_size (d_comp cfg) (mcl st) (lv st) in
        match ocs with
        | Some _ => Some (mkDb (mts st) (msize st) (walb st) (lv st) (seqn st) (fpend st) (ft st) n CIdle m (rd st), OComp false)
        | None => None
        end in
      match ct st, cpend st with
      | CIdle, S n => run n
      | CIter, n => run n
      | _, _ => None
      end
  end.

(* run a history; None = some action was not enabled *)
Fixpoint run (cfg : dbcfg) (st : db) (acts : list act) : option (db * list obs) :=
  match acts with
  | [] => Some (st, [])
  | a :: r =>
      match step cfg st a with
      | None => None
      | Some (st', o) => match run cfg st' r with None => None | Some (st'', os) => Some (st'', o :: os) end
      end
  end.

(* ---------- the specification: a sorted association list ---------- *)

Fixpoint sm_put (k v : bytes) (m : list (bytes * bytes)) : list (bytes * bytes) :=
  match m with
  | [] => [(k, v)]
  | (k', v') :: r => match bcmp k k' with
                     | Lt => (k, v) :: m
                     | Eq => (k, v) :: r
                     | Gt => (k', v') :: sm_put k v r
                     end
  end.
Fixpoint sm_del (k : bytes) (m : list (bytes * bytes)) : list (bytes * bytes) :=
  match m with
  | [] => []
  | (k', v') :: r => if beqb k' k then r else (k', v') :: sm_del k r
  end.
Definition sm_get (k : bytes) (m : list (bytes * bytes)) : option bytes :=
  match find (fun kv => beqb (fst kv) k) m with Some kv => Some (snd kv) | None => None end.
Definition sm_scan (p : bytes) (m : list (bytes * bytes)) : list (bytes * bytes) :=
  filter (fun kv => is_prefix p (fst kv)) m.

Definition spec_step (m : list (bytes * bytes)) (a : act) : list (bytes * bytes) :=
  match a with
  | APut k v => sm_put k v m
  | ADel k => sm_del k m
  | _ => m
  end.

(* ---------- table file names (sst.TableWriter) ----------
   The model identifies a table with its content; change sets remove tables by value, and the proofs DERIVE from layout
   validity that distinct tables of a layout differ as values (C18_Compact.level_unique, C07_Refine.mem_not_rem).  On the
   implementation side a table is a file NNNNNN.sst: TableWriter.Write reserves the number atomically (id.Add(1) - 1)
   before it writes anything, and the flush task and the compaction task share the writer.  [writes_of] = the number of
   tables a background half-step writes, [run_names] = the file numbers handed out along a history with the counter
   threaded through; Props/C07.table_file_names_unique: they are pairwise different for every interleaving.  The
   correspondence check observes the same on the storage.FileSystem the DB is given (code 19). *)
Fixpoint tw_names (ctr : N) (k : nat) : list N :=
  match k with O => [] | S k' => ctr :: tw_names (ctr + 1) k' end.

Definition writes_of (cfg : dbcfg) (st : db) (a : act) : nat :=
  match a with
  | AF1 => match ft st, fpend st with FIdle, S _ => length (removelast (mts st)) | _, _ => O end
  | AC1 | AC1F =>
      match fst (compact table_size (d_comp cfg) (mcl st) (lv st)) with Some cs => length (cs_add cs) | None => O end
  | _ => O
  end.

Fixpoint run_names (cfg : dbcfg) (st : db) (ctr : N) (acts : list act) : list N :=
  match acts with
  | [] => []
  | a :: r =>
      match step cfg st a with
      | None => []
      | Some (st', _) =>
          let k := writes_of cfg st a in
          tw_names ctr k ++ run_names cfg st' (ctr + N.of_nat k) r
      end
  end.
