(* util/ds/sorted_cache.go (repaired Push): byte strings in a sorted set (google/btree, modelled by its specification:
   a strictly sorted list with replace-or-insert) plus the byteSize counter.  uint64 wrap-around of byteSize is not
   modelled (2^64 bytes of cache are unreachable); subtraction never truncates, see cache_size_exact. *)
From RV Require Import Base.Bytes.
Open Scope N_scope.

Definition blen (b : bytes) : N := N.of_nat (length b).

(* btree.ReplaceOrInsert on a strictly sorted list: returns the replaced element *)
Fixpoint roi (v : bytes) (l : list bytes) : list bytes * option bytes :=
  match l with
  | [] => ([v], None)
  | x :: l' =>
      match bcmp v x with
      | Lt => (v :: l, None)
      | Eq => (v :: l', Some x)
      | Gt => let '(r, o) := roi v l' in (x :: r, o)
      end
  end.
Fixpoint sdel (v : bytes) (l : list bytes) : list bytes * option bytes :=
  match l with
  | [] => ([], None)
  | x :: l' =>
      match bcmp v x with
      | Lt => (l, None)
      | Eq => (l', Some x)
      | Gt => let '(r, o) := sdel v l' in (x :: r, o)
      end
  end.

Record cache := { items : list bytes; byte_size : N; max_size : N }.
Definition cache_new (mx : N) : cache := {| items := []; byte_size := 0; max_size := mx |}.

Definition cache_push (v : bytes) (c : cache) : cache :=
  let '(l, o) := roi v (items c) in
  let sz := byte_size c + blen v in
  {| items := l; byte_size := match o with Some old => sz - blen old | None => sz end; max_size := max_size c |}.

(* the code before the repair: the replaced element is not subtracted *)
Definition cache_push_old (v : bytes) (c : cache) : cache :=
  {| items := fst (roi v (items c)); byte_size := byte_size c + blen v; max_size := max_size c |}.

Definition cache_pop (c : cache) : option bytes * cache :=
  match items c with
  | [] => (None, c)
  | x :: l => (Some x, {| items := l; byte_size := byte_size c - blen x; max_size := max_size c |})
  end.
Definition cache_pop_last (c : cache) : option bytes * cache :=
  match rev (items c) with
  | [] => (None, c)
  | x :: l => (Some x, {| items := rev l; byte_size := byte_size c - blen x; max_size := max_size c |})
  end.
Definition cache_peek (c : cache) : option bytes := hd_error (items c).
Definition cache_delete (k : bytes) (c : cache) : cache :=
  match sdel k (items c) with
  | (l, Some d) => {| items := l; byte_size := byte_size c - blen d; max_size := max_size c |}
  | (_, None) => c
  end.
Definition cache_is_empty (c : cache) : bool := match items c with [] => true | _ => false end.
Definition cache_is_full (c : cache) : bool := max_size c <=? byte_size c.

Definition sum_len (l : list bytes) : N := fold_right (fun b acc => blen b + acc) 0 l.
