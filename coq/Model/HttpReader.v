(* Model of connectors/httpapi/source_reader.go (one split, one topic) reading a bounded topic of n records
   from a server that answers GET /topics/t/<cursor> with at most b records (b = 0: all) together with the next
   cursor and the status "eoi" when the response reaches the end (connectors/httpapi/httpapitest). Records are
   identified by their position in the topic. *)
From Coq Require Import List NArith Bool.
Import ListNotations.
Open Scope N_scope.

Record hreader := mkH { h_cursor : N; h_eoi : bool }.

Fixpoint h_range (from : N) (k : nat) : list N :=
  match k with O => [] | S k' => from :: h_range (from + 1) k' end.

(* the server's answer at a cursor: (records, next cursor, eoi) *)
Definition h_serve (n b cursor : N) : list N * N * bool :=
  let last_page := (b =? 0) || (n <=? cursor + b) in
  let stop := if last_page then n else cursor + b in
  (h_range cursor (N.to_nat (stop - cursor)), cursor + N.of_nat (N.to_nat (stop - cursor)), last_page).

(* ReadEvents: emit the records of the response, move the cursor behind them; ErrEndOfInput iff eoi *)
Definition h_read (n b : N) (r : hreader) : hreader * list N * bool :=
  let '(evs, next, eoi) := h_serve n b (h_cursor r) in
  (mkH next (h_eoi r || eoi), evs, h_eoi r || eoi).

(* Checkpoint(): the split state is the cursor *)
Definition h_checkpoint (r : hreader) : N := h_cursor r.

(* AssignSplits with a checkpointed cursor (0 when there is none) *)
Definition h_assign (cursor : N) : hreader := mkH cursor false.

(* k reads in a row *)
Fixpoint h_reads (n b : N) (k : nat) (r : hreader) : hreader * list N :=
  match k with
  | O => (r, [])
  | S k' => let '(r1, evs, _) := h_read n b r in
            let '(r2, evs2) := h_reads n b k' r1 in (r2, evs ++ evs2)
  end.
