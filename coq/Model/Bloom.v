(* dkv/bloom/bloom.go : bit array of uint64 words, hashCount murmur hashes (seed = i) reduced mod size.
   dkv/fields/fields.go : the little-endian fixed-width fields shared by the table and the WAL codecs. *)
From RV Require Export Base.Bytes Model.Murmur.
Open Scope N_scope.

(* ---------- fields.go ---------- *)
Definition blen (b : bytes) : N := N.of_nat (length b).

(* binary.LittleEndian.PutUint32 / PutUint64 of a value already cast to the width *)
Definition w_u32 (x : N) : bytes := le32 (u32 x).
Definition w_u64 (x : N) : bytes := le64 (u64 x).

(* io.ReadFull of 4 / 8 bytes + LittleEndian.UintNN; None = (unexpected) EOF *)
Definition rd_u32 (d : bytes) : option (N * bytes) :=
  match d with
  | b0 :: b1 :: b2 :: b3 :: r => Some (b0 + 256 * (b1 + 256 * (b2 + 256 * b3)), r)
  | _ => None
  end.
Definition rd_u64 (d : bytes) : option (N * bytes) :=
  match d with
  | b0 :: b1 :: b2 :: b3 :: b4 :: b5 :: b6 :: b7 :: r =>
      Some (b0 + 256 * (b1 + 256 * (b2 + 256 * (b3 + 256 * (b4 + 256 * (b5 + 256 * (b6 + 256 * b7)))))), r)
  | _ => None
  end.

(* writeVarBytes: uint32(len) little endian, then the bytes *)
Definition w_var (b : bytes) : bytes := w_u32 (blen b) ++ b.
(* ReadVarBytes / SkipVarBytes: None = EOF of either kind *)
Definition rd_var (d : bytes) : option (bytes * bytes) :=
  match rd_u32 d with
  | Some (n, r) => if n <=? blen r then Some (firstn (N.to_nat n) r, skipn (N.to_nat n) r) else None
  | None => None
  end.
Definition w_tomb (deleted : bool) : bytes := [if deleted then 1 else 0].
Definition rd_tomb (d : bytes) : option (bool * bytes) :=
  match d with b :: r => Some (b =? 1, r) | [] => None end.

(* ---------- bloom.go ---------- *)
Record bloom := mkBloom { bf_size : N; bf_hashes : N; bf_words : list N }.

Definition bf_new (size hashes : N) : bloom :=
  mkBloom size hashes (repeat 0 (N.to_nat (u32 (size + 63) / 64))).

Fixpoint upd_nth (n : nat) (f : N -> N) (l : list N) : list N :=
  match l with
  | [] => []
  | x :: r => match n with O => f x :: r | S n' => x :: upd_nth n' f r end
  end.

Definition set_bit (ws : list N) (pos : N) : list N :=
  upd_nth (N.to_nat (pos / 64)) (fun w => N.lor w (N.shiftl 1 (pos mod 64))) ws.
Definition get_bit (ws : list N) (pos : N) : bool :=
  N.testbit (nth (N.to_nat (pos / 64)) ws 0) (pos mod 64).

Definition bf_index (bf : bloom) (data : bytes) (i : N) : N := murmur_hash data i mod bf_size bf.

(* seeds 0 .. hashCount-1 *)
Fixpoint seeds_from (n : nat) (i : N) : list N :=
  match n with O => [] | S n' => i :: seeds_from n' (i + 1) end.
Definition bf_seeds (bf : bloom) : list N := seeds_from (N.to_nat (bf_hashes bf)) 0.

Definition bf_add (bf : bloom) (data : bytes) : bloom :=
  mkBloom (bf_size bf) (bf_hashes bf)
          (fold_left (fun ws i => set_bit ws (bf_index bf data i)) (bf_seeds bf) (bf_words bf)).

Definition bf_might_have (bf : bloom) (data : bytes) : bool :=
  forallb (fun i => get_bit (bf_words bf) (bf_index bf data i)) (bf_seeds bf).

Definition bf_add_all (bf : bloom) (keys : list bytes) : bloom := fold_left bf_add keys bf.

Definition bf_encode (bf : bloom) : bytes :=
  w_u32 (bf_size bf) ++ w_u32 (bf_hashes bf) ++ flat_map w_u64 (bf_words bf).

Fixpoint rd_words (n : nat) (d : bytes) : option (list N * bytes) :=
  match n with
  | O => Some ([], d)
  | S n' => match rd_u64 d with
            | Some (w, r) => match rd_words n' r with Some (ws, r') => Some (w :: ws, r') | None => None end
            | None => None
            end
  end.

(* Decode: NewFilter(size, hashes) then one uint64 per word; None = the panic on a short read *)
Definition bf_decode (d : bytes) : option (bloom * bytes) :=
  match rd_u32 d with
  | Some (size, r1) =>
      match rd_u32 r1 with
      | Some (hashes, r2) =>
          let nw := u32 (size + 63) / 64 in
          if nw * 8 <=? blen r2 then
            match rd_words (N.to_nat nw) r2 with
            | Some (ws, r3) => Some (mkBloom size hashes ws, r3)
            | None => None
            end
          else None
      | None => None
      end
  | None => None
  end.
