(* util/ds/partitioned_priority_queue.go: a heap of partitions ordered by their Peek, empty partitions last.
   A partition is specified as a sorted multiset of priorities (the QueuePartition contract); an item is (priority, partition).
   heap elements are partition numbers; Index() of a partition is its position in the heap slice, which is what the
   heap's index-assigner call-backs keep up to date. *)
From RV Require Import Base.Bytes Model.Heap.
Open Scope N_scope.

Fixpoint ins_sorted (x : N) (l : list N) : list N :=
  match l with
  | [] => [x]
  | y :: l' => if x <=? y then x :: l else y :: ins_sorted x l'
  end.
Fixpoint del_first (x : N) (l : list N) : list N :=
  match l with
  | [] => []
  | y :: l' => if x =? y then l' else y :: del_first x l'
  end.

Record ppq := { heap : list nat; parts : list (list N) }.

Definition part_peek (ps : list (list N)) (p : nat) : option N := hd_error (nth p ps []).

(* heapCompare(a, b) < 0 *)
Definition part_lt (ps : list (list N)) (a b : nat) : bool :=
  match part_peek ps a, part_peek ps b with
  | None, _ => false
  | Some _, None => true
  | Some x, Some y => x <? y
  end.

Fixpoint index_of (p : nat) (l : list nat) : option nat :=
  match l with
  | [] => None
  | q :: l' => if Nat.eqb p q then Some O else option_map S (index_of p l')
  end.

(* constructor: every (initially possibly non-empty) partition is pushed in order *)
Definition ppq_new (ps : list (list N)) : ppq :=
  {| heap := fold_left (fun h p => push (part_lt ps) p h) (seq 0 (length ps)) []; parts := ps |}.

Definition set_part (ps : list (list N)) (p : nat) (c : list N) : list (list N) := upd p c ps.

Definition ppq_fix (q : ppq) (ps' : list (list N)) (p : nat) : ppq :=
  match index_of p (heap q) with
  | Some i => {| heap := fix_ (part_lt ps') (heap q) i; parts := ps' |}
  | None => {| heap := heap q; parts := ps' |}
  end.

Definition ppq_peek (q : ppq) : option N :=
  match peek (heap q) with None => None | Some p => part_peek (parts q) p end.

Definition ppq_pop (q : ppq) : option (N * nat) * ppq :=
  match peek (heap q) with
  | None => (None, q)
  | Some p =>
      match nth p (parts q) [] with
      | [] => (None, q)
      | x :: rest => (Some (x, p), ppq_fix q (set_part (parts q) p rest) p)
      end
  end.

Definition ppq_is_empty (q : ppq) : bool :=
  match ppq_peek q with None => true | Some _ => false end.

(* item = (priority, partition); the partition index must address a partition (else Go panics: not modelled) *)
Definition ppq_push (x : N) (p : nat) (q : ppq) : ppq :=
  ppq_fix q (set_part (parts q) p (ins_sorted x (nth p (parts q) []))) p.

Definition ppq_delete (x : N) (p : nat) (q : ppq) : ppq :=
  ppq_fix q (set_part (parts q) p (del_first x (nth p (parts q) []))) p.

(* reference: all items of all partitions *)
Definition ppq_contents (q : ppq) : list N := concat (parts q).
