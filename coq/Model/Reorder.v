(* Model of /repo/batching/reorder_fetcher.go (ReorderFetcher) and /repo/batching/reorder_buffer.go (ReorderBuffer) on top of
   Model/Batcher.v. Definitions only.

   Threads (goroutines) and their atomic actions:
     adder      the one goroutine calling ReorderFetcher.Add / Flush: runs a script of calls; Add x = batcher.Add (atomic, under the
                batcher mutex); IsFull (atomic); if full: flush(CurrentBatch)
     time-out   the goroutine started by NewReorderFetcher: receives from BatchTimedOut, then flush(CurrentBatch)
                (the received token is ignored by the code: it always flushes the current batch)
     timer      ATimerFire: a timer callback starts (needs a callback set on the timer) and blocks sending its token on the unbuffered
                channel BatchTimedOut (inflight); it may be received long after the batch it was set for was flushed
     fetch i    one goroutine per reserved batch: AComplete i = FetchBatch returns and buffer.Add(seq, result) (under the buffer mutex;
                a Go map assignment: overwrites); ADrain i = the whole Drain loop, which runs under the buffer mutex and sends every
                consecutive item to Output (the consumer is assumed always willing to receive; out = everything sent so far).
   flush(CurrentBatch), program counters:
     PFlush        [repaired code: flushMu.Lock, possible only when free]; events := batcher.Flush(CurrentBatch); empty => unlock, return
     PReserve ev   the hook point reorder.flush.between; then `reserved <- struct{}{}` (blocks while max_items slots are reserved)
     PRead ev      seq := nextSeqNum           (unsynchronised read)
     PInc ev seq   r := nextSeqNum             (nextSeqNum++ is a read ...
     PWrite ev seq r   nextSeqNum = r+1        ... and a write); [flushMu.Unlock]; go fetch goroutine (seq, ev)
   rp_fixed = false is the code before commit 71bc8cf (no flushMu), rp_fixed = true the repaired code.
   Lock acquisition is merged with the first action under the lock and release with the last (both only restrict other lockers).
   Abstractions: uint64 sequence numbers and the channel count as nat (reachable values are numbers of batches);
   ghosts: added (items given to batcher.Add so far), flushed (non-empty batches in the order batcher.Flush handed them out). *)
From Coq Require Import List NArith ZArith Bool Arith.
From RV Require Import Model.Batcher.
Import ListNotations.

Section Reorder.
Context {T R : Type}.
Variable fetch : list T -> list R.

Inductive aop := AddOp (x : T) | FlushOp.

Inductive pc :=
| PIdle | PAdded | PFlush
| PReserve (ev : list T) | PRead (ev : list T) | PInc (ev : list T) (seq : nat) | PWrite (ev : list T) (seq r : nat).

Inductive fstage := Fetching | Added.
Record fetcher := mkF { f_seq : nat; f_ev : list T; f_stage : fstage }.

Record rparams := mkRP { rp_b : bparams; rp_buf : N; rp_fixed : bool }.
Definition max_items (p : rparams) : nat := if N.eqb (rp_buf p) 0 then 1 else N.to_nat (rp_buf p).

Record rstate := mkR {
  bt : bstate T;
  script : list aop;
  apc : pc;
  tpc : pc;
  inflight : nat;
  flock : bool;
  reserved : nat;
  nextseq : nat;
  drained : nat;
  items : list (nat * list R);
  fetchers : list fetcher;
  out : list R;
  added : list T;
  flushed : list (list T)
}.

Definition r_init (sc : list aop) : rstate := mkR b_init sc PIdle PIdle 0 false 0 0 0 [] [] [] [] [].

Definition set_apc c s := mkR (bt s) (script s) c (tpc s) (inflight s) (flock s) (reserved s) (nextseq s) (drained s) (items s) (fetchers s) (out s) (added s) (flushed s).
Definition set_tpc c s := mkR (bt s) (script s) (apc s) c (inflight s) (flock s) (reserved s) (nextseq s) (drained s) (items s) (fetchers s) (out s) (added s) (flushed s).
Definition set_inflight n s := mkR (bt s) (script s) (apc s) (tpc s) n (flock s) (reserved s) (nextseq s) (drained s) (items s) (fetchers s) (out s) (added s) (flushed s).
Definition set_reserved n s := mkR (bt s) (script s) (apc s) (tpc s) (inflight s) (flock s) n (nextseq s) (drained s) (items s) (fetchers s) (out s) (added s) (flushed s).

(* ---- the map of the reorder buffer ---- *)
Fixpoint lookup (k : nat) (m : list (nat * list R)) : option (list R) :=
  match m with
  | [] => None
  | (k', v) :: m' => if Nat.eqb k k' then Some v else lookup k m'
  end.
Fixpoint remove_key (k : nat) (m : list (nat * list R)) : list (nat * list R) :=
  match m with
  | [] => []
  | (k', v) :: m' => if Nat.eqb k k' then remove_key k m' else (k', v) :: remove_key k m'
  end.
Definition put (k : nat) (v : list R) (m : list (nat * list R)) := (k, v) :: remove_key k m.

(* Drain: while items[drainedSeqNum] exists: delete it, drainedSeqNum++, <-reserved, yield it (sent to Output). *)
Fixpoint drain_loop (fuel d : nat) (its : list (nat * list R)) (res : nat) (o : list R) : nat * list (nat * list R) * nat * list R :=
  match fuel with
  | O => (d, its, res, o)
  | S fuel' =>
      match lookup d its with
      | Some r => drain_loop fuel' (S d) (remove_key d its) (Nat.pred res) (o ++ r)
      | None => (d, its, res, o)
      end
  end.

(* ---- flush(CurrentBatch) of either flusher ---- *)
Definition flush_step (p : rparams) (c : pc) (s : rstate) : option (pc * rstate) :=
  match c with
  | PFlush =>
      if rp_fixed p && flock s then None
      else
        let r := b_flush current_batch (bt s) in
        if is_nil (fst r) then Some (PIdle, s)
        else Some (PReserve (fst r),
                   mkR (snd r) (script s) (apc s) (tpc s) (inflight s) (rp_fixed p) (reserved s) (nextseq s) (drained s)
                       (items s) (fetchers s) (out s) (added s) (flushed s ++ [fst r]))
  | PReserve ev =>
      if Nat.ltb (reserved s) (max_items p) then Some (PRead ev, set_reserved (S (reserved s)) s) else None
  | PRead ev => Some (PInc ev (nextseq s), s)
  | PInc ev seq => Some (PWrite ev seq (nextseq s), s)
  | PWrite ev seq r =>
      Some (PIdle,
            mkR (bt s) (script s) (apc s) (tpc s) (inflight s) false (reserved s) (S r) (drained s)
                (items s) (fetchers s ++ [mkF seq ev Fetching]) (out s) (added s) (flushed s))
  | PIdle | PAdded => None
  end.

Definition adder_step (p : rparams) (s : rstate) : option rstate :=
  match apc s with
  | PIdle =>
      match script s with
      | [] => None
      | AddOp x :: sc =>
          Some (mkR (b_add (rp_b p) x (bt s)) sc PAdded (tpc s) (inflight s) (flock s) (reserved s) (nextseq s) (drained s)
                    (items s) (fetchers s) (out s) (added s ++ [x]) (flushed s))
      | FlushOp :: sc =>
          Some (mkR (bt s) sc PFlush (tpc s) (inflight s) (flock s) (reserved s) (nextseq s) (drained s)
                    (items s) (fetchers s) (out s) (added s) (flushed s))
      end
  | PAdded => Some (set_apc (if b_full (rp_b p) (bt s) then PFlush else PIdle) s)
  | c => match flush_step p c s with Some (c', s') => Some (set_apc c' s') | None => None end
  end.

Definition timeout_step (p : rparams) (s : rstate) : option rstate :=
  match tpc s with
  | PIdle => match inflight s with O => None | S n => Some (set_tpc PFlush (set_inflight n s)) end
  | PAdded => None
  | c => match flush_step p c s with Some (c', s') => Some (set_tpc c' s') | None => None end
  end.

Definition timer_fire (s : rstate) : option rstate :=
  match armed (bt s) with Some _ => Some (set_inflight (S (inflight s)) s) | None => None end.

Fixpoint set_nth {A} (i : nat) (x : A) (l : list A) : list A :=
  match l, i with
  | [], _ => []
  | _ :: l', O => x :: l'
  | y :: l', S i' => y :: set_nth i' x l'
  end.
Fixpoint del_nth {A} (i : nat) (l : list A) : list A :=
  match l, i with
  | [], _ => []
  | _ :: l', O => l'
  | y :: l', S i' => y :: del_nth i' l'
  end.

Definition complete_step (i : nat) (s : rstate) : option rstate :=
  match nth_error (fetchers s) i with
  | Some (mkF seq ev Fetching) =>
      Some (mkR (bt s) (script s) (apc s) (tpc s) (inflight s) (flock s) (reserved s) (nextseq s) (drained s)
                (put seq (fetch ev) (items s)) (set_nth i (mkF seq ev Added) (fetchers s)) (out s) (added s) (flushed s))
  | _ => None
  end.

Definition drain_step (i : nat) (s : rstate) : option rstate :=
  match nth_error (fetchers s) i with
  | Some (mkF seq ev Added) =>
      match drain_loop (S (length (items s))) (drained s) (items s) (reserved s) (out s) with
      | (d, its, res, o) =>
          Some (mkR (bt s) (script s) (apc s) (tpc s) (inflight s) (flock s) res (nextseq s) d
                    its (del_nth i (fetchers s)) o (added s) (flushed s))
      end
  | _ => None
  end.

Inductive action := AAdder | ATimeout | ATimerFire | AComplete (i : nat) | ADrain (i : nat).

Definition step_opt (p : rparams) (a : action) (s : rstate) : option rstate :=
  match a with
  | AAdder => adder_step p s
  | ATimeout => timeout_step p s
  | ATimerFire => timer_fire s
  | AComplete i => complete_step i s
  | ADrain i => drain_step i s
  end.

(* a disabled action leaves the state unchanged, so `run` is defined for EVERY action list *)
Definition step (p : rparams) (a : action) (s : rstate) : rstate :=
  match step_opt p a s with Some s' => s' | None => s end.

Definition run (p : rparams) (acts : list action) (s : rstate) : rstate := fold_left (fun s a => step p a s) acts s.

Definition pc_idle (c : pc) : bool := match c with PIdle => true | _ => false end.

(* all work handed to the fetcher so far has been carried through *)
Definition quiescent (s : rstate) : bool :=
  is_nil (script s) && pc_idle (apc s) && pc_idle (tpc s) && is_nil (fetchers s).

Fixpoint is_prefix_of {A} (eqb : A -> A -> bool) (a b : list A) : bool :=
  match a, b with
  | [], _ => true
  | x :: a', y :: b' => eqb x y && is_prefix_of eqb a' b'
  | _ :: _, [] => false
  end.

End Reorder.
Arguments rstate : clear implicits.
Arguments aop : clear implicits.
Arguments pc : clear implicits.
Arguments fetcher : clear implicits.

(* ---- fetch errors ----
   FetchBatch returns (results, err). The fetch goroutine of ReorderFetcher.flush does
       result, err := d.fetchBatch(ctx, events); if err != nil { d.errChan <- err }; d.buffer.Add(seqNum, result); drain
   so a failed fetch REPORTS its error and then still fills its slot with whatever results came back with the error (nil, partial
   or complete): the "result" of a failed batch is what FetchBatch returned, and later batches are not held up.
   Model: the outcome of fetching a batch is FOk results | FErr returned_results; the step functions above run with
   fetch := results of the outcome; the layer below records the batches whose fetch has completed, in completion order
   (x_done), from which the errors sent on ErrChan are read off (x_errs). Sending the error is merged with buffer.Add into
   AComplete (the consumer of ErrChan is assumed always willing, like the consumer of Output). *)
Section ReorderErrors.
Context {T R : Type}.

Inductive outcome := FOk (res : list R) | FErr (returned : list R).
Definition results (o : outcome) : list R := match o with FOk r => r | FErr r => r end.
Definition is_err (o : outcome) : bool := match o with FOk _ => false | FErr _ => true end.

Variable fetchx : list T -> outcome.
Definition fetch_of : list T -> list R := fun ev => results (fetchx ev).
Definition failed (ev : list T) : bool := is_err (fetchx ev).

Record rxstate := mkRX { rx : rstate T R; x_done : list (list T) }.

Definition completing (i : nat) (s : rstate T R) : list (list T) :=
  match nth_error (fetchers s) i with
  | Some (mkF _ ev Fetching) => [ev]
  | _ => []
  end.

Definition x_step (p : rparams) (a : action) (xs : rxstate) : rxstate :=
  mkRX (step fetch_of p a (rx xs))
       (x_done xs ++ match a with AComplete i => completing i (rx xs) | _ => [] end).

Definition x_run (p : rparams) (acts : list action) (xs : rxstate) : rxstate := fold_left (fun xs a => x_step p a xs) acts xs.
Definition x_init (sc : list (aop T)) : rxstate := mkRX (r_init sc) [].

(* the errors sent on ErrChan so far, as the batches they belong to, in the order sent *)
Definition x_errs (xs : rxstate) : list (list T) := filter failed (x_done xs).

End ReorderErrors.
Arguments outcome : clear implicits.
Arguments rxstate : clear implicits.

(* ---- per-call contexts ----
   ReorderFetcher.Add(ctx, x) and Flush(ctx) take the caller's context. The code does not consult it when it decides to flush:
   batcher.Add, IsFull, batcher.Flush and buffer.Reserve run whatever its state; flush only hands it on to the fetch goroutine,
   `d.fetchBatch(ctx, events)`. So a batch is fetched with the context of the CALL THAT TRIGGERED ITS FLUSH (the Add that filled
   it, or the explicit Flush), time-out flushes with the context given to NewReorderFetcher; what a cancelled context means is up to
   FetchBatch (its outcome fills the slot like any other outcome, see ReorderErrors above).
   The layer below is a ghost over the step functions, which are unchanged: every call of the adder script carries a flag
   (true = its context is already cancelled), c_log lists, for every batch handed out (aligned with `flushed`), the flag FetchBatch
   receives. Because every batch is fetched exactly once, an outcome that depends on the context received is still a function of
   the batch as an occurrence, which is what the theorems quantify over (fetchx). *)
Section ReorderContexts.
Context {T R : Type}.
Variable fetch : list T -> list R.

Record rcstate := mkRC {
  rc : rstate T R;
  c_calls : list bool;      (* flags of the calls of the script not yet started, parallel to `script` *)
  c_cur : bool;             (* flag of the adder's call in progress *)
  c_log : list bool         (* per batch handed out: the flag its FetchBatch receives *)
}.

Definition c_step (p : rparams) (a : action) (cs : rcstate) : rcstate :=
  let s := rc cs in
  let s' := step fetch p a s in
  (* the adder starts its next call *)
  let starts := match a, apc s, script s with AAdder, PIdle, _ :: _ => true | _, _, _ => false end in
  let cur := if starts then hd false (c_calls cs) else c_cur cs in
  let calls := if starts then tl (c_calls cs) else c_calls cs in
  (* a batch was taken from the batcher by this action: by the adder (its call's context) or by the time-out goroutine (live) *)
  let grew := Nat.ltb (length (flushed s)) (length (flushed s')) in
  let flag := match a with AAdder => cur | _ => false end in
  mkRC s' calls cur (c_log cs ++ if grew then [flag] else []).

Definition c_run (p : rparams) (acts : list action) (cs : rcstate) : rcstate := fold_left (fun cs a => c_step p a cs) acts cs.
Definition c_init (sc : list (aop T * bool)) : rcstate := mkRC (r_init (map fst sc)) (map snd sc) false [].

End ReorderContexts.
Arguments rcstate : clear implicits.

(* ---- served time-outs (ghost) ----
   m_mark = how many inputs had been accepted when the timer last expired (ATimerFire enabled). The time-out goroutine of the
   current code WAITS for flushMu (Lock, the PFlush step is disabled while the lock is held, never skipped), so once that expiry
   has been received and served, all those inputs have been handed out (Proofs: expired_batch_flushed). *)
Section ReorderMarks.
Context {T R : Type}.
Variable fetch : list T -> list R.
Record rmstate := mkRM { rm : rstate T R; m_mark : nat }.
Definition m_step (p : rparams) (a : action) (ms : rmstate) : rmstate :=
  let s := rm ms in
  mkRM (step fetch p a s)
       (match a, armed (bt s) with ATimerFire, Some _ => length (added s) | _, _ => m_mark ms end).
Definition m_run (p : rparams) (acts : list action) (ms : rmstate) : rmstate := fold_left (fun ms a => m_step p a ms) acts ms.
Definition m_init (sc : list (aop T)) : rmstate := mkRM (r_init sc) 0.
End ReorderMarks.
Arguments rmstate : clear implicits.
