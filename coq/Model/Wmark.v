(* C11, source-runner side.  Model of
     workers/wmark/watermarks.go          (Watermarker: AdvanceTime, CurrentWatermark)
     workers/sourcerunner/source_runner.go (sendOperatorEvent: advance per forwarded keyed event,
                                            stamping of the Watermark placeholder when it is SENT)
   and of the time conversions on the way (timestamppb.New / Timestamp.AsTime).

   Time values are Z nanoseconds relative to the Unix epoch (0 = 1970-01-01T00:00:00Z).  A Go
   time.Time built by time.Unix / Timestamp.AsTime carries no monotonic reading, so After/Before/Compare/Add
   are exactly integer comparison / addition on this number as long as the instant lies within
   +-2^62 seconds of year 1 (time.Time saturates only beyond that; the generators stay far inside).

   Definitions only; proofs in Proofs/C11_Wmark.v. *)
From Coq Require Import ZArith List Bool.
Import ListNotations.
Open Scope Z_scope.

Definition NS : Z := 1000000000.

(* time.Time{} : January 1, year 1, 00:00:00 UTC = Unix second -62135596800.  This is the value of
   Watermarker.maxTimestamp before any event and of TimerRegistry.watermark before any watermark message.
   It is also the smallest valid google.protobuf.Timestamp. *)
Definition go_zero_time : Z := -62135596800 * NS.
Definition epoch : Z := 0.   (* time.Unix(0, 0) *)

(* google.protobuf.Timestamp on the wire: (seconds, nanos); None = nil message (GetSeconds/GetNanos = 0). *)
Definition pbts := option (Z * Z).

(* Timestamp.AsTime() = time.Unix(seconds, nanos).UTC(): time.Unix normalises any nanos, so the instant
   is seconds*1e9 + nanos for every int64/int32 pair. *)
Definition tm (s n : Z) : Z := s * NS + n.
Definition as_time (p : pbts) : Z := match p with None => epoch | Some (s, n) => tm s n end.

(* timestamppb.New(t) = {Seconds: t.Unix(), Nanos: t.Nanosecond()}: floor division, 0 <= nanos < 1e9. *)
Definition pb_new (t : Z) : Z * Z := (t / NS, t mod NS).

(* ---- Watermarker ---- *)
Record wmk := { wm_max : Z; wm_late : Z }.

Definition wm_new (late : Z) : wmk := {| wm_max := go_zero_time; wm_late := late |}.

(* if eventTimestamp.After(w.maxTimestamp) { w.maxTimestamp = eventTimestamp } *)
Definition wm_advance (w : wmk) (ts : Z) : wmk :=
  if wm_max w <? ts then {| wm_max := ts; wm_late := wm_late w |} else w.

(* w.maxTimestamp.Add(-(w.allowedLateness + time.Nanosecond)).  In int64 arithmetic -(l+1) is exact for
   every int64 l except that l = MaxInt64 wraps twice to -2^63, which is again -(l+1). *)
Definition wm_current (w : wmk) : Z := wm_max w - (wm_late w + 1).

Definition wm_run (late : Z) (tss : list Z) : wmk := fold_left wm_advance tss (wm_new late).

(* API-level history of one Watermarker: AdvanceTime(AsTime p) and CurrentWatermark() stamped into a
   protobuf Timestamp; the trace is the list of stamped values. *)
Inductive wop := WAdv (p : pbts) | WCur.

Fixpoint wm_trace (w : wmk) (ops : list wop) : list (Z * Z) :=
  match ops with
  | [] => []
  | WAdv p :: r => wm_trace (wm_advance w (as_time p)) r
  | WCur :: r => pb_new (wm_current w) :: wm_trace w r
  end.

(* timestamps forwarded before each WCur, for specifications *)
Fixpoint wm_forwarded_before (acc : list Z) (ops : list wop) : list (list Z) :=
  match ops with
  | [] => []
  | WAdv p :: r => wm_forwarded_before (acc ++ [as_time p]) r
  | WCur :: r => acc :: wm_forwarded_before acc r
  end.

Definition zmax_list (d : Z) (l : list Z) : Z := fold_left Z.max l d.

(* ---- the runner's output stage (sendOperatorEvent) ----
   The output stream carries placeholders.  A keyed placeholder is joined with the async KeyEventBatch result
   (a list of keyed events, possibly empty): every event first advances the watermarker, then is routed to the
   operator owning its key.  A watermark placeholder is stamped with CurrentWatermark() at this moment and
   broadcast to every operator.  Barriers / source-complete are broadcast unchanged.  All of this runs on one
   goroutine, in output-stream order.  Production code never sets an allowed lateness (0). *)
Inductive pop :=
| PK (evs : list (N * N * pbts))      (* (operator index the key routes to, event id, timestamp) *)
| PW
| PB                                   (* checkpoint barrier (any other broadcast) *)
| PA.                                  (* a (further) split assignment handled by the event loop: no output, and the
                                          watermarker is kept - the runner's watermark survives re-assignments *)

Inductive sent :=
| SendK (op : N) (id : N) (p : pbts)
| SendW (stamp : Z * Z)
| SendB.

Fixpoint pipe_keyed (w : wmk) (evs : list (N * N * pbts)) : wmk * list sent :=
  match evs with
  | [] => (w, [])
  | (o, id, p) :: r =>
      let w1 := wm_advance w (as_time p) in
      let '(w2, out) := pipe_keyed w1 r in
      (w2, SendK o id p :: out)
  end.

Fixpoint pipe_run (w : wmk) (ops : list pop) : list sent :=
  match ops with
  | [] => []
  | PK evs :: r => let '(w1, out) := pipe_keyed w evs in out ++ pipe_run w1 r
  | PW :: r => SendW (pb_new (wm_current w)) :: pipe_run w r
  | PB :: r => SendB :: pipe_run w r
  | PA :: r => pipe_run w r
  end.

(* what operator j receives, in order *)
Inductive sev := SK (id : N) (p : pbts) | SW (stamp : Z * Z) | SB.

Fixpoint stream_of (j : N) (out : list sent) : list sev :=
  match out with
  | [] => []
  | SendK o id p :: r => if (o =? j)%N then SK id p :: stream_of j r else stream_of j r
  | SendW s :: r => SW s :: stream_of j r
  | SendB :: r => SB :: stream_of j r
  end.

(* timestamps of the keyed events sent before each position *)
Fixpoint sent_ts (out : list sent) : list Z :=
  match out with
  | [] => []
  | SendK _ _ p :: r => as_time p :: sent_ts r
  | _ :: r => sent_ts r
  end.
