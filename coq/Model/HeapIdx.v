(* util/ds/heap.go: the index-assigner call-backs (SetIndexAssigner) of the binary heap.
   Instrumented versions of the pure functions of Model/Heap.v: besides the new slice they return the list of
   call-back events [(element, index)] in call order, transcribed from the Go code:

     swap(i, j):  data[i], data[j] = data[j], data[i]; assign(data[i], i); assign(data[j], j)
     Push(x):     data = append(data, x); assign(x, len(data)-1); up(len(data)-1)
     Pop():       x = data[0]; n = len(data)-1; data[0] = data[n]; assign(x, -1); assign(data[0], 0);
                  data = data[:n]; if n > 0 { down(0) }
                  (quirk: when the heap had one element, data[0] is x itself: x is assigned -1 and then 0)
     Fix(i):      if !down(i) { up(i) }

   The first component(s) of every instrumented function equal the pure function's result
   (Proofs/C19_HeapIdx.v: pushE_fst, popE_fst, fixE_fst, ...).  The index is a Z because Pop reports -1.
   [apply_events] is the client's view: the client stores the last index reported for each element. *)
From Coq Require Import List Arith Bool ZArith.
From RV Require Import Model.Heap.
Import ListNotations.

Section HeapIdx.
  Context {A : Type} (lt : A -> A -> bool).

  (* swap(i, j): the two call-backs read the slice AFTER the exchange.
     Out-of-range indices (Go would panic) leave the slice unchanged and emit nothing. *)
  Definition swapE (i j : nat) (l : list A) : list A * list (A * Z) :=
    let l' := swap i j l in
    (l', match nth_error l' i, nth_error l' j with
         | Some a, Some b => [(a, Z.of_nat i); (b, Z.of_nat j)]
         | _, _ => []
         end).

  (* down(i): new slice, final position, events *)
  Fixpoint down_loopE (fuel : nat) (l : list A) (i : nat) : list A * nat * list (A * Z) :=
    match fuel with
    | O => (l, i, [])
    | S f =>
        let left := 2 * i + 1 in
        let right := 2 * i + 2 in
        match nth_error l left with
        | None => (l, i, [])
        | Some vl =>
            let j := match nth_error l right with
                     | Some vr => if lt vr vl then right else left
                     | None => left
                     end in
            match nth_error l j, nth_error l i with
            | Some vj, Some vi =>
                if lt vj vi
                then let '(l1, e1) := swapE i j l in
                     let '(l2, i2, e2) := down_loopE f l1 j in (l2, i2, e1 ++ e2)
                else (l, i, [])
            | _, _ => (l, i, [])
            end
        end
    end.

  Definition downE (l : list A) (i : nat) : list A * bool * list (A * Z) :=
    let '(l', i', e) := down_loopE (length l) l i in (l', i <? i', e).

  Fixpoint up_loopE (fuel : nat) (l : list A) (i : nat) : list A * list (A * Z) :=
    match fuel with
    | O => (l, [])
    | S f =>
        match i with
        | O => (l, [])
        | S _ =>
            let parent := Nat.div2 (i - 1) in
            match nth_error l i, nth_error l parent with
            | Some vi, Some vp =>
                if lt vi vp
                then let '(l1, e1) := swapE i parent l in
                     let '(l2, e2) := up_loopE f l1 parent in (l2, e1 ++ e2)
                else (l, [])
            | _, _ => (l, [])
            end
        end
    end.

  Definition upE (l : list A) (i : nat) : list A * list (A * Z) := up_loopE (length l) l i.

  (* Push(x) *)
  Definition pushE (x : A) (l : list A) : list A * list (A * Z) :=
    let l1 := l ++ [x] in
    let '(l2, e) := upE l1 (length l1 - 1) in
    (l2, (x, (Z.of_nat (length l1) - 1)%Z) :: e).

  (* Pop(): popped element, new slice, events *)
  Definition popE (l : list A) : option A * list A * list (A * Z) :=
    match l with
    | [] => (None, [], [])
    | x :: _ =>
        let n := length l - 1 in
        match nth_error l n with
        | Some y =>
            let l0 := upd 0 y l in                                  (* data[0] = data[n] *)
            let e0 := (x, (-1)%Z) ::                                (* assign(x, -1) *)
                      match nth_error l0 0 with                     (* assign(data[0], 0) *)
                      | Some d0 => [(d0, 0%Z)]
                      | None => []
                      end in
            let l1 := removelast l0 in                              (* data = data[:n] *)
            if 0 <? n
            then let '(l2, _, e) := downE l1 0 in (Some x, l2, e0 ++ e)
            else (Some x, l1, e0)
        | None => (Some x, l, [])                                   (* unreachable: n < len *)
        end
    end.

  (* Fix(i) for a valid index: up runs on the slice left by down (unchanged when down did not move) *)
  Definition fixE (l : list A) (i : nat) : list A * list (A * Z) :=
    let '(l1, moved, e1) := downE l i in
    if moved then (l1, e1)
    else let '(l2, e2) := upE l1 i in (l2, e1 ++ e2).

  (* ---- the client's view ---- *)
  (* the index the client has recorded for each element after the call-backs [evs], starting from [idx];
     later events override earlier ones; elements are identified by [eqb] *)
  Fixpoint apply_events (eqb : A -> A -> bool) (evs : list (A * Z)) (idx : A -> Z) : A -> Z :=
    match evs with
    | [] => idx
    | (a, k) :: r => apply_events eqb r (fun y => if eqb y a then k else idx y)
    end.

  (* the client's indices agree with the positions in the slice *)
  Definition tracks (l : list A) (idx : A -> Z) : Prop :=
    forall i x, nth_error l i = Some x -> idx x = Z.of_nat i.
End HeapIdx.
