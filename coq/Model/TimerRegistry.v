(* workers/operator/timer_registry.go (+ the calls in operator.go: handleWatermark drains AdvanceWatermark,
   processEventBatch calls SetTimer) over Model.TimerStore.

   Times are Z nanoseconds since the Unix epoch (time.Time comparisons are exact, so Before/After are < and > on Z).
   A new TimerRegistry starts with every configured upstream and its composite watermark at the epoch, time.Unix(0, 0)
   (repo commit 9b0e491; before it the watermark field started as the zero time.Time of year 1, [zero_time]).
   Source-runner ids are numbers (the engine maps them to strings).
   The upstream-minimum part of AdvanceWatermark is C11's subject; it is transcribed here because the composite
   watermark decides what fires. *)
From RV Require Import Base.Bytes Model.TimerStore.
Open Scope N_scope.

Definition zero_time : Z := (-62135596800000000000)%Z.

Record registry := { r_store : tstore; r_ups : list (N * Z); r_wm : Z }.

(* NewTimerRegistry: upstreams[id] = time.Unix(0, 0) for every id (a repeated id is one map entry) *)
Fixpoint ups_set (id : N) (t : Z) (l : list (N * Z)) : list (N * Z) :=
  match l with
  | [] => [(id, t)]
  | (i, x) :: l' => if i =? id then (i, t) :: l' else (i, x) :: ups_set id t l'
  end.
Definition registry_new (s : tstore) (srids : list N) : registry :=
  {| r_store := s; r_ups := fold_left (fun l id => ups_set id 0%Z l) srids []; r_wm := 0%Z |}.

(* iteru.MinFunc(maps.Values(upstreams), time.Time.Compare); the map is never empty when it is called *)
Definition ups_min (l : list (N * Z)) : Z :=
  match l with
  | [] => zero_time
  | (_, x) :: l' => fold_left (fun m e => Z.min m (snd e)) l' x
  end.

(* one system state: the registry (with its store) and the DB content *)
Definition sys := (registry * db)%type.

(* SetTimer: a timer on or before the composite watermark is a no-op *)
Definition store_set (q : quirks) (kgf : bytes -> N) (wm : Z) (key : bytes) (t : Z) (s : tstore) (d : db) : tstore * db :=
  if negb (wm <? t)%Z then (s, d) else ts_push q (timer_key (kgf key) t key) d s.

Definition set_timer (q : quirks) (kgf : bytes -> N) (key : bytes) (t : Z) (st : sys) : sys :=
  let '(r, d) := st in
  let '(s', d') := store_set q kgf (r_wm r) key t (r_store r) d in
  ({| r_store := s'; r_ups := r_ups r; r_wm := r_wm r |}, d').

(* SetTimer calls made by the consumer of the iterator right after the n-th yield (the operator's event batch filled up):
   [during] lists (n, key, t); r.watermark already is the new composite watermark *)
Definition during_sets (q : quirks) (kgf : bytes -> N) (wm : Z) (n : nat) (during : list (nat * bytes * Z)) (s : tstore) (d : db) : tstore * db :=
  fold_left (fun sd e => let '(a, k, t) := e in if Nat.eqb a n then store_set q kgf wm k t (fst sd) (snd sd) else sd) during (s, d).

(* the loop of AdvanceWatermark's iterator, drained: GetEarliest; stop if After(composite); Delete; yield.
   Every round deletes one DB entry that was there at the start or was set meanwhile. *)
Fixpoint fire (q : quirks) (kgf : bytes -> N) (fuel : nat) (wm : Z) (n : nat) (during : list (nat * bytes * Z))
         (s : tstore) (d : db) (acc : list (bytes * Z)) : list (bytes * Z) * tstore * db :=
  match fuel with
  | O => (rev acc, s, d)
  | S f =>
      let '(o, s1) := ts_peek q d s in
      match o with
      | None => (rev acc, s1, d)
      | Some k =>
          if (wm <? key_time k)%Z then (rev acc, s1, d)
          else let '(s2, d2) := ts_delete q k d s1 in
               let '(s3, d3) := during_sets q kgf wm (S n) during s2 d2 in
               fire q kgf f wm (S n) during s3 d3 ((key_subject k, key_time k) :: acc)
      end
  end.

(* [stop = Some k]: the consumer of the iterator breaks out of its range loop in the body of the k-th item (after its own
   SetTimer calls for that item); k = 0: the iterator is never run (the watermark is recorded all the same).  The current
   code deletes a timer from the store BEFORE it yields it, so what was handed out is gone and what was not is untouched:
   the stopped loop is [fire] with exactly k rounds of fuel. *)
Definition advance (q : quirks) (kgf : bytes -> N) (stop : option nat) (sender : N) (wm : Z) (during : list (nat * bytes * Z)) (st : sys) : list (bytes * Z) * sys :=
  let '(r, d) := st in
  let ups := ups_set sender wm (r_ups r) in
  let cw := ups_min ups in
  let fuel := match stop with None => S (length d + length during) | Some k => k end in
  let '(out, s', d') := fire q kgf fuel cw O during (r_store r) d [] in
  (out, ({| r_store := s'; r_ups := ups; r_wm := cw |}, d')).

(* histories *)
Inductive op :=
| SetTimer (key : bytes) (t : Z)
| Advance (sender : N) (wm : Z)
| AdvanceSet (sender : N) (wm : Z) (during : list (nat * bytes * Z))   (* SetTimer (key, t) right after the n-th yield *)
| AdvancePartial (sender : N) (wm : Z) (k : nat) (during : list (nat * bytes * Z))   (* the consumer stops after k items *)
| Restore.    (* checkpoint + restore: a new TimerStore and TimerRegistry over the DB content at this point *)

Record config := { cf_q : quirks; cf_kgf : bytes -> N; cf_start : N; cf_size : N; cf_cache : N; cf_srids : list N }.

Definition sys_new (c : config) (d : db) : sys :=
  (registry_new (tstore_new (cf_start c) (cf_size c) (cf_cache c)) (cf_srids c), d).

Definition step (c : config) (o : op) (st : sys) : list (list (bytes * Z)) * sys :=
  match o with
  | SetTimer k t => ([], set_timer (cf_q c) (cf_kgf c) k t st)
  | Advance s wm => let '(out, st') := advance (cf_q c) (cf_kgf c) None s wm [] st in ([out], st')
  | AdvanceSet s wm during => let '(out, st') := advance (cf_q c) (cf_kgf c) None s wm during st in ([out], st')
  | AdvancePartial s wm k during => let '(out, st') := advance (cf_q c) (cf_kgf c) (Some k) s wm during st in ([out], st')
  | Restore => ([], sys_new c (snd st))
  end.

(* outputs of the Advance operations, in order *)
Fixpoint run (c : config) (ops : list op) (st : sys) : list (list (bytes * Z)) * sys :=
  match ops with
  | [] => ([], st)
  | o :: r => let '(out, st1) := step c o st in let '(outs, st2) := run c r st1 in (out ++ outs, st2)
  end.
