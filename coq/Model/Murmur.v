(* util/murmur/murmur.go : MurmurHash3_x86_32, transcribed with the 32-bit wrap explicit. *)
From RV Require Export Base.Bytes.
Open Scope N_scope.

Definition mm_c1 : N := 0xcc9e2d51.
Definition mm_c2 : N := 0x1b873593.

Definition mm_mix_k (k1 : N) : N := mul32 (rotl32 (mul32 k1 mm_c1) 15) mm_c2.

(* the body loop: four bytes at a time; returns the running hash and the (< 4 byte) tail *)
Fixpoint mm_body (data : bytes) (h1 : N) : N * bytes :=
  match data with
  | b0 :: b1 :: b2 :: b3 :: rest =>
      let k1 := N.lor (N.lor (N.lor b0 (N.shiftl b1 8)) (N.shiftl b2 16)) (N.shiftl b3 24) in
      let h1 := xor32 h1 (mm_mix_k k1) in
      let h1 := rotl32 h1 13 in
      let h1 := add32 (mul32 h1 5) 0xe6546b64 in
      mm_body rest h1
  | tail => (h1, tail)
  end.

(* the tail switch with its fall-through *)
Definition mm_tail (tail : bytes) : N :=
  match tail with
  | [b0] => b0
  | [b0; b1] => N.lxor (N.shiftl b1 8) b0
  | [b0; b1; b2] => N.lxor (N.lxor (N.shiftl b2 16) (N.shiftl b1 8)) b0
  | _ => 0
  end.

Definition mm_fmix (h1 : N) : N :=
  let h1 := N.lxor h1 (N.shiftr h1 16) in
  let h1 := mul32 h1 0x85ebca6b in
  let h1 := N.lxor h1 (N.shiftr h1 13) in
  let h1 := mul32 h1 0xc2b2ae35 in
  N.lxor h1 (N.shiftr h1 16).

Definition murmur_hash (data : bytes) (seed : N) : N :=
  let '(h1, tail) := mm_body data (u32 seed) in
  let h1 := xor32 h1 (mm_mix_k (mm_tail tail)) in
  let h1 := xor32 h1 (u32 (N.of_nat (length data))) in
  mm_fmix h1.
