(* The DKV operations the operator calls (DB.Put, DB.Delete, DB.ScanPrefix), as runs of the LSM state machine of
   Model/Lsm.v (c07c18's model of dkv/db.go) under an arbitrary schedule of the background half-steps
   F1 F2 (flush task) and C1 C2 (compaction task).

   A state is (database, schedule). The schedule is a list of lists of background actions: every foreground action
   first takes the next list and lets those background steps happen (the ones not enabled in the state reached are
   skipped: they could not have happened), so a schedule describes exactly one interleaving
        bg* Put bg* Scan1 bg* Scan2 bg* Delete ...
   of the sequential operator thread with the two background tasks, and every interleaving is described by some
   schedule. A ScanPrefix is two foreground actions (memtable snapshot, then level-list snapshot) with background
   steps in between. Definitions only. *)
From Coq Require Import List NArith Bool.
From RV Require Import Base.Bytes.
From RV Require Model.LsmBase Model.LsmCompaction Model.Lsm.
Import ListNotations.
Open Scope N_scope.

Definition schedule := list (list Lsm.act).
Definition lsm_raw := (Lsm.db * schedule)%type.

Definition is_bg (a : Lsm.act) : bool :=
  match a with Lsm.AF1 | Lsm.AF2 | Lsm.AC1 | Lsm.AC2 => true | _ => false end.

(* background steps: only F1 F2 C1 C2 count, a step that is not enabled does not happen *)
Definition bg_step (cfg : Lsm.dbcfg) (st : Lsm.db) (a : Lsm.act) : Lsm.db :=
  if is_bg a then match Lsm.step cfg st a with Some (st', _) => st' | None => st end else st.
Definition bg_run (cfg : Lsm.dbcfg) (st : Lsm.db) (acts : list Lsm.act) : Lsm.db := fold_left (bg_step cfg) acts st.

Definition next_bg (sc : schedule) : list Lsm.act * schedule :=
  match sc with [] => ([], []) | b :: sc' => (b, sc') end.

(* one foreground action after the next batch of background steps *)
Definition fg (cfg : Lsm.dbcfg) (x : lsm_raw) (a : Lsm.act) : lsm_raw * Lsm.obs :=
  let (b, sc) := next_bg (snd x) in
  let st1 := bg_run cfg (fst x) b in
  match Lsm.step cfg st1 a with
  | Some (st2, o) => ((st2, sc), o)
  | None => ((st1, sc), Lsm.ONone)          (* not enabled: cannot occur between complete operations *)
  end.

Definition raw_put (cfg : Lsm.dbcfg) (k v : bytes) (x : lsm_raw) : lsm_raw := fst (fg cfg x (Lsm.APut k v)).
Definition raw_del (cfg : Lsm.dbcfg) (k : bytes) (x : lsm_raw) : lsm_raw := fst (fg cfg x (Lsm.ADel k)).
Definition raw_scan (cfg : Lsm.dbcfg) (p : bytes) (x : lsm_raw) : list (bytes * bytes) * lsm_raw :=   (* the LSM model has no read faults *)
  let (x1, _) := fg cfg x (Lsm.AScan1 p) in
  let (x2, o) := fg cfg x1 Lsm.AScan2 in
  (match o with Lsm.OScan r => r | _ => [] end, x2).

(* reopening a checkpoint: [reopen] is whatever dkv.Open makes of the captured database; the schedule goes on *)
Definition raw_restore (reopen : Lsm.db -> Lsm.db) (cur saved : lsm_raw) : lsm_raw := (reopen (fst saved), snd cur).
