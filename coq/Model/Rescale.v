(* Restoring one DKV database from SEVERAL checkpoint handles (rescaling), and reading it.
     dkv/recovery/checkpoint_list.go LoadCheckpointList   composite = first document, the others appended
     dkv/sst/level_list.go NewLevelListFromDocument        (levels >= 1 sorted by start key: the D21 repair)
     dkv/db.go Start                                       counter = max endSeqNum; WAL replay filtered by OwnsKey
     dkv/db.go ScanPrefix / level_list.go AllTablesForPrefix / table.go Range*  the only read path an operator uses
   Abstractions (stated in docs/C06.md): a table is the list of its entries; the entries replayed from the WALs and
   the writes after the restore live in one list [s_mem] whatever flushes happen later (ScanPrefix merges memtables and
   tables by sequence number alone, and C07/C18 say flush and compaction keep reads); MergeEntries is "per key, the
   entry with the greatest sequence number". *)
From RV Require Export Model.AssignRanges Model.KeyCodec.
Open Scope N_scope.

Record entry := mkE { e_key : bytes; e_seq : N; e_del : bool; e_val : N }.
(* t_id identifies the file (two handles may reference the same file after a scale-out) *)
Record table := mkT { t_id : N; t_start : bytes; t_end : bytes; t_endseq : N; t_entries : list entry }.
(* one entry of a `checkpoints` file: levels (index 0 first) and, per WAL handle, the entries after handle.After *)
Record ckdoc := mkD { d_levels : list (list table); d_wals : list (list entry) }.

(* compositeCheckpointDoc.Levels[levelIndex] = append(..., level...): None = index out of range panic *)
Fixpoint zip_app (a b : list (list table)) : option (list (list table)) :=
  match a, b with
  | _, [] => Some a
  | [], _ :: _ => None
  | x :: a', y :: b' => option_map (cons (x ++ y)) (zip_app a' b')
  end.

Fixpoint merge_into (c : ckdoc) (rest : list ckdoc) : option ckdoc :=
  match rest with
  | [] => Some c
  | d :: rest' =>
      match zip_app (d_levels c) (d_levels d) with
      | None => None
      | Some l => merge_into (mkD l (d_wals c ++ d_wals d)) rest'
      end
  end.

(* slices.SortStableFunc by start key: stable insertion sort (fold_right inserts earlier elements later, so an
   element goes BEFORE the elements with an equal start key that are already there) *)
Fixpoint ins_table (t : table) (l : list table) : list table :=
  match l with
  | [] => [t]
  | x :: l' => if bleb (t_start t) (t_start x) then t :: l else x :: ins_table t l'
  end.
Definition sort_level (l : list table) : list table := fold_right ins_table [] l.

(* [sorted] = the repaired code; false = the code before the D21 fix (History) *)
Definition level_list (sorted : bool) (levels : list (list table)) : list (list table) :=
  match levels with
  | [] => []
  | l0 :: deeper => l0 :: (if sorted then map sort_level deeper else deeper)
  end.

Definition latest_seq (levels : list (list table)) : N :=
  fold_left (fun acc t => N.max acc (t_endseq t)) (concat levels) 0.

Record dbstate := mkS { s_levels : list (list table); s_mem : list entry; s_seq : N }.

(* db.Put / db.Delete *)
Definition db_write (st : dbstate) (k : bytes) (del : bool) (v : N) : dbstate :=
  mkS (s_levels st) (mkE k (s_seq st + 1) del v :: s_mem st) (s_seq st + 1).

(* WAL replay: None = OwnsKey panics on a key shorter than two bytes *)
Fixpoint replay (own : kgrange) (st : dbstate) (es : list entry) : option dbstate :=
  match es with
  | [] => Some st
  | e :: es' =>
      match owns_key own (e_key e) with
      | None => None
      | Some false => replay own st es'
      | Some true => replay own (db_write st (e_key e) (e_del e) (e_val e)) es'
      end
  end.

Definition empty_db : dbstate := mkS [[];[];[];[];[];[]] [] 0.

(* dkv.Open(options, handles): None = panic *)
Definition restore (sorted : bool) (own : kgrange) (docs : list ckdoc) : option dbstate :=
  match docs with
  | [] => Some empty_db
  | d :: rest =>
      match merge_into d rest with
      | None => None
      | Some c =>
          let ll := level_list sorted (d_levels c) in
          replay own (mkS ll [] (latest_seq ll)) (concat (d_wals c))
      end
  end.

(* ---------- reads ---------- *)
Definition range_contains_prefix (t : table) (p : bytes) : bool :=
  (bleb (t_start t) p && bleb p (t_end t)) || is_prefix p (t_start t) || is_prefix p (t_end t).

Definition range_prefix_compare (t : table) (p : bytes) : comparison :=
  if is_prefix p (t_start t) || is_prefix p (t_end t) then Eq
  else match bcmp (t_start t) p with
       | Gt => Gt
       | _ => match bcmp (t_end t) p with Lt => Lt | _ => Eq end
       end.

(* slices.BinarySearchFunc: the smallest i with cmp(x[i]) >= 0 when cmp is monotone *)
Fixpoint bsearch (fuel : nat) (cmpf : nat -> comparison) (i j : nat) : nat :=
  match fuel with
  | O => i
  | S f =>
      if Nat.ltb i j then
        let h := Nat.div2 (i + j) in
        match cmpf h with
        | Lt => bsearch f cmpf (S h) j
        | _ => bsearch f cmpf i h
        end
      else i
  end.

Fixpoint take_while {A} (f : A -> bool) (l : list A) : list A :=
  match l with [] => [] | x :: l' => if f x then x :: take_while f l' else [] end.

Definition dummy_table : table := mkT 0 [] [] 0 [].

(* one level >= 1 of AllTablesForPrefix *)
Definition select_level (lvl : list table) (p : bytes) : list table :=
  let n := length lvl in
  let cmpf := fun h => range_prefix_compare (nth h lvl dummy_table) p in
  let i := bsearch (S n) cmpf 0 n in
  if Nat.ltb i n then
    match cmpf i with
    | Eq => take_while (fun t => range_contains_prefix t p) (skipn i lvl)
    | _ => []
    end
  else [].

Definition tables_for_prefix (levels : list (list table)) (p : bytes) : list table :=
  match levels with
  | [] => []
  | l0 :: deeper => filter (fun t => range_contains_prefix t p) l0 ++ flat_map (fun l => select_level l p) deeper
  end.

(* per key the entry with the greatest sequence number; result ascending by key.
   On equal sequence numbers the entry met first is kept (copies of one write are identical). *)
Fixpoint ins_entry (e : entry) (acc : list entry) : list entry :=
  match acc with
  | [] => [e]
  | x :: acc' =>
      match bcmp (e_key e) (e_key x) with
      | Lt => e :: acc
      | Eq => (if e_seq x <? e_seq e then e else x) :: acc'
      | Gt => x :: ins_entry e acc'
      end
  end.
Definition newest_by_key (es : list entry) : list entry := fold_left (fun acc e => ins_entry e acc) es [].

Definition candidates (st : dbstate) (p : bytes) : list entry :=
  filter (fun e => is_prefix p (e_key e))
         (s_mem st ++ flat_map t_entries (tables_for_prefix (s_levels st) p)).

(* db.ScanPrefix(prefix): (key, value) ascending, delete markers dropped last *)
Definition scan_prefix (st : dbstate) (p : bytes) : list (bytes * N) :=
  map (fun e => (e_key e, e_val e)) (filter (fun e => negb (e_del e)) (newest_by_key (candidates st p))).

(* the idealised read: every table of every level is consulted *)
Definition candidates_all (st : dbstate) (p : bytes) : list entry :=
  filter (fun e => is_prefix p (e_key e)) (s_mem st ++ flat_map t_entries (concat (s_levels st))).
Definition scan_prefix_all (st : dbstate) (p : bytes) : list (bytes * N) :=
  map (fun e => (e_key e, e_val e)) (filter (fun e => negb (e_del e)) (newest_by_key (candidates_all st p))).

(* ---------- what a rescale does for new operator i ---------- *)
Definition restore_new (sorted : bool) (count n : N) (recorded : list (kgrange * ckdoc)) (i : nat) : option dbstate :=
  let to := kg_ranges count n in
  match pick recorded (nth i (assign_ranges to (map fst recorded)) []) with
  | None => None
  | Some hs => restore sorted (nth i to (0, 0)) (map snd hs)
  end.

(* ---------- cleanliness and the class of the known finding ---------- *)
Definition key_in (r : kgrange) (k : bytes) : bool :=
  match owns_key r k with Some true => true | _ => false end.
Definition table_clean (r : kgrange) (t : table) : bool :=
  key_in r (t_start t) && key_in r (t_end t) && forallb (fun e => key_in r (e_key e)) (t_entries t).
(* every table / WAL entry of the checkpoint lies inside the checkpoint's own range *)
Definition doc_clean (rd : kgrange * ckdoc) : bool :=
  forallb (table_clean (fst rd)) (concat (d_levels (snd rd))) &&
  forallb (fun e => key_in (fst rd) (e_key e)) (concat (d_wals (snd rd))).

Definition ranges_meet (a b : table) : bool := bleb (t_start a) (t_end b) && bleb (t_start b) (t_end a).
Fixpoint any_pair {A} (f : A -> A -> bool) (l : list A) : bool :=
  match l with [] => false | x :: l' => existsb (f x) l' || any_pair f l' end.
(* class recompacted_shared_table (D22): some level >= 1 of the composite holds two DIFFERENT files whose key
   ranges meet (only possible when an operator re-compacted a table that it shared with another one) *)
Definition overlapping_level (levels : list (list table)) : bool :=
  match levels with
  | [] => false
  | _ :: deeper => existsb (any_pair (fun a b => negb (t_id a =? t_id b) && ranges_meet a b)) deeper
  end.
