(* Savepoints.
     storage/snapshots/savepoint_artifact.go  CreateSavepointArtifact / RestoreCheckpointFromSavepointArtifact
     dkv/recovery/list_files.go               ListFiles (which files an operator's `checkpoints` file references)
     storage/snapshots/store.go               CreateSavepoint (folding into a pending checkpoint), LoadCheckpoint
     dkv/recovery/checkpoint_list.go          LoadCheckpointList: which files restoring checkpoint id reads
   A file system is an association list uri -> content.  URIs are structured instead of strings:
   the working directory of operator op, the savepoint directory of snapshot id, the job's checkpoint file. *)
From Coq Require Import List NArith Bool.
From RV Require Export Base.Bytes.
Import ListNotations.
Open Scope N_scope.

Inductive uri :=
| UWork (op : N) (name : bytes)              (* <working>/<op>/<name>                          *)
| USave (id : N) (op : N) (name : bytes)     (* <savepoints>/<seg id>/dkv/<op prefix>/<name>  *)
| UJobCk (id : N)                            (* <checkpoints>/job-<seg id>.snapshot           *)
| UJobSp (id : N).                           (* <savepoints>/<seg id>/job.savepoint           *)

Fixpoint bytes_eqb (a b : bytes) : bool :=
  match a, b with
  | [], [] => true
  | x :: a', y :: b' => (x =? y) && bytes_eqb a' b'
  | _, _ => false
  end.
Definition uri_eqb (a b : uri) : bool :=
  match a, b with
  | UWork o n, UWork o' n' => (o =? o') && bytes_eqb n n'
  | USave i o n, USave i' o' n' => (i =? i') && (o =? o') && bytes_eqb n n'
  | UJobCk i, UJobCk i' => i =? i'
  | UJobSp i, UJobSp i' => i =? i'
  | _, _ => false
  end.

(* one entry of an operator's `checkpoints` file: DKV checkpoint id, the files it references (WALs then tables) *)
Definition ckentry := (N * list bytes)%type.
(* an operator checkpoint recorded in the job snapshot: operator, checkpoint id *)
Definition opckpt := (N * N)%type.

Inductive content :=
| FData (d : N)                               (* a table or WAL file *)
| FCkList (l : list ckentry)                  (* a `checkpoints` file *)
| FJob (id : N) (ops : list opckpt).          (* a job snapshot / savepoint file *)

Definition fsys := list (uri * content).
Fixpoint fs_read (fs : fsys) (u : uri) : option content :=
  match fs with
  | [] => None
  | (u', c) :: fs' => if uri_eqb u u' then Some c else fs_read fs' u
  end.
Definition fs_write (fs : fsys) (u : uri) (c : content) : fsys := (u, c) :: fs.
(* StorageLocation.Copy: ErrNotFound when the source is missing *)
Definition fs_copy (fs : fsys) (src dst : uri) : option fsys :=
  match fs_read fs src with Some c => Some (fs_write fs dst c) | None => None end.
Definition ck_name : bytes := [99; 104; 101; 99; 107; 112; 111; 105; 110; 116; 115].   (* "checkpoints" *)

(* recovery.ListFiles as used for checkpoint id.  by_id = true is the repaired code (the entry with the
   savepoint's own id); false is the code before the D25 fix: always the LAST entry.
   None = error / panic (empty list: index -1; id absent). *)
Definition list_files (by_id : bool) (l : list ckentry) (id : N) : option (list bytes) :=
  if by_id then
    match find (fun e => fst e =? id) l with Some e => Some (snd e) | None => None end
  else
    match rev l with e :: _ => Some (snd e) | [] => None end.

Fixpoint copy_all (fs : fsys) (pairs : list (uri * uri)) : option fsys :=
  match pairs with
  | [] => Some fs
  | (s, d) :: rest => match fs_copy fs s d with Some fs' => copy_all fs' rest | None => None end
  end.

(* CreateSavepointArtifact for snapshot (id, ops), whose job checkpoint file has just been written *)
Fixpoint sp_create_ops (by_id : bool) (fs : fsys) (id : N) (ops : list opckpt) : option fsys :=
  match ops with
  | [] => Some fs
  | (op, cid) :: rest =>
      match fs_read fs (UWork op ck_name) with
      | Some (FCkList l) =>
          match list_files by_id l cid with
          | Some files =>
              match copy_all fs (map (fun f => (UWork op f, USave id op f)) (files ++ [ck_name])) with
              | Some fs' => sp_create_ops by_id fs' id rest
              | None => None
              end
          | None => None
          end
      | _ => None
      end
  end.
Definition sp_create (by_id : bool) (fs : fsys) (id : N) (ops : list opckpt) : option fsys :=
  match sp_create_ops by_id fs id ops with
  | Some fs' => fs_copy fs' (UJobCk id) (UJobSp id)
  | None => None
  end.

(* all working storage is deleted: only the savepoint directories survive *)
Definition wipe (fs : fsys) : fsys :=
  filter (fun uc => match fst uc with USave _ _ _ | UJobSp _ => true | _ => false end) fs.

(* LoadCheckpoint with a savepoint URI: read the job file, copy every operator's files back into place *)
Fixpoint sp_restore_ops (by_id : bool) (fs : fsys) (id : N) (ops : list opckpt) : option fsys :=
  match ops with
  | [] => Some fs
  | (op, cid) :: rest =>
      match fs_read fs (USave id op ck_name) with
      | Some (FCkList l) =>
          match list_files by_id l cid with
          | Some files =>
              match copy_all fs (map (fun f => (USave id op f, UWork op f)) (files ++ [ck_name])) with
              | Some fs' => sp_restore_ops by_id fs' id rest
              | None => None
              end
          | None => None
          end
      | _ => None
      end
  end.
Definition sp_restore (by_id : bool) (fs : fsys) (id : N) : option (fsys * list opckpt) :=
  match fs_read fs (UJobSp id) with
  | Some (FJob _ ops) =>
      match sp_restore_ops by_id fs id ops with Some fs' => Some (fs', ops) | None => None end
  | _ => None
  end.

(* what dkv.Open(handle{cid, <op>/checkpoints}) reads: the checkpoints file, then every file of entry cid.
   None = a file is missing or the entry is absent (Open panics / fails). *)
Definition dkv_reads (fs : fsys) (op cid : N) : option (list (bytes * content)) :=
  match fs_read fs (UWork op ck_name) with
  | Some (FCkList l) =>
      match find (fun e => fst e =? cid) l with
      | Some e =>
          fold_right (fun f acc =>
                        match fs_read fs (UWork op f), acc with
                        | Some c, Some r => Some ((f, c) :: r)
                        | _, _ => None
                        end) (Some []) (snd e)
      | None => None
      end
  | _ => None
  end.

(* ---------- store.go: CreateCheckpoint / CreateSavepoint / acknowledgements ---------- *)
Record pending := mkP { p_id : N; p_sp : bool; p_missing : list N; p_acks : list opckpt }.
Record store := mkSt { st_counter : N; st_pending : option pending; st_done : list (N * bool * list opckpt) }.

Inductive sres := RId (id : N) (created : bool) | RErr.

Definition create_checkpoint (s : store) (ops : list N) : store * sres :=
  match st_pending s with
  | Some _ => (s, RErr)                                            (* ErrCheckpointInProgress *)
  | None => let id := st_counter s + 1 in
            (mkSt id (Some (mkP id false ops [])) (st_done s), RId id true)
  end.
Definition create_savepoint (s : store) (ops : list N) : store * sres :=
  match st_pending s with
  | Some p => if p_sp p then (s, RErr)                             (* "savepoint already in-progress" *)
              else (mkSt (st_counter s) (Some (mkP (p_id p) true (p_missing p) (p_acks p))) (st_done s), RId (p_id p) false)
  | None => let id := st_counter s + 1 in
            (mkSt id (Some (mkP id true ops [])) (st_done s), RId id true)
  end.
(* jobs/job.go HandleCreateSavepoint: CreateSavepoint, then Assembly.StartCheckpoint(id) ONLY when the checkpoint is new.
   The third component lists the StartCheckpoint rounds broadcast to the source runners. *)
Definition job_create_savepoint (s : store) (ops : list N) : store * sres * list N :=
  let '(s', r) := create_savepoint s ops in
  (s', r, match r with RId id true => [id] | _ => [] end).
(* the periodic ticker: CreateCheckpoint, then StartCheckpoint(id) unless a checkpoint is in progress *)
Definition job_tick (s : store) (ops : list N) : store * sres * list N :=
  let '(s', r) := create_checkpoint s ops in
  (s', r, match r with RId id _ => [id] | RErr => [] end).

(* all nodes acknowledge the pending checkpoint *)
Definition job_ack_all (s : store) : store :=
  match st_pending s with
  | Some p => mkSt (st_counter s) None (st_done s ++ [(p_id p, p_sp p, p_acks p)])
  | None => s
  end.
Definition job_act (sr : store * list N) (a : N) : store * list N :=
  let '(s, rounds) := sr in
  match a with
  | 0 => let '(s', _, st) := job_tick s [0] in (s', rounds ++ st)
  | 1 => let '(s', _, st) := job_create_savepoint s [0] in (s', rounds ++ st)
  | _ => (job_ack_all s, rounds)
  end.

(* AddOperatorSnapshot (one ack per operator; wrong id or nothing pending: error, no change) *)
Definition add_ack (s : store) (op cid : N) : store * bool :=
  match st_pending s with
  | Some p =>
      if (p_id p =? cid) && existsb (N.eqb op) (p_missing p) then
        let missing := filter (fun o => negb (o =? op)) (p_missing p) in
        let acks := p_acks p ++ [(op, cid)] in
        match missing with
        | [] => (mkSt (st_counter s) None (st_done s ++ [(p_id p, p_sp p, acks)]), true)
        | _ => (mkSt (st_counter s) (Some (mkP (p_id p) (p_sp p) missing acks)) (st_done s), true)
        end
      else (s, false)
  | None => (s, false)
  end.

(* ---------- the observations of engine mode c14 ---------- *)
(* per operator of the savepoint's job checkpoint: wanted DKV checkpoint id, URI of its `checkpoints` file, the entries
   of that file when the artifact was written (file URIs).  artifact = original URIs of all DKV files found in the
   savepoint directory; after = those of them present in the working storage after the wipe and the restore copy. *)
Definition op_obs := (N * bytes * list ckentry)%type.
Inductive sp_case :=
| SpFiles (ops : list op_obs) (artifact after : list bytes) (restored : bool)
| SpFold (pending_before : bool) (pending_id : N) (counter_before : N) (ret : sres) (counter_after : N) (still_pending_id : N)
| SpOutcome (fault published : bool)
   (* fault = the copy of one referenced DKV file into the artifact failed with "not found" (injected);
      published = the savepoint id resolves to a URI after every gated write was released *)
| SpTicks (acts : list N) (rounds : list N)
   (* the REAL job under a manual clock: acts 0 = the periodic ticker fires, 1 = a savepoint is requested,
      2 = the pending checkpoint is acknowledged by every node; rounds = the StartCheckpoint ids every source runner received *)
| SpStarts (pending_before : bool) (counter_before : N) (starts : list N).
   (* the StartCheckpoint calls a source runner received from the job while the savepoint's checkpoint was taken:
      the periodic tick (when pending_before) followed by the savepoint request *)

Fixpoint ins_bytes (b : bytes) (l : list bytes) : list bytes :=
  match l with
  | [] => [b]
  | x :: l' => match bcmp b x with Lt => b :: l | Eq => l | Gt => x :: ins_bytes b l' end
  end.
Definition sort_names (l : list bytes) : list bytes := fold_right ins_bytes [] l.
Fixpoint names_eqb (a b : list bytes) : bool :=
  match a, b with
  | [], [] => true
  | x :: a', y :: b' => bytes_eqb x y && names_eqb a' b'
  | _, _ => false
  end.
Definition subset_names (a b : list bytes) : bool := forallb (fun x => existsb (bytes_eqb x) b) a.

Fixpoint list_N_eqb (a b : list N) : bool :=
  match a, b with
  | [], [] => true
  | x :: a', y :: b' => (x =? y) && list_N_eqb a' b'
  | _, _ => false
  end.

Definition sres_eqb (a b : sres) : bool :=
  match a, b with
  | RId i c, RId i' c' => (i =? i') && Bool.eqb c c'
  | RErr, RErr => true
  | _, _ => false
  end.

Definition check_sp (c : sp_case) : list N :=
  match c with
  | SpFiles ops artifact after restored =>
      (* model: the artifact holds exactly, for every operator, the files list_files names plus its checkpoints file *)
      (match fold_right (fun o acc => match o, acc with
                           | (cid, ckf, entries), Some r =>
                               match list_files true entries cid with Some fs => Some (fs ++ [ckf] ++ r) | None => None end
                           | _, None => None end) (Some []) ops with
       | Some expect => if names_eqb (sort_names artifact) (sort_names expect) then [] else [30]
       | None => [31]
       end) ++
      (* spec: closed - every file that restoring checkpoint cid of every operator reads is in the artifact, and is
         back in place after the working storage was wiped and the savepoint restored *)
      flat_map (fun o => match o with (cid, ckf, entries) =>
         match find (fun e => fst e =? cid) entries with
         | Some e => (if subset_names (ckf :: snd e) artifact then [] else [130]) ++
                     (if subset_names (ckf :: snd e) after then [] else [131])
         | None => [132]
         end end) ops ++
      (if restored then [] else [133])
  | SpFold pending_before pid counter_before ret counter_after still =>
      let s := mkSt counter_before (if pending_before then Some (mkP pid false [0] []) else None) [] in
      let '(s', r) := create_savepoint s [0] in
      (if sres_eqb r ret && (st_counter s' =? counter_after) then [] else [32]) ++
      (* spec: during a pending checkpoint the request returns that id, creates nothing, the counter stays *)
      (if pending_before then
         (match ret with RId i false => if (i =? pid) && (counter_after =? counter_before) && (still =? pid) then [] else [134]
                    | _ => [134] end)
       else
         (match ret with RId i true => if (i =? counter_before + 1) && (counter_after =? i) then [] else [135]
                    | _ => [135] end))
  | SpOutcome fault published =>
      (* model: sp_create fails exactly when a copy fails (copy_all = None), otherwise the artifact is written *)
      (if Bool.eqb published (negb fault) then [] else [34]) ++
      (* spec: an incomplete savepoint is never published; an accepted request without a fault yields an artifact *)
      (if fault && published then [137] else []) ++
      (if negb fault && negb published then [138] else [])
  | SpTicks acts rounds =>
      let expect := snd (fold_left job_act acts (mkSt 0 None [], [])) in
      (if list_N_eqb rounds expect then [] else [33]) ++
      (* spec: every StartCheckpoint round has a fresh id >= 1: no round with id 0, none repeated - in particular none
         while a savepoint's (or any) checkpoint is still pending *)
      (if existsb (N.eqb 0) rounds || negb (list_N_eqb (nodup N.eq_dec rounds) rounds) then [136] else [])
  | SpStarts pending_before counter_before starts =>
      let s0 := mkSt counter_before None [] in
      let '(s1, _, st1) := if pending_before then job_tick s0 [0] else (s0, RErr, []) in
      let '(_, r, st2) := job_create_savepoint s1 [0] in
      (if list_N_eqb starts (st1 ++ st2) then [] else [33]) ++
      (* spec: exactly one StartCheckpoint round for the checkpoint id the savepoint uses, whether it folded or not *)
      (match r with
       | RId id _ => if list_N_eqb starts [id] then [] else [136]
       | RErr => [136]
       end)
  end.
