(* Model of storage/snapshots/store.go + snapshot.go as the job uses them (jobs/job.go): the store state machine
   {completedSnapshots, pendingSnapshot, checkpointID}, the API calls CreateCheckpoint / CreateSavepoint /
   AddOperatorSnapshot / AddSourceSnapshot, publication of a completed snapshot (serial here: the asynchronous
   steps of ONE publication run to completion before the next API call; overlapping publications are the
   subject of Model/Publish.v) and Restart = a new Store + LoadCheckpoint on the same storage.
   Node names are numbers; an operator ack carries (operator, checkpoint id, payload = its DKV file);
   a source-runner ack carries a list of split states (numbers).  Definitions only. *)
From RV Require Import Base.Mach.
Open Scope N_scope.

(* quirk: the behaviour of snapshot.go addSourceRunnerSnapshot before the repair of D15 *)
Record quirks := MkQuirks { dup_sr_ack_appends : bool }.
Definition repaired : quirks := MkQuirks false.
Definition before_d15 : quirks := MkQuirks true.

Definition entry := (N * N * N)%type.  (* operator, checkpoint id of the ack, payload *)
Record snapobs := MkSnap { sn_id : N; sn_entries : list entry; sn_splits : list N }.

(* jobSnapshot while pending *)
Record pending := MkPending {
  p_id : N;
  p_ops : list (N * bool);   (* operatorIDsComplete (a Go map: keys unique) *)
  p_srs : list (N * bool);   (* sourceRunnerIDsComplete *)
  p_entries : list entry;    (* operatorCheckpoints *)
  p_splits : list N;         (* splitStates *)
  p_sp : bool }.             (* isSavepoint *)

Record store := MkStore {
  completed : list snapobs;  (* completedSnapshots *)
  pend : option pending;     (* pendingSnapshot *)
  ckpt_id : N }.             (* checkpointID *)

(* + the snapshot files in storage; [w_lose]: fault injection - the Remove calls of the current process do not
   reach storage (the process will die before its asynchronous cleanup lands), so obsolete files pile up *)
(* [w_sps]: the savepoint artifacts in storage (savepoints/<segment>/job.savepoint, one per id, a copy of the job
   checkpoint file made at publication) *)
(* [w_failw]: fault injection - the next Write of a snapshot file returns an error *)
Record world := MkWorld { w_store : store; w_files : list snapobs; w_lose : bool; w_sps : list snapobs; w_failw : bool }.

Definition new_store : store := MkStore [] None 0.
Definition init : world := MkWorld new_store [] false [] false.

(* ---- Go maps string -> bool as association lists with unique keys ---- *)
Definition mk_flags (l : list N) : list (N * bool) := map (fun x => (x, false)) (nodup N.eq_dec l).
Fixpoint flag_of (k : N) (m : list (N * bool)) : option bool :=
  match m with
  | [] => None
  | (k', b) :: m' => if k' =? k then Some b else flag_of k m'
  end.
Fixpoint set_flag (k : N) (m : list (N * bool)) : list (N * bool) :=
  match m with
  | [] => []
  | (k', b) :: m' => if k' =? k then (k', true) :: m' else (k', b) :: set_flag k m'
  end.
Definition all_set (m : list (N * bool)) : bool := forallb snd m.

Definition new_pending (id : N) (ops srs : list N) (sp : bool) : pending :=
  MkPending id (mk_flags ops) (mk_flags srs) [] [] sp.

(* jobSnapshot.isComplete *)
Definition is_complete (p : pending) : bool := all_set (p_srs p) && all_set (p_ops p).

(* jobSnapshot.addOperatorSnapshot; the error is only logged by the store *)
Definition add_op (p : pending) (e : entry) : pending :=
  match flag_of (fst (fst e)) (p_ops p) with
  | Some false => MkPending (p_id p) (set_flag (fst (fst e)) (p_ops p)) (p_srs p) (p_entries p ++ [e]) (p_splits p) (p_sp p)
  | _ => p
  end.

(* jobSnapshot.addSourceRunnerSnapshot: None = error returned *)
Definition add_sr (q : quirks) (p : pending) (sr : N) (sts : list N) : option pending :=
  let accept := MkPending (p_id p) (p_ops p) (set_flag sr (p_srs p)) (p_entries p) (p_splits p ++ sts) (p_sp p) in
  match flag_of sr (p_srs p) with
  | None => None
  | Some true => if dup_sr_ack_appends q then Some accept else None
  | Some false => Some accept
  end.

(* what a publication does, as observed: the file written, the Remove calls, the retained-id notifications,
   whether the savepoint artifact was written *)
Record pubobs := MkPub { pb_snap : snapobs; pb_removed : list (list N); pb_notes : list (list N); pb_sp : bool }.

Definition snap_of (p : pending) : snapobs := MkSnap (p_id p) (p_entries p) (p_splits p).
Definition ids_of (l : list snapobs) : list N := map sn_id l.
Definition without (ids : list N) (l : list snapobs) : list snapobs :=
  filter (fun s => negb (existsb (N.eqb (sn_id s)) ids)) l.

(* finishSnapshot + finishSnapshotAsync run to completion (repaired code: guarded by id) *)
Definition publish (w : world) (p : pending) : world * pubobs :=
  let s := snap_of p in
  let st := w_store w in
  let files1 := s :: without [sn_id s] (w_files w) in                       (* Write (create or truncate) *)
  let superseded := existsb (fun c => sn_id s <? sn_id c) (completed st) in
  let cleanup := negb superseded && negb (match completed st with [] => true | _ => false end) in
  let obsolete := ids_of (completed st) in
  let files2 := if cleanup && negb (w_lose w) then without obsolete files1 else files1 in
  let st' := MkStore (if superseded then completed st else [s]) None (ckpt_id st) in
  (MkWorld st' files2 (w_lose w) (if p_sp p then s :: without [sn_id s] (w_sps w) else w_sps w) (w_failw w),
   MkPub s (if cleanup then [obsolete] else []) (if cleanup then [[sn_id s]] else []) (p_sp p)).

(* LoadCheckpoint (repaired code): the snapshot file with the greatest id *)
Fixpoint max_snap (best : option snapobs) (l : list snapobs) : option snapobs :=
  match l with
  | [] => best
  | s :: l' =>
      match best with
      | None => max_snap (Some s) l'
      | Some b => if sn_id b <? sn_id s then max_snap (Some s) l' else max_snap best l'
      end
  end.
Fixpoint find_snap (id : N) (l : list snapobs) : option snapobs :=
  match l with
  | [] => None
  | s :: l' => if sn_id s =? id then Some s else find_snap id l'
  end.
Definition load_store (files : list snapobs) : store :=
  match max_snap None files with
  | None => new_store
  | Some s => MkStore [s] None (sn_id s)
  end.

Inductive action :=
| ACreate (ops srs : list N)
| ASavepoint (ops srs : list N)
| AAckOp (cid op pl : N)
| AAckSr (cid sr : N) (sts : list N)
| ARestart
| ALoseRemoves (b : bool)    (* fault injection, not an API call *)
| ARestartFrom (id : N)      (* a new Store started with the SavepointURI of savepoint [id] on the same storage *)
| AAbort                     (* AbortPendingCheckpoint (the job calls it when it starts a new assembly) *)
| AFailNextWrite.            (* fault injection: the next Write of a snapshot file fails *)

Inductive result :=
| RCreate (err : bool) (id : N)
| RSavepoint (err : bool) (id : N) (created : bool)
| RAck (err : bool) (pub : option pubobs)
| RRestart (files : list N) (cur : option snapobs)
(* the acknowledgement completed the checkpoint but the Write of its snapshot file failed (error on the error
   channel): Remove calls, notifications and CurrentCheckpoint().Id observed afterwards *)
| RAckFailed (err : bool) (removed notes : list (list N)) (cur : option N)
| RFault.

Definition with_pending (w : world) (p : option pending) : world :=
  MkWorld (MkStore (completed (w_store w)) p (ckpt_id (w_store w))) (w_files w) (w_lose w) (w_sps w) (w_failw w).

Definition cur_of (w : world) : option N := match completed (w_store w) with c :: _ => Some (sn_id c) | [] => None end.

(* the write of the snapshot file fails: finishSnapshotAsync returns the error before touching anything; the
   pending snapshot is gone (it was cleared when it completed), the id is used up *)
Definition fail_publish (w : world) : world :=
  MkWorld (MkStore (completed (w_store w)) None (ckpt_id (w_store w))) (w_files w) (w_lose w) (w_sps w) false.

Definition finish_if_complete (w : world) (p : pending) : world * result :=
  if is_complete p then
    if w_failw w then (fail_publish w, RAckFailed false [] [] (cur_of w))
    else let (w', pub) := publish w p in (w', RAck false (Some pub))
  else (with_pending w (Some p), RAck false None).

Definition step (q : quirks) (w : world) (a : action) : world * result :=
  let st := w_store w in
  match a with
  | ACreate ops srs =>
      match pend st with
      | Some _ => (w, RCreate true 0)
      | None =>
          let id := ckpt_id st + 1 in
          (MkWorld (MkStore (completed st) (Some (new_pending id ops srs false)) id) (w_files w) (w_lose w) (w_sps w) (w_failw w), RCreate false id)
      end
  | ASavepoint ops srs =>
      match pend st with
      | Some p =>
          if p_sp p then (w, RSavepoint true 0 false)
          else (with_pending w (Some (MkPending (p_id p) (p_ops p) (p_srs p) (p_entries p) (p_splits p) true)),
                RSavepoint false (p_id p) false)
      | None =>
          let id := ckpt_id st + 1 in
          (MkWorld (MkStore (completed st) (Some (new_pending id ops srs true)) id) (w_files w) (w_lose w) (w_sps w) (w_failw w), RSavepoint false id true)
      end
  | AAckOp cid op pl =>
      match pend st with
      | None => (w, RAck true None)
      | Some p =>
          if negb (p_id p =? cid) then (w, RAck true None)
          else finish_if_complete w (add_op p (op, cid, pl))
      end
  | AAckSr cid sr sts =>
      match pend st with
      | None => (w, RAck true None)
      | Some p =>
          if negb (p_id p =? cid) then (w, RAck true None)
          else match add_sr q p sr sts with
               | None => (w, RAck true None)
               | Some p' => finish_if_complete w p'
               end
      end
  | ARestart =>
      let st' := load_store (w_files w) in
      (MkWorld st' (w_files w) false (w_sps w) false, RRestart (ids_of (w_files w)) (hd_error (completed st')))
  | ALoseRemoves b => (MkWorld st (w_files w) b (w_sps w) (w_failw w), RFault)
  | AFailNextWrite => (MkWorld st (w_files w) (w_lose w) (w_sps w) true, RFault)
  | ARestartFrom id =>
      (* LoadCheckpoint with a savepoint URI: the savepoint overrides whatever checkpoints the storage holds *)
      match find_snap id (w_sps w) with
      | Some a => (MkWorld (MkStore [a] None (sn_id a)) (w_files w) false (w_sps w) false, RRestart (ids_of (w_files w)) (Some a))
      | None => (MkWorld new_store (w_files w) false (w_sps w) false, RRestart (ids_of (w_files w)) None)
      end
  | AAbort => (with_pending w None, RFault)
  end.

Fixpoint run (q : quirks) (w : world) (acts : list action) : list result :=
  match acts with
  | [] => []
  | a :: acts' => let (w', r) := step q w a in r :: run q w' acts'
  end.

Fixpoint final (q : quirks) (w : world) (acts : list action) : world :=
  match acts with
  | [] => w
  | a :: acts' => final q (fst (step q w a)) acts'
  end.

Definition trace (q : quirks) (acts : list action) : list (action * result) := combine acts (run q init acts).

(* ================= the specification of C12 as a monitor over observed traces =================
   It looks only at (call, result) pairs - the API-level observables - and keeps its own record of which
   acknowledgements count: an ack counts iff it names the checkpoint in progress, comes from a node of the
   assembly given at creation that has not been counted yet (and, for a source runner, was not refused).
   Codes: 11 a published snapshot is not "one entry per operator of the assembly, each carrying the id, and the
   split states of every source runner once"; 12 published before every node of the assembly has a counted ack;
   13 a second checkpoint in progress; 14 an id handed out is not greater than the previous one of this store
   lifetime; 15 an id handed out is not greater than every id published so far (also across restarts; after a start from a
   savepoint: not greater than that savepoint's id and everything published since);
   16 a restart does not resume from the newest published checkpoint / a start from a savepoint not from it;
   18 a checkpoint whose snapshot write failed nevertheless removed files, announced retention or became current. *)
Record mpend := MkMPend {
  mp_id : N; mp_ops : list N; mp_srs : list N;
  mp_got_ops : list entry; mp_got_srs : list (N * list N) }.
(* [m_pub]: the latest publication of every id ever published (what the storage would hold if nothing were ever
   cleaned up); [m_cur]: the ids new ids have to exceed - everything published since the last start, plus, after a
   plain restart, every id ever published, or, after a start from a savepoint (an explicit rewind by the
   operator), that savepoint's id; [m_sps]: the savepoint artifacts written so far, one per id *)
Record mon := MkMon { m_pend : option mpend; m_last : N; m_pub : list snapobs; m_cur : list N; m_sps : list snapobs }.
Definition mon_init : mon := MkMon None 0 [] [] [].

Definition mem (x : N) (l : list N) : bool := existsb (N.eqb x) l.
Definition entry_eqb (a b : entry) : bool :=
  (fst (fst a) =? fst (fst b)) && (snd (fst a) =? snd (fst b)) && (snd a =? snd b).
Definition entry_op (e : entry) : N := fst (fst e).
Definition entry_cid (e : entry) : N := snd (fst e).
Fixpoint nodupb (l : list N) : bool :=
  match l with [] => true | x :: l' => negb (mem x l') && nodupb l' end.
Fixpoint ins_sorted (x : N) (l : list N) : list N :=
  match l with [] => [x] | y :: l' => if x <=? y then x :: l else y :: ins_sorted x l' end.
Definition sortN (l : list N) : list N := fold_right ins_sorted [] l.
Fixpoint listN_eqb (a b : list N) : bool :=
  match a, b with
  | [], [] => true
  | x :: a', y :: b' => (x =? y) && listN_eqb a' b'
  | _, _ => false
  end.
Definition incl_b {A} (eqb : A -> A -> bool) (a b : list A) : bool := forallb (fun x => existsb (eqb x) b) a.

(* the published snapshot against the counted acks *)
Definition content_ok (mp : mpend) (s : snapobs) : bool :=
  (sn_id s =? mp_id mp)
  && nodupb (map entry_op (sn_entries s))
  && incl_b entry_eqb (sn_entries s) (mp_got_ops mp) && incl_b entry_eqb (mp_got_ops mp) (sn_entries s)
  && forallb (fun e => entry_cid e =? sn_id s) (sn_entries s)
  && incl_b N.eqb (map entry_op (sn_entries s)) (mp_ops mp)
  && listN_eqb (sortN (sn_splits s)) (sortN (concat (map snd (mp_got_srs mp)))).
Definition all_acked (mp : mpend) : bool :=
  incl_b N.eqb (mp_ops mp) (map entry_op (mp_got_ops mp)) && incl_b N.eqb (mp_srs mp) (map fst (mp_got_srs mp)).

Definition snap_eqb (a b : snapobs) : bool :=
  (sn_id a =? sn_id b)
  && (Nat.eqb (length (sn_entries a)) (length (sn_entries b))) && incl_b entry_eqb (sn_entries a) (sn_entries b)
  && listN_eqb (sn_splits a) (sn_splits b).

Definition mon_pub (m : mon) (pub : option pubobs) : mon * list N :=
  match pub with
  | None => (m, [])
  | Some pb =>
      let s := pb_snap pb in
      let codes :=
        match m_pend m with
        | None => [11]
        | Some mp => (if content_ok mp s then [] else [11]) ++ (if all_acked mp then [] else [12])
        end in
      (MkMon None (m_last m) (s :: without [sn_id s] (m_pub m)) (sn_id s :: m_cur m)
             (if pb_sp pb then s :: without [sn_id s] (m_sps m) else m_sps m), codes)
  end.

Definition res_err (r : result) : bool :=
  match r with RAck e _ => e | RAckFailed e _ _ _ => e | _ => false end.

(* the result of an acknowledgement, after the monitor has counted it: a publication, or a failed write - which
   must leave everything as if the checkpoint had not completed: nothing removed, nothing announced, the
   unpersisted checkpoint not current (code 18) *)
Definition mon_ack (m : mon) (r : result) : mon * list N :=
  match r with
  | RAck _ pub => mon_pub m pub
  | RAckFailed _ removed notes cur =>
      (MkMon None (m_last m) (m_pub m) (m_cur m) (m_sps m),
       match m_pend m with
       | Some mp =>
           if (match removed with [] => true | _ => false end) && (match notes with [] => true | _ => false end)
              && negb (match cur with Some c => c =? mp_id mp | None => false end) then [] else [18]
       | None => [18]
       end)
  | _ => (m, [])
  end.

Definition mon_create (m : mon) (id : N) (ops srs : list N) : mon * list N :=
  (MkMon (Some (MkMPend id ops srs [] [])) id (m_pub m) (m_cur m) (m_sps m),
   (match m_pend m with Some _ => [13] | None => [] end)
   ++ (if id <=? m_last m then [14] else [])
   ++ (if existsb (fun i => id <=? i) (m_cur m) then [15] else [])).

Definition mon_step (m : mon) (ev : action * result) : mon * list N :=
  match ev with
  | (ACreate ops srs, RCreate false id) => mon_create m id ops srs
  | (ASavepoint ops srs, RSavepoint false id true) => mon_create m id ops srs
  | (ASavepoint _ _, RSavepoint false id false) =>
      (m, match m_pend m with Some mp => if mp_id mp =? id then [] else [13] | None => [13] end)
  | (AAckOp cid op pl, r) =>
      let m1 :=
        match m_pend m with
        | Some mp =>
            if (mp_id mp =? cid) && mem op (mp_ops mp) && negb (mem op (map entry_op (mp_got_ops mp)))
            then MkMon (Some (MkMPend (mp_id mp) (mp_ops mp) (mp_srs mp) (mp_got_ops mp ++ [(op, cid, pl)]) (mp_got_srs mp)))
                       (m_last m) (m_pub m) (m_cur m) (m_sps m)
            else m
        | None => m
        end in
      mon_ack m1 r
  | (AAckSr cid sr sts, r) =>
      let m1 :=
        match m_pend m with
        | Some mp =>
            if negb (res_err r) && (mp_id mp =? cid) && mem sr (mp_srs mp) && negb (mem sr (map fst (mp_got_srs mp)))
            then MkMon (Some (MkMPend (mp_id mp) (mp_ops mp) (mp_srs mp) (mp_got_ops mp) (mp_got_srs mp ++ [(sr, sts)])))
                       (m_last m) (m_pub m) (m_cur m) (m_sps m)
            else m
        | None => m
        end in
      mon_ack m1 r
  | (ARestart, RRestart _ cur) =>
      (MkMon None 0 (m_pub m) (ids_of (m_pub m)) (m_sps m),
       match max_snap None (m_pub m), cur with
       | None, None => []
       | Some s, Some c => if snap_eqb s c then [] else [16]
       | _, _ => [16]
       end)
  | (ARestartFrom id, RRestart _ cur) =>
      (MkMon None 0 (m_pub m) (match find_snap id (m_sps m) with Some s => [sn_id s] | None => [] end) (m_sps m),
       match find_snap id (m_sps m), cur with
       | None, None => []
       | Some s, Some c => if snap_eqb s c then [] else [16]
       | _, _ => [16]
       end)
  | (AAbort, _) => (MkMon None (m_last m) (m_pub m) (m_cur m) (m_sps m), [])
  | _ => (m, [])
  end.

Fixpoint mon_run (m : mon) (tr : list (action * result)) : list N :=
  match tr with
  | [] => []
  | ev :: tr' => let (m', codes) := mon_step m ev in codes ++ mon_run m' tr'
  end.
