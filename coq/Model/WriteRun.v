(* dkv/sst/table_writer.go WriteRun: chunk an entry stream into tables of about targetSize (in FlushSize units),
   looking ahead up to 1.5 x targetSize so that a short tail is merged into the last table. *)
From RV Require Export Model.SstTable.
Open Scope N_scope.

(* sst.FlushSize: uint32(17 + len(key) + len(value)) *)
Definition flush_size (e : entry) : N := u32 (17 + blen (e_key e) + blen (e_val e)).
Definition run_size (es : list entry) : N := fold_right (fun e a => flush_size e + a) 0 es.

(* int(math.Floor(float64(target) * 1.5)); exact for target < 2^52 *)
Definition max_buffer (target : N) : N := target + target / 2.

(* one of the two inner loops: pull entries while size < limit.
   Result: buffer, its size, the rest of the stream, and whether next() reported the end of the stream. *)
Fixpoint fill (limit : N) (buf : list entry) (sz : N) (rest : list entry)
  : list entry * N * list entry * bool :=
  match rest with
  | [] => (buf, sz, [], sz <? limit)
  | e :: r => if sz <? limit then fill limit (buf ++ [e]) (sz + flush_size e) r else (buf, sz, rest, false)
  end.

(* the outer loop. [written] = some table has been written already; [skip_empty_tail] = the repaired code
   (15120f6, D29) which does not write an empty table after the last chunk. *)
Fixpoint write_run_loop (skip_empty_tail : bool) (fuel : nat) (target mx : N) (written : bool)
         (buf : list entry) (sz : N) (rest : list entry) : list (list entry) :=
  match fuel with
  | O => []
  | S f =>
      let '(b1, sz1, rest1, ended1) := fill target buf sz rest in
      if ended1 then
        match b1 with
        | [] => if skip_empty_tail && written then [] else [b1]
        | _ => [b1]
        end
      else
        let cut := length b1 in
        let '(b2, sz2, rest2, ended2) := fill mx b1 sz1 rest1 in
        if ended2 then [b2]
        else firstn cut b2 :: write_run_loop skip_empty_tail f target mx true (skipn cut b2) (sz2 - sz1) rest2
  end.

Definition write_run_gen (fix_ : bool) (es : list entry) (target : N) : list (list entry) :=
  write_run_loop fix_ (S (length es)) target (max_buffer target) false [] 0 es.
Definition write_run := write_run_gen true.
Definition write_run_old := write_run_gen false.

(* the tables WriteRun returns *)
Definition write_run_tables (tp : tparams) (es : list entry) (target : N) : list table := map (write_table tp) (write_run es target).

(* ---------- reading the split run back as a sorted level (LevelList over {}, run) ----------
   LevelList.ScanPrefixEntries selects the tables of a level >= 1 with slices.BinarySearchFunc / RangePrefixCompare and
   a forward scan while RangeContainsPrefix, LevelList.Get selects one table with SearchUnique / RangeKeyCompare.
   The selection itself is modelled and proved complete for chains of disjoint ranges elsewhere (Props/C06.v
   level_search_complete, Proofs/C19_Search.v); tables that are not selected hold no entry with the prefix / key.
   Here the level read is therefore the in-order composition of the per-table reads. *)
Definition level_scan (ts : list table) (prefix : bytes) : option (list entry) :=
  fold_right (fun t acc => match table_scan_prefix t prefix, acc with
                           | Some x, Some y => Some (x ++ y) | _, _ => None end) (Some []) ts.
Fixpoint level_get (ts : list table) (key : bytes) : get_res :=
  match ts with
  | [] => GNotFound
  | t :: r => match table_get t key with GNotFound => level_get r key | res => res end
  end.
