(* workers/operator/keyed_state_store.go (encodeDBKey, encodeSubjectKey, decodeKey),
   workers/operator/timer_store.go (encodeTimerKey, timerFromBytes),
   workers/operator/operator_partition.go (OwnsKey), util/binu (PutTimeBytes). *)
From RV Require Export Model.KeySpace.
Open Scope N_scope.

Definition blen (b : bytes) : N := N.of_nat (length b).

(* <key-group:2 BE><0x00><len(subject):4 BE><subject><len(ns):1><ns><data> ; the length casts wrap as in Go *)
Definition encode_db_key (count : N) (subject ns data : bytes) : bytes :=
  be16 (key_group count subject) ++ [0] ++ be32 (u32 (blen subject)) ++ subject
    ++ [u8 (blen ns)] ++ ns ++ data.

Definition encode_subject_key (count : N) (subject : bytes) : bytes :=
  be16 (key_group count subject) ++ [0] ++ be32 (u32 (blen subject)) ++ subject.

(* decodeKey: skip 3 bytes, read u32 BE length, skip it, read u8 length, read namespace, rest is data.
   [None] stands for the panic on a short read. *)
Definition decode_key (k : bytes) : option (bytes * bytes) :=
  let r := skipn 3 k in
  if (length r <? 4)%nat then None else
  let sl := be_decode (firstn 4 r) in
  let r := skipn 4 r in
  (* bytes.Reader.Seek beyond the end is allowed; the following read then fails with EOF *)
  let r := skipn (N.to_nat sl) r in
  match r with
  | [] => None
  | nl :: r =>
      if (length r <? N.to_nat nl)%nat then None
      else Some (firstn (N.to_nat nl) r, skipn (N.to_nat nl) r)
  end.

(* timestamps are Z nanoseconds since the Unix epoch; uint64(t.UnixNano()) wraps negatives *)
Definition time_u64 (t : Z) : N := Z.to_N (t mod 2 ^ 64)%Z.

Definition encode_timer_key (count : N) (subject : bytes) (t : Z) : bytes :=
  be16 (key_group count subject) ++ [1] ++ be64 (time_u64 t) ++ subject.

(* OwnsKey: key group from the first two bytes, inside the operator's range.
   [None] = panic (key shorter than two bytes). *)
Definition owns_key (r : kgrange) (k : bytes) : option bool :=
  match k with
  | b0 :: b1 :: _ => Some (includes_kg r (be_decode [b0; b1]))
  | _ => None
  end.
