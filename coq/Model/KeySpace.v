(* partitioning/key_space.go, key_group_range.go, key_group.go *)
From RV Require Export Model.Murmur.
Open Scope N_scope.

(* a KeyGroupRange: start inclusive, end exclusive *)
Definition kgrange := (N * N)%type.

(* keyGroupRanges(keyGroupCount, rangeCount): the loop carries kgIndex; i counts up *)
Fixpoint kg_ranges_loop (todo : nat) (i kgIndex bigger minKG : N) : list kgrange :=
  match todo with
  | O => []
  | S todo' =>
      let e := kgIndex + minKG + (if i <? bigger then 1 else 0) in
      (kgIndex, e) :: kg_ranges_loop todo' (i + 1) e bigger minKG
  end.

Definition kg_ranges (count n : N) : list kgrange :=
  kg_ranges_loop (N.to_nat n) 0 0 (count mod n) (count / n).

(* rangeLookup: for i, r in ranges: for j in [r.Start, r.End): rangeLookup[j] = uint16(i).
   The table has keyGroupCount entries, initially 0; modelled as list update. *)
Fixpoint fill_span (t : list N) (len : nat) (v : N) : list N :=
  match len, t with
  | O, _ => t
  | S l', _ :: t' => v :: fill_span t' l' v
  | S _, [] => []           (* index out of range: Go would panic; never reached for valid ranges *)
  end.

Fixpoint set_span (tbl : list N) (start len : nat) (v : N) : list N :=
  match start, tbl with
  | O, _ => fill_span tbl len v
  | S s', x :: t' => x :: set_span t' s' len v
  | S _, [] => []
  end.

Fixpoint build_lookup (tbl : list N) (i : N) (rs : list kgrange) : list N :=
  match rs with
  | [] => tbl
  | (s, e) :: rs' => build_lookup (set_span tbl (N.to_nat s) (N.to_nat (e - s)) (u16 i)) (i + 1) rs'
  end.

Definition range_lookup (count n : N) : list N :=
  build_lookup (repeat 0 (N.to_nat count)) 0 (kg_ranges count n).

Definition key_group (count : N) (key : bytes) : N := murmur_hash key 0 mod count.

Definition range_index (count n : N) (key : bytes) : N :=
  nth (N.to_nat (u16 (key_group count key))) (range_lookup count n) 0.

Definition includes_kg (r : kgrange) (kg : N) : bool := (fst r <=? kg) && (kg <? snd r).
Definition overlaps (r o : kgrange) : bool := (fst o <? snd r) && (fst r <? snd o).
Definition contains (r o : kgrange) : bool := (fst r <=? fst o) && (snd o <=? snd r).
