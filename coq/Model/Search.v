(* util/sliceu/sliceu.go SearchUnique (repaired: high = i).  Half-open binary search that stops at the first hit.
   [cmp e t] is the three-way comparison of a slice element with the target (Go: cmp(x[i], target) <0 / ==0 / >0). *)
From RV Require Import Base.Bytes.
Open Scope nat_scope.

Section Search.
  Context {E T : Type} (cmp : E -> T -> comparison).

  (* one loop iteration per unit of fuel; fuel = S (length x) is enough (the range halves) *)
  Fixpoint su_loop (fuel : nat) (x : list E) (t : T) (low high : nat) : option nat :=
    match fuel with
    | O => None
    | S f =>
        if low <? high then
          let i := Nat.div2 (low + high) in
          match nth_error x i with
          | None => None                      (* index out of range: unreachable, Go would panic *)
          | Some e =>
              match cmp e t with
              | Eq => Some i
              | Lt => su_loop f x t (i + 1) high
              | Gt => su_loop f x t low i
              end
          end
        else None
    end.

  Definition search_unique (x : list E) (t : T) : option nat :=
    su_loop (S (length x)) x t 0 (length x).

  (* the code before the repair: high = i - 1 (Go int; i - 1 can become -1, then low < high is false) *)
  Fixpoint su_loop_old (fuel : nat) (x : list E) (t : T) (low : nat) (high : Z) : option nat :=
    match fuel with
    | O => None
    | S f =>
        if (Z.of_nat low <? high)%Z then
          let i := Nat.div2 (low + Z.to_nat high) in
          match nth_error x i with
          | None => None
          | Some e =>
              match cmp e t with
              | Eq => Some i
              | Lt => su_loop_old f x t (i + 1) high
              | Gt => su_loop_old f x t low (Z.of_nat i - 1)%Z
              end
          end
        else None
    end.
  Definition search_unique_old (x : list E) (t : T) : option nat :=
    su_loop_old (S (length x)) x t 0 (Z.of_nat (length x)).
End Search.

(* the use in dkv/sst/level_list.go: tables of a level as (startKey, endKey), compared by Table.RangeKeyCompare *)
Definition range_key_compare (tbl : bytes * bytes) (key : bytes) : comparison :=
  match bcmp (fst tbl) key with
  | Gt => Gt
  | _ => match bcmp (snd tbl) key with Lt => Lt | _ => Eq end
  end.
