(* Model of connectors/kinesis/split_tracker.go (SplitTracker) and source_splitter_shard.go.
   Shard ids are N: the n-th shard of a stream ("shardId-%012d" n) is id n+1; the empty string
   (LastAssignedSplitID of a fresh tracker) is 0.  String order on fixed-width ids = order on N.
   knownSplits (ds.SortedMap) is a list sorted by id; assignedSplits (a Go set) is a sorted list. *)
From Coq Require Import List NArith Bool.
Import ListNotations.
Open Scope N_scope.

Record shard := mkShard { sid : N; parents : list N; hlo : N; hhi : N }.

Definition zero_shard := mkShard 0 [] 0 0.

Fixpoint mem (i : N) (l : list N) : bool :=
  match l with [] => false | x :: r => (x =? i) || mem i r end.

(* SortedMap.Set *)
Fixpoint set_shard (s : shard) (l : list shard) : list shard :=
  match l with
  | [] => [s]
  | x :: r => if sid s <? sid x then s :: l
              else if sid s =? sid x then s :: r
              else x :: set_shard s r
  end.

Definition known_b (i : N) (l : list shard) : bool := existsb (fun x => sid x =? i) l.

Fixpoint get_shard (i : N) (l : list shard) : option shard :=
  match l with [] => None | x :: r => if sid x =? i then Some x else get_shard i r end.

Definition del_shard (i : N) (l : list shard) : list shard := filter (fun x => negb (sid x =? i)) l.

Fixpoint ins_id (i : N) (l : list N) : list N :=
  match l with
  | [] => [i]
  | x :: r => if i <? x then i :: l else if i =? x then l else x :: ins_id i r
  end.

Definition del_id (i : N) (l : list N) : list N := filter (fun x => negb (x =? i)) l.

Record tracker := mkTracker { known : list shard; assigned : list N; last : N }.

Definition new_tracker := mkTracker [] [] 0.

(* LoadSplits *)
Definition load_splits (shards : list shard) (l : N) (t : tracker) : tracker :=
  mkTracker (fold_left (fun k s => set_shard s k) shards (known t)) (assigned t) l.

(* AddSplits *)
Definition add_splits (shards : list shard) (t : tracker) : tracker :=
  mkTracker (fold_left (fun k s => set_shard s k) shards (known t)) (assigned t) (last t).

(* TrackAssigned.  [mono = true] is the repaired code (LastAssignedSplitID = max); [mono = false]
   the code before fix 67939ae: LastAssignedSplitID = id of the last shard of the call. *)
Definition track_assigned_gen (mono : bool) (shards : list shard) (t : tracker) : tracker :=
  mkTracker (known t)
            (fold_left (fun a s => ins_id (sid s) a) shards (assigned t))
            (if mono then fold_left (fun m s => N.max m (sid s)) shards (last t)
             else match rev shards with [] => last t | s :: _ => sid s end).
Definition track_assigned := track_assigned_gen true.

(* RemoveSplits *)
Definition remove_splits (ids : list N) (t : tracker) : tracker :=
  mkTracker (fold_left (fun k i => del_shard i k) ids (known t))
            (fold_left (fun a i => del_id i a) ids (assigned t))
            (last t).

(* AvailableSplits *)
Definition avail_b (t : tracker) (s : shard) : bool :=
  negb (mem (sid s) (assigned t)) && negb (existsb (fun p => known_b p (known t)) (parents s)).
Definition available (t : tracker) : list shard := filter (avail_b t) (known t).

(* AssignedSplits: sorted assigned ids looked up in knownSplits (zero value when absent) *)
Definition assigned_splits (t : tracker) : list shard :=
  map (fun i => match get_shard i (known t) with Some s => s | None => zero_shard end) (assigned t).
