(* Model of the operator's barrier alignment (C02).

   Mirrors /repo/workers/operator/operator.go (HandleEvent, processEvents, handleUserEvent,
   handleWatermark, handleCheckpointBarrier, processEventBatch), workers/operator/checkpoint.go
   (newCheckpoint, registerBarrier, hasAllBarriers, alignSender), batching/batching.go (Add, IsFull,
   Flush with batch tokens and the time-out timer) and the part of timer_registry.go that the
   event loop drives (per-sender watermark, composite minimum, SetTimer guard, firing).

   Threads: one goroutine per sender (source runner) calling HandleEvent sequentially, the event
   loop, the batch timer.  Atomic actions:
     Gate s it      sender s (idle) calls HandleEvent(it): alignSender under the read lock decides
                    pass (-> Passed) or park on the in-progress checkpoint object (-> Parked g)
     Wake s         a parked sender observes its checkpoint object's channel closed (-> Passed)
     Handle s       the event loop receives the closure of sender s and runs it to completion
                    (handleUserEvent / handleWatermark / handleCheckpointBarrier), the sender gets
                    its reply and is idle again
     TimerFire      the batch timer expires: its callback (carrying the token of the batch it was
                    armed for) is in flight towards BatchTimedOut
     Timeout        the event loop receives the oldest in-flight token: processEventBatch(token)
     Cancel s       the context of a parked sender's call is cancelled (no effect in this code)
     Fault          the sink's next Write will fail
     Deploy         HandleDeploy on the live operator while no call is outstanding
     HandleFail s   like Handle for a barrier, but the user handler fails its next call: if that is the flush in front
                    of the cut, the pending entries are lost, the barrier's sender gets the error, no checkpoint is cut
     TimeoutFail    like Timeout, but the user handler fails on that flush: the batch is lost and the operator stops
   handleCheckpointBarrier holds o.mu for its whole run and alignSender runs under o.mu.RLock, so a
   Gate never interleaves inside a barrier's Handle; the other handlers do not touch o.checkpoint. *)
From Coq Require Import List NArith Bool Arith.
Import ListNotations.
Open Scope N_scope.

(* what a sender delivers: a keyed event (unique id, subject key, requested timer ts or 0),
   a watermark, a checkpoint barrier, SourceComplete (the runner has read its last record; it may still
   send watermarks and barriers) *)
Inductive item := IEv (id key tm : N) | IWm (t : N) | IBar (cid : N) | IDone.

(* (sender, index in that sender's delivery sequence) *)
Definition origin := (nat * nat)%type.

(* entries of the event batch handed to the user handler: a keyed event, or a timer fired by the
   watermark with the given origin *)
Inductive bitem := BEv (o : origin) (id key tm : N) | BTm (o : origin) (key ts : N).
Definition org (b : bitem) : origin := match b with BEv o _ _ _ => o | BTm o _ _ => o end.

Definition snapshot := (list bitem * list (N * N))%type. (* applied entries, pending timers (ts,key) *)

Inductive lentry :=
| LAct (o : origin) (it : item) (ok : bool) (* the event loop acted on the item; ok=false: error reply *)
| LCall (wm : N)                            (* a ProcessEventBatch call starts, request watermark wm *)
| LApp (b : bitem)                          (* ... and this entry's results were applied to state *)
| LCkpt (cid : N) (snap : snapshot).        (* db.Checkpoint + OperatorCheckpointComplete *)

Inductive mode := Idle | Parked (g : N) (it : item) | Passed (it : item).

Record cfg := mkCfg { n_senders : nat; max_size : N; delay : bool }.
Definition msize (c : cfg) : N := if max_size c =? 0 then 1 else max_size c. (* NewEventBatcher *)

(* event-loop-owned data: batcher, timer registry, state store, observation log (newest first) *)
Record dat := mkDat {
  batch : list bitem; btoken : N; armed : option N; inflight : list N;
  wms : list N; wm : N; timers : list (N * N);
  applied : list bitem; log : list lentry;
  active : list nat;                (* sourceRunners.active: runners that have not sent SourceComplete *)
  sinkfault : bool }.               (* the next sink.Write returns an error (harness-injected fault) *)

Record st := mkSt {
  modes : list mode;
  sent : list (list item);        (* per sender: items the event loop has acted on *)
  ckpt : option (N * list nat);   (* o.checkpoint: id, srIDs still missing *)
  done : N;                       (* checkpoint objects completed (channel closed) so far *)
  dt : dat }.

Definition init_dat (c : cfg) : dat :=
  mkDat [] 0 None [] (repeat 0 (n_senders c)) 0 [] [] [] (seq 0 (n_senders c)) false.
Definition init (c : cfg) : st :=
  mkSt (repeat Idle (n_senders c)) (repeat [] (n_senders c)) None 0 (init_dat c).

Fixpoint set_nth {A} (i : nat) (v : A) (l : list A) : list A :=
  match l, i with
  | [], _ => []
  | _ :: l', O => v :: l'
  | x :: l', S i' => x :: set_nth i' v l'
  end.

(* ---- timers: sorted set of (ts, key) ---- *)
Definition tlt (a b : N * N) : bool := (fst a <? fst b) || ((fst a =? fst b) && (snd a <? snd b)).
Definition teq (a b : N * N) : bool := (fst a =? fst b) && (snd a =? snd b).
Fixpoint tinsert (x : N * N) (l : list (N * N)) : list (N * N) :=
  match l with
  | [] => [x]
  | y :: l' => if teq x y then l else if tlt x y then x :: l else y :: tinsert x l'
  end.
Fixpoint tsplit (w : N) (l : list (N * N)) : list (N * N) * list (N * N) :=
  match l with
  | [] => ([], [])
  | y :: l' => if fst y <=? w then let '(f, r) := tsplit w l' in (y :: f, r) else ([], l)
  end.

Definition set_fault (f : bool) (x : dat) : dat :=
  mkDat (batch x) (btoken x) (armed x) (inflight x) (wms x) (wm x) (timers x) (applied x) (log x) (active x) f.
Definition set_timers (t : list (N * N)) (x : dat) : dat :=
  mkDat (batch x) (btoken x) (armed x) (inflight x) (wms x) (wm x) t (applied x) (log x) (active x) (sinkfault x).
(* processEventBatch returned the sink's error between x and x' *)
Definition errored (x x' : dat) : bool := sinkfault x && negb (sinkfault x').

(* the operator has stopped itself (o.stop() after the last active runner's SourceComplete, or processEvents
   returned the error of a failed time-out flush): represented by an empty active list *)
Definition stopped (x : dat) : bool := match active x with [] => true | _ :: _ => false end.

(* ---- processEventBatch ---- *)
(* the recording handler: every entry becomes a put under its own entry key; a keyed event with
   tm<>0 asks for a timer, which TimerRegistry.SetTimer drops unless watermark < tm *)
Definition apply_item (x : dat) (b : bitem) : dat :=
  let tms := match b with
             | BEv _ _ key tm => if negb (tm =? 0) && (wm x <? tm) then tinsert (tm, key) (timers x) else timers x
             | BTm _ _ _ => timers x
             end in
  mkDat (batch x) (btoken x) (armed x) (inflight x) (wms x) (wm x) tms (b :: applied x) (LApp b :: log x) (active x) (sinkfault x).

(* tok = None is batching.CurrentBatch *)
Definition flush (tok : option N) (x : dat) : dat :=
  match batch x with
  | [] => x
  | _ :: _ =>
      if match tok with None => true | Some t => t =? btoken x end then
        let x1 := mkDat [] (btoken x + 1) None (inflight x) (wms x) (wm x) (timers x) (applied x)
                        (LCall (wm x) :: log x) (active x) (sinkfault x) in
        (* results applied (timers, state mutations), then the sink writes: an armed fault makes the first write
           fail, processEventBatch returns that error - after the state was applied *)
        set_fault false (fold_left apply_item (batch x) x1)
      else x
  end.

(* eventBatcher.Add; if IsFull then processEventBatch(CurrentBatch) *)
Definition add_item (c : cfg) (x : dat) (b : bitem) : dat :=
  let arm := match batch x with [] => if delay c then Some (btoken x) else armed x | _ :: _ => armed x end in
  let x1 := mkDat (batch x ++ [b]) (btoken x) arm (inflight x) (wms x) (wm x) (timers x) (applied x) (log x) (active x) (sinkfault x) in
  if msize c <=? N.of_nat (length (batch x1)) then flush None x1 else x1.

Definition list_min (l : list N) : N :=
  match l with [] => 0 | a :: l' => fold_left N.min l' a end.

(* handleWatermark's loop over the due timers: delete, yield into the batch, flush when full; a failed flush
   makes handleWatermark return at once: the timers not yet yielded stay in the store *)
Fixpoint fire_all (c : cfg) (o : origin) (fired : list (N * N)) (x : dat) : dat :=
  match fired with
  | [] => x
  | tk :: f' =>
      let x' := add_item c x (BTm o (snd tk) (fst tk)) in
      if errored x x' then set_timers (f' ++ timers x') x' else fire_all c o f' x'
  end.

Definition handle_wm (c : cfg) (x : dat) (o : origin) (t : N) : dat :=
  let w := set_nth (fst o) t (wms x) in
  let m := list_min w in
  let '(fired, rest) := tsplit m (timers x) in
  let x1 := mkDat (batch x) (btoken x) (armed x) (inflight x) w m rest (applied x) (log x) (active x) (sinkfault x) in
  fire_all c o fired x1.

Definition push_log (e : lentry) (x : dat) : dat :=
  mkDat (batch x) (btoken x) (armed x) (inflight x) (wms x) (wm x) (timers x) (applied x) (e :: log x) (active x) (sinkfault x).

Definition set_active (a : list nat) (x : dat) : dat :=
  mkDat (batch x) (btoken x) (armed x) (inflight x) (wms x) (wm x) (timers x) (applied x) (log x) a (sinkfault x).

Fixpoint remove_nat (s : nat) (l : list nat) : list nat :=
  match l with [] => [] | y :: l' => if Nat.eqb s y then remove_nat s l' else y :: remove_nat s l' end.
Fixpoint mem_nat (s : nat) (l : list nat) : bool :=
  match l with [] => false | y :: l' => Nat.eqb s y || mem_nat s l' end.

(* alignSender: park iff a checkpoint is in progress and the sender is not (any more) in srIDs *)
Definition should_park (x : st) (s : nat) : bool :=
  match ckpt x with None => false | Some (_, m) => negb (mem_nat s m) end.

Definition with_mode (x : st) (s : nat) (m : mode) : st :=
  mkSt (set_nth s m (modes x)) (sent x) (ckpt x) (done x) (dt x).

(* the closure the event loop runs for sender s; o = (s, index of the item) *)
(* Flush took the batch out and the user handler failed: the entries are lost *)
Definition drop_batch (x : dat) : dat :=
  mkDat [] (btoken x + 1) None (inflight x) (wms x) (wm x) (timers x) (applied x) (log x) (active x) (sinkfault x).

(* The flush in front of db.Checkpoint failed (handler or sink): handleCheckpointBarrier returned the error with
   every barrier registered and no checkpoint cut. The assembly is being torn down (the barrier's sender got the
   error); until the redeploy, which clears the slot, nothing else of this operator is followed. *)
Definition failed (x : st) : bool := match ckpt x with Some (_, []) => true | _ => false end.
Definition running (x : st) : bool := negb (stopped (dt x)) && negb (failed x).

(* hf: the user handler fails its next ProcessEventBatch call if that call comes during this closure
   (only scheduled for barriers: the flush in front of the cut) *)
Definition handle_item (c : cfg) (hf : bool) (x : st) (s : nat) (it : item) : st :=
  let o := (s, length (nth s (sent x) [])) in
  let sent' := set_nth s (nth s (sent x) [] ++ [it]) (sent x) in
  let modes' := set_nth s Idle (modes x) in
  match it with
  | IEv id key tm =>
      mkSt modes' sent' (ckpt x) (done x) (add_item c (push_log (LAct o it true) (dt x)) (BEv o id key tm))
  | IWm t =>
      mkSt modes' sent' (ckpt x) (done x) (handle_wm c (push_log (LAct o it true) (dt x)) o t)
  | IDone =>
      (* handleSourceComplete: flush the pending batch, deactivate the runner (o.stop() when none is left:
         see the guard of Handle in step). newCheckpoint keeps using sourceRunners.all, so the set of
         awaited barriers does not depend on active. *)
      let d0 := push_log (LAct o it true) (dt x) in
      let d1 := flush None d0 in
      (* a failed flush is returned before the runner is deactivated *)
      mkSt modes' sent' (ckpt x) (done x) (if errored d0 d1 then d1 else set_active (remove_nat s (active d1)) d1)
  | IBar cid =>
      let '(cur, missing) := match ckpt x with Some cm => cm | None => (cid, seq 0 (n_senders c)) end in
      if negb (cid =? cur) then   (* registerBarrier: checkpoint ID mismatch -> error reply *)
        mkSt modes' sent' (Some (cur, missing)) (done x) (push_log (LAct o it false) (dt x))
      else
        let missing' := remove_nat s missing in
        match missing' with
        | [] =>  (* hasAllBarriers: flush pending batch; if that fails return its error (no checkpoint);
                    otherwise checkpoint, report, clear *)
            let d0 := push_log (LAct o it true) (dt x) in
            if hf && match batch d0 with [] => false | _ :: _ => true end then
              mkSt modes' sent' (Some (cur, [])) (done x) (drop_batch d0)
            else
              let d1 := flush None d0 in
              if errored d0 d1 then mkSt modes' sent' (Some (cur, [])) (done x) d1   (* the sink failed: state applied, no cut *)
              else mkSt modes' sent' None (done x + 1) (push_log (LCkpt cur (applied d1, timers d1)) d1)
        | _ :: _ =>
            mkSt modes' sent' (Some (cur, missing')) (done x) (push_log (LAct o it true) (dt x))
        end
  end.

Inductive action := Gate (s : nat) (it : item) | Wake (s : nat) | Handle (s : nat) | TimerFire | Timeout | Cancel (s : nat)
  | Fault | Deploy | TimeoutFail | HandleFail (s : nat).

Definition set_d (x : st) (y : dat) : st := mkSt (modes x) (sent x) (ckpt x) (done x) y.

Definition step (c : cfg) (x : st) (a : action) : option st :=
  match a with
  | Gate s it =>
      if failed x then None else
      match nth_error (modes x) s with
      | Some Idle => Some (with_mode x s (if should_park x s then Parked (done x) it else Passed it))
      | _ => None
      end
  | Wake s =>
      if failed x then None else
      match nth_error (modes x) s with
      | Some (Parked g it) => if g <? done x then Some (with_mode x s (Passed it)) else None
      | _ => None
      end
  | Handle s =>
      (* after the last active runner's SourceComplete the operator has stopped: nothing is handled any more *)
      if failed x then None else
      match nth_error (modes x) s, active (dt x) with
      | Some (Passed it), _ :: _ => Some (handle_item c false x s it)
      | _, _ => None
      end
  | HandleFail s =>
      (* the closure of a barrier runs while the user handler fails its next call *)
      if failed x then None else
      match nth_error (modes x) s, active (dt x) with
      | Some (Passed (IBar cid)), _ :: _ => Some (handle_item c true x s (IBar cid))
      | _, _ => None
      end
  | Cancel s =>
      (* the context of sender s's outstanding call is cancelled while it is parked. The code ignores it:
         the wait is a bare <-c.allBarriersReceived, the enqueue and the handlers never look at ctx.
         So this is a stutter step: the sender stays parked on the same checkpoint. *)
      match nth_error (modes x) s with
      | Some (Parked _ _) => Some x
      | _ => None
      end
  | TimerFire =>
      match armed (dt x) with
      | Some t => let y := dt x in
          Some (set_d x (mkDat (batch y) (btoken y) None (inflight y ++ [t]) (wms y) (wm y) (timers y) (applied y) (log y) (active y) (sinkfault y)))
      | None => None
      end
  | Fault =>  (* the harness arms the sink: its next Write fails *)
      if sinkfault (dt x) then None else Some (set_d x (set_fault true (dt x)))
  | Deploy =>
      (* HandleDeploy on the live operator (same runners, fresh storage, no checkpoint to restore), taken when no
         HandleEventBatch call is outstanding and the operator's batch is empty: o.checkpoint = nil, new DKV, state
         store, timer registry, upstreams. The batcher (token, in-flight time-outs) and the sink survive.
         The observation log and the per-sender delivery counts restart: everything is per deployment. *)
      if forallb (fun m => match m with Idle => true | _ => false end) (modes x)
         && match batch (dt x) with [] => true | _ => false end && negb (stopped (dt x)) then
        let y := dt x in
        Some (mkSt (modes x) (repeat [] (n_senders c)) None (done x)
                   (mkDat [] (btoken y) (armed y) (inflight y) (repeat 0 (n_senders c)) 0 [] [] []
                          (seq 0 (n_senders c)) (sinkfault y)))
      else None
  | TimeoutFail =>
      (* the oldest in-flight token reaches the event loop and the user handler fails on that very flush:
         eventBatcher.Flush(token) has already taken the batch out (its events were acknowledged to their senders
         and are now lost), ProcessEventBatch returns an error, processEventBatch returns it and processEvents
         RETURNS: the operator stops (cancel(), Start returns). Represented by active = [] (see stopped): nothing
         is handled, flushed, checkpointed or redeployed any more. A stale token or an empty batch makes no
         handler call, so nothing fails. *)
      if sinkfault (dt x) || stopped (dt x) || failed x then None else
      match inflight (dt x) with
      | t :: r => let y := dt x in
          match batch y with
          | _ :: _ =>
              if t =? btoken y then
                Some (set_d x (mkDat [] (btoken y + 1) None r (wms y) (wm y) (timers y) (applied y) (log y) [] (sinkfault y)))
              else Some (set_d x (mkDat (batch y) (btoken y) (armed y) r (wms y) (wm y) (timers y) (applied y) (log y) (active y) (sinkfault y)))
          | [] => Some (set_d x (mkDat (batch y) (btoken y) (armed y) r (wms y) (wm y) (timers y) (applied y) (log y) (active y) (sinkfault y)))
          end
      | [] => None
      end
  | Timeout =>
      (* with an armed sink fault the time-out flush would fail and processEvents would return the error, which
         stops the operator: not part of the schedules considered (a failing HANDLER on that flush is TimeoutFail) *)
      if sinkfault (dt x) || stopped (dt x) || failed x then None else
      match inflight (dt x) with
      | t :: r => let y := dt x in
          Some (set_d x (flush (Some t) (mkDat (batch y) (btoken y) (armed y) r (wms y) (wm y) (timers y) (applied y) (log y) (active y) (sinkfault y))))
      | [] => None
      end
  end.

Fixpoint exec (c : cfg) (x : st) (acts : list action) : option st :=
  match acts with
  | [] => Some x
  | a :: acts' => match step c x a with Some x' => exec c x' acts' | None => None end
  end.

(* the delivery sequence of sender s in a schedule without redeployment *)
Fixpoint script0 (acts : list action) (s : nat) : list item :=
  match acts with
  | [] => []
  | Gate s' it :: acts' => if Nat.eqb s' s then it :: script0 acts' s else script0 acts' s
  | _ :: acts' => script0 acts' s
  end.
Fixpoint has_deploy (acts : list action) : bool :=
  match acts with [] => false | Deploy :: _ => true | _ :: acts' => has_deploy acts' end.
(* the part of the schedule after its last Deploy: the current deployment *)
Fixpoint after_deploy (acts : list action) : list action :=
  match acts with
  | [] => []
  | a :: acts' => if has_deploy acts' then after_deploy acts'
                  else match a with Deploy => acts' | _ => a :: acts' end
  end.
(* what sender s delivered in the current deployment *)
Definition script (acts : list action) (s : nat) : list item := script0 (after_deploy acts) s.

Definition entry_origin (e : lentry) : option origin :=
  match e with LAct o _ _ => Some o | LApp b => Some (org b) | _ => None end.
