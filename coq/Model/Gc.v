(* World model for C08/C09: one shared file system, several database objects (each a Ckpt.dbc core plus checkpoint list,
   background tasks stopped at the hook points of dkv/db.go, and the heap of sst.Table objects it created or opened from a
   checkpoint document), completed checkpoint handles. Transcribed from dkv/db.go (Checkpoint async part, rotateMemtable tasks,
   UpdateRetainedCheckpoints, NeedsTable), dkv/recovery/checkpoint_list.go (Add, Save with Destroy of pending removals,
   RetainOnly, IncludesTable, LoadCheckpointList for one handle), dkv/sst/table.go (NewTable cleanup = unconditional delete,
   NewTableFromDocument cleanup = delete iff ExclusivelyOwnsTable says (true, nil)), dkv/sst/table_writer.go (file numbers,
   SkipPast), workers/operator/operator_partition.go (ExclusivelyOwnsTable).
   Modelled, not verified: the Go garbage collector (OGc collects every unreachable table object - the harness forces exactly
   that), JSON encoding of documents (records), the memory file system (name -> content map). *)
From Coq Require Import List NArith Bool.
Import ListNotations.
From RV Require Import Base.Bytes Model.Ckpt.
Open Scope N_scope.

Record tdoc := mkTD { td_name : fname; td_end : N; td_lo : N; td_hi : N }.   (* TableDocument: URI, EndSeqNum, key groups of Start/EndKey *)
Record doc := mkDoc { dc_id : N; dc_wal : fname; dc_after : N; dc_lastseq : N; dc_tables : list tdoc;
                     dc_xw : list fname (* the further WAL handles of a checkpoint restored from several instances *) }.
Inductive fcontent := FSst (es : list entry) | FWal (es : list entry) | FCk (docs : list doc).
Definition fsys := list (fname * fcontent).

Fixpoint fs_get (f : fsys) (n : fname) : option fcontent :=
  match f with [] => None | (m, c) :: f' => if fname_eqb n m then Some c else fs_get f' n end.
Definition fs_del (f : fsys) (n : fname) : fsys := filter (fun p => negb (fname_eqb n (fst p))) f.
Definition fs_put (f : fsys) (n : fname) (c : fcontent) : fsys := (n, c) :: fs_del f n.
Definition fs_has (f : fsys) (n : fname) : bool := match fs_get f n with Some _ => true | None => false end.

Record tobj := mkObj { o_name : fname; o_fromdoc : bool; o_lo : N; o_hi : N }.
Inductive ftask := FNone | FBegin | FSwap (n : nat) (ts : list table) | FEnd.
Inductive ctask := CNone | CBegin | CIter | CSwap (added : list fname) | CEnd.
(* one neighbour's answer to NeedsTable *)
Inductive nbans :=
| AClean    (* "not needed", no error *)
| AClaim    (* "needed" *)
| AErr      (* the call fails *)
| ANever    (* the call never answers by itself (it returns an error once the caller cancels it) *)
| ALive     (* the truthful answer of the other live objects (DB.NeedsTable); a crashed member of the assembly: error *)
| AOp.      (* the same through the real Operator.HandleNeedsTable: deployed answers, not deployed = error *)
Inductive nbmode := NbNone | NbNeeds | NbErr
  | NbLive (* every other live object answers truthfully (DB.NeedsTable); a crashed member of the same assembly cannot answer: error *)
  | NbOp   (* the neighbours are the other operators of the assembly (the objects restored with NbOp), asked through the real
              Operator.HandleNeedsTable: a deployed (live) one answers from its database, a registered but not deployed one (its
              process crashed, awaiting redeploy) cannot answer - the RPC fails - which must mean keep *)
  | NbSeq (answers : list nbans).  (* several neighbours whose answers arrive in this order *)
Definition nb_has (a : nbans -> bool) (m : nbmode) : bool := match m with NbSeq l => existsb a l | _ => false end.
Definition nb_live_member (m : nbmode) : bool := match m with NbLive => true | _ => nb_has (fun a => match a with ALive => true | _ => false end) m end.
Definition nb_op_member (m : nbmode) : bool := match m with NbOp => true | _ => nb_has (fun a => match a with AOp => true | _ => false end) m end.
Inductive dstate := Live | Crashed | Dropped.
Record ckrec := mkCk { c_id : N; c_tabs : list table; c_wal : fname; c_content : list entry; c_after : N; c_lastseq : N;
                       c_xw : list fname (* further WAL handles: a composite checkpoint restored from several instances *) }.
Definition c_allw (c : ckrec) : list fname := c_wal c :: c_xw c.

Record wdb := mkW {
  x_core : dbc; x_dir : N; x_own : own; x_nb : nbmode; x_next : N;
  x_ckpts : list ckrec; x_pending : list ckrec;
  x_flush : ftask; x_flushq : nat; x_comp : ctask; x_compq : nat;
  x_cktasks : list (N * bool);          (* checkpoint id, WAL already saved *)
  x_objs : list tobj; x_state : dstate }.

Record world := mkWorld {
  g_fs : fsys; g_dbs : list wdb; g_handles : list (N * N);   (* completed handles: checkpoint id, directory of its checkpoints file *)
  g_nextdir : N; g_mem : N; g_walmax : N;
  g_dropped : list N   (* ghost: checkpoint ids that a SAVED retention update removed from a durable list, or that a restore
                          into their directory superseded; no behaviour depends on it *) }.

Inductive cres := CRnone | CRnil | CRadded (names : list fname) | CRswapped (removed : list fname) (added : list (fname * list entry)).

Inductive op :=
| OPut (d : N) (k v : bytes) (rot : bool)
| ODel (d : N) (k : bytes) (rot : bool)
| OCkpt (d id : N)
| OStepFlush (d : N)
| OStepCompact (d : N) (r : cres)
| OStepCkpt (d id : N)
| ORetain (d : N) (ids : list N)
| ORetainF (d : N) (ids : list N) (f : N)      (* retention update whose Save hits a storage fault: 1 = writing the checkpoints file fails, 2 = deleting a WAL fails *)
| OStepCkptF (d id : N) (f : N)                (* step of the asynchronous part of Checkpoint with a storage fault (WAL save; list save as above) *)
| OStepFlushF (d : N)                          (* flush task whose first table Save fails: the task ends with an error, nothing is swapped *)
| ORestore (d id : N) (same : bool) (o : own) (nb : nbmode)
| ORestoreM (d id : N) (dirs : list N) (same : bool) (o : own) (nb : nbmode)
    (* restore from the handles (id, dir) of several instances (or of one named instance), into a fresh directory or - same -
       into the directory of the first handle (the surviving instance is redeployed in place) *)
| ORestoreF (d : N) (same : bool)
    (* a restore (into the source's directory - same - or a fresh one) during which one storage read of a WAL file fails: the log
       reader hands the error to DB.Start, Open does not return a database; a dead object is left behind *)
| OOpen (d : N)                                                    (* a further fresh database in a fresh directory *)
| OCrash (d : N)
| ODrop (d : N)
| OGc
| ORead (d : N)
| OSeq (a b : op).   (* two steps observed as one: a step that another one overlapped (a Save parked inside its file commit while a second
                        Save / a retention update was issued); in the code as it is the second takes effect after the first *)

Definition init_world (mem walmax : N) : world :=
  mkWorld [] [mkW (db_new mem walmax) 0 OwnAll NbNone 0 [] [] FNone 0 CNone 0 [] [] Live] [] 1 mem walmax [].

Fixpoint upd {A} (l : list A) (i : nat) (x : A) : list A :=
  match l, i with
  | [], _ => []
  | _ :: l', O => x :: l'
  | y :: l', S i' => y :: upd l' i' x
  end.
Definition get_db (w : world) (d : N) : option wdb := nth_error (g_dbs w) (N.to_nat d).
Definition set_db (w : world) (d : N) (x : wdb) : world :=
  mkWorld (g_fs w) (upd (g_dbs w) (N.to_nat d) x) (g_handles w) (g_nextdir w) (g_mem w) (g_walmax w) (g_dropped w).
Definition set_fs (w : world) (f : fsys) : world := mkWorld f (g_dbs w) (g_handles w) (g_nextdir w) (g_mem w) (g_walmax w) (g_dropped w).
Definition add_dropped (w : world) (ids : list N) : world :=
  mkWorld (g_fs w) (g_dbs w) (g_handles w) (g_nextdir w) (g_mem w) (g_walmax w) (g_dropped w ++ ids).
Definition add_handle (w : world) (h : N * N) : world :=
  mkWorld (g_fs w) (g_dbs w) (g_handles w ++ [h]) (g_nextdir w) (g_mem w) (g_walmax w) (g_dropped w).

Definition with_core (x : wdb) (c : dbc) : wdb :=
  mkW c (x_dir x) (x_own x) (x_nb x) (x_next x) (x_ckpts x) (x_pending x) (x_flush x) (x_flushq x) (x_comp x) (x_compq x) (x_cktasks x) (x_objs x) (x_state x).
Definition with_flush (x : wdb) (f : ftask) (q : nat) : wdb :=
  mkW (x_core x) (x_dir x) (x_own x) (x_nb x) (x_next x) (x_ckpts x) (x_pending x) f q (x_comp x) (x_compq x) (x_cktasks x) (x_objs x) (x_state x).
Definition with_comp (x : wdb) (c : ctask) (q : nat) : wdb :=
  mkW (x_core x) (x_dir x) (x_own x) (x_nb x) (x_next x) (x_ckpts x) (x_pending x) (x_flush x) (x_flushq x) c q (x_cktasks x) (x_objs x) (x_state x).
Definition with_ck (x : wdb) (cks pend : list ckrec) (tasks : list (N * bool)) : wdb :=
  mkW (x_core x) (x_dir x) (x_own x) (x_nb x) (x_next x) cks pend (x_flush x) (x_flushq x) (x_comp x) (x_compq x) tasks (x_objs x) (x_state x).
Definition with_objs (x : wdb) (next : N) (objs : list tobj) : wdb :=
  mkW (x_core x) (x_dir x) (x_own x) (x_nb x) next (x_ckpts x) (x_pending x) (x_flush x) (x_flushq x) (x_comp x) (x_compq x) (x_cktasks x) objs (x_state x).
Definition with_state (x : wdb) (s : dstate) : wdb :=
  mkW (x_core x) (x_dir x) (x_own x) (x_nb x) (x_next x) (x_ckpts x) (x_pending x) FNone 0 CNone 0 [] (match s with Crashed => [] | _ => x_objs x end) s.

Definition is_live (x : wdb) : bool := match x_state x with Live => true | _ => false end.

(* rotations enqueue flush tasks; the first starts at once when no flush task is running *)
Definition after_rotations (x : wdb) (k : nat) : wdb :=
  match k with
  | O => x
  | S k' => match x_flush x with
            | FNone => if (x_flushq x =? 0)%nat then with_flush x FBegin k' else with_flush x (x_flush x) (x_flushq x + k)
            | _ => with_flush x (x_flush x) (x_flushq x + k)
            end
  end.

Definition kg_range (es : list entry) : N * N :=
  match es with [] => (0, 0) | e :: _ => (key_group (e_key e), key_group (e_key (last es e))) end.
Definition obj_of_table (fromdoc : bool) (t : table) : tobj :=
  let r := kg_range (t_es t) in mkObj (t_name t) fromdoc (fst r) (snd r).
Definition tdoc_of (t : table) : tdoc := let r := kg_range (t_es t) in mkTD (t_name t) (t_end t) (fst r) (snd r).
Definition doc_of (c : ckrec) : doc := mkDoc (c_id c) (c_wal c) (c_after c) (c_lastseq c) (map tdoc_of (c_tabs c)) (c_xw c).

Definition num_of (n : fname) : N := snd n.

(* CheckpointList.Save in two parts: (1) write and save the checkpoints file with the documents of the current list; only when
   that succeeded (2) Destroy (delete the WAL files of) the pending removals and clear the pending list. Fault 1 = part 1 fails:
   nothing changes; fault 2 = the first delete of part 2 fails (only possible when something is pending): the file is written, no WAL is
   deleted, the pending list stays. The result says whether Save returned without error. *)
Definition save_write (w : world) (x : wdb) : world :=
  add_dropped (set_fs w (fs_put (g_fs w) (x_dir x, 2, 0) (FCk (map doc_of (x_ckpts x))))) (map c_id (x_pending x)).
Definition save_destroy (w : world) (x : wdb) : world * wdb :=
  (* Checkpoint.Destroy deletes every WAL handle of the checkpoint; one that is already gone (removed by a sibling restored from
     the same checkpoint) is skipped, the others are still deleted *)
  (set_fs w (fold_left fs_del (flat_map c_allw (x_pending x)) (g_fs w)), with_ck x (x_ckpts x) [] (x_cktasks x)).
Definition save_list_f (w : world) (x : wdb) (f : N) : world * wdb * bool :=
  if f =? 1 then (w, x, false)
  else if (f =? 2) && negb (match x_pending x with [] => true | _ => false end) then (save_write w x, x, false)
  else let '(w1, x1) := save_destroy (save_write w x) x in (w1, x1, true).
Definition save_list (w : world) (x : wdb) : world * wdb := fst (save_list_f w x 0).

(* reachability of table objects of one database object: current level set, checkpoints (retained and pending removal),
   tables held by a flush task between write and swap, tables held by a compaction between write and swap *)
Definition reachable_names (x : wdb) : list fname :=
  match x_state x with
  | Live =>
      map t_name (d_tables (x_core x)) ++ flat_map (fun c => map t_name (c_tabs c)) (x_ckpts x ++ x_pending x)
      ++ (match x_flush x with FSwap _ ts => map t_name ts | _ => [] end)
      ++ (match x_comp x with CSwap a => a | _ => [] end)
  | _ => []
  end.

(* DB.NeedsTable: some checkpoint of the list references the file *)
Definition needs_table (x : wdb) (n : fname) : bool :=
  existsb (fun c => mem_name n (map t_name (c_tabs c))) (x_ckpts x).

(* does the cleanup of object o of database x delete the file?  Created tables: always.  Tables from a document: when
   ExclusivelyOwnsTable answers (true, nil): AllDataOwnership, or no neighbour needs it and none failed (after repair D10 an
   error keeps the file; after repair D36 no key-range shortcut skips the question). *)
(* the truthful neighbours: some live object references the file in a checkpoint of its list, or a member of the assembly is gone *)
Definition live_keeps (w : world) (n : fname) : bool :=
  existsb (fun y => (is_live y && needs_table y n)
                    || (match x_state y with Crashed => nb_live_member (x_nb y) | _ => false end)) (g_dbs w).
Definition op_keeps (w : world) (n : fname) : bool :=
  existsb (fun y => nb_op_member (x_nb y) && ((is_live y && needs_table y n) || (match x_state y with Crashed => true | _ => false end))) (g_dbs w).
(* an answer after which the file may still be deleted: a clean "not needed" *)
Definition ans_clean (w : world) (n : fname) (a : nbans) : bool :=
  match a with
  | AClean => true
  | AClaim | AErr | ANever => false
  | ALive => negb (live_keeps w n)
  | AOp => negb (op_keeps w n)
  end.

Definition cleanup_deletes (w : world) (x : wdb) (o : tobj) : bool :=
  if negb (o_fromdoc o) then true else
  match x_own x with
  | OwnAll => true
  | OwnRange _ _ =>
      (* every neighbour is asked whatever the key range of the table (repair D36) *)
      match x_nb x with
      | NbNone => true
      | NbNeeds => false
      | NbErr => false
      | NbLive => negb (live_keeps w (o_name o))
      | NbOp => negb (op_keeps w (o_name o))
      | NbSeq l => forallb (ans_clean w (o_name o)) l
      end
  end.

Definition gc_db (w : world) (acc : fsys * list wdb * list fname) (x : wdb) : fsys * list wdb * list fname :=
  let '(f, done, dels) := acc in
  match x_state x with
  | Crashed => (f, done ++ [x], dels)
  | _ =>
      let reach := reachable_names x in
      let dead := filter (fun o => negb (mem_name (o_name o) reach)) (x_objs x) in
      let keep := filter (fun o => mem_name (o_name o) reach) (x_objs x) in
      let todel := map o_name (filter (cleanup_deletes w x) dead) in
      (fold_left fs_del todel f, done ++ [with_objs x (x_next x) keep], dels ++ filter (fs_has f) todel)
  end.

Definition find_doc (docs : list doc) (id : N) : option doc := find (fun d => dc_id d =? id) docs.
Definition handle_dir (w : world) (id : N) : option N :=
  match find (fun h => fst h =? id) (g_handles w) with Some h => Some (snd h) | None => None end.

(* outcome of opening a database from a handle: 0 ok | 1 open error | 2 id not in the file | 3 panic (WAL gap) *)
Inductive ropen := RFail (code : N) | ROpen (x : wdb).

Definition table_of_doc (f : fsys) (t : tdoc) : table :=
  mkT (td_name t) (match fs_get f (td_name t) with Some (FSst es) => es | _ => [] end) (td_end t).
Definition doc_tables_missing (f : fsys) (d : doc) : bool := existsb (fun t => negb (fs_has f (td_name t))) (dc_tables d).

Definition open_from (w : world) (id : N) (dir : N) (o : own) (nb : nbmode) : ropen :=
  match handle_dir w id with
  | None => RFail 1
  | Some hd =>
      match fs_get (g_fs w) (hd, 2, 0) with
      | Some (FCk docs) =>
          match find_doc docs id with
          | None => RFail 2
          | Some d =>
              match fs_get (g_fs w) (dc_wal d) with
              | Some (FWal content) =>
                  match wal_read content (dc_after d) with
                  | RPanic => RFail 3
                  | REof => RFail 1
                  | ROk es =>
                      let ts := map (table_of_doc (g_fs w)) (dc_tables d) in
                      let '(core, rots) := db_restore (g_mem w) (g_walmax w) o ts (num_of (dc_wal d)) es in
                      let next := fold_right (fun t a => N.max (num_of (td_name t) + 1) a) 0 (dc_tables d) in
                      let objs := map (fun t => mkObj (td_name t) true (td_lo t) (td_hi t)) (dc_tables d) in
                      let rec := mkCk (dc_id d) ts (dc_wal d) content (dc_after d) (dc_lastseq d) [] in
                      ROpen (after_rotations (mkW core dir o nb next [rec] [] FNone 0 CNone 0 [] objs Live) rots)
                  end
              | _ => RFail 1
              end
          end
      | _ => RFail 1
      end
  end.

(* LoadCheckpointList + Start for several handles of one checkpoint id: the documents are merged (tables of all, one WAL handle
   each), the WALs are replayed in the order of the handles, each from its own After *)
Fixpoint load_docs (w : world) (id : N) (dirs : list N) : option (list doc) + N :=
  match dirs with
  | [] => inl (Some [])
  | hd :: rest =>
      if negb (existsb (fun h => (fst h =? id) && (snd h =? hd)) (g_handles w)) then inr 1 else
      match fs_get (g_fs w) (hd, 2, 0) with
      | Some (FCk docs) =>
          match find_doc docs id with
          | None => inr 2
          | Some d => match load_docs w id rest with
                      | inl (Some ds) => inl (Some (d :: ds))
                      | other => other
                      end
          end
      | _ => inr 1
      end
  end.
Fixpoint replay_docs (f : fsys) (ds : list doc) : option (list entry) + N :=
  match ds with
  | [] => inl (Some [])
  | d :: rest =>
      match fs_get f (dc_wal d) with
      | Some (FWal content) =>
          match wal_read content (dc_after d) with
          | RPanic => inr 3
          | REof => inr 1
          | ROk es => match replay_docs f rest with
                      | inl (Some es') => inl (Some (es ++ es'))
                      | other => other
                      end
          end
      | _ => inr 1
      end
  end.
Definition open_fromM (w : world) (id : N) (dirs : list N) (dir : N) (o : own) (nb : nbmode) : ropen :=
  match load_docs w id dirs with
  | inl (Some (d1 :: ds)) =>
      match replay_docs (g_fs w) (d1 :: ds) with
      | inl (Some es) =>
          let tds := flat_map dc_tables (d1 :: ds) in
          let ts := map (table_of_doc (g_fs w)) tds in
          let walid := fold_right (fun d a => N.max (num_of (dc_wal d)) a) 0 (d1 :: ds) in
          let '(core, rots) := db_restore (g_mem w) (g_walmax w) o ts walid es in
          let next := fold_right (fun t a => N.max (num_of (td_name t) + 1) a) 0 tds in
          let objs := map (fun t => mkObj (td_name t) true (td_lo t) (td_hi t)) tds in
          let content := match fs_get (g_fs w) (dc_wal d1) with Some (FWal c) => c | _ => [] end in
          let rec := mkCk id ts (dc_wal d1) content (dc_after d1) (dc_lastseq d1) (map dc_wal ds) in
          ROpen (after_rotations (mkW core dir o nb next [rec] [] FNone 0 CNone 0 [] objs Live) rots)
      | inl None => RFail 1
      | inr c => RFail c
      end
  | inl _ => RFail 1
  | inr c => RFail c
  end.

Definition dead_db (w : world) : wdb := mkW (db_new (g_mem w) (g_walmax w)) 0 OwnAll NbNone 0 [] [] FNone 0 CNone 0 [] [] Crashed.

Definition add_db (w : world) (x : wdb) (usedfresh : bool) : world :=
  mkWorld (g_fs w) (g_dbs w ++ [x]) (g_handles w) (if usedfresh then g_nextdir w + 1 else g_nextdir w) (g_mem w) (g_walmax w) (g_dropped w).

(* a write with the OBSERVED rotation decision [rot]; the second component is what the size rules of Model/Ckpt.v would have decided
   (information only: when a buffer counts as full is not part of any property here) *)
Definition write_op (w : world) (d : N) (k : bytes) (del : bool) (v : bytes) (rot : bool) : world * bool :=
  match get_db w d with
  | Some x => if is_live x then
                let c := db_write_at (x_core x) k del v rot in
                (set_db w d (after_rotations (with_core x c) (if rot then 1%nat else 0%nat)), snd (db_write (x_core x) k del v))
              else (w, false)
  | None => (w, false)
  end.

(* RetainOnly: a checkpoint stays when its id is listed or is newer than every listed id (repair D34) *)
Definition retain_keeps (ids : list N) (c : ckrec) : bool :=
  existsb (N.eqb (c_id c)) ids || (fold_right N.max 0 ids <? c_id c).

Definition step_ckpt (w : world) (d id f : N) : world :=
  match get_db w d with
  | Some x =>
      match find (fun t => fst t =? id) (x_cktasks x) with
      | Some (_, false) =>
          if f =? 1 then
            (* the WAL save fails: the task ends with the error, the checkpoint stays in the list without a WAL file *)
            set_db w d (with_ck x (x_ckpts x) (x_pending x) (filter (fun t => negb (fst t =? id)) (x_cktasks x)))
          else
          match find (fun c => c_id c =? id) (x_ckpts x ++ x_pending x) with
          | Some c =>
              let w1 := set_fs w (fs_put (g_fs w) (c_wal c) (FWal (c_content c))) in
              set_db w1 d (with_ck x (x_ckpts x) (x_pending x) (map (fun t => if fst t =? id then (id, true) else t) (x_cktasks x)))
          | None => w
          end
      | Some (_, true) =>
          let x1 := with_ck x (x_ckpts x) (x_pending x) (filter (fun t => negb (fst t =? id)) (x_cktasks x)) in
          let '(w1, x2, ok) := save_list_f w x1 f in
          let w2 := set_db w1 d x2 in
          if ok then add_handle w2 (id, x_dir x) else w2
      | None => w
      end
  | None => w
  end.

Definition step_retain (w : world) (d : N) (ids : list N) (f : N) : world :=
  match get_db w d with
  | Some x =>
      let keep := filter (retain_keeps ids) (x_ckpts x) in
      let drop := filter (fun c => negb (retain_keeps ids c)) (x_ckpts x) in
      match keep with
      | [] => w   (* nothing would be retained: RetainOnly panics before it changes anything (repair D38) *)
      | _ => let '(w1, x1, _) := save_list_f w (with_ck x keep (x_pending x ++ drop) (x_cktasks x)) f in
             set_db w1 d x1
      end
  | None => w
  end.
Definition retain_empty (w : world) (d : N) (ids : list N) : bool :=
  match get_db w d with
  | Some x => match filter (retain_keeps ids) (x_ckpts x) with [] => true | _ => false end
  | None => false
  end.
Definition retain_ok (w : world) (d : N) (ids : list N) (f : N) : bool :=
  match get_db w d with
  | Some x => snd (save_list_f w (with_ck x (filter (retain_keeps ids) (x_ckpts x))
                                        (x_pending x ++ filter (fun c => negb (retain_keeps ids c)) (x_ckpts x)) (x_cktasks x)) f)
  | None => true
  end.

Fixpoint step (w : world) (o : op) : world :=
  match o with
  | OPut d k v rot => fst (write_op w d k false v rot)
  | ODel d k rot => fst (write_op w d k true [] rot)
  | OCkpt d id =>
      match get_db w d with
      | Some x =>
          let '(c, cap) := db_checkpoint (x_core x) in
          let rec := mkCk id (cp_tables cap) (x_dir x, 1, cp_walid cap) (cp_wal cap) (cp_after cap) (cp_lastseq cap) [] in
          set_db w d (with_ck (with_core x c) (x_ckpts x ++ [rec]) (x_pending x) (x_cktasks x ++ [(id, false)]))
      | None => w
      end
  | OStepFlush d =>
      match get_db w d with
      | Some x =>
          match x_flush x with
          | FBegin =>
              let ms := d_sealed (x_core x) in
              let ts := mk_tables (x_dir x) (x_next x) ms in
              let f := fold_left (fun f t => fs_put f (t_name t) (FSst (t_es t))) ts (g_fs w) in
              let x1 := with_objs x (x_next x + N.of_nat (length ms)) (x_objs x ++ map (obj_of_table false) ts) in
              set_db (set_fs w f) d (with_flush x1 (FSwap (length ms) ts) (x_flushq x))
          | FSwap n ts => set_db w d (with_flush (with_core x (db_flush_swap (x_core x) n ts)) FEnd (x_flushq x))
          | FEnd =>
              let x1 := match x_flushq x with O => with_flush x FNone O | S q => with_flush x FBegin q end in
              let x2 := match x_comp x1 with CNone => with_comp x1 CBegin (x_compq x1) | _ => with_comp x1 (x_comp x1) (S (x_compq x1)) end in
              set_db w d x2
          | FNone => w
          end
      | None => w
      end
  | OStepFlushF d =>
      match get_db w d with
      | Some x =>
          match x_flush x with
          | FBegin =>
              (* the first table's Save fails: its number is used up, no file appears, the task ends; the next queued flush starts *)
              let x1 := with_objs x (x_next x + 1) (x_objs x) in
              set_db w d (match x_flushq x1 with O => with_flush x1 FNone O | S q => with_flush x1 FBegin q end)
          | _ => w
          end
      | None => w
      end
  | OStepCompact d r =>
      match get_db w d with
      | Some x =>
          match x_comp x, r with
          | CBegin, _ => set_db w d (with_comp x CIter (x_compq x))
          | CIter, CRnil => set_db w d (with_comp x CEnd (x_compq x))
          | CIter, CRadded names =>
              let f := fold_left (fun f n => fs_put f n (FSst [])) names (g_fs w) in
              let next := fold_right (fun n a => N.max (num_of n + 1) a) (x_next x) names in
              let x1 := with_objs x next (x_objs x ++ map (fun n => mkObj n false 0 0) names) in
              set_db (set_fs w f) d (with_comp x1 (CSwap names) (x_compq x))
          | CSwap _, CRswapped removed added =>
              let f := fold_left (fun f a => fs_put f (fst a) (FSst (snd a))) added (g_fs w) in
              let ts := map (fun a => mkT (fst a) (snd a) (max_seq (snd a))) added in
              set_db (set_fs w f) d (with_comp (with_core x (db_compact_apply (x_core x) removed ts)) CIter (x_compq x))
          | CEnd, _ => set_db w d (match x_compq x with O => with_comp x CNone O | S q => with_comp x CBegin q end)
          | _, _ => w
          end
      | None => w
      end
  | OStepCkpt d id => step_ckpt w d id 0
  | OStepCkptF d id f => step_ckpt w d id f
  | ORetain d ids => step_retain w d ids 0
  | ORetainF d ids f => step_retain w d ids f
  | ORestore _ id same o nb =>
      let dir := if same then match handle_dir w id with Some hd => hd | None => 0 end else g_nextdir w in
      match open_from w id dir o nb with
      | RFail _ => add_db w (dead_db w) (negb same)
      | ROpen x =>
          (* a database restored into the directory of its source supersedes the other handles of that directory *)
          let gone := if same then map fst (filter (fun h => (snd h =? dir) && negb (fst h =? id)) (g_handles w)) else [] in
          add_db (add_dropped w gone) x (negb same)
      end
  | ORestoreM _ id dirs same o nb =>
      let dir := if same then hd 0 dirs else g_nextdir w in
      match open_fromM w id dirs dir o nb with
      | RFail _ => add_db w (dead_db w) (negb same)
      | ROpen x =>
          let gone := if same then map fst (filter (fun h => (snd h =? dir) && negb (fst h =? id)) (g_handles w)) else [] in
          add_db (add_dropped w gone) x (negb same)
      end
  | ORestoreF _ same => add_db w (dead_db w) (negb same)
  | OOpen _ => add_db w (mkW (db_new (g_mem w) (g_walmax w)) (g_nextdir w) OwnAll NbNone 0 [] [] FNone 0 CNone 0 [] [] Live) true
  | OCrash d => match get_db w d with Some x => set_db w d (with_state x Crashed) | None => w end
  | ODrop d => match get_db w d with Some x => set_db w d (with_state x Dropped) | None => w end
  | OGc =>
      let '(f, dbs, _) := fold_left (gc_db w) (g_dbs w) (g_fs w, [], []) in
      mkWorld f dbs (g_handles w) (g_nextdir w) (g_mem w) (g_walmax w) (g_dropped w)
  | ORead _ => w
  | OSeq a b => step (step w a) b
  end.

Definition gc_deleted (w : world) : list fname :=
  let '(_, _, dels) := fold_left (gc_db w) (g_dbs w) (g_fs w, [], []) in dels.
Definition run (w : world) (ops : list op) : world := fold_left step ops w.
