(* util/ds/heap.go: binary min-heap on a slice.  [lt a b] stands for compare(a, b) < 0.
   Indices are nat (Go int overflow of 2*i+1 is not modelled: slices are far below 2^62 elements).
   The index-assigner call-backs are modelled by [assign_events]-free functions here; the position of an
   element after an operation is what the call-backs have reported (see PPQ.v, index_of). *)
From Coq Require Import List Arith Bool.
Import ListNotations.

Section Heap.
  Context {A : Type} (lt : A -> A -> bool).

  Fixpoint upd (i : nat) (v : A) (l : list A) : list A :=
    match l, i with
    | [], _ => []
    | _ :: r, O => v :: r
    | x :: r, S i' => x :: upd i' v r
    end.

  Definition swap (i j : nat) (l : list A) : list A :=
    match nth_error l i, nth_error l j with
    | Some a, Some b => upd j a (upd i b l)
    | _, _ => l
    end.

  (* down(i): returns the new slice and the final position *)
  Fixpoint down_loop (fuel : nat) (l : list A) (i : nat) : list A * nat :=
    match fuel with
    | O => (l, i)
    | S f =>
        let left := 2 * i + 1 in
        let right := 2 * i + 2 in
        match nth_error l left with
        | None => (l, i)
        | Some vl =>
            let j := match nth_error l right with
                     | Some vr => if lt vr vl then right else left
                     | None => left
                     end in
            match nth_error l j, nth_error l i with
            | Some vj, Some vi => if lt vj vi then down_loop f (swap i j l) j else (l, i)
            | _, _ => (l, i)
            end
        end
    end.

  Definition down (l : list A) (i : nat) : list A * bool :=
    let '(l', i') := down_loop (length l) l i in (l', i <? i').

  Fixpoint up_loop (fuel : nat) (l : list A) (i : nat) : list A :=
    match fuel with
    | O => l
    | S f =>
        match i with
        | O => l
        | S _ =>
            let parent := Nat.div2 (i - 1) in
            match nth_error l i, nth_error l parent with
            | Some vi, Some vp => if lt vi vp then up_loop f (swap i parent l) parent else l
            | _, _ => l
            end
        end
    end.

  Definition up (l : list A) (i : nat) : list A := up_loop (length l) l i.

  Definition push (x : A) (l : list A) : list A := up (l ++ [x]) (length l).

  Definition peek (l : list A) : option A := hd_error l.

  Definition pop (l : list A) : option A * list A :=
    match l with
    | [] => (None, [])
    | x :: _ =>
        let n := length l - 1 in
        let l1 := match nth_error l n with Some y => removelast (upd 0 y l) | None => l end in
        (Some x, if 0 <? n then fst (down l1 0) else l1)
    end.

  (* Fix(i) for a valid index (Fix(-1) is a no-op, handled by the caller) *)
  Definition fix_ (l : list A) (i : nat) : list A :=
    let '(l', moved) := down l i in if moved then l' else up l i.

  (* ---- specification vocabulary ---- *)
  (* heap order: no child is smaller than its parent *)
  Definition heap_ok (l : list A) : Prop :=
    forall i j a b, (j = 2 * i + 1 \/ j = 2 * i + 2) ->
      nth_error l i = Some a -> nth_error l j = Some b -> lt b a = false.

  Fixpoint heap_okb_from (fuel : nat) (l : list A) (i : nat) : bool :=
    match fuel with
    | O => true
    | S f =>
        match nth_error l i with
        | None => true
        | Some a =>
            (match nth_error l (2 * i + 1) with Some b => negb (lt b a) | None => true end) &&
            (match nth_error l (2 * i + 2) with Some b => negb (lt b a) | None => true end) &&
            heap_okb_from f l (S i)
        end
    end.
  Definition heap_okb (l : list A) : bool := heap_okb_from (length l) l 0.

  (* [lt] is a strict weak order: asymmetric, and "not less" is transitive *)
  Definition swo : Prop :=
    (forall a b, lt a b = true -> lt b a = false) /\
    (forall a b c, lt a b = false -> lt b c = false -> lt a c = false).

  Definition is_child (i j : nat) : Prop := j = 2 * i + 1 \/ j = 2 * i + 2.

  (* heap order everywhere except around position [i] (whose element was changed arbitrarily): every parent/child pair
     not involving [i] is in order, and the parent of [i] is not above the children of [i] *)
  Definition heap_ok_except (l : list A) (i : nat) : Prop :=
    (forall p c a b, is_child p c -> p <> i -> c <> i ->
       nth_error l p = Some a -> nth_error l c = Some b -> lt b a = false) /\
    (forall p c a b, is_child p i -> is_child i c ->
       nth_error l p = Some a -> nth_error l c = Some b -> lt b a = false).
End Heap.
