(* JobSM - executable model of the job's cluster state machine (jobs/job.go, registry.go, liveness.go,
   assembly.go), composed with the part of the snapshot store it drives (storage/snapshots/store.go:
   pendingSnapshot / completedSnapshots / checkpointID / sourceSplitters) and with the operator's
   checkpoint slot (workers/operator/operator.go: o.checkpoint).

   What is abstracted: node ids are numbers (operators and source runners live in separate name spaces,
   the liveness map is keyed by (kind, number)); time is N milliseconds; the serial task queue is the
   atomicity of [step]; a `start` goroutine is the interval between the deployment emitted by
   [evaluate] and the [OFin] op that ends it (Deploy returned for every node, ok or not).
   The model of the CURRENT code is the instance [current] of the quirk record; [original] is the code
   before the C15 repairs (D18 pending snapshot, D18 operator slot, D30 source splitters). *)
From Coq Require Import List NArith Bool.
Import ListNotations.
Open Scope N_scope.

Record quirks := MkQuirks {
  q_keep_pending : bool;          (* D18a: a new assembly start leaves Store.pendingSnapshot in place *)
  q_splitters_accumulate : bool;  (* D30: every start appends to Store.sourceSplitters; finishSnapshot panics unless exactly one *)
  q_keep_slot : bool;             (* D18b: Operator.HandleDeploy leaves o.checkpoint in place *)
  q_keep_savepoint : bool;        (* seeded C15-3: AbortPendingCheckpoint keeps a pending snapshot flagged as a savepoint *)
  q_ticker_once : bool;           (* seeded C15r2-1: the checkpoint ticker is created only if none was ever created *)
  q_keep_complete_slot : bool;    (* seeded C15r5-3: HandleDeploy clears o.checkpoint only while it is half aligned *)
  q_install_superseded : bool     (* seeded C15r6-3: finishSnapshotAsync installs the snapshot it wrote even when a newer one is published *)
}.
Definition current : quirks := MkQuirks false false false false false false false.
Definition original : quirks := MkQuirks true true true false false false false.

Inductive status := Init | Paused | Starting | Running.
Definition status_code (s : status) : N :=
  match s with Init => 0 | Paused => 1 | Starting => 2 | Running => 3 end.

(* ---------- sorted maps of the registry (util/ds.SortedMap keyed by id), as sorted duplicate-free lists *)
Fixpoint ins (x : N) (l : list N) : list N :=
  match l with
  | [] => [x]
  | y :: t => if x <? y then x :: l else if x =? y then l else y :: ins x t
  end.
Definition rem (x : N) (l : list N) : list N := filter (fun y => negb (y =? x)) l.
Definition mem (x : N) (l : list N) : bool := existsb (N.eqb x) l.

(* ---------- liveness tracker: map id -> time of the last heartbeat *)
Definition key := (bool * N)%type.     (* (is_operator, number) *)
Definition key_eqb (a b : key) : bool := Bool.eqb (fst a) (fst b) && (snd a =? snd b).
Definition hbmap := list (key * N).
Definition hb_set (k : key) (t : N) (m : hbmap) : hbmap :=
  (k, t) :: filter (fun e => negb (key_eqb (fst e) k)) m.
Definition hb_get (k : key) (m : hbmap) : option N :=
  match find (fun e => key_eqb (fst e) k) m with Some e => Some (snd e) | None => None end.

(* ---------- snapshot store *)
Record pending := MkPending { p_id : N; p_ops : list (N * bool); p_srs : list (N * bool);
                              p_sp : bool (* jobSnapshot.isSavepoint *) }.
Record store := MkStore { pend : option pending; completed : N (* 0 = none *); ctr : N; splitters : N }.

Record st := MkSt {
  now : N;
  ops : list N;  srs : list N;          (* registry *)
  hb : hbmap;
  stat : status;
  a_ops : list N; a_srs : list N;       (* j.assembly *)
  dep_ck : N;                           (* checkpoint the start in flight read with CurrentCheckpoint *)
  sto : store;
  ticker : N;                           (* j.checkpointTicker: 0 = never created, 1 = armed, 2 = stopped *)
  holdw : bool;                         (* harness: the next job-snapshot file write is held (slow storage) *)
  writing : N;                          (* id of the fully acknowledged checkpoint whose file write is in progress (0 none) *)
  pick : option (list N * list N)       (* the nodes the next NewAssembly will choose (see OChoose); None = the lowest ids *)
}.

Record cfg := MkCfg { wc : nat; deadline : N; qk : quirks }.

Definition init_store : store := MkStore None 0 0 0.
Definition init : st := MkSt 0 [] [] [] Init [] [] 0 init_store 0 false 0 None.

(* Ticker.Stop (a ticker that was never created stays absent); clock.Every in the "running" task *)
Definition tk_stop (t : N) : N := if t =? 0 then 0 else 2.
Definition tk_arm (q : quirks) (t : N) : N := if q_ticker_once q then (if t =? 0 then 1 else t) else 1.
(* status change; leaving for Paused stops the checkpoint ticker (both places in job.go that set Paused do) *)
Definition set_stat (s : st) (x : status) : st :=
  MkSt (now s) (ops s) (srs s) (hb s) x (a_ops s) (a_srs s) (dep_ck s) (sto s)
       (match x with Paused => tk_stop (ticker s) | _ => ticker s end) (holdw s) (writing s) (pick s).
(* the queued "running" task of job.start: status Running and a fresh ticker *)
Definition go_running (c : cfg) (s : st) : st :=
  MkSt (now s) (ops s) (srs s) (hb s) Running (a_ops s) (a_srs s) (dep_ck s) (sto s) (tk_arm (qk c) (ticker s)) (holdw s) (writing s) (pick s).
Definition set_sto (s : st) (x : store) : st :=
  MkSt (now s) (ops s) (srs s) (hb s) (stat s) (a_ops s) (a_srs s) (dep_ck s) x (ticker s) (holdw s) (writing s) (pick s).

(* ---------- observations *)
Record dep := MkDep { d_ops : list N; d_srs : list N; d_ck : list N; d_peers : bool }.
Record obs := MkObs {
  o_status : N; o_deps : list dep;
  o_started : list N; o_cid : N;        (* tick: runners that received StartCheckpoint, its id (0 none) *)
  o_res : N;                            (* ack: 0 accepted, 1 error, 2 panic *)
  o_published : N;                      (* ack: id of the checkpoint published by it (0 none) *)
  o_split : N                           (* fin: 0 = splitter not started, k+1 = started from checkpoint k *)
}.

(* ---------- liveness.Purge + registry.Purge *)
Definition expired (c : cfg) (t_now : N) (e : key * N) : bool := snd e + deadline c <? t_now.
Definition is_dead (c : cfg) (s : st) (k : key) : bool :=
  existsb (fun e => key_eqb (fst e) k && expired c (now s) e) (hb s).
Definition purge (c : cfg) (s : st) : st :=
  MkSt (now s)
       (filter (fun n => negb (is_dead c s (true, n))) (ops s))
       (filter (fun n => negb (is_dead c s (false, n))) (srs s))
       (filter (fun e => negb (expired c (now s) e)) (hb s))
       (stat s) (a_ops s) (a_srs s) (dep_ck s) (sto s) (ticker s) (holdw s) (writing s) (pick s).

(* Assembly.Healthy *)
Definition healthy (s : st) : bool :=
  forallb (fun n => mem n (srs s)) (a_srs s) && forallb (fun n => mem n (ops s)) (a_ops s).

(* the beginning of job.start for a fresh assembly: abort a pending snapshot of the previous assembly
   (repaired code), read CurrentCheckpoint, register the new splitter, fan out Deploy *)
(* Registry.NewAssembly chooses WorkerCount of the registered operators and WorkerCount of the registered runners.
   WHICH ones, when more are registered (standbys), is not constrained by the property: the choice is an input ([pick],
   set by OChoose). A choice is admissible when it is strictly ascending (the sorted map's order: every member gets the
   same ordered peer list), has exactly WorkerCount elements, and consists of registered (purged = live) nodes. Without an
   admissible choice the lowest ids are taken (what the code does today). *)
Fixpoint sortedb (l : list N) : bool :=
  match l with
  | [] => true
  | x :: t => match t with [] => true | y :: _ => (x <? y) && sortedb t end
  end.
Definition admissible (w : nat) (registered chosen : list N) : bool :=
  sortedb chosen && Nat.eqb (length chosen) w && forallb (fun n => mem n registered) chosen.
Definition choose_ops (c : cfg) (s : st) : list N :=
  match pick s with
  | Some (co, _) => if admissible (wc c) (ops s) co then co else firstn (wc c) (ops s)
  | None => firstn (wc c) (ops s)
  end.
Definition choose_srs (c : cfg) (s : st) : list N :=
  match pick s with
  | Some (_, cr) => if admissible (wc c) (srs s) cr then cr else firstn (wc c) (srs s)
  | None => firstn (wc c) (srs s)
  end.

Definition start_begin (c : cfg) (s : st) : st * list dep :=
  let ao := choose_ops c s in
  let ar := choose_srs c s in
  let so := sto s in
  let kept := if q_keep_pending (qk c) then pend so
              else match pend so with
                   | Some p => if q_keep_savepoint (qk c) && p_sp p then Some p else None
                   | None => None
                   end in
  let so' := MkStore kept (completed so) (ctr so)
                     (if q_splitters_accumulate (qk c) then splitters so + 1 else 1) in
  (MkSt (now s) (ops s) (srs s) (hb s) Starting ao ar (completed so) so' (ticker s) (holdw s) (writing s) None,
   [MkDep ao ar (map (fun _ => completed so) ao) true]).

(* try to form and start a new assembly: Registry.NewAssembly + `go start()` *)
Definition try_assemble (c : cfg) (s : st) : st * list dep :=
  if Nat.ltb (length (srs s)) (wc c) || Nat.ltb (length (ops s)) (wc c) then (s, [])
  else start_begin c s.

(* job.evaluateClusterStatus. When a running assembly turns out unhealthy the job pauses; WHEN the next assembly is
   started - in this same evaluation, from standbys already registered, or at the next membership event (what the code
   does today) - is not constrained by the property: it is an input, like the choice of nodes ([pick] = Some: the next
   possible assembly is taken at once, with that choice). *)
Definition evaluate (c : cfg) (s0 : st) : st * list dep :=
  let s := purge c s0 in
  match stat s with
  | Running => if healthy s then (s, [])
               else match pick s with
                    | Some _ => try_assemble c (set_stat s Paused)
                    | None => (set_stat s Paused, [])
                    end
  | Init | Paused => try_assemble c s
  | Starting => (s, [])
  end.

(* ---------- snapshot store operations *)
Fixpoint mark (x : N) (l : list (N * bool)) : option (list (N * bool)) :=
  match l with
  | [] => None
  | (y, b) :: t =>
      if x =? y then (if b then None else Some ((y, true) :: t))
      else match mark x t with Some t' => Some ((y, b) :: t') | None => None end
  end.
Definition all_true (l : list (N * bool)) : bool := forallb snd l.
Definition complete (p : pending) : bool := all_true (p_srs p) && all_true (p_ops p).

(* Store.CreateCheckpoint *)
Definition create_checkpoint (so : store) (o r : list N) : store * option N :=
  match pend so with
  | Some _ => (so, None)
  | None => let id := ctr so + 1 in
            (MkStore (Some (MkPending id (map (fun n => (n, false)) o) (map (fun n => (n, false)) r) false))
                     (completed so) id (splitters so), Some id)
  end.

(* Store.CreateSavepoint: (store, Some (id, created)) or None = "savepoint already in-progress" *)
Definition create_savepoint (so : store) (o r : list N) : store * option (N * bool) :=
  match pend so with
  | Some p => if p_sp p then (so, None)
              else (MkStore (Some (MkPending (p_id p) (p_ops p) (p_srs p) true)) (completed so) (ctr so) (splitters so),
                    Some (p_id p, false))
  | None => let id := ctr so + 1 in
            (MkStore (Some (MkPending id (map (fun n => (n, false)) o) (map (fun n => (n, false)) r) true))
                     (completed so) id (splitters so), Some (id, true))
  end.

(* the tail of AddOperatorSnapshot / AddSourceSnapshot: finishSnapshot when complete *)
Definition finish_if_complete (so : store) (p : pending) : store * N * N :=   (* store, res, published *)
  if complete p then
    if splitters so =? 1 then (MkStore None (p_id p) (ctr so) (splitters so), 0, p_id p)
    else (MkStore (Some p) (completed so) (ctr so) (splitters so), 2, 0)        (* panic; the flag stays set *)
  else (MkStore (Some p) (completed so) (ctr so) (splitters so), 0, 0).

Definition ack_op (so : store) (n id : N) : store * N * N :=
  match pend so with
  | None => (so, 1, 0)
  | Some p =>
      if negb (p_id p =? id) then (so, 1, 0)
      else let p' := match mark n (p_ops p) with
                     | Some l => MkPending (p_id p) l (p_srs p) (p_sp p)
                     | None => p                      (* unknown / repeated operator: logged only *)
                     end in
           finish_if_complete so p'
  end.

Definition ack_sr (so : store) (n id : N) : store * N * N :=
  match pend so with
  | None => (so, 1, 0)
  | Some p =>
      if negb (p_id p =? id) then (so, 1, 0)
      else match mark n (p_srs p) with
           | Some l => finish_if_complete so (MkPending (p_id p) (p_ops p) l (p_sp p))
           | None => (so, 1, 0)                       (* unknown / repeated runner: rejected *)
           end
  end.

(* ---------- operations *)
Inductive op :=
| ORegOp (n : N) | ORegSr (n : N)       (* register = heartbeat *)
| ODeregOp (n : N) | ODeregSr (n : N)
| OAdv (ms : N)                         (* the clock advances; nothing is evaluated *)
| OFin (ok : bool)                      (* the start in flight ends: every Deploy returned / one failed *)
| OTick                                 (* the harness ticks the "checkpointing" label: every ticker alive fires *)
| OSavepoint                            (* Job.HandleCreateSavepoint: o_cid = the id returned, o_res = 1 on error *)
| OAckOp (n id : N) | OAckSr (n id : N)
| OHoldW                                (* harness: the next job-snapshot file write blocks in the storage (one at a time) *)
| OReleaseW                             (* the held write returns: finishSnapshotAsync goes on; o_published = id iff it became current *)
| OChoose (co cr : list N).             (* not an event: fixes which nodes the next NewAssembly picks (any lists; only an admissible choice is used) *)

Definition mk_obs (s : st) (ds : list dep) : obs := MkObs (status_code (stat s)) ds [] 0 0 0 0.

(* the state after an ack: when the ack completed the checkpoint while the write gate is armed, the snapshot file is
   being written: the pending snapshot is gone (finishSnapshot cleared it) but nothing is published yet *)
Definition after_ack (s : st) (so : store) (res pub : N) : st * obs :=
  if holdw s && negb (pub =? 0) then
    let s1 := MkSt (now s) (ops s) (srs s) (hb s) (stat s) (a_ops s) (a_srs s) (dep_ck s)
                   (MkStore (pend so) (completed (sto s)) (ctr so) (splitters so)) (ticker s) false pub (pick s) in
    (s1, MkObs (status_code (stat s1)) [] [] 0 res 0 0)
  else let s1 := set_sto s so in (s1, MkObs (status_code (stat s1)) [] [] 0 res pub 0).

Definition step (c : cfg) (s : st) (o : op) : st * obs :=
  match o with
  | ORegOp n =>
      let s1 := MkSt (now s) (ins n (ops s)) (srs s) (hb_set (true, n) (now s) (hb s)) (stat s) (a_ops s) (a_srs s) (dep_ck s) (sto s) (ticker s) (holdw s) (writing s) (pick s) in
      let '(s2, ds) := evaluate c s1 in (s2, mk_obs s2 ds)
  | ORegSr n =>
      let s1 := MkSt (now s) (ops s) (ins n (srs s)) (hb_set (false, n) (now s) (hb s)) (stat s) (a_ops s) (a_srs s) (dep_ck s) (sto s) (ticker s) (holdw s) (writing s) (pick s) in
      let '(s2, ds) := evaluate c s1 in (s2, mk_obs s2 ds)
  | ODeregOp n =>
      let s1 := MkSt (now s) (rem n (ops s)) (srs s) (hb s) (stat s) (a_ops s) (a_srs s) (dep_ck s) (sto s) (ticker s) (holdw s) (writing s) (pick s) in
      let '(s2, ds) := evaluate c s1 in (s2, mk_obs s2 ds)
  | ODeregSr n =>
      let s1 := MkSt (now s) (ops s) (rem n (srs s)) (hb s) (stat s) (a_ops s) (a_srs s) (dep_ck s) (sto s) (ticker s) (holdw s) (writing s) (pick s) in
      let '(s2, ds) := evaluate c s1 in (s2, mk_obs s2 ds)
  | OAdv ms =>
      let s1 := MkSt (now s + ms) (ops s) (srs s) (hb s) (stat s) (a_ops s) (a_srs s) (dep_ck s) (sto s) (ticker s) (holdw s) (writing s) (pick s) in
      (s1, mk_obs s1 [])
  | OFin ok =>
      match stat s with
      | Starting =>
          if ok then
            let '(s2, ds) := evaluate c (go_running c s) in
            (s2, MkObs (status_code (stat s2)) ds [] 0 0 0 (dep_ck s + 1))
          else
            let '(s2, ds) := evaluate c (set_stat s Paused) in (s2, mk_obs s2 ds)
      | _ => (s, mk_obs s [])
      end
  | OTick =>                               (* fires only a ticker that is alive, whatever the status *)
      if ticker s =? 1 then
          match create_checkpoint (sto s) (a_ops s) (a_srs s) with
          | (so, Some id) => let s1 := set_sto s so in (s1, MkObs (status_code (stat s1)) [] (a_srs s) id 0 0 0)
          | (_, None) => (s, mk_obs s [])
          end
      else (s, mk_obs s [])
  | OSavepoint =>
      match stat s with
      | Running =>
          match create_savepoint (sto s) (a_ops s) (a_srs s) with
          | (so, Some (id, created)) =>
              let s1 := set_sto s so in
              (s1, MkObs (status_code (stat s1)) [] (if created then a_srs s else []) id 0 0 0)
          | (_, None) => (s, MkObs (status_code (stat s)) [] [] 0 1 0 0)
          end
      | _ => (s, MkObs (status_code (stat s)) [] [] 0 1 0 0)
      end
  | OAckOp n id =>
      let '(so, res, pub) := ack_op (sto s) n id in after_ack s so res pub
  | OAckSr n id =>
      let '(so, res, pub) := ack_sr (sto s) n id in after_ack s so res pub
  | OHoldW =>
      if writing s =? 0 then
        let s1 := MkSt (now s) (ops s) (srs s) (hb s) (stat s) (a_ops s) (a_srs s) (dep_ck s) (sto s) (ticker s) true 0 (pick s) in
        (s1, mk_obs s1 [])
      else (s, mk_obs s [])
  | OChoose co cr =>
      let s1 := MkSt (now s) (ops s) (srs s) (hb s) (stat s) (a_ops s) (a_srs s) (dep_ck s) (sto s) (ticker s) (holdw s) (writing s) (Some (co, cr)) in
      (s1, mk_obs s1 [])
  | OReleaseW =>
      if writing s =? 0 then (s, mk_obs s [])
      else
        let so := sto s in
        let w := writing s in
        (* the guard of finishSnapshotAsync: a snapshot superseded by a newer published one is not installed *)
        let install := q_install_superseded (qk c) || (completed so <? w) in
        let so' := if install then MkStore (pend so) w (ctr so) (splitters so) else so in
        let s1 := MkSt (now s) (ops s) (srs s) (hb s) (stat s) (a_ops s) (a_srs s) (dep_ck s) so' (ticker s) (holdw s) 0 (pick s) in
        (s1, MkObs (status_code (stat s1)) [] [] 0 0 (if install then w else 0) 0)
  end.

Fixpoint run (c : cfg) (s : st) (l : list op) : st * list obs :=
  match l with
  | [] => (s, [])
  | o :: t => let '(s1, b) := step c s o in let '(s2, bs) := run c s1 t in (s2, b :: bs)
  end.

Definition exec (c : cfg) (l : list op) : st := fst (run c init l).

(* ---------- the operator's checkpoint slot (workers/operator: handleCheckpointBarrier, HandleDeploy) *)
Record slot := MkSlot { sl_id : N; sl_wait : list N }.           (* o.checkpoint: id, runners still awaited *)
Record oper := MkOper { o_runners : list N; o_slot : option slot }.

(* HandleDeploy clears the slot, whatever state it is in *)
Definition oper_deploy (q : quirks) (o : oper) (runners : list N) : oper :=
  MkOper runners
    (if q_keep_slot q then o_slot o
     else match o_slot o with
          | Some sl => if q_keep_complete_slot q && (match sl_wait sl with [] => true | _ => false end) then Some sl else None
          | None => None
          end).

(* all barriers are in: the operator checkpoints its database and reports to the job. When the job refuses the ack
   (OperatorCheckpointComplete returns an error: the checkpoint was aborted / is not the pending one) handleCheckpointBarrier
   returns before it clears o.checkpoint: the slot stays, complete but unreported (sl_wait = []). *)
Definition oper_finish (o : oper) (id : N) (accept : bool) : oper * N :=
  if accept then (MkOper (o_runners o) None, 2) else (MkOper (o_runners o) (Some (MkSlot id [])), 5).

(* The slot has three states: None (empty), Some with runners awaited (aligning), Some with none awaited (complete but
   unreported). result: 0 = barrier registered, 1 = rejected (id mismatch), 2 = all barriers in: checkpoint taken and
   acknowledged, 3 = the request is parked by alignSender (aligning, and this sender's barrier is already in; with a
   complete slot the channel is closed and nothing parks), 5 = all barriers in but the job refused the ack *)
Definition oper_barrier (o : oper) (sender id : N) (accept : bool) : oper * N :=
  match o_slot o with
  | Some sl0 =>
      if (match sl_wait sl0 with [] => false | _ => true end) && negb (mem sender (sl_wait sl0)) then (o, 3) else
      if negb (sl_id sl0 =? id) then (o, 1)
      else match rem sender (sl_wait sl0) with
           | [] => oper_finish o id accept
           | w => (MkOper (o_runners o) (Some (MkSlot id w)), 0)
           end
  | None =>
      match rem sender (o_runners o) with
      | [] => oper_finish o id accept
      | w => (MkOper (o_runners o) (Some (MkSlot id w)), 0)
      end
  end.

Fixpoint oper_barriers (o : oper) (senders : list N) (id : N) (accept : bool) : oper * list N :=
  match senders with
  | [] => (o, [])
  | x :: t => let '(o1, r) := oper_barrier o x id accept in let '(o2, rs) := oper_barriers o1 t id accept in (o2, r :: rs)
  end.

(* ---------- the operator's keyed state across redeployments (workers/operator: HandleDeploy opens a fresh DKV from
   the checkpoints of the request, or an empty one). The state is the list of keys applied since the empty state; a
   counting handler sees, for every event, how often its key was applied before. *)
Inductive sop :=
| SEv (k : N)                 (* a keyed event; observed: the count the handler is given for k *)
| SCkpt                       (* barriers from all runners: the operator checkpoints and acks; observed: the id acked *)
| SRedeploy (from : N).       (* HandleDeploy restoring checkpoint [from] (0 = the request carries no checkpoint) *)
Record ost := MkOst { applied : list N; snaps : list (N * list N); next_id : N }.
Definition ost0 : ost := MkOst [] [] 1.
Definition count (k : N) (l : list N) : N := N.of_nat (length (filter (N.eqb k) l)).
Fixpoint snap_get (id : N) (l : list (N * list N)) : option (list N) :=
  match l with
  | [] => None
  | (i, x) :: t => if i =? id then Some x else snap_get id t
  end.
Definition sstep (s : ost) (o : sop) : ost * N :=
  match o with
  | SEv k => (MkOst (applied s ++ [k]) (snaps s) (next_id s), count k (applied s))
  | SCkpt => (MkOst (applied s) ((next_id s, applied s) :: snaps s) (next_id s + 1), next_id s)
  | SRedeploy from =>
      (MkOst (match snap_get from (snaps s) with Some l => l | None => [] end) (snaps s) (next_id s), 0)
  end.
Fixpoint srun (s : ost) (l : list sop) : ost * list N :=
  match l with
  | [] => (s, [])
  | o :: t => let '(s1, b) := sstep s o in let '(s2, bs) := srun s1 t in (s2, b :: bs)
  end.
