(* dkv/wal/writer.go (Put/Delete/Cut/Truncate/Rotate/Save) and dkv/wal/reader.go (All) at byte level. *)
From RV Require Export Model.SstTable.
Open Scope N_scope.

Record seg := mkSeg { sg_buf : bytes; sg_latest : N }.
Record writer := mkW { w_sealed : list seg; w_active : bytes; w_latest : N }.
Definition new_writer : writer := mkW [] [] 0.

(* record layout of Put / Delete *)
Definition wal_put_bytes (k v : bytes) (s : N) : bytes := w_u64 s ++ w_var k ++ w_tomb false ++ w_var v.
Definition wal_del_bytes (k : bytes) (s : N) : bytes := w_u64 s ++ w_var k ++ w_tomb true.

Definition w_put (w : writer) (k v : bytes) (s : N) : writer :=
  mkW (w_sealed w) (w_active w ++ wal_put_bytes k v s) s.
Definition w_delete (w : writer) (k : bytes) (s : N) : writer :=
  mkW (w_sealed w) (w_active w ++ wal_del_bytes k s) s.
Definition w_cut (w : writer) : writer :=
  mkW (w_sealed w ++ [mkSeg (w_active w) (w_latest w)]) [] (w_latest w).

(* Truncate: keep from the first sealed segment whose latestSeqNum > seqNum; none => drop all *)
Fixpoint drop_upto (s : N) (l : list seg) : list seg :=
  match l with
  | [] => []
  | g :: r => if s <? sg_latest g then l else drop_upto s r
  end.
Definition w_truncate (w : writer) (s : N) : writer := mkW (drop_upto s (w_sealed w)) (w_active w) (w_latest w).

(* Save (of the writer sealed by Rotate): all sealed buffers then the active buffer *)
Definition w_file (w : writer) : bytes := flat_map sg_buf (w_sealed w) ++ w_active w.

(* Rotate: the next writer carries every buffer as a sealed segment.
   [carry = true] is the repaired code (d4a4be4, D7); before it the carried segments had latestSeqNum 0. *)
Definition w_rotate_gen (carry : bool) (w : writer) : writer :=
  mkW (map (fun g => mkSeg (sg_buf g) (if carry then sg_latest g else 0)) (w_sealed w)
         ++ [mkSeg (w_active w) (if carry then w_latest w else 0)])
      [] (w_latest w).
Definition w_rotate := w_rotate_gen true.

(* ---------- the operations a DB issues on its current writer ---------- *)
Inductive wop :=
| WPut (k v : bytes) | WDel (k : bytes)        (* sequence numbers are assigned by the caller: previous + 1 *)
| WCut | WTrunc (s : N)
| WRotate.                                      (* Checkpoint: rotate; the sealed writer is saved *)

(* state: current writer, last sequence number handed out, saved files (newest first) *)
Record wstate := mkWS { ws_w : writer; ws_seq : N; ws_saved : list bytes }.
Definition wstep_gen (carry : bool) (st : wstate) (op : wop) : wstate :=
  match op with
  | WPut k v => mkWS (w_put (ws_w st) k v (ws_seq st + 1)) (ws_seq st + 1) (ws_saved st)
  | WDel k => mkWS (w_delete (ws_w st) k (ws_seq st + 1)) (ws_seq st + 1) (ws_saved st)
  | WCut => mkWS (w_cut (ws_w st)) (ws_seq st) (ws_saved st)
  | WTrunc s => mkWS (w_truncate (ws_w st) s) (ws_seq st) (ws_saved st)
  | WRotate => mkWS (w_rotate_gen carry (ws_w st)) (ws_seq st) (w_file (ws_w st) :: ws_saved st)
  end.
Definition wstep := wstep_gen true.
Definition wrun_gen (carry : bool) (s0 : N) (ops : list wop) : wstate :=
  fold_left (wstep_gen carry) ops (mkWS new_writer s0 []).
Definition wrun := wrun_gen true.

(* ---------- Reader.All ---------- *)
Inductive wal_res := WOk (es : list entry) | WErr (es : list entry) | WPanic.

(* one iteration of the skip loop; None = error *)
Definition wal_skip1 (d : bytes) : option bytes :=
  match rd_u64 d with
  | None => None
  | Some (_, r1) =>
      match rd_var r1 with
      | None => None
      | Some (_, r2) =>
          match rd_tomb r2 with
          | None => None
          | Some (true, r3) => Some r3
          | Some (false, r3) => match rd_var r3 with Some (_, r4) => Some r4 | None => None end
          end
      end
  end.
Fixpoint wal_skip (fuel : nat) (n : N) (d : bytes) : option bytes :=
  if n =? 0 then Some d
  else match fuel with
       | O => None
       | S f => match wal_skip1 d with Some r => wal_skip f (n - 1) r | None => None end
       end.

(* the read loop; entries come out as (key, value, seqNum, deleted); a replayed delete carries seqNum 0 *)
Definition wal_read1 (d : bytes) : option (entry * bytes) :=
  match rd_u64 d with
  | None => None
  | Some (s, r1) =>
      match rd_var r1 with
      | None => None
      | Some (k, r2) =>
          match rd_tomb r2 with
          | None => None
          | Some (true, r3) => Some (mkE k [] 0 true, r3)
          | Some (false, r3) => match rd_var r3 with Some (v, r4) => Some (mkE k v s false, r4) | None => None end
          end
      end
  end.
Fixpoint wal_read (fuel : nat) (d : bytes) (acc : list entry) : wal_res :=
  match d with
  | [] => WOk (rev acc)
  | _ => match fuel with
         | O => WErr (rev acc)
         | S f => match wal_read1 d with
                  | Some (e, r) => wal_read f r (e :: acc)
                  | None => WErr (rev acc)
                  end
         end
  end.

Definition wal_read_all (file : bytes) (after : N) : wal_res :=
  match file with
  | [] => WOk []                                       (* empty file is allowed *)
  | _ =>
      match rd_u64 file with
      | None => WErr []
      | Some (first, _) =>
          if u64 (after + 1) <? first then WPanic
          else
            let skip := u64 (after + 2 ^ 64 - first + 1) in      (* uint64: startAfter - firstSeqNum + 1 *)
            match wal_skip (length file) skip file with
            | None => WErr []
            | Some d => wal_read (length d) d []
            end
      end
  end.

(* ---------- specification-level ---------- *)
(* the appends of a history, in order, as the entries a replay must deliver *)
Definition op_entry (op : wop) : list entry :=
  match op with
  | WPut k v => [mkE k v 0 false]
  | WDel k => [mkE k [] 0 true]
  | _ => []
  end.
Definition appended (ops : list wop) : list entry := flat_map op_entry ops.
(* observable part of a replayed entry *)
Definition strip_seq (e : entry) : entry := mkE (e_key e) (e_val e) 0 (e_del e).
