(* Model of the asynchronous publication of completed checkpoints, storage/snapshots/store.go
   finishSnapshot / finishSnapshotAsync, at the granularity of its individually schedulable steps, together
   with crashes and Restart = LoadCheckpoint.  One publication goroutine per completed checkpoint n:

     Start n   finishSnapshot spawns the goroutine (ids are handed out in increasing order, C12)
     W n       fileStore.Write of job-<segment n>.snapshot returns
     U n       the region under stateMu: superseded? obsolete := ids of completedSnapshots;
               spawn the Remove goroutine and the notifier; completedSnapshots := [n]
     WFail n   fileStore.Write of the snapshot file of n returns an ERROR: the goroutine reports it on the error
               channel and ends; nothing else of publication n ever runs
     R k       the k-th spawned, not yet executed Remove call runs
     TL k      the k-th notifier waiting for notifyMu gets it and checks isLatestCompleted
     TR        the subscriber receives from the notifier that holds notifyMu
     Crash     the process dies (every goroutine with it); a new Store runs LoadCheckpoint on the storage
     Rewind s  the process dies and a new Store is started FROM THE SAVEPOINT of checkpoint s on the same storage
               (SavepointURI set: the savepoint overrides the local checkpoints, the id counter continues at s, so
               ids of the abandoned timeline are issued again and their files are rewritten; enabled when a
               snapshot of id s was written at some time; the subscribers restart too)

   A step that is not enabled is a no-op, so every list of steps is a schedule.  Definitions only. *)
From RV Require Import Base.Mach Base.Bytes Model.PathSeg.
Open Scope N_scope.

(* the code before the repairs D16 / D17 *)
Record pquirks := MkPQ { load_first_listed : bool; no_id_guard : bool }.
Definition prepaired : pquirks := MkPQ false false.

Record pstate := MkP {
  files : list N;            (* ids that have a snapshot file in storage *)
  completed : list N;        (* ids of completedSnapshots *)
  last : N;                  (* greatest id handed out so far in this store lifetime (checkpointID) *)
  inflW : list N;            (* publications started, file not yet written (arrival order) *)
  inflU : list N;            (* file written, locked region not yet run *)
  pend_rm : list (list N);   (* spawned Remove calls *)
  nwait : list N;            (* notifiers waiting for notifyMu *)
  nhold : option N;          (* notifier holding notifyMu, blocked in the channel send *)
  written : list N;          (* ghost: every id whose file was ever written *)
  received : list N }.       (* ghost: notifications received by the subscriber, oldest first *)

Definition pinit : pstate := MkP [] [] 0 [] [] [] [] None [] [].

Inductive pstep := Start (n : N) | W (n : N) | U (n : N) | R (k : nat) | TL (k : nat) | TR | Crash | Rewind (sp : N) | WFail (n : N).

Definition mem (x : N) (l : list N) : bool := existsb (N.eqb x) l.
Definition remove_id (x : N) (l : list N) : list N := filter (fun y => negb (y =? x)) l.
Definition remove_ids (xs l : list N) : list N := filter (fun y => negb (mem y xs)) l.
Fixpoint drop_nth {A} (k : nat) (l : list A) : list A :=
  match l, k with
  | [], _ => []
  | _ :: l', O => l'
  | x :: l', S k' => x :: drop_nth k' l'
  end.
Definition last_of (l : list N) : option N := match rev l with x :: _ => Some x | [] => None end.
Definition is_nil {A} (l : list A) : bool := match l with [] => true | _ => false end.

Definition exec1 (q : pquirks) (s : pstate) (st : pstep) : pstate :=
  match st with
  | Start n =>
      if (last s <? n) && (n <=? max64)
      then MkP (files s) (completed s) n (inflW s ++ [n]) (inflU s) (pend_rm s) (nwait s) (nhold s) (written s) (received s)
      else s
  | W n =>
      if mem n (inflW s)
      then MkP (n :: remove_id n (files s)) (completed s) (last s) (remove_id n (inflW s)) (inflU s ++ [n])
               (pend_rm s) (nwait s) (nhold s) (n :: written s) (received s)
      else s
  | U n =>
      if mem n (inflU s)
      then
        let superseded := negb (no_id_guard q) && existsb (fun c => n <? c) (completed s) in
        let cleanup := negb (is_nil (completed s)) && negb superseded in
        MkP (files s) (if superseded then completed s else [n]) (last s) (inflW s) (remove_id n (inflU s))
            (if cleanup then pend_rm s ++ [completed s] else pend_rm s)
            (if cleanup then nwait s ++ [n] else nwait s) (nhold s) (written s) (received s)
      else s
  | R k =>
      match nth_error (pend_rm s) k with
      | Some ids => MkP (remove_ids ids (files s)) (completed s) (last s) (inflW s) (inflU s) (drop_nth k (pend_rm s))
                        (nwait s) (nhold s) (written s) (received s)
      | None => s
      end
  | TL k =>
      match nhold s, nth_error (nwait s) k with
      | None, Some n =>
          let valid := no_id_guard q || match last_of (completed s) with Some c => c =? n | None => false end in
          MkP (files s) (completed s) (last s) (inflW s) (inflU s) (pend_rm s) (drop_nth k (nwait s))
              (if valid then Some n else None) (written s) (received s)
      | _, _ => s
      end
  | TR =>
      match nhold s with
      | Some n => MkP (files s) (completed s) (last s) (inflW s) (inflU s) (pend_rm s) (nwait s) None (written s) (received s ++ [n])
      | None => s
      end
  | Crash =>
      match load (load_first_listed q) (files s) with
      | Some l => MkP (files s) [l] l [] [] [] [] None (written s) (received s)
      | None => MkP (files s) [] 0 [] [] [] [] None (written s) (received s)
      end
  | Rewind sp =>
      if mem sp (written s) then MkP (files s) [sp] sp [] [] [] [] None (written s) [] else s
  | WFail n =>
      if mem n (inflW s)
      then MkP (files s) (completed s) (last s) (remove_id n (inflW s)) (inflU s) (pend_rm s) (nwait s) (nhold s)
               (written s) (received s)
      else s
  end.

Definition exec (q : pquirks) (s : pstate) (l : list pstep) : pstate := fold_left (exec1 q) l s.

(* ---- the steps as the harness drives them: after each harness step every goroutine has run to its next
        blocking point, so a new notifier takes a free notifyMu at once and waiters take it in arrival order ---- *)
(* HR o: which parked Remove call the harness released is OBSERVED data (o = the ids of the call it found at its
   gate, None = none had arrived): when a spawned Remove actually reaches the storage - at once, or only after the
   notification of the same publication was delivered - is the implementation's business; every such order is an
   interleaving of the R steps the theorems quantify over. *)
Inductive hstep := HPub | HW (i : N) | HR (o : option (list N)) | HT | HCrash | HRewind (sp : N) | HWFail (i : N).

Definition same_ids (a b : list N) : bool := forallb (fun x => mem x b) a && forallb (fun x => mem x a) b.
Fixpoint find_rm (ids : list N) (l : list (list N)) (k : nat) : option nat :=
  match l with
  | [] => None
  | x :: l' => if same_ids ids x then Some k else find_rm ids l' (S k)
  end.

Definition pick {A} (i : N) (l : list A) : option (nat * A) :=
  match l with
  | [] => None
  | x :: _ => let k := N.to_nat (i mod N.of_nat (length l)) in Some (k, nth k l x)
  end.

Inductive hobs :=
| OPub (id : N) | OW (id : option N) | OR (ids : option (list N)) | OT (note : option (list N))
| OCrash (listed : list N) (loaded : option N).

Definition settle_notifiers (q : pquirks) (s : pstate) : pstate :=
  exec q s (repeat (TL 0) (length (nwait s))).

Definition hexec1 (q : pquirks) (s : pstate) (h : hstep) : pstate * hobs :=
  match h with
  | HPub => let n := last s + 1 in (exec1 q s (Start n), OPub n)
  | HW i =>
      match pick i (inflW s) with
      | Some (_, n) => (settle_notifiers q (exec q s [W n; U n]), OW (Some n))
      | None => (s, OW None)
      end
  | HR o =>
      match o with
      | None => (s, OR None)
      | Some ids =>
          match find_rm ids (pend_rm s) 0 with
          | Some k => (exec1 q s (R k), OR (Some ids))
          | None => (s, OR None)   (* no such Remove was spawned: the comparison reports it *)
          end
      end
  | HT =>
      match nhold s with
      | Some n => (settle_notifiers q (exec1 q s TR), OT (Some [n]))
      | None => (s, OT None)
      end
  | HCrash =>
      let s' := exec1 q s Crash in
      (s', OCrash (listing (files s)) (hd_error (completed s')))
  | HRewind sp =>
      let s' := exec1 q s (Rewind sp) in
      (s', OCrash (listing (files s)) (hd_error (completed s')))
  | HWFail i =>
      match pick i (inflW s) with
      | Some (_, n) => (exec1 q s (WFail n), OW (Some n))
      | None => (s, OW None)
      end
  end.

(* storage/locations/local_directory.go Write: create or TRUNCATE - the file holds exactly the bytes of the last
   write under that name.  Content is abstracted to a tag (the number of split states of the snapshot). *)
Definition write_file (id tag : N) (fs : list (N * N)) : list (N * N) :=
  (id, tag) :: filter (fun e => negb (fst e =? id)) fs.
Fixpoint file_tag (id : N) (fs : list (N * N)) : option N :=
  match fs with
  | [] => None
  | (i, t) :: fs' => if i =? id then Some t else file_tag id fs'
  end.

Fixpoint hrun (q : pquirks) (s : pstate) (hs : list hstep) : pstate * list hobs :=
  match hs with
  | [] => (s, [])
  | h :: hs' => let (s1, o) := hexec1 q s h in let (s2, os) := hrun q s1 hs' in (s2, o :: os)
  end.

(* a storage that already holds the snapshot of checkpoint [base] (0 = empty), then a Store is started on it *)
Definition boot (q : pquirks) (base : N) : pstate :=
  exec1 q (MkP (if base =? 0 then [] else [base]) [] 0 [] [] [] [] None (if base =? 0 then [] else [base]) []) Crash.

(* dkv/recovery/checkpoint_list.go RetainOnly (as repaired by commit 8906a27): keep the listed ids and every
   checkpoint newer than all of them.  Only modelled (the operator side is outside engine snapstore). *)
Definition retain_only (ids l : list N) : list N :=
  filter (fun c => mem c ids || (negb (is_nil ids) && (list_max ids <? c))) l.

(* the operator's database under a sequence of DKV checkpoints (ids 1, 2, ...) and retention notifications:
   the list of checkpoints it still holds *)
Inductive rstep := RCk | RRt (id : N).
Fixpoint retain_run (l : list N) (next : N) (steps : list rstep) : list N :=
  match steps with
  | [] => l
  | RCk :: r => retain_run (l ++ [next]) (next + 1) r
  | RRt id :: r => retain_run (retain_only [id] l) next r
  end.
Fixpoint taken (next : N) (steps : list rstep) : N :=
  match steps with [] => next - 1 | RCk :: r => taken (next + 1) r | RRt _ :: r => taken next r end.
(* every notification names a checkpoint the database holds at that moment *)
Fixpoint retain_valid (l : list N) (next : N) (steps : list rstep) : Prop :=
  match steps with
  | [] => True
  | RCk :: r => retain_valid (l ++ [next]) (next + 1) r
  | RRt id :: r => In id l /\ retain_valid (retain_only [id] l) next r
  end.

(* jobs.New: LoadCheckpoint over the listed snapshot files; any error of reading the chosen file makes the job
   refuse to start (None); otherwise it starts from the loaded checkpoint (Some (Some id)) or, with an empty
   storage, from nothing (Some None).  fault: 0 none, otherwise the read of the chosen file fails. *)
Definition job_start (ids : list N) (fault : N) : option (option N) :=
  match load false ids with
  | None => Some None
  | Some l => if fault =? 0 then Some (Some l) else None
  end.
