(* workers/operator/keyed_state_store.go (GetState, ApplyMutations) and
   workers/operator/operator.go (processEventBatch; checkpoint / redeploy seen as save / restore of the DKV)
   over an abstract DKV [KV]; the DKV specification is the sorted association list [list_kv].
   Definitions only. *)
From RV Require Export Model.KeyCodec.
Open Scope N_scope.

(* ---------------------------------------------------------------- the DKV as the operator uses it *)

Definition kvlist := list (bytes * bytes).

Record KV := {
  kv_st : Type;
  kv_put : bytes -> bytes -> kv_st -> kv_st;      (* DB.Put *)
  kv_del : bytes -> kv_st -> kv_st;               (* DB.Delete *)
  (* DB.ScanPrefix, in the order yielded. A read returns a state too: it leaves the contents alone, but background
     work (flush, compaction) may proceed while it runs - see Model/StateStoreLsm.v *)
  kv_scan : bytes -> kv_st -> option kvlist * kv_st;   (* None: the scan ended with an error (storage read fault) *)
  (* dkv.Open(handles of id): [kv_restore current saved] - the database captured by DB.Checkpoint(id) reopened; the
     current state is passed so that an instance can keep what is not part of the database (a schedule) *)
  kv_restore : kv_st -> kv_st -> kv_st
}.

(* SPEC of the DKV (what C07/C08/C18 prove the real LSM refines): a strictly ascending association list *)
Fixpoint sm_put (k v : bytes) (m : kvlist) : kvlist :=
  match m with
  | [] => [(k, v)]
  | (k', v') :: m' =>
      match bcmp k k' with
      | Lt => (k, v) :: m
      | Eq => (k, v) :: m'
      | Gt => (k', v') :: sm_put k v m'
      end
  end.

Fixpoint sm_del (k : bytes) (m : kvlist) : kvlist :=
  match m with
  | [] => []
  | (k', v') :: m' =>
      match bcmp k k' with
      | Lt => m
      | Eq => m'
      | Gt => (k', v') :: sm_del k m'
      end
  end.

Definition sm_scan (p : bytes) (m : kvlist) : kvlist := filter (fun kv => is_prefix p (fst kv)) m.

Definition list_kv : KV :=
  {| kv_st := kvlist; kv_put := sm_put; kv_del := sm_del; kv_scan := fun p m => (Some (sm_scan p m), m); kv_restore := fun _ m => m |}.

(* the same specification with read faults: a plan says for each coming scan whether it ends with an error *)
Definition flist_kv : KV :=
  {| kv_st := (kvlist * list bool)%type;
     kv_put := fun k v s => (sm_put k v (fst s), snd s);
     kv_del := fun k s => (sm_del k (fst s), snd s);
     kv_scan := fun p s => match snd s with
                           | true :: plan => (None, (fst s, plan))
                           | false :: plan => (Some (sm_scan p (fst s)), (fst s, plan))
                           | [] => (Some (sm_scan p (fst s)), s)
                           end;
     kv_restore := fun cur saved => (fst saved, snd cur) |}.

(* ---------------------------------------------------------------- stored keys
   The encoders of Model/KeyCodec.v with the key-group function as a parameter ([kgf] = [key_group count] in a
   deployment with [count] key groups, see Proofs/C03_Codec.v [enc_db_is_encode_db_key]); nothing below depends
   on which function of the subject key it is. *)
Definition enc_db (kgf : bytes -> N) (subject ns data : bytes) : bytes :=
  be16 (kgf subject) ++ [0] ++ be32 (u32 (blen subject)) ++ subject ++ [u8 (blen ns)] ++ ns ++ data.
Definition enc_subject (kgf : bytes -> N) (subject : bytes) : bytes :=
  be16 (kgf subject) ++ [0] ++ be32 (u32 (blen subject)) ++ subject.
Definition enc_timer (kgf : bytes -> N) (subject : bytes) (t : Z) : bytes :=
  be16 (kgf subject) ++ [1] ++ be64 (time_u64 t) ++ subject.
(* KeyGroupPriorityQueue.loadFromDB scans <key-group><0x01> *)
Definition timer_scan_prefix (kg : N) : bytes := be16 kg ++ [1].

(* ---------------------------------------------------------------- handler protocol (handlerpb) *)

Inductive mutation := MPut (e v : bytes) | MDel (e : bytes).
Definition nsmuts := (bytes * list mutation)%type.           (* StateMutationNamespace *)
Record key_result := { kr_key : bytes; kr_timers : list Z; kr_muts : list nsmuts }.
Definition response := list key_result.                       (* ProcessEventBatchResponse.KeyResults *)

Definition entry := (bytes * bytes)%type.                     (* StateEntry: key, value *)
Definition ns_state := (bytes * list entry)%type.             (* StateEntryNamespace *)
Definition key_state := (bytes * list ns_state)%type.         (* KeyState: subject key, namespaces *)
Definition event := (bytes * bytes)%type.                     (* subject key, opaque payload *)
Record request := { rq_states : list key_state; rq_events : list event }.
Definition handler := request -> response.

(* ---------------------------------------------------------------- KeyedStateStore *)

(* GetState's loop: a new StateEntryNamespace starts whenever the namespace differs from the previous entry's *)
Fixpoint group_ns (l : list (bytes * entry)) : list ns_state :=
  match l with
  | [] => []
  | (ns, e) :: l' =>
      match group_ns l' with
      | (ns', es) :: g => if beqb ns ns' then (ns, e :: es) :: g else (ns, [e]) :: (ns', es) :: g
      | [] => [(ns, [e])]
      end
  end.

(* decodeKey of every scanned key; None = the panic of a short read *)
Fixpoint decode_entries (l : kvlist) : option (list (bytes * entry)) :=
  match l with
  | [] => Some []
  | (k, v) :: l' =>
      match decode_key k, decode_entries l' with
      | Some (ns, d), Some r => Some ((ns, (d, v)) :: r)
      | _, _ => None
      end
  end.

(* result of reading state: complete, failed with an error (scanErr != nil), or the panic of decodeKey *)
Inductive fetched (S A : Type) := FOk (a : A) (s : S) | FErr (s : S) | FPanic.
Arguments FOk {S A}. Arguments FErr {S A}. Arguments FPanic {S A}.

(* what one processEventBatch did *)
Inductive outcome :=
| BNoCall                                   (* empty flush *)
| BCalled (rq : request) (rs : response)    (* the handler was called, its results were applied *)
| BFailed.                                  (* "getting state for processEventBatch: ..." returned: no call, nothing applied *)

Inductive step :=
| SBatch (evs : list event)                 (* one processEventBatch *)
| STimerDel (k : bytes) (t : Z)             (* a due timer removed by AdvanceWatermark *)
| SCkpt (id : N)                            (* all barriers arrived: db.Checkpoint(id) *)
| SRestore (id : N).                        (* HandleDeploy with the handle of checkpoint id *)

Section Store.
  Variable K : KV.
  Variable kgf : bytes -> N.                                  (* KeySpace.KeyGroup of the deployment *)

  (* GetState consumes the whole scan and looks at scanErr afterwards: entries yielded before an error are dropped *)
  Definition get_state (k : bytes) (s : kv_st K) : fetched (kv_st K) (list ns_state) :=
    let (r, s') := kv_scan K (enc_subject kgf k) s in
    match r with
    | None => FErr s'
    | Some l => match decode_entries l with Some es => FOk (group_ns es) s' | None => FPanic end
    end.

  Definition apply_mutation (k ns : bytes) (s : kv_st K) (m : mutation) : kv_st K :=
    match m with
    | MPut e v => kv_put K (enc_db kgf k ns e) v s
    | MDel e => kv_del K (enc_db kgf k ns e) s
    end.

  Definition apply_mutations (k : bytes) (muts : list nsmuts) (s : kv_st K) : kv_st K :=
    fold_left (fun s nm => fold_left (apply_mutation k (fst nm)) (snd nm) s) muts s.

  (* TimerRegistry.SetTimer -> TimerStore.Put -> db.Put(timerKey, nil); [accept] is the watermark guard *)
  Variable accept : bytes -> Z -> bool.
  Definition set_timers (k : bytes) (ts : list Z) (s : kv_st K) : kv_st K :=
    fold_left (fun s t => if accept k t then kv_put K (enc_timer kgf k t) [] s else s) ts s.

  Definition apply_result (s : kv_st K) (kr : key_result) : kv_st K :=
    apply_mutations (kr_key kr) (kr_muts kr) (set_timers (kr_key kr) (kr_timers kr) s).

  (* ---------------------------------------------------------------- processEventBatch *)

  Fixpoint mem_bytes (k : bytes) (l : list bytes) : bool :=
    match l with [] => false | x :: l' => beqb k x || mem_bytes k l' end.

  (* keys in order of first occurrence (keyStateMap: state fetched once per distinct key) *)
  Fixpoint distinct_keys (seen : list bytes) (l : list bytes) : list bytes :=
    match l with
    | [] => []
    | k :: l' => if mem_bytes k seen then distinct_keys seen l' else k :: distinct_keys (k :: seen) l'
    end.

  (* the first error ends the batch *)
  Fixpoint fetch_states (ks : list bytes) (s : kv_st K) : fetched (kv_st K) (list key_state) :=
    match ks with
    | [] => FOk [] s
    | k :: ks' =>
        match get_state k s with
        | FOk st s1 =>
            match fetch_states ks' s1 with
            | FOk r s2 => FOk ((k, st) :: r) s2
            | FErr s2 => FErr s2
            | FPanic => FPanic
            end
        | FErr s1 => FErr s1
        | FPanic => FPanic
        end
    end.

  (* The Go code hands the KeyStates over in map-iteration order; the model uses first-occurrence order.
     Since the handler is an arbitrary function this loses nothing: compose the handler with any reordering. *)
  Definition process_batch (h : handler) (evs : list event) (s : kv_st K)
    : option (outcome * kv_st K) :=
    match evs with
    | [] => Some (BNoCall, s)                                 (* empty flush: no handler call *)
    | _ =>
        match fetch_states (distinct_keys [] (map fst evs)) s with
        | FPanic => None
        | FErr s1 => Some (BFailed, s1)                       (* the error is returned; the events of the batch are gone *)
        | FOk sts s1 =>
            let rq := {| rq_states := sts; rq_events := evs |} in
            let rs := h rq in
            Some (BCalled rq rs, fold_left apply_result rs s1)
        end
    end.

  (* The sink requests of the response are written AFTER the timers are registered and the mutations applied; a
     failing sink write makes processEventBatch return the error, but what was applied stays applied - so the state
     does not depend on the sink at all (process_batch has no sink argument). [batch_error]: is an error returned. *)
  Definition batch_error (sink_fails : bool) (o : outcome) : bool :=
    match o with BFailed => true | BCalled _ _ => sink_fails | BNoCall => false end.

  (* ---------------------------------------------------------------- histories *)

  Record sys := { sy_db : kv_st K; sy_saved : list (N * kv_st K); sy_trace : list (request * response) }.

  Fixpoint lookup_ckpt {A} (id : N) (l : list (N * A)) : option A :=
    match l with
    | [] => None
    | (i, a) :: l' => if i =? id then Some a else lookup_ckpt id l'
    end.

  Definition do_step (h : handler) (y : sys) (st : step) : option sys :=
    match st with
    | SBatch evs =>
        match process_batch h evs (sy_db y) with
        | None => None
        | Some (BCalled rq rs, s') => Some {| sy_db := s'; sy_saved := sy_saved y; sy_trace := sy_trace y ++ [(rq, rs)] |}
        | Some (_, s') => Some {| sy_db := s'; sy_saved := sy_saved y; sy_trace := sy_trace y |}
        end
    | STimerDel k t =>
        Some {| sy_db := kv_del K (enc_timer kgf k t) (sy_db y); sy_saved := sy_saved y; sy_trace := sy_trace y |}
    | SCkpt id =>
        Some {| sy_db := sy_db y; sy_saved := (id, sy_db y) :: sy_saved y; sy_trace := sy_trace y |}
    | SRestore id =>
        match lookup_ckpt id (sy_saved y) with
        | Some s => Some {| sy_db := kv_restore K (sy_db y) s; sy_saved := sy_saved y; sy_trace := sy_trace y |}
        | None => Some y                      (* unknown handle: the deploy fails in Go; not a history *)
        end
    end.

  Fixpoint run (h : handler) (y : sys) (steps : list step) : option sys :=
    match steps with
    | [] => Some y
    | st :: steps' => match do_step h y st with Some y' => run h y' steps' | None => None end
    end.
End Store.
Arguments sy_db {K} _.
Arguments sy_saved {K} _.
Arguments sy_trace {K} _.

(* ---------------------------------------------------------------- the specification: a per-key map *)

(* namespaces ordered by length first (one length byte precedes the namespace in the stored key) *)
Definition ns_cmp (a b : bytes) : comparison :=
  match Nat.compare (length a) (length b) with Eq => bcmp a b | c => c end.

Definition ekey := (bytes * bytes)%type.                      (* namespace, entry key *)
Definition ekey_cmp (x y : ekey) : comparison :=
  match ns_cmp (fst x) (fst y) with Eq => bcmp (snd x) (snd y) | c => c end.

Definition flatmap := list (ekey * bytes).

Fixpoint fm_put (x : ekey) (v : bytes) (m : flatmap) : flatmap :=
  match m with
  | [] => [(x, v)]
  | (y, w) :: m' =>
      match ekey_cmp x y with
      | Lt => (x, v) :: m
      | Eq => (x, v) :: m'
      | Gt => (y, w) :: fm_put x v m'
      end
  end.

Fixpoint fm_del (x : ekey) (m : flatmap) : flatmap :=
  match m with
  | [] => []
  | (y, w) :: m' =>
      match ekey_cmp x y with
      | Lt => m
      | Eq => m'
      | Gt => (y, w) :: fm_del x m'
      end
  end.

Definition fm_apply (ns : bytes) (m : flatmap) (mu : mutation) : flatmap :=
  match mu with MPut e v => fm_put (ns, e) v m | MDel e => fm_del (ns, e) m end.

Definition fm_apply_ns (m : flatmap) (nm : nsmuts) : flatmap := fold_left (fm_apply (fst nm)) (snd nm) m.

(* every put/delete a response holds for subject key k, applied in result order *)
Definition fm_apply_response (k : bytes) (m : flatmap) (rs : response) : flatmap :=
  fold_left (fun m kr => if beqb (kr_key kr) k then fold_left fm_apply_ns (kr_muts kr) m else m) rs m.

(* ... over all responses returned so far *)
Definition fm_of_responses (k : bytes) (rss : list response) : flatmap :=
  fold_left (fm_apply_response k) rss [].

(* grouped by namespace: what the handler must be given for k *)
Definition view (m : flatmap) : list ns_state :=
  group_ns (map (fun xv => (fst (fst xv), (snd (fst xv), snd xv))) m).

(* The history that counts after restores: a restore of checkpoint id forgets everything after [SCkpt id]. *)
Fixpoint cut_at (id : N) (rev_hist : list step) : option (list step) :=
  match rev_hist with
  | [] => None
  | SCkpt i :: r => if i =? id then Some rev_hist else cut_at id r
  | _ :: r => cut_at id r
  end.

(* effective history, newest first *)
Fixpoint effective_rev (rev_acc : list step) (steps : list step) : list step :=
  match steps with
  | [] => rev_acc
  | SRestore id :: steps' =>
      match cut_at id rev_acc with
      | Some r => effective_rev r steps'
      | None => effective_rev rev_acc steps'
      end
  | st :: steps' => effective_rev (st :: rev_acc) steps'
  end.
Definition effective (steps : list step) : list step := rev (effective_rev [] steps).
