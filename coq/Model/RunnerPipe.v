(* workers/sourcerunner/source_runner.go (processEvents, sendKeyEvent, sendOperatorEvent),
   workers/sourcerunner/operator_cluster.go (routeEvent, broadcastEvent, flush, batchingOperator and its
   sender goroutine), batching/batching.go (EventBatcher as used per operator).

   The pipeline from "record read" to "operator.HandleEventBatch", as a small-step transition system:

     read loop  --placeholder/marker-->  outputStream (FIFO)  --joiner-->  router  --> per-operator batcher
         |                                     ^                                          |        |
         +--Add--> [reorder stage: abstract] --+ Output (one result per record)     time-out     full batch
                                                                                      token       hand-off
                                                                                          \        /
                                                                                      sender goroutine --> operator

   The asynchronous key-by stage (batching.ReorderFetcher: key-by batcher, fetch goroutines, reorder
   buffer; owned by C20) is an abstract component [rstage]; the theorems assume only that it "emits one
   fetch result per input in input order" ([rs_inorder] in Proofs/C04_RunnerPipe.v).
   Definitions only; Stdlib only. *)
From Coq Require Import List NArith Bool Arith.
Import ListNotations.

(* ---------------------------------------------------------------- data *)

Definition kev := (list N * N)%type.            (* a KeyedEvent: key bytes, opaque payload *)

Inductive marker := Wm | Bar (id : N) | Done.   (* watermark, checkpoint barrier, source complete *)

(* what the read loop meets, in order: a record (identified by a number; its split and its key-by result are
   functions of it), a watermark tick / a checkpoint barrier, or the closed source channel *)
Inductive item := IRec (x : N) | IMark (m : marker) | IClose.

(* an element of an operator's event batch; a keyed event remembers the record it came from *)
Inductive ev := EK (x : N) (kv : kev) | EM (m : marker).

Inductive qitem := QP | QM (m : marker).        (* outputStream: placeholder for one record, or a marker *)

(* ---------------------------------------------------------------- the reorder stage, abstractly *)

Record rstage := {
  RS : Type;                                    (* state of the stage *)
  RA : Type;                                    (* its internal actions (time-out, flush/reserve steps, fetch completion, drain) *)
  rs_init : RS;
  rs_add : RS -> N -> option RS;                (* keyEventChannel.Add(record); None = the adder is busy / blocked *)
  rs_flush : RS -> option RS;                   (* keyEventChannel.Flush *)
  rs_int : RS -> RA -> option RS;
  rs_out : RS -> option (list kev * RS)         (* receive from keyEventChannel.Output *)
}.

(* An instance: a batcher of [mx] records with an optional time-out in front of an in-order queue of fetch
   results (the ReorderFetcher as its specification sees it; completion order is invisible). *)
Section Batched.
  Variable kb : N -> list kev.
  Variable mx : nat.
  Variable delay : bool.
  Definition bs_flush (s : list N * list (list kev)) := ([] : list N, snd s ++ map kb (fst s)).
  Definition bs_add (s : list N * list (list kev)) (x : N) :=
    let s1 := (fst s ++ [x], snd s) in
    Some (if mx <=? length (fst s1) then bs_flush s1 else s1).
  Definition batched_stage : rstage := {|
    RS := (list N * list (list kev))%type;
    RA := unit;                                  (* the time-out of the key-by batcher *)
    rs_init := ([], []);
    rs_add := bs_add;
    rs_flush := fun s => Some (bs_flush s);
    rs_int := fun s _ => if delay then match fst s with [] => None | _ => Some (bs_flush s) end else None;
    rs_out := fun s => match snd s with [] => None | r :: q => Some (r, (fst s, q)) end
  |}.
End Batched.

(* ---------------------------------------------------------------- per-operator batcher and sender *)

Inductive sender := SIdle | STok (t : N) | SDel (b : list ev).

Record opst := {
  o_batch : list ev;          (* EventBatcher.batch *)
  o_tok : N;                  (* EventBatcher.batchToken *)
  o_slot : option N;          (* the batcher's timer: the token its armed callback will send; Set replaces, Stop clears *)
  o_late : list N;            (* tokens of callbacks that have expired (Stop comes too late for them) and not yet run *)
  o_snd : sender;             (* the goroutine of newBatchingOperator *)
  o_out : list (list ev)      (* HandleEventBatch calls made so far *)
}.
Definition op_init : opst := {| o_batch := []; o_tok := 0%N; o_slot := None; o_late := []; o_snd := SIdle; o_out := [] |}.

(* EventBatcher.Add: the timer is set when a new batch starts and maxDelay > 0 *)
Definition b_add (delay : bool) (o : opst) (e : ev) : opst :=
  {| o_batch := o_batch o ++ [e]; o_tok := o_tok o;
     o_slot := (match o_batch o with [] => if delay then Some (o_tok o) else o_slot o | _ => o_slot o end);
     o_late := o_late o;
     o_snd := o_snd o; o_out := o_out o |}.
(* EventBatcher.Flush(CurrentBatch) *)
Definition b_flush (o : opst) : opst * list ev :=
  match o_batch o with
  | [] => (o, [])
  | b => ({| o_batch := []; o_tok := N.succ (o_tok o); o_slot := None (* timer.Stop() *); o_late := o_late o;
             o_snd := o_snd o; o_out := o_out o |}, b)
  end.
(* EventBatcher.Flush(token) *)
Definition b_flush_tok (o : opst) (t : N) : opst * list ev :=
  if N.eqb (o_tok o) t then b_flush o else (o, []).
Definition set_snd (o : opst) (s : sender) : opst :=
  {| o_batch := o_batch o; o_tok := o_tok o; o_slot := o_slot o; o_late := o_late o; o_snd := s; o_out := o_out o |}.

Fixpoint remove1 (t : N) (l : list N) : option (list N) :=
  match l with
  | [] => None
  | a :: l' => if N.eqb a t then Some l' else match remove1 t l' with Some r => Some (a :: r) | None => None end
  end.

(* ---------------------------------------------------------------- the joiner (sendOperatorEvent) *)

Inductive work := WEv (i : nat) (e : ev) | WFlush (i : nat).       (* pending HandleEvent / Flush calls *)
(* where the joiner is inside batchingOperator.HandleEvent *)
Inductive jpc := JIdle | JAdded (i : nat) | JFull (i : nat) | JHand (i : nat) (b : list ev).

Definition upd {A} (f : nat -> A) (i : nat) (v : A) : nat -> A := fun j => if Nat.eqb j i then v else f j.

Definition bcast (nops : nat) (m : marker) : list work := map (fun i => WEv i (EM m)) (seq 0 nops).
Definition flushes (nops : nat) : list work := map WFlush (seq 0 nops).

Section Pipe.
  Variable R : rstage.
  Variable route : list N -> nat.                (* operatorCluster.routeEvent: KeySpace.RangeIndex *)
  Variable nops : nat.
  Variable mx : nat.                             (* EventBatcherParams.MaxSize (0 is turned into 1 by the constructor) *)
  Variable delay : bool.                         (* EventBatcherParams.MaxDelay > 0 *)

  Record st := {
    s_todo : list item;                          (* what the read loop will still meet *)
    s_outq : list qitem;                         (* outputStream *)
    s_r : RS R;
    s_pend : list N;                             (* ghost: records added to the stage whose result has not been received *)
    s_work : list work;                          (* joiner: calls still to make for the current outputStream element *)
    s_pc : jpc;
    s_ops : nat -> opst
  }.

  Definition init (input : list item) : st :=
    {| s_todo := input; s_outq := []; s_r := rs_init R; s_pend := []; s_work := []; s_pc := JIdle;
       s_ops := fun _ => op_init |}.

  Inductive action :=
  | ARead                       (* the read loop handles the next item *)
  | ARInt (a : RA R)            (* an internal step of the reorder stage *)
  | AJoin                       (* the joiner goroutine makes its next step *)
  | AExpire (i : nat)           (* the timer of operator i's batcher expires: its callback can no longer be stopped *)
  | ATimer (i : nat) (t : N)    (* ... runs, and the sender of operator i receives its token t (possibly much later) *)
  | ASndFlush (i : nat)         (* ... and calls Flush(t) *)
  | ASndRecv (i : nat)          (* the sender of operator i receives the full batch handed off by the joiner *)
  | ASndDone (i : nat).         (* HandleEventBatch is called (and returns) *)

  Definition set_r (s : st) todo outq r pend :=
    {| s_todo := todo; s_outq := outq; s_r := r; s_pend := pend; s_work := s_work s; s_pc := s_pc s; s_ops := s_ops s |}.
  Definition set_j (s : st) outq r pend w pc ops :=
    {| s_todo := s_todo s; s_outq := outq; s_r := r; s_pend := pend; s_work := w; s_pc := pc; s_ops := ops |}.
  Definition set_ops (s : st) pc ops :=
    {| s_todo := s_todo s; s_outq := s_outq s; s_r := s_r s; s_pend := s_pend s; s_work := s_work s; s_pc := pc; s_ops := ops |}.

  (* o.batches <- o.batcher.Flush(CurrentBatch): the flush, then the joiner waits for the sender *)
  Definition j_flush (s : st) (w : list work) (i : nat) : st :=
    let '(o', b) := b_flush (s_ops s i) in
    set_j s (s_outq s) (s_r s) (s_pend s) w (JHand i b) (upd (s_ops s) i o').

  Definition j_step (s : st) : option st :=
    match s_pc s with
    | JHand _ _ => None
    | JAdded i =>                                  (* IsFull *)
        Some (set_ops s (if max 1 mx <=? length (o_batch (s_ops s i)) then JFull i else JIdle) (s_ops s))
    | JFull i => Some (j_flush s (s_work s) i)
    | JIdle =>
        match s_work s with
        | WEv i e :: w =>                            (* batcher.Add *)
            Some (set_j s (s_outq s) (s_r s) (s_pend s) w (JAdded i) (upd (s_ops s) i (b_add delay (s_ops s i) e)))
        | WFlush i :: w => Some (j_flush s w i)
        | [] =>
            match s_outq s with
            | [] => None
            | QM m :: q =>
                Some (set_j s q (s_r s) (s_pend s)
                        (bcast nops m ++ match m with Done => flushes nops | _ => [] end) JIdle (s_ops s))
            | QP :: q =>
                match rs_out R (s_r s) with
                | Some (res, r') =>
                    Some (set_j s q r' (tl (s_pend s))
                            (map (fun kv => WEv (route (fst kv)) (EK (hd 0%N (s_pend s)) kv)) res) JIdle (s_ops s))
                | None => None
                end
            end
        end
    end.

  Definition step (s : st) (a : action) : option st :=
    match a with
    | ARead =>
        match s_todo s with
        | [] => None
        | IRec x :: t =>
            match rs_add R (s_r s) x with
            | Some r' => Some (set_r s t (s_outq s ++ [QP]) r' (s_pend s ++ [x]))
            | None => None
            end
        | IMark m :: t => Some (set_r s t (s_outq s ++ [QM m]) (s_r s) (s_pend s))
        | IClose :: t =>
            match rs_flush R (s_r s) with
            | Some r' => Some (set_r s t (s_outq s ++ [QM Wm; QM Done]) r' (s_pend s))
            | None => None
            end
        end
    | ARInt a =>
        match rs_int R (s_r s) a with
        | Some r' => Some (set_r s (s_todo s) (s_outq s) r' (s_pend s))
        | None => None
        end
    | AJoin => j_step s
    | AExpire i =>
        let o := s_ops s i in
        match o_slot o with
        | Some t =>
            Some (set_ops s (s_pc s)
                    (upd (s_ops s) i {| o_batch := o_batch o; o_tok := o_tok o; o_slot := None; o_late := o_late o ++ [t];
                                        o_snd := o_snd o; o_out := o_out o |}))
        | None => None
        end
    | ATimer i t =>
        let o := s_ops s i in
        match o_snd o, remove1 t (o_late o) with
        | SIdle, Some ar =>
            Some (set_ops s (s_pc s)
                    (upd (s_ops s) i {| o_batch := o_batch o; o_tok := o_tok o; o_slot := o_slot o; o_late := ar; o_snd := STok t; o_out := o_out o |}))
        | _, _ => None
        end
    | ASndFlush i =>
        let o := s_ops s i in
        match o_snd o with
        | STok t => let '(o', b) := b_flush_tok o t in Some (set_ops s (s_pc s) (upd (s_ops s) i (set_snd o' (SDel b))))
        | _ => None
        end
    | ASndRecv i =>
        let o := s_ops s i in
        match o_snd o, s_pc s with
        | SIdle, JHand j b => if Nat.eqb j i then Some (set_ops s JIdle (upd (s_ops s) i (set_snd o (SDel b)))) else None
        | _, _ => None
        end
    | ASndDone i =>
        let o := s_ops s i in
        match o_snd o with
        | SDel b =>
            Some (set_ops s (s_pc s)
                    (upd (s_ops s) i {| o_batch := o_batch o; o_tok := o_tok o; o_slot := o_slot o; o_late := o_late o; o_snd := SIdle; o_out := o_out o ++ [b] |}))
        | _ => None
        end
    end.

  Fixpoint run (s : st) (sched : list action) : option st :=
    match sched with
    | [] => Some s
    | a :: sched' => match step s a with Some s' => run s' sched' | None => None end
    end.

  (* what operator i's handler has been given so far *)
  Definition delivered (s : st) (i : nat) : list ev := concat (o_out (s_ops s i)).

  (* nothing left anywhere between the read loop and the operators *)
  Definition op_drained (o : opst) : bool :=
    match o_batch o, o_snd o with [], SIdle => true | _, _ => false end.
  Definition drained (s : st) : bool :=
    match s_todo s, s_outq s, s_work s, s_pc s with
    | [], [], [], JIdle => forallb (fun i => op_drained (s_ops s i)) (seq 0 nops)
    | _, _, _, _ => false
    end.
End Pipe.

(* ---------------------------------------------------------------- what is assumed of the reorder stage *)

Section Trace.
  Variable kb : N -> list kev.
  Variable R : rstage.
  Inductive rlabel := LAdd (x : N) | LFlush | LInt (a : RA R) | LOut (res : list kev).
  (* the histories of the stage: any interleaving of its interface calls and internal actions *)
  Inductive rrun : list rlabel -> RS R -> Prop :=
  | rr_nil : rrun [] (rs_init R)
  | rr_add : forall tr r x r', rrun tr r -> rs_add R r x = Some r' -> rrun (tr ++ [LAdd x]) r'
  | rr_flush : forall tr r r', rrun tr r -> rs_flush R r = Some r' -> rrun (tr ++ [LFlush]) r'
  | rr_int : forall tr r a r', rrun tr r -> rs_int R r a = Some r' -> rrun (tr ++ [LInt a]) r'
  | rr_out : forall tr r res r', rrun tr r -> rs_out R r = Some (res, r') -> rrun (tr ++ [LOut res]) r'.
  Definition ladds (tr : list rlabel) : list N := flat_map (fun l => match l with LAdd x => [x] | _ => [] end) tr.
  Definition louts (tr : list rlabel) : list (list kev) := flat_map (fun l => match l with LOut res => [res] | _ => [] end) tr.
  (* "emits fetch results one per input in input order": in every history the results received so far are the
     key-by results of a prefix of the records added so far (C20: reorder_in_order for the repaired ReorderFetcher) *)
  Definition rs_inorder : Prop :=
    forall tr r, rrun tr r -> exists rest, map kb (ladds tr) = louts tr ++ rest.
End Trace.

(* ---------------------------------------------------------------- the specification *)

Section Spec.
  Variable kb : N -> list kev.
  Variable route : list N -> nat.

  (* key-by results in record order, markers at their positions *)
  Definition ideal1 (it : item) : list ev :=
    match it with
    | IRec x => map (EK x) (kb x)
    | IMark m => [EM m]
    | IClose => [EM Wm; EM Done]
    end.
  Definition ideal (input : list item) : list ev := flat_map ideal1 input.

  (* what is routed to operator i: keyed events whose key the router maps to i, and every marker *)
  Definition sel (i : nat) (e : ev) : bool :=
    match e with EK _ kv => Nat.eqb (route (fst kv)) i | EM _ => true end.
  Definition expected (input : list item) (i : nat) : list ev := filter (sel i) (ideal input).
End Spec.

(* ---------------------------------------------------------------- a canonical scheduler (for execution only) *)

Section Canon.
  Variable kb : N -> list kev.
  Variable route : list N -> nat.
  Variable nops mx : nat.
  Variable delay : bool.
  Variable eager : bool.      (* time-outs fire as early as possible / only when nothing else can move *)
  Let R := batched_stage kb mx delay.
  Let stT := st R.
  Let stp := step R route nops mx delay.

  Fixpoint first_some {A B} (f : A -> option B) (l : list A) : option B :=
    match l with [] => None | a :: l' => match f a with Some b => Some b | None => first_some f l' end end.

  Definition timer_acts (s : stT) : list (action R) :=
    flat_map (fun i => AExpire R i :: map (fun t => ATimer R i t) (o_late (s_ops R s i))) (seq 0 nops).
  Definition op_acts (mk : nat -> action R) : list (action R) := map mk (seq 0 nops).

  Definition candidates (s : stT) : list (action R) :=
    let t := ARInt R tt :: timer_acts s in
    op_acts (ASndDone R) ++ op_acts (ASndFlush R) ++ op_acts (ASndRecv R) ++
    (if eager then t else []) ++ [AJoin R; ARead R] ++ (if eager then [] else t).

  (* same state, operator table re-tabulated (keeps look-ups cheap under vm_compute) *)
  Definition norm (s : stT) : stT :=
    let l := map (s_ops R s) (seq 0 nops) in
    set_ops R s (s_pc R s) (fun j => nth j l op_init).

  Fixpoint run_canon (fuel : nat) (s : stT) : stT :=
    match fuel with
    | O => s
    | S f => match first_some (stp s) (candidates s) with Some s' => run_canon f (norm s') | None => s end
    end.
End Canon.
