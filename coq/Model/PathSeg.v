(* Model of storage/snapshots/savepoint_artifact.go pathSegment / idFromPathSegment at byte level, of the
   directory listing order of locations.LocalDirectory.List (filepath.WalkDir: byte order of the names inside
   one directory) and of the file selection of Store.LoadCheckpoint (old: first listed; repaired: greatest
   decoded id).  Definitions only. *)
From RV Require Import Base.Mach Base.Bytes.
Open Scope N_scope.

(* ---- encoding/base64 RawURLEncoding (alphabet A-Z a-z 0-9 - _, no padding) ---- *)
Definition alpha (s : N) : N :=
  if s <? 26 then 65 + s
  else if s <? 52 then 97 + (s - 26)
  else if s <? 62 then 48 + (s - 52)
  else if s =? 62 then 45 else 95.

Definition unalpha (c : N) : option N :=
  if (65 <=? c) && (c <=? 90) then Some (c - 65)
  else if (97 <=? c) && (c <=? 122) then Some (c - 97 + 26)
  else if (48 <=? c) && (c <=? 57) then Some (c - 48 + 52)
  else if c =? 45 then Some 62
  else if c =? 95 then Some 63
  else None.

Fixpoint b64_encode (bs : list N) : list N :=
  match bs with
  | a :: b :: c :: rest =>
      alpha (a / 4) :: alpha ((a mod 4) * 16 + b / 16) :: alpha ((b mod 16) * 4 + c / 64) :: alpha (c mod 64)
      :: b64_encode rest
  | [a; b] => [alpha (a / 4); alpha ((a mod 4) * 16 + b / 16); alpha ((b mod 16) * 4)]
  | [a] => [alpha (a / 4); alpha ((a mod 4) * 16)]
  | [] => []
  end.

(* sextets -> bytes (Go's non-strict decoder: trailing bits of a partial group are dropped) *)
Fixpoint sextets_bytes (ss : list N) : option (list N) :=
  match ss with
  | s0 :: s1 :: s2 :: s3 :: rest =>
      match sextets_bytes rest with
      | Some bs => Some (s0 * 4 + s1 / 16 :: (s1 mod 16) * 16 + s2 / 4 :: (s2 mod 4) * 64 + s3 :: bs)
      | None => None
      end
  | [s0; s1; s2] => Some [s0 * 4 + s1 / 16; (s1 mod 16) * 16 + s2 / 4]
  | [s0; s1] => Some [s0 * 4 + s1 / 16]
  | [_] => None
  | [] => Some []
  end.

Fixpoint map_opt {A B} (f : A -> option B) (l : list A) : option (list B) :=
  match l with
  | [] => Some []
  | x :: l' => match f x, map_opt f l' with Some y, Some ys => Some (y :: ys) | _, _ => None end
  end.

Definition b64_decode (cs : list N) : option (list N) :=
  match map_opt unalpha cs with Some ss => sextets_bytes ss | None => None end.

(* ---- pathSegment ---- *)
Definition max64 : N := 18446744073709551615.

Definition path_segment (id : N) : bytes := b64_encode (be64 (max64 - id)).

(* idFromPathSegment: (id, ok) *)
Definition seg_id (seg : bytes) : option N :=
  match b64_decode seg with
  | Some bs => if N.of_nat (length bs) =? 8 then Some (max64 - be_decode bs) else None
  | None => None
  end.

(* "job-" ++ segment ++ ".snapshot" *)
Definition name_prefix : bytes := [106; 111; 98; 45].
Definition name_suffix : bytes := [46; 115; 110; 97; 112; 115; 104; 111; 116].
Definition snap_name (id : N) : bytes := name_prefix ++ path_segment id ++ name_suffix.

(* ---- listing: ascending byte order of the names (all snapshot files live in one directory) ---- *)
Fixpoint insert_by_name (x : N) (l : list N) : list N :=
  match l with
  | [] => [x]
  | y :: l' => if bltb (snap_name y) (snap_name x) then y :: insert_by_name x l' else x :: l
  end.
Definition listing (ids : list N) : list N := fold_right insert_by_name [] ids.

(* ---- LoadCheckpoint's choice among the listed snapshot files (ids of the files in listing order) ---- *)
(* before the repair: the first listed *)
Definition load_first (listed : list N) : option N := hd_error listed.

(* repaired: decode each name, keep the first file unless a later one has a strictly greater id;
   a name that does not decode counts as id 0 *)
Definition decoded (id : N) : N := match seg_id (path_segment id) with Some i => i | None => 0 end.
Fixpoint load_scan (best : option (N * N)) (listed : list N) : option (N * N) :=
  match listed with
  | [] => best
  | f :: l' =>
      let d := decoded f in
      match best with
      | None => load_scan (Some (f, d)) l'
      | Some (bf, bd) => if bd <? d then load_scan (Some (f, d)) l' else load_scan best l'
      end
  end.
Definition load_max (listed : list N) : option N :=
  match load_scan None listed with Some (f, _) => Some f | None => None end.

Definition load (first_listed : bool) (ids : list N) : option N :=
  if first_listed then load_first (listing ids) else load_max (listing ids).

Definition list_max (l : list N) : N := fold_right N.max 0 l.
