(* Correspondence check for C15 (engine job).
   codes 1..8   : the real jobs.Job / operator differs from the model JobSM (instance [current])
   codes 10..19 : the observed behaviour violates the specification the theorems of Props/C15.v state;
                  these are computed from the history and the observations only (registration times,
                  Deploy / StartCheckpoint calls received, acks accepted, snapshots published), never from the model. *)
From Coq Require Import List NArith Bool.
From RV Require Import Model.JobSM.
Import ListNotations.
Open Scope N_scope.

Inductive case :=
| JobCase (wc deadline : N) (steps : list (op * obs))
(* a real operator: runners, barriers of checkpoint a from [first] before the second deploy (observed results),
   then barriers of checkpoint b from every runner in order [second] (observed results) *)
| SlotCase (pre_ok : bool)             (* a retention update before the first deploy was answered without error / panic *)
           (refuse : bool)             (* the job refuses the operator's ack of checkpoint a (OperatorCheckpointComplete errors) *)
           (redeploy : bool)           (* a second HandleDeploy follows (false: what the code does with the slot otherwise) *)
           (runners : list N) (a : N) (first : list N) (r1 : list N)
           (late : list N) (rl : list N)      (* stale barriers of a that arrive AFTER the second deploy (observed results) *)
           (b : N) (second : list N) (r2 : list N)
(* a real operator with a counting handler: keyed events, complete checkpoints, redeployments in place (with the
   checkpoint to restore, or none); observed per step: count given to the handler / id acked / 0 *)
| StateCase (steps : list (sop * N)).

Fixpoint list_eqb {A} (eqb : A -> A -> bool) (a b : list A) : bool :=
  match a, b with
  | [], [] => true
  | x :: a', y :: b' => eqb x y && list_eqb eqb a' b'
  | _, _ => false
  end.
Definition nl_eqb := list_eqb N.eqb.
Definition dep_eqb (a b : dep) : bool :=
  nl_eqb (d_ops a) (d_ops b) && nl_eqb (d_srs a) (d_srs b) && nl_eqb (d_ck a) (d_ck b) && Bool.eqb (d_peers a) (d_peers b).

(* ---------------------------------------------------------------- model vs implementation *)
Definition diff_obs (m i : obs) : list N :=
  (if o_status m =? o_status i then [] else [1]) ++
  (if list_eqb dep_eqb (o_deps m) (o_deps i) then [] else [2]) ++
  (if nl_eqb (o_started m) (o_started i) && (o_cid m =? o_cid i) then [] else [3]) ++
  (if o_res m =? o_res i then [] else [4]) ++
  (if o_published m =? o_published i then [] else [5]) ++
  (if o_split m =? o_split i then [] else [6]).

Fixpoint diff_steps (c : cfg) (s : st) (l : list (op * obs)) : list N :=
  match l with
  | [] => []
  | (o, i) :: t =>
                   (* WHICH nodes the implementation chose for a new assembly is an input of the model, not a prediction:
                      the model deploys to them if the choice is admissible (ascending, WorkerCount, registered and live);
                      an inadmissible choice makes the model fall back to the lowest ids and shows as code 2 (+ spec 10/11) *)
                   let s := match o_deps i with
                            | d :: _ => fst (step c s (OChoose (d_ops d) (d_srs d)))
                            | [] => s
                            end in
                   let '(s1, m) := step c s o in
                   match diff_obs m i with
                   | [] => diff_steps c s1 t
                   | ds => ds                      (* first divergence only: later steps follow from it *)
                   end
  end.

(* ---------------------------------------------------------------- specification on the observations *)
Fixpoint nodupb (l : list N) : bool :=
  match l with [] => true | x :: t => negb (mem x t) && nodupb t end.
Definition kmem (k : key) (l : list key) : bool := existsb (key_eqb k) l.
Definition krem (k : key) (l : list key) : list key := filter (fun x => negb (key_eqb x k)) l.
Definition subset (a b : list N) : bool := forallb (fun x => mem x b) a.

Record infl := MkInfl { i_id : N; i_ops : list N; i_srs : list N; i_aops : list N; i_asrs : list N }.

Record sp := MkSp {
  sp_now : N;
  sp_seen : hbmap;              (* time of the last registration of each node *)
  sp_reg : list key;            (* registered and not deregistered since *)
  sp_pend : option dep;         (* deployment in flight *)
  sp_pend_latest : N;
  sp_cur : option dep;          (* deployment that completed: the assembly in use while the status is Running *)
  sp_latest : N;                (* latest published checkpoint *)
  sp_maxcid : N;                (* greatest checkpoint id started *)
  sp_infl : option infl;        (* checkpoint started on the assembly in use, not yet published *)
  sp_prev : N                   (* status after the previous step *)
}.
Definition sp0 : sp := MkSp 0 [] [] None 0 None 0 0 None 0.

Definition live (dl : N) (s : sp) (k : key) : bool :=
  kmem k (sp_reg s) && match hb_get k (sp_seen s) with Some t => sp_now s <=? t + dl | None => false end.
Definition count_live (dl : N) (s : sp) (isop : bool) : nat :=
  length (filter (fun k => Bool.eqb (fst k) isop && live dl s k) (sp_reg s)).
Definition dep_live (dl : N) (s : sp) (d : dep) : bool :=
  forallb (fun n => live dl s (true, n)) (d_ops d) && forallb (fun n => live dl s (false, n)) (d_srs d).

(* the ops at which the job looks at its cluster; [fin] = a start in flight ends in this step *)
Definition evaluating (o : op) (fin : bool) : bool :=
  match o with ORegOp _ | ORegSr _ | ODeregOp _ | ODeregSr _ => true | OFin _ => fin | _ => false end.

Definition spec_step (w : nat) (dl : N) (hold : bool) (s : sp) (o : op) (b : obs) : sp * list N :=
  (* 1. the history: clock, registrations *)
  let s1 :=
    match o with
    | ORegOp n => MkSp (sp_now s) (hb_set (true, n) (sp_now s) (sp_seen s)) ((true, n) :: krem (true, n) (sp_reg s))
                       (sp_pend s) (sp_pend_latest s) (sp_cur s) (sp_latest s) (sp_maxcid s) (sp_infl s) (sp_prev s)
    | ORegSr n => MkSp (sp_now s) (hb_set (false, n) (sp_now s) (sp_seen s)) ((false, n) :: krem (false, n) (sp_reg s))
                       (sp_pend s) (sp_pend_latest s) (sp_cur s) (sp_latest s) (sp_maxcid s) (sp_infl s) (sp_prev s)
    | ODeregOp n => MkSp (sp_now s) (sp_seen s) (krem (true, n) (sp_reg s))
                       (sp_pend s) (sp_pend_latest s) (sp_cur s) (sp_latest s) (sp_maxcid s) (sp_infl s) (sp_prev s)
    | ODeregSr n => MkSp (sp_now s) (sp_seen s) (krem (false, n) (sp_reg s))
                       (sp_pend s) (sp_pend_latest s) (sp_cur s) (sp_latest s) (sp_maxcid s) (sp_infl s) (sp_prev s)
    | OAdv ms => MkSp (sp_now s + ms) (sp_seen s) (sp_reg s)
                       (sp_pend s) (sp_pend_latest s) (sp_cur s) (sp_latest s) (sp_maxcid s) (sp_infl s) (sp_prev s)
    | _ => s
    end in
  (* 2. the end of a start in flight *)
  let fin_fail := match o, sp_pend s1 with OFin false, Some _ => true | _, _ => false end in
  let fin_any := match o, sp_pend s1 with OFin _, Some _ => true | _, _ => false end in
  let e_split :=
    match o, sp_pend s1 with
    | OFin true, Some _ => if o_split b =? sp_pend_latest s1 + 1 then [] else [12]
    | _, _ => if o_split b =? 0 then [] else [12]
    end in
  let s2 :=
    match o, sp_pend s1 with
    | OFin true, Some d => MkSp (sp_now s1) (sp_seen s1) (sp_reg s1) None 0 (Some d) (sp_latest s1) (sp_maxcid s1) None (sp_prev s1)
    | OFin false, Some _ => MkSp (sp_now s1) (sp_seen s1) (sp_reg s1) None 0 None (sp_latest s1) (sp_maxcid s1) None (sp_prev s1)
    | _, _ => s1
    end in
  (* 3. deployments that began in this step *)
  let e_dep :=
    flat_map (fun d =>
      (if Nat.eqb (length (d_ops d)) w && Nat.eqb (length (d_srs d)) w && nodupb (d_ops d) && nodupb (d_srs d)
          && Nat.eqb (length (d_ck d)) w then [] else [10]) ++
      (if dep_live dl s2 d then [] else [11]) ++
      (if forallb (fun k => k =? sp_latest s2) (d_ck d) then [] else [12])) (o_deps b) in
  let s3 :=
    match rev (o_deps b) with
    | d :: _ => MkSp (sp_now s2) (sp_seen s2) (sp_reg s2) (Some d) (sp_latest s2) None (sp_latest s2) (sp_maxcid s2) None (sp_prev s2)
    | [] => s2
    end in
  (* 4. Running only on a live assembly, at every point where the job looks at its cluster *)
  let e_run :=
    if evaluating o fin_any && (o_status b =? 3) then
      match sp_cur s3 with Some d => if dep_live dl s3 d then [] else [13] | None => [13] end
    else [] in
  (* 5. enough live nodes and the job was waiting: an assembly must be started *)
  let e_wait :=
    if evaluating o fin_any && ((sp_prev s =? 0) || (sp_prev s =? 1) || fin_fail)
       && ((o_status b =? 0) || (o_status b =? 1))
       && Nat.leb w (count_live dl s3 true) && Nat.leb w (count_live dl s3 false) then [19] else [] in
  (* 6. checkpoint tick *)
  let e_tick :=
    match o with
    | OTick =>
        if sp_prev s =? 3 then
          match o_started b with
          | [] => (if o_cid b =? 0 then [] else [17]) ++
                  (match sp_infl s3 with Some _ => [] | None => [14] end)
          | rs => match sp_cur s3 with
                  | Some d => if nl_eqb rs (d_srs d) && (sp_maxcid s3 <? o_cid b) then [] else [17]
                  | None => [17]
                  end
          end
        else (match o_started b with [] => [] | _ => [17] end)
    | OSavepoint =>
        if sp_prev s =? 3 then
          match o_started b with
          | [] => match sp_infl s3 with
                  | Some f => if o_res b =? 0 then (if o_cid b =? i_id f then [] else [17]) else []  (* folded / already a savepoint *)
                  | None => [14]    (* nothing of this assembly in flight: the request must start a checkpoint *)
                  end
          | rs => match sp_cur s3 with
                  | Some d => if nl_eqb rs (d_srs d) && (sp_maxcid s3 <? o_cid b) && (o_res b =? 0) then [] else [17]
                  | None => [17]
                  end
          end
        else (match o_started b with [] => if o_res b =? 1 then [] else [17] | _ => [17] end)
    | _ => match o_started b with [] => [] | _ => [17] end
    end in
  let s4 :=
    let started_sp := MkSp (sp_now s3) (sp_seen s3) (sp_reg s3) (sp_pend s3) (sp_pend_latest s3) (sp_cur s3) (sp_latest s3)
             (N.max (sp_maxcid s3) (o_cid b))
             (match sp_cur s3 with Some d => Some (MkInfl (o_cid b) (d_ops d) (d_srs d) [] []) | None => None end) (sp_prev s3) in
    match o, o_started b, sp_cur s3 with
    | OTick, _ :: _, Some _ => started_sp
    | OSavepoint, _ :: _, Some _ => started_sp
    | _, _, _ => s3
    end in
  (* 7. acks *)
  let legit (isop : bool) (n id : N) : bool :=
    match sp_infl s4 with
    | Some f => (i_id f =? id) && (if isop then mem n (i_ops f) && negb (mem n (i_aops f))
                                   else mem n (i_srs f) && negb (mem n (i_asrs f)))
    | None => false
    end in
  let after_ack (isop : bool) (n id : N) : sp * list N :=
    if legit isop n id then
      match sp_infl s4 with
      | Some f =>
          if o_res b =? 0 then
            let f' := if isop then MkInfl (i_id f) (i_ops f) (i_srs f) (n :: i_aops f) (i_asrs f)
                      else MkInfl (i_id f) (i_ops f) (i_srs f) (i_aops f) (n :: i_asrs f) in
            if subset (i_ops f') (i_aops f') && subset (i_srs f') (i_asrs f') then
              if hold then   (* the snapshot file write is held by the storage: nothing can be published yet *)
                (MkSp (sp_now s4) (sp_seen s4) (sp_reg s4) (sp_pend s4) (sp_pend_latest s4) (sp_cur s4)
                      (sp_latest s4) (sp_maxcid s4) None (sp_prev s4),
                 if o_published b =? 0 then [] else [16])
              else
              (MkSp (sp_now s4) (sp_seen s4) (sp_reg s4) (sp_pend s4) (sp_pend_latest s4) (sp_cur s4)
                    (if o_published b =? id then id else sp_latest s4) (sp_maxcid s4) None (sp_prev s4),
               if o_published b =? id then [] else [15])
            else
              (MkSp (sp_now s4) (sp_seen s4) (sp_reg s4) (sp_pend s4) (sp_pend_latest s4) (sp_cur s4)
                    (sp_latest s4) (sp_maxcid s4) (Some f') (sp_prev s4),
               if o_published b =? 0 then [] else [16])
          else (s4, [18])
      | None => (s4, [])
      end
    else
      (* an ack the specification does not require anything of; whatever it publishes must be a started, newer checkpoint *)
      if o_published b =? 0 then (s4, [])
      else
        (* nothing of an assembly in use is in flight (the deployment of a new assembly began since the last start):
           the published checkpoint belongs to a lost assembly *)
        (MkSp (sp_now s4) (sp_seen s4) (sp_reg s4) (sp_pend s4) (sp_pend_latest s4) (sp_cur s4)
              (N.max (sp_latest s4) (o_published b)) (sp_maxcid s4) (sp_infl s4) (sp_prev s4),
         match sp_infl s4 with None => [105] | Some _ => [16] end) in
  let '(s5, e_ack) :=
    match o with
    | OAckOp n id => after_ack true n id
    | OAckSr n id => after_ack false n id
    | _ => (s4, if o_published b =? 0 then [] else [16])
    end in
  (MkSp (sp_now s5) (sp_seen s5) (sp_reg s5) (sp_pend s5) (sp_pend_latest s5) (sp_cur s5) (sp_latest s5)
        (sp_maxcid s5) (sp_infl s5) (o_status b),
   e_split ++ e_dep ++ e_run ++ e_wait ++ e_tick ++ e_ack).

(* slow storage: OHoldW arms a gate on the next snapshot file write (one at a time), OReleaseW lets the held write
   return. [x_writing] = id of the fully acknowledged checkpoint whose write is held (0 none). *)
Record spx := MkSpx { x_sp : sp; x_hold : bool; x_writing : N }.
Definition spx0 : spx := MkSpx sp0 false 0.

Definition spec_stepx (w : nat) (dl : N) (x : spx) (o : op) (b : obs) : spx * list N :=
  let s := x_sp x in
  match o with
  | OHoldW =>
      (if x_writing x =? 0 then MkSpx s true 0 else x, if o_published b =? 0 then [] else [16])
  | OReleaseW =>
      if x_writing x =? 0 then (x, if o_published b =? 0 then [] else [16])
      else
        let wr := x_writing x in
        if sp_latest s <? wr then
          (* nothing newer was published meanwhile: the checkpoint becomes current now *)
          (MkSpx (MkSp (sp_now s) (sp_seen s) (sp_reg s) (sp_pend s) (sp_pend_latest s) (sp_cur s)
                       (if o_published b =? wr then wr else sp_latest s) (sp_maxcid s) (sp_infl s) (sp_prev s)) (x_hold x) 0,
           if o_published b =? wr then [] else [15])
        else
          (* a newer checkpoint is published: the late one must not become current again, or a redeployment would
             restore an id below the greatest published id *)
          (MkSpx s (x_hold x) 0, if o_published b =? 0 then [] else [107])
  | _ =>
      let '(s1, es) := spec_step w dl (x_hold x) s o b in
      let held :=
        match o, sp_infl s, sp_infl s1, es with
        | OAckOp _ _, Some f, None, [] => if x_hold x then i_id f else 0
        | OAckSr _ _, Some f, None, [] => if x_hold x then i_id f else 0
        | _, _, _, _ => 0
        end in
      (if held =? 0 then MkSpx s1 (x_hold x) (x_writing x) else MkSpx s1 false held, es)
  end.

Fixpoint spec_steps (w : nat) (dl : N) (x : spx) (l : list (op * obs)) : list N :=
  match l with
  | [] => []
  | (o, b) :: t => let '(x1, es) := spec_stepx w dl x o b in
                   match es with
                   | [] => spec_steps w dl x1 t
                   | _ => es
                   end
  end.

(* ---------------------------------------------------------------- the operator's checkpoint slot *)
Definition slot_check (refuse redeploy : bool) (runners : list N) (a : N) (first r1 late rl : list N) (b : N) (second r2 : list N) : list N :=
  let o0 := oper_deploy current (MkOper [] None) runners in
  let '(o1, m1) := oper_barriers o0 first a (negb refuse) in
  let o2 := if redeploy then oper_deploy current o1 runners else o1 in
  let '(o3, ml) := oper_barriers o2 late a true in
  let '(_, m2) := oper_barriers o3 second b true in
  (if nl_eqb m1 r1 && nl_eqb ml rl then [] else [7]) ++
  (if nl_eqb m2 r2 then [] else [8]) ++
  (* spec: after the second deploy the barriers of the new checkpoint are all accepted and the last one completes it,
     whatever the slot was (half aligned, or complete but refused by the job). Without a redeployment nothing is required.
     With stale barriers of the old checkpoint arriving after the redeployment this fails today (known finding, code 103). *)
  let bad := negb (forallb (fun r => negb (r =? 1) && negb (r =? 3)) r2) in
  let incomplete := subset runners second && match rev r2 with 2 :: _ => false | _ => true end in
  if redeploy then
    match late with
    | [] => (if bad then [101] else []) ++ (if incomplete then [102] else [])
    | _ => if bad || incomplete then [103] else []
    end
  else [].

(* the model of the keyed state IS the specification here: after HandleDeploy the state is exactly that of the checkpoint
   the request names (empty if none). A wrong count after a redeployment is code 106; any other difference is code 9. *)
Fixpoint state_steps (s : ost) (redeployed : bool) (l : list (sop * N)) : list N :=
  match l with
  | [] => []
  | (o, b) :: t =>
      let '(s1, m) := sstep s o in
      let red := match o with SRedeploy _ => true | _ => redeployed end in
      if m =? b then state_steps s1 red t
      else match o with
           | SEv _ => if redeployed then [106] else [9]
           | _ => [9]
           end
  end.

Definition check_case (c : case) : list N :=
  match c with
  | JobCase w dl steps =>
      diff_steps (MkCfg (N.to_nat w) dl current) init steps ++ spec_steps (N.to_nat w) dl spx0 steps
  | SlotCase pre_ok refuse redeploy runners a first r1 late rl b second r2 =>
      (if pre_ok then [] else [104]) ++ slot_check refuse redeploy runners a first r1 late rl b second r2
  | StateCase steps => state_steps ost0 false steps
  end.

Definition run (cases : list (N * case)) : list (N * N) :=
  flat_map (fun ic => map (fun code => (fst ic, code)) (check_case (snd ic))) cases.
