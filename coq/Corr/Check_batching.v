(* Correspondence check for C20 (engine batching).
   Codes 1..6  : the implementation differs from the model (Model/Batcher.v, Model/Reorder.v with rp_fixed = true).
   Codes 10..15: the implementation violates the specification the theorems of Props/C20.v state, checked on the observed
                 outputs alone (no model involved). *)
From Coq Require Import List NArith ZArith Bool Arith.
From RV Require Import Model.Batcher Model.Reorder.
Import ListNotations.
Open Scope N_scope.

Inductive bobs :=
| OAdd (x : N) | OFull (b : bool) | OFlush (t : Z) (res : list N) | OFire (r : option Z)
| OExpire (was_armed : bool)                   (* the callback now set on the timer is committed to run (late callback regime) *)
| ODeliver (i : N) (armgen : N) (tok : Z).     (* the i-th committed callback ran and sent tok; it had been set when armgen
                                                  non-empty batches had been handed out *)
Inductive stim := SAdd (x : N) (cancelled : bool) | SFlush (cancelled : bool)
  | SAddB (x : N) (cancelled : bool) | SFlushB (cancelled : bool)   (* the same calls made by a second caller goroutine *)
  | SFire (was_armed : bool) | SHoldA | SHoldT | SRelease | SComplete (k : N) | SFail (k : N) (mode : N) | SRead.
(* SAdd / SFlush carry the state of the context the call is made with (true = already cancelled).
   SFail k mode: the k-th running fetch returns an error, with no results (mode 0), the first half (1) or all of them (2) *)
Definition robs := (bool * bool * bool * N * N)%type.   (* adder call unfinished, adder held, time-out flusher held, fetches running, |Output| *)
Definition rstep := (stim * robs)%type.

Inductive case :=
| BCase (max : N) (delay : bool) (ops : list bobs)
| RCase (max : N) (delay : bool) (buf : N) (steps : list rstep) (added out : list N) (fetched : list (list N))
        (fails : list (N * N)) (errs : list N) (ctxs : list (N * bool))
        (two_callers : bool) (fetched_at_q : N) (settled : bool)   (* fails: (first item of a failed batch, mode); errs: first items, in the order the errors arrived;
     ctxs: per batch handed to FetchBatch (first item, the context it received was cancelled), in item order;
     fetched_at_q: items handed to FetchBatch when everything had come to rest BEFORE the engine's final explicit Flush *)
| HCase (nadders per : N) (batches : list (list (N * N))).

Fixpoint list_eqb {A} (eqb : A -> A -> bool) (a b : list A) : bool :=
  match a, b with
  | [], [] => true
  | x :: a', y :: b' => eqb x y && list_eqb eqb a' b'
  | _, _ => false
  end.
Definition nlist_eqb := list_eqb N.eqb.
Definition optz_eqb (a b : option Z) : bool :=
  match a, b with Some x, Some y => Z.eqb x y | None, None => true | _, _ => false end.
Definition mem_z (x : Z) (l : list Z) : bool := existsb (Z.eqb x) l.

(* ------------------------------------------------------------------ batcher histories *)

(* model side: replay, comparing every result *)
Fixpoint bcheck (p : bparams) (ops : list bobs) (s : bstate N) (committed : list Z) : list N :=
  match ops with
  | [] => []
  | OAdd x :: r => bcheck p r (b_add p x s) committed
  | OFull b :: r => (if Bool.eqb b (b_full p s) then [] else [1]) ++ bcheck p r s committed
  | OFlush t res :: r =>
      let m := b_flush t s in
      (if nlist_eqb res (fst m) then [] else [2]) ++ bcheck p r (snd m) committed
  | OFire o :: r => (if optz_eqb o (b_fire s) then [] else [3]) ++ bcheck p r s committed
  | OExpire a :: r =>
      match armed s with
      | Some t => (if a then [] else [3]) ++ bcheck p r s (committed ++ [t])
      | None => (if a then [3] else []) ++ bcheck p r s committed
      end
  | ODeliver i _ tok :: r =>
      match nth_error committed (N.to_nat i) with
      | Some t => (if Z.eqb t tok then [] else [3]) ++ bcheck p r s (drop_nth (N.to_nat i) committed)
      | None => [3]
      end
  end.

(* spec side: (12) everything handed out, concatenated, is exactly what was added (the engine ends every history with
   Flush(CurrentBatch)); (13) a token delivered by the timer before some batch was handed out flushes nothing afterwards *)
Definition b_added (ops : list bobs) : list N := flat_map (fun o => match o with OAdd x => [x] | _ => [] end) ops.
Definition b_handed (ops : list bobs) : list N := flat_map (fun o => match o with OFlush _ res => res | _ => [] end) ops.
Fixpoint stale_ok (ops : list bobs) (gen : N) (delivered dead : list Z) : bool :=
  match ops with
  | [] => true
  | OFire (Some t) :: r => stale_ok r gen (t :: delivered) dead
  | ODeliver _ armgen t :: r =>
      (* a callback set for a batch that has already been handed out: its token is dead on arrival *)
      if armgen <? gen then stale_ok r gen delivered (t :: dead) else stale_ok r gen (t :: delivered) dead
  | OFlush t (_ :: _) :: r =>
      negb (negb (Z.eqb t (-1)) && mem_z t dead) && stale_ok r (gen + 1) [] (delivered ++ dead)
  | _ :: r => stale_ok r gen delivered dead
  end.

(* ------------------------------------------------------------------ reorder schedules *)

Definition fetchN (l : list N) : list N := map (fun x => x + 1000) l.
Fixpoint fail_mode (x : N) (fails : list (N * N)) : option N :=
  match fails with
  | [] => None
  | (y, m) :: r => if x =? y then Some m else fail_mode x r
  end.
(* the outcome function of a case: what the harness's FetchBatch returned for each batch *)
Definition fetchF (fails : list (N * N)) (ev : list N) : outcome N :=
  match fail_mode (hd 0 ev) fails with
  | None => FOk (fetchN ev)
  | Some 0 => FErr []
  | Some 1 => FErr (firstn (Nat.div2 (length ev)) (fetchN ev))
  | Some _ => FErr (fetchN ev)
  end.

Record mstate := mkM {
  ms : rstate N N;
  holdA : bool; holdT : bool;       (* gate armed for the next arrival at the hook point *)
  heldA : bool; heldT : bool;       (* parked at the hook point *)
  passA : bool; passT : bool        (* already through the hook point, not yet through `reserved <-` *)
}.

Definition at_reserve (c : pc N) : bool := match c with PReserve _ => true | _ => false end.

Definition try_adder (p : rparams) (m : mstate) : option mstate :=
  let s := ms m in
  if at_reserve (apc s) && heldA m then None
  else if at_reserve (apc s) && negb (passA m) then
    (if holdA m then Some (mkM s false (holdT m) true (heldT m) false (passT m))
     else Some (mkM s (holdA m) (holdT m) (heldA m) (heldT m) true (passT m)))
  else match adder_step p s with
       | Some s' => Some (mkM s' (holdA m) (holdT m) (heldA m) (heldT m) (at_reserve (apc s') && passA m) (passT m))
       | None => None
       end.

Definition try_timeout (p : rparams) (m : mstate) : option mstate :=
  let s := ms m in
  if at_reserve (tpc s) && heldT m then None
  else if at_reserve (tpc s) && negb (passT m) then
    (if holdT m then Some (mkM s (holdA m) false (heldA m) true (passA m) false)
     else Some (mkM s (holdA m) (holdT m) (heldA m) (heldT m) (passA m) true))
  else match timeout_step p s with
       | Some s' => Some (mkM s' (holdA m) (holdT m) (heldA m) (heldT m) (passA m) (at_reserve (tpc s') && passT m))
       | None => None
       end.

Fixpoint first_added (i : nat) (fs : list (fetcher N)) : option nat :=
  match fs with
  | [] => None
  | f :: fs' => match f_stage f with Added => Some i | Fetching => first_added (S i) fs' end
  end.

Definition try_drain (m : mstate) : option mstate :=
  match first_added 0 (fetchers (ms m)) with
  | Some i => match drain_step i (ms m) with
              | Some s' => Some (mkM s' (holdA m) (holdT m) (heldA m) (heldT m) (passA m) (passT m))
              | None => None
              end
  | None => None
  end.

(* run every goroutine until all of them are blocked (what the harness waits for after each stimulus) *)
Fixpoint stabilise (fuel : nat) (p : rparams) (m : mstate) : mstate :=
  match fuel with
  | O => m
  | S fuel' =>
      match try_adder p m with
      | Some m' => stabilise fuel' p m'
      | None =>
          match try_timeout p m with
          | Some m' => stabilise fuel' p m'
          | None => match try_drain m with Some m' => stabilise fuel' p m' | None => m end
          end
      end
  end.

Definition with_ms (m : mstate) (s : rstate N N) := mkM s (holdA m) (holdT m) (heldA m) (heldT m) (passA m) (passT m).

Definition adder_free (s : rstate N N) : bool := is_nil (script s) && pc_idle (apc s).
Definition set_script (sc : list (aop N)) (s : rstate N N) : rstate N N :=
  mkR (bt s) sc (apc s) (tpc s) (inflight s) (flock s) (reserved s) (nextseq s) (drained s) (items s) (fetchers s) (out s) (added s) (flushed s).

(* running fetches, as (index in fetchers, first item), sorted by first item *)
Fixpoint running (i : nat) (fs : list (fetcher N)) : list (nat * N) :=
  match fs with
  | [] => []
  | f :: fs' => (match f_stage f with Fetching => [(i, hd 0 (f_ev f))] | Added => [] end) ++ running (S i) fs'
  end.
Fixpoint ins (x : nat * N) (l : list (nat * N)) : list (nat * N) :=
  match l with
  | [] => [x]
  | y :: l' => if snd x <=? snd y then x :: l else y :: ins x l'
  end.
Definition sort_running (l : list (nat * N)) := fold_right ins [] l.

(* apply one stimulus; None = the model cannot do what the implementation did *)
Definition apply_stim (fails : list (N * N)) (p : rparams) (st : stim) (m : mstate) : option mstate :=
  let s := ms m in
  match st with
  | SAdd x _ => if adder_free s then Some (with_ms m (set_script [AddOp x] s)) else None
  | SFlush _ => if adder_free s then Some (with_ms m (set_script [FlushOp] s)) else None
  | SFire a =>
      match timer_fire s with
      | Some s' => if a && pc_idle (tpc s) && Nat.eqb (inflight s) 0 then Some (with_ms m s') else None
      | None => if a then None else Some m
      end
  | SHoldA => Some (mkM s true (holdT m) (heldA m) (heldT m) (passA m) (passT m))
  | SHoldT => Some (mkM s (holdA m) true (heldA m) (heldT m) (passA m) (passT m))
  | SRelease => Some (mkM s false false false false (passA m || heldA m) (passT m || heldT m))
  | SComplete k | SFail k _ =>
      match nth_error (sort_running (running 0 (fetchers s))) (N.to_nat k) with
      | Some (i, x) =>
          (* the stimulus must agree with the outcome function of the case *)
          let consistent := match st, fail_mode x fails with
                            | SFail _ mo, Some mo' => mo =? mo' | SComplete _, None => true | _, _ => false end in
          if consistent then
            match complete_step (fetch_of (fetchF fails)) i s with Some s' => Some (with_ms m s') | None => None end
          else None
      | None => None
      end
  | SRead => Some m
  | SAddB _ _ | SFlushB _ => None   (* a second caller is outside the model: such cases are checked against the specification only *)
  end.

Definition observe (m : mstate) : robs :=
  let s := ms m in
  (negb (adder_free s), heldA m, heldT m, N.of_nat (length (running 0 (fetchers s))), N.of_nat (length (out s))).

Definition robs_eqb (a b : robs) : bool :=
  match a, b with
  | (a1, a2, a3, a4, a5), (b1, b2, b3, b4, b5) => Bool.eqb a1 b1 && Bool.eqb a2 b2 && Bool.eqb a3 b3 && (a4 =? b4) && (a5 =? b5)
  end.

(* the batch whose fetch a stimulus completes (for the error log of the model: x_done / x_errs of Model/Reorder.v) *)
Definition completed_by (st : stim) (m : mstate) : list (list N) :=
  match st with
  | SComplete k | SFail k _ =>
      match nth_error (sort_running (running 0 (fetchers (ms m)))) (N.to_nat k) with
      | Some (i, _) => completing i (ms m)
      | None => []
      end
  | _ => []
  end.

(* per-call contexts (ghost, as c_step of Model/Reorder.v): the flag of the adder's call in progress, and for every batch handed
   out the flag its FetchBatch receives - the triggering call's for the adder, live for the time-out goroutine *)
Record cm := mkCM { cm_m : mstate; cm_cur : bool; cm_log : list bool }.
Definition upd (c : cm) (m' : mstate) (flag : bool) : cm :=
  mkCM m' (cm_cur c)
       (cm_log c ++ if Nat.ltb (length (flushed (ms (cm_m c)))) (length (flushed (ms m'))) then [flag] else []).
Fixpoint stabilise_c (fuel : nat) (p : rparams) (c : cm) : cm :=
  match fuel with
  | O => c
  | S fuel' =>
      match try_adder p (cm_m c) with
      | Some m' => stabilise_c fuel' p (upd c m' (cm_cur c))
      | None =>
          match try_timeout p (cm_m c) with
          | Some m' => stabilise_c fuel' p (upd c m' false)
          | None => match try_drain (cm_m c) with Some m' => stabilise_c fuel' p (upd c m' false) | None => c end
          end
      end
  end.

Fixpoint rreplay (fails : list (N * N)) (p : rparams) (steps : list rstep) (c : cm) (done : list (list N))
  : bool * cm * list (list N) :=
  match steps with
  | [] => (true, c, done)
  | (st, o) :: r =>
      let m := cm_m c in
      match apply_stim fails p st m with
      | None => (false, c, done)
      | Some m1 =>
          let cur := match st with SAdd _ f | SFlush f => f | _ => cm_cur c end in
          let c2 := stabilise_c 400 p (mkCM m1 cur (cm_log c)) in
          let done' := done ++ completed_by st m in
          if robs_eqb (observe (cm_m c2)) o then rreplay fails p r c2 done' else (false, c2, done')
      end
  end.

Definition m_init : mstate := mkM (r_init []) false false false false false false.

(* ------------------------------------------------------------------ hammer *)

Definition is_run (l : list N) : bool :=
  match l with
  | [] => true
  | x :: _ => nlist_eqb l (map N.of_nat (seq (N.to_nat x) (length l)))
  end.
Fixpoint ins_run (x : list N) (l : list (list N)) : list (list N) :=
  match l with
  | [] => [x]
  | y :: l' => if hd 0 x <=? hd 0 y then x :: l else y :: ins_run x l'
  end.
Definition adder_ok (per : N) (batches : list (list (N * N))) (a : N) : bool :=
  let projs := filter (fun l => negb (is_nil l)) (map (fun b => map snd (filter (fun e => fst e =? a) b)) batches) in
  forallb is_run projs &&
  nlist_eqb (concat (fold_right ins_run [] projs)) (map N.of_nat (seq 0 (N.to_nat per))).

Fixpoint ins_n (x : N) (l : list N) : list N :=
  match l with
  | [] => [x]
  | y :: l' => if x <=? y then x :: l else y :: ins_n x l'
  end.

(* number of inputs accepted before the last timer expiry that was served (SFire true) *)
Fixpoint expired_cover (steps : list rstep) (accepted cover : N) : N :=
  match steps with
  | [] => cover
  | (SAdd _ _, _) :: r | (SAddB _ _, _) :: r => expired_cover r (accepted + 1) cover
  | (SFire true, _) :: r => expired_cover r accepted accepted
  | _ :: r => expired_cover r accepted cover
  end.

(* ------------------------------------------------------------------ all together *)

Definition check_case (c : case) : list N :=
  match c with
  | BCase max delay ops =>
      bcheck (mkBP max delay) ops b_init [] ++
      (if nlist_eqb (b_handed ops) (b_added ops) then [] else [12]) ++
      (if stale_ok ops 0 [] [] then [] else [13])
  | RCase max delay buf steps added_o out_o fetched fails errs ctxs two_callers fetched_at_q settled =>
      let p := mkRP (mkBP max delay) buf true in
      let r := rreplay fails p steps (mkCM m_init false []) [] in
      let ok := fst (fst r) in
      let s := ms (cm_m (snd (fst r))) in
      let model_ctxs := combine (map (hd 0) (flushed s)) (cm_log (snd (fst r))) in
      let model_errs := map (hd 0) (filter (failed (fetchF fails)) (snd r)) in
      let failed_first := map (hd 0) (filter (failed (fetchF fails)) fetched) in
      (if ok || two_callers then [] else [4]) ++
      (if ok && negb two_callers then (if nlist_eqb out_o (out s) then [] else [5]) ++
                  (if list_eqb nlist_eqb fetched (flushed s) then [] else [6]) ++
                  (if nlist_eqb errs model_errs then [] else [7]) ++
                  (if list_eqb (fun a b => (fst a =? fst b) && Bool.eqb (snd a) (snd b)) ctxs model_ctxs then [] else [8])
       else []) ++
      (* spec, from the observations alone: every batch handed to FetchBatch contributes exactly what FetchBatch returned
         for it (failed or not), in input order - nothing of another batch is lost or held up by a failure *)
      (if nlist_eqb out_o (concat (map (fetch_of (fetchF fails)) fetched)) then [] else [10]) ++
      (if nlist_eqb (concat fetched) added_o then [] else [11]) ++
      (if settled then [] else [15]) ++
      (* every failed batch reported its error exactly once *)
      (if nlist_eqb (fold_right ins_n [] errs) (fold_right ins_n [] failed_first) then [] else [16]) ++
      (* liveness at rest: whatever had been accepted when the last served time-out expired has been handed to FetchBatch
         once every goroutine is at rest - without any further explicit Flush *)
      (if expired_cover steps 0 0 <=? fetched_at_q then [] else [17])
  | HCase nadders per batches =>
      (if forallb (fun b => forallb (fun e => fst e <? nadders) b) batches
          && forallb (adder_ok per batches) (map N.of_nat (seq 0 (N.to_nat nadders)))
       then [] else [14])
  end.

Definition run (cases : list (N * case)) : list (N * N) :=
  flat_map (fun ic => map (fun code => (fst ic, code)) (check_case (snd ic))) cases.
