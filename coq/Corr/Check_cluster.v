(* Correspondence check for C01 (engine `cluster`, mode c01).
   A case = the input (record lists per split), and what was observed on the REAL cluster (jobs.Job, snapshots.Store,
   Operators with DKV, SourceRunners) driven through crashes / acknowledgement permutations / restarts:
   the time line of checkpoint publications and restores, every handler invocation with the keyed state it was given,
   the positions the runners acknowledged per checkpoint, and the final state per key (read by probe records).

   Codes 10..19 compare the observations with the conclusion predicate of theorem `exactly_once` (Props/C01.v)
   directly, independent of the model:
     10 a record is missing from the final state of its key (its effect was lost)
     11 a record's application count in some state the handler was given is not 1 (applied twice)
     12 the state given to an invocation is not the fold of an applied prefix (per split: the records of the key already
        in state are a prefix of the split's records of that key, and the record being applied is exactly the next one)
     13 inside one deployment generation the state given to an invocation is not the previous given state of that key
        plus the record applied by the previous invocation (a write was lost or read stale)
     14 the state of a key holds an entry that is not a record of that key
     15 the applied order recorded in state breaks the order of a split (or is not a permutation of 0..n-1)
     16 the first state a key is given after a restart is not the fold of exactly the records before the restored positions
     17 a restart did not resume from the latest completed checkpoint
     18 a published checkpoint does not hold exactly the positions its runners acknowledged (one per split)
     (12 and 13 are not raised for an invocation on a worker whose storage failed earlier in the same generation: the
      current code drops the failed batch and the worker stops; if such state were ever checkpointed, 16/10 catch it later)
     20 timer effects: a state given holds a firing that is not a timer of the key or is recorded more than once, or the
        final state does not hold every timer of the key's records exactly once (a timer's effect was lost or repeated)
     19 the summary entry of a key (rewritten on every application) is not the number of records in the state given:
        a stale version of a rewritten entry was read
   Codes 1..9: against the model / the observation itself:
      1 the final state differs from the failure-free run of the protocol model `Sys` over the same input
      9 the run did not complete (no final state observed for some key): no verdict
   Code 101: known finding, see check_case. *)
From Coq Require Import List NArith Bool.
From RV Require Import Model.Sys.
Import ListNotations.
Open Scope N_scope.

Record inv := Inv { i_gen : N; i_key : N; i_rec : N; i_probe : bool; i_given : list (N * N * N); (* id, count, ord *)
                    i_sum : N;
                    i_fired : list (N * N);
                    i_doomed : bool }.  (* the worker's storage failed earlier in this generation: it is about to stop *)  (* timers of the key that have fired according to the state given: (time, firings) *)  (* the key's summary entry as given: rewritten on every application = number of applications *)

Inductive tev :=
| TPubStart (id : N) (pos : list N) (nstates : list N)   (* job is about to write checkpoint id: position / #states per split *)
| TPubDone (id : N)
| TDeploy (gen : N)                                      (* the job starts deploying generation gen: it has chosen its checkpoint *)
| TRestore (gen : N) (has : bool) (pos : list N).        (* generation gen starts from these positions *)

Inductive case :=
| Case (splits : list (list (N * N)))                    (* per split: (record id, key) *)
       (timeline : list tev)
       (invs : list inv)                                 (* in observation order *)
       (acked : list (N * list (N * N)))                 (* checkpoint id, (split, position) acknowledged by runners *)
       (completed : bool)
       (survivor : bool)
       (timers : list (N * N)).                          (* (record id, event-time timer its application registers) *)                                (* some operator was re-deployed in place in a later generation *)

(* ---------- helpers *)
Definition memN (x : N) (l : list N) : bool := existsb (N.eqb x) l.
Fixpoint list_eqb (a b : list N) : bool :=
  match a, b with
  | [], [] => true
  | x :: a', y :: b' => (x =? y) && list_eqb a' b'
  | _, _ => false
  end.
Fixpoint insert_sorted (x : N) (l : list N) : list N :=
  match l with
  | [] => [x]
  | y :: l' => if x <=? y then x :: l else y :: insert_sorted x l'
  end.
Definition sort (l : list N) : list N := fold_right insert_sorted [] l.

Definition ids_of (g : list (N * N * N)) : list N := map (fun e => fst (fst e)) g.
Definition ord_of (g : list (N * N * N)) (id : N) : option N :=
  match find (fun e => fst (fst e) =? id) g with Some e => Some (snd e) | None => None end.

(* records of key k in a split, in order *)
Definition subseq (k : N) (sp : list (N * N)) : list N :=
  map fst (filter (fun r => snd r =? k) sp).
Definition all_of_key (splits : list (list (N * N))) (k : N) : list N := flat_map (subseq k) splits.

(* the members of l that are in g form a prefix of l: Some (length of that prefix) *)
Fixpoint prefix_len (g l : list N) : option N :=
  match l with
  | [] => Some 0
  | x :: l' =>
      if memN x g then match prefix_len g l' with Some n => Some (n + 1) | None => None end
      else if existsb (fun y => memN y g) l' then None else Some 0
  end.
Fixpoint index_of (x : N) (l : list N) : option N :=
  match l with
  | [] => None
  | y :: l' => if x =? y then Some 0 else match index_of x l' with Some n => Some (n + 1) | None => None end
  end.

Fixpoint increasing_opt (l : list (option N)) (last : option N) : bool :=
  match l with
  | [] => true
  | None :: _ => false
  | Some o :: l' => (match last with Some p => p <? o | None => true end) && increasing_opt l' (Some o)
  end.

Definition dedup_codes (l : list N) : list N :=
  fold_right (fun c acc => if memN c acc then acc else c :: acc) [] l.

(* ---------- per-invocation checks: codes 10 11 12 14 15 *)
Definition check_inv (splits : list (list (N * N))) (i : inv) : list N :=
  let g := i_given i in
  let gi := ids_of g in
  let k := i_key i in
  let mine := all_of_key splits k in
  (if forallb (fun e => snd (fst e) =? 1) g then [] else [11]) ++
  (if forallb (fun id => memN id mine) gi then [] else [14]) ++
  flat_map (fun sp =>
      let l := subseq k sp in
      match prefix_len gi l with
      | None => if i_doomed i then [] else [12]
      | Some n =>
          (if i_probe i then (if n =? N.of_nat (length l) then [] else [10])
           else match index_of (i_rec i) l with
                | Some j => if (j =? n) || i_doomed i then [] else [12]
                | None => []
                end) ++
          (* applied order kept per split *)
          (if increasing_opt (map (ord_of g) (firstn (N.to_nat n) l)) None then [] else [15])
      end) splits ++
  (if i_probe i then [] else if memN (i_rec i) mine then [] else [14]) ++
  (if i_sum i =? N.of_nat (length g) then [] else [19]) ++
  (if list_eqb (sort (map snd g)) (map N.of_nat (seq 0 (length g))) then [] else [15]).

(* ---------- continuity inside a generation (13) and first state after a restore (16) *)
Fixpoint restore_of (tl : list tev) (gen : N) : option (list N) :=
  match tl with
  | [] => None
  | TRestore g _ pos :: tl' => if g =? gen then Some pos else restore_of tl' gen
  | _ :: tl' => restore_of tl' gen
  end.
Definition before_positions (splits : list (list (N * N))) (pos : list N) (k : N) : list N :=
  flat_map (fun sp_pos => subseq k (firstn (N.to_nat (snd sp_pos)) (fst sp_pos))) (combine splits pos).

Fixpoint lookup2 (m : list (N * N * list N)) (g k : N) : option (list N) :=
  match m with
  | [] => None
  | (g', k', v) :: m' => if (g =? g') && (k =? k') then Some v else lookup2 m' g k
  end.

Fixpoint check_flow (splits : list (list (N * N))) (tl : list tev) (m : list (N * N * list N)) (is : list inv) : list N :=
  match is with
  | [] => []
  | i :: is' =>
      let gi := sort (ids_of (i_given i)) in
      let here :=
        match lookup2 m (i_gen i) (i_key i) with
        | Some expect => if list_eqb gi expect || i_doomed i then [] else [13]
        | None =>
            match restore_of tl (i_gen i) with
            | Some pos => if list_eqb gi (sort (before_positions splits pos (i_key i))) then [] else [16]
            | None => [9]
            end
        end in
      let next := if i_probe i then gi else insert_sorted (i_rec i) gi in
      here ++ check_flow splits tl ((i_gen i, i_key i, next) :: m) is'
  end.

(* ---------- restores resume from the latest completed checkpoint (17), published checkpoints well-formed (18) *)
(* The job chooses the checkpoint of generation g when it starts deploying (TDeploy g): the restore must be the latest
   checkpoint completed by THEN (a publication that completes while the assembly is being deployed may or may not be
   used, but see code 16: state and positions must come from the same one). *)
Fixpoint done_at (m : list (N * option N)) (g : N) : option (option N) :=
  match m with
  | [] => None
  | (g', d) :: m' => if g =? g' then Some d else done_at m' g
  end.

Fixpoint check_timeline (started : list (N * list N)) (done : option N) (dep : list (N * option N))
                        (tl : list tev) (acked : list (N * list (N * N))) : list N :=
  match tl with
  | [] => []
  | TPubStart id pos nst :: tl' =>
      let ok_states := forallb (N.eqb 1) nst in
      let ok_acked :=
        match find (fun a => fst a =? id) acked with
        | Some a =>
            forallb (fun sp_pos => existsb (fun q => (fst q =? fst sp_pos) && (snd q =? snd sp_pos)) (snd a))
                    (combine (map N.of_nat (seq 0 (length pos))) pos)
        | None => false
        end in
      (if ok_states && ok_acked then [] else [18]) ++ check_timeline ((id, pos) :: started) done dep tl' acked
  | TPubDone id :: tl' =>
      check_timeline started (match done with Some d => Some (N.max d id) | None => Some id end) dep tl' acked
  | TDeploy g :: tl' => check_timeline started done ((g, done) :: dep) tl' acked
  | TRestore g has pos :: tl' =>
      let done_g := match done_at dep g with Some d => d | None => done end in
      let candidates := filter (fun s => match done_g with Some d => d <=? fst s | None => true end) started in
      let ok := existsb (fun s => list_eqb (snd s) pos) candidates
                || (match done_g with None => negb has && forallb (N.eqb 0) pos | Some _ => false end) in
      (if ok then [] else [17]) ++ check_timeline started done dep tl' acked
  end.

(* ---------- final state: every key has a probe in the last generation; against the model's failure-free run (1) *)
Definition keys_of (splits : list (list (N * N))) : list N :=
  filter (fun k => negb (k =? 99)) (dedup_codes (map snd (concat splits))).
Definition last_gen (is : list inv) : N := fold_left (fun a i => N.max a (i_gen i)) is 0.
Definition final_state (is : list inv) (k : N) : option (list N) :=
  let lg := last_gen is in
  match filter (fun i => i_probe i && (i_key i =? k) && (i_gen i =? lg)) (rev is) with
  | i :: _ => Some (sort (ids_of (i_given i)))
  | [] => None
  end.

Definition check_final (splits : list (list (N * N))) (is : list inv) : list N :=
  let model := Sys.failure_free_final splits in
  flat_map (fun k =>
      match final_state is k with
      | None => [9]
      | Some st => if list_eqb st (sort (Sys.state_of model k)) then [] else [1]
      end) (keys_of splits).

(* KNOWN FINDING (KNOWN_FINDINGS.txt, code 101): when only a subset of the workers dies, the job re-deploys the
   surviving workers IN PLACE (same processes). SourceRunner.HandleDeploy starts a second event loop without stopping
   the first and Operator.HandleDeploy opens a second DKV over the first; records are then applied out of split order,
   lost or applied against a stale cut. In exactly that input class (survivor = true) the exactly-once codes are
   reported as the single code 101; everywhere else, and for codes 17/18 in every class, nothing is masked. *)
Definition eo_codes : list N := [1; 9; 10; 11; 12; 13; 14; 15; 16; 19; 20].

(* ---------- timer effects (20). Marker records (key marker_key) only carry event time. *)
Definition marker_key : N := 99.
Definition timers_of_key (splits : list (list (N * N))) (timers : list (N * N)) (k : N) : list N :=
  flat_map (fun id => match find (fun t => fst t =? id) timers with Some t => [snd t] | None => [] end) (all_of_key splits k).
Definition expected_timers (splits : list (list (N * N))) (timers : list (N * N)) : list (N * list N) :=
  map (fun k => (k, timers_of_key splits timers k)) (dedup_codes (map snd (concat splits))).
Definition check_fired (exp : list (N * list N)) (i : inv) : list N :=
  let expect := match find (fun e => fst e =? i_key i) exp with Some e => snd e | None => [] end in
  (if forallb (fun f => (snd f =? 1) && memN (fst f) expect) (i_fired i) then [] else [20]) ++
  (if i_probe i then
     (if list_eqb (dedup_codes (sort (map fst (i_fired i)))) (dedup_codes (sort expect)) then [] else [20])
   else []).

Definition check_case (c : case) : list N :=
  match c with
  | Case splits tl is acked completed survivor timers =>
      let codes := dedup_codes (
        (if completed then [] else [9]) ++
        flat_map (check_inv splits) is ++
        (let exp := expected_timers splits timers in flat_map (check_fired exp) is) ++
        check_flow splits tl [] is ++
        check_timeline [] None [] tl acked ++
        check_final splits is) in
      if survivor then
        (if existsb (fun c => memN c eo_codes) codes then [101] else []) ++ filter (fun c => negb (memN c eo_codes)) codes
      else codes
  end.

Definition run (cases : list (N * case)) : list (N * N) :=
  flat_map (fun ic => map (fun code => (fst ic, code)) (check_case (snd ic))) cases.
