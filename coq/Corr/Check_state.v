(* Correspondence check for C03 (engine `state`): a real Operator over a real (tiny) DKV driven by keyed
   events with a scripted handler; per handler call the KeyStates it was given.
   Codes 1..9: the implementation differs from the model (Model/StateStore.v over the sorted-list DKV spec).
   Codes 10..19: the observed KeyStates violate the specification predicate of Props/C03.v, checked by a plain
   per-key map oracle (a log of mutations, newest first; no byte encoding, no sorted structure shared with the model). *)
From Coq Require Import Uint63.
From RV Require Import Model.StateStore.
Open Scope N_scope.

(* Byte strings are printed by the engine packed 7 bytes per 63-bit word (Coq elaborates a primitive integer
   literal ~13x faster than seven list cells): [B len words] is the big-endian expansion, the last word holding
   the remaining len mod 7 (or 7) bytes. *)
Fixpoint take_be (n : nat) (x : N) (acc : bytes) : bytes :=
  match n with O => acc | S n' => take_be n' (N.shiftr x 8) (N.land x 255 :: acc) end.
Fixpoint B_words (len : nat) (ws : list int) : bytes :=
  match ws with
  | [] => []
  | w :: ws' =>
      let x := Z.to_N (Uint63.to_Z w) in
      if (len <=? 7)%nat then take_be len x [] else take_be 7 x [] ++ B_words (len - 7) ws'
  end.
Definition B (len : N) (ws : list int) : bytes := B_words (N.to_nat len) ws.

Inductive ostep :=
| OBatch (evs : list bytes)            (* subject keys of the batch the script expects *)
         (resp : response)             (* what the scripted handler returns for it *)
         (o_evs : list bytes)          (* subject keys of the events the handler was called with *)
         (o_states : list key_state)   (* KeyStates it was given, sorted by subject key *)
| OBatchE (evs : list bytes) (resp : response) (o_evs : list bytes) (o_states : list key_state)
                                       (* as OBatch, but the sink write of the batch failed after the handler call and
                                          HandleEvent returned that error: the mutations are applied all the same *)
| OFail (evs : list bytes)             (* a storage read fault was armed for this batch and HandleEvent returned the
                                          error: no handler call; the batch's events are gone, nothing is applied *)
| OCkpt (id : N)
| ORestore (id : N).

Inductive case := Case (count : N) (steps : list ostep).

(* key groups are computed once per distinct subject key of a case (murmur over a long key costs milliseconds) *)
Fixpoint assoc_bytes (k : bytes) (l : list (bytes * N)) : option N :=
  match l with [] => None | (x, g) :: l' => if beqb k x then Some g else assoc_bytes k l' end.
Definition memo_kgf (count : N) (tbl : list (bytes * N)) (k : bytes) : N :=
  match assoc_bytes k tbl with Some g => g | None => key_group count k end.
Definition step_keys (st : ostep) : list bytes :=
  match st with
  | OBatch evs resp o_evs o_states | OBatchE evs resp o_evs o_states => evs ++ map kr_key resp ++ o_evs ++ map fst o_states
  | OFail evs => evs
  | _ => []
  end.
Definition kg_table (count : N) (steps : list ostep) : list (bytes * N) :=
  map (fun k => (k, key_group count k)) (distinct_keys [] (flat_map step_keys steps)).

Fixpoint list_eqb {A} (eqb : A -> A -> bool) (a b : list A) : bool :=
  match a, b with
  | [], [] => true
  | x :: a', y :: b' => eqb x y && list_eqb eqb a' b'
  | _, _ => false
  end.
Definition bytes_eqb := list_eqb N.eqb.
Definition entry_eqb (a b : entry) := bytes_eqb (fst a) (fst b) && bytes_eqb (snd a) (snd b).
Definition ns_state_eqb (a b : ns_state) := bytes_eqb (fst a) (fst b) && list_eqb entry_eqb (snd a) (snd b).
Definition key_state_eqb (a b : key_state) := bytes_eqb (fst a) (fst b) && list_eqb ns_state_eqb (snd a) (snd b).

(* insertion sort of subject keys (the engine sorts the KeyStates by key: Go map order is random) *)
Fixpoint ins_key (k : bytes) (l : list bytes) : list bytes :=
  match l with
  | [] => [k]
  | x :: l' => if bleb k x then k :: l else x :: ins_key k l'
  end.
Definition sort_keys (l : list bytes) : list bytes := fold_right ins_key [] l.

(* ---------------- oracle: a log of ((subject, namespace, entry key), Some value | None), newest first *)
Definition okey := (bytes * bytes * bytes)%type.
Definition okey_eqb (a b : okey) : bool :=
  (* cheapest first: entry key, namespace, then the (possibly long) subject key *)
  bytes_eqb (snd a) (snd b) && bytes_eqb (snd (fst a)) (snd (fst b)) && bytes_eqb (fst (fst a)) (fst (fst b)).
Definition olog := list (okey * option bytes).

Fixpoint olookup (x : okey) (l : olog) : option (option bytes) :=
  match l with
  | [] => None
  | (y, v) :: l' => if okey_eqb x y then Some v else olookup x l'
  end.

Definition olog_response (l : olog) (rs : response) : olog :=
  fold_left (fun l kr =>
    fold_left (fun l nm =>
      fold_left (fun l mu =>
        match mu with
        | MPut e v => ((kr_key kr, fst nm, e), Some v) :: l
        | MDel e => ((kr_key kr, fst nm, e), None) :: l
        end) (snd nm) l) (kr_muts kr) l) rs l.

(* live entries of subject k, each once *)
Fixpoint olive (k : bytes) (l : olog) (seen : list okey) : list (okey * bytes) :=
  match l with
  | [] => []
  | (y, v) :: l' =>
      if bytes_eqb (fst (fst y)) k && negb (existsb (okey_eqb y) seen)
      then match v with
           | Some w => (y, w) :: olive k l' (y :: seen)
           | None => olive k l' (y :: seen)
           end
      else olive k l' seen
  end.

Definition flat_obs (k : bytes) (st : list ns_state) : list (okey * bytes) :=
  flat_map (fun nse => map (fun e => ((k, fst nse, fst e), snd e)) (snd nse)) st.

Fixpoint strictly_asc {A} (cmp : A -> A -> comparison) (l : list A) : bool :=
  match l with
  | [] => true
  | x :: l' => match l' with [] => true | y :: _ => match cmp x y with Lt => strictly_asc cmp l' | _ => false end end
  end.

Fixpoint nodup_bytes (l : list bytes) : bool :=
  match l with [] => true | x :: l' => negb (existsb (bytes_eqb x) l') && nodup_bytes l' end.

(* spec codes for one observed KeyState *)
Definition spec_key_state (l : olog) (ks : key_state) : list N :=
  let k := fst ks in
  let obs := flat_obs k (snd ks) in
  let live := olive k l [] in
  (* 11: an entry the handler never put for this key/namespace, or deleted: foreign or resurrected *)
  (if forallb (fun xv => match olookup (fst xv) l with Some (Some _) => true | _ => false end) obs then [] else [11]) ++
  (* 12: a live entry is missing *)
  (if forallb (fun xv => existsb (fun yv => okey_eqb (fst xv) (fst yv)) obs) live then [] else [12]) ++
  (* 13: a value other than the latest put *)
  (if forallb (fun xv => match olookup (fst xv) l with Some (Some w) => bytes_eqb w (snd xv) | _ => true end) obs then [] else [13]) ++
  (* 14: a namespace handed over twice or with no entries *)
  (if nodup_bytes (map fst (snd ks)) && forallb (fun nse => match snd nse with [] => false | _ => true end) (snd ks) then [] else [14]) ++
  (* 15: not in ascending order (namespaces by length then bytes, entries by key) / an entry twice *)
  (if strictly_asc ns_cmp (map fst (snd ks)) && forallb (fun nse => strictly_asc bcmp (map fst (snd nse))) (snd ks) then [] else [15]).

Record cst := { c_db : kvlist; c_saved : list (N * kvlist); c_log : olog; c_lsaved : list (N * olog) }.

Definition dedup (l : list N) : list N := fold_right (fun x acc => if existsb (N.eqb x) acc then acc else x :: acc) [] l.

Definition check_step (kgf : bytes -> N) (y : cst) (st : ostep) : cst * list N :=
  match st with
  | OBatch evs resp o_evs o_states | OBatchE evs resp o_evs o_states =>
      let keys := sort_keys (distinct_keys [] evs) in
      let model := match fetch_states list_kv kgf keys (c_db y) with FOk sts _ => Some sts | _ => None end in
      let db' := fold_left (apply_result list_kv kgf (fun _ _ => true)) resp (c_db y) in
      let y' := {| c_db := db'; c_saved := c_saved y; c_log := olog_response (c_log y) resp; c_lsaved := c_lsaved y |} in
      let codes :=
        (if list_eqb bytes_eqb evs o_evs then [] else [2]) ++
        (match model with
         | None => [3]
         | Some sts => if list_eqb key_state_eqb sts o_states then [] else [1]
         end) ++
        (* 16: KeyStates are not exactly one per distinct key of the batch *)
        (if list_eqb bytes_eqb (map fst o_states) (sort_keys (distinct_keys [] o_evs)) then [] else [16]) ++
        flat_map (spec_key_state (c_log y)) o_states in
      (y', codes)
  | OFail _ => (y, [])                   (* process_batch with a failing scan: BFailed, contents unchanged *)
  | OCkpt id =>
      ({| c_db := c_db y; c_saved := (id, c_db y) :: c_saved y; c_log := c_log y; c_lsaved := (id, c_log y) :: c_lsaved y |}, [])
  | ORestore id =>
      match lookup_ckpt id (c_saved y), lookup_ckpt id (c_lsaved y) with
      | Some db, Some lg => ({| c_db := db; c_saved := c_saved y; c_log := lg; c_lsaved := c_lsaved y |}, [])
      | _, _ => (y, [4])
      end
  end.

Fixpoint check_steps (kgf : bytes -> N) (y : cst) (steps : list ostep) : list N :=
  match steps with
  | [] => []
  | st :: steps' => let (y', c) := check_step kgf y st in c ++ check_steps kgf y' steps'
  end.

Definition check_case (c : case) : list N :=
  match c with
  | Case count steps =>
      let tbl := kg_table count steps in
      dedup (check_steps (memo_kgf count tbl) {| c_db := []; c_saved := []; c_log := []; c_lsaved := [] |} steps)
  end.

Definition run (cases : list (N * case)) : list (N * N) :=
  flat_map (fun ic => map (fun code => (fst ic, code)) (check_case (snd ic))) cases.
