(* Correspondence check for C08 / C09 (engine ckpt).
   Codes 1..9: the implementation differs from the model (Model/Gc.v run on the same history).
   Codes 10..19 and 100+: the implementation violates the specification predicate of the theorems, computed here from the
   history alone (an oracle map per database, the snapshot at each Checkpoint call, the set of retained handles) and checked on
   the observed outputs, independent of the model:
     10 restore of a completed, retained handle failed        11 restored scan differs from the snapshot at the call
     12 restored Get differs from the snapshot                13 a read of a live database differs from its oracle map
     14 = 10 in the class of finding D11                      100 file referenced by a retained persisted document is missing
     101 table of a live database's level set is missing      102 WAL of a dropped checkpoint still exists after the saved update
     103 retained handle's document is no longer in its file  104 file missing while a slow neighbour had not answered
     110 / 111 = 100 / 101 in the class of finding D11 (every missing file was deleted by the cleanup of a table object of a
     database object that was dropped in the same process). *)
From Coq Require Import List NArith Bool.
Import ListNotations.
From RV Require Import Base.Bytes Model.Ckpt Model.Gc.
Open Scope N_scope.

Record hobs := mkHObs { h_id : N; h_dir : N; h_sigs : list (fname * N); h_present : bool; h_wal : list fname; h_after : N; h_lastseq : N; h_tables : list fname; h_missing : list fname }.
Record lobs := mkLObs { l_db : N; l_seq : N; l_latest : N; l_tables : list fname; l_missing : list fname }.
Record robs := mkRObs { r_outcome : N; r_scan : list (bytes * bytes); r_gets : list (bytes * option bytes) }.
Record obs := mkObs { o_files : list fname; o_read : option robs; o_handles : list hobs; o_live : list lobs;
                      o_gcdel : list fname; o_gcasked : list fname; o_during : list fname }.
Record case := mkCase { k_mem : N; k_wal : N; k_steps : list (op * obs) }.

(* ---------- helpers ---------- *)
Fixpoint list_eqb {A} (eqb : A -> A -> bool) (a b : list A) : bool :=
  match a, b with [], [] => true | x :: a', y :: b' => eqb x y && list_eqb eqb a' b' | _, _ => false end.
Definition bytes_eqb := list_eqb N.eqb.
Definition names_eqb := list_eqb fname_eqb.
Definition kv_eqb (a b : bytes * bytes) := bytes_eqb (fst a) (fst b) && bytes_eqb (snd a) (snd b).
Definition ob_eqb (a b : option bytes) := match a, b with Some x, Some y => bytes_eqb x y | None, None => true | _, _ => false end.
Definition get_eqb (a b : bytes * option bytes) := bytes_eqb (fst a) (fst b) && ob_eqb (snd a) (snd b).
Definition fname_ltb (a b : fname) : bool :=
  let '(d1, k1, n1) := a in let '(d2, k2, n2) := b in
  (d1 <? d2) || ((d1 =? d2) && ((k1 <? k2) || ((k1 =? k2) && (n1 <? n2)))).
Fixpoint ins_name (x : fname) (l : list fname) : list fname :=
  match l with [] => [x] | y :: l' => if fname_ltb x y then x :: l else if fname_eqb x y then l else y :: ins_name x l' end.
Definition sort_names (l : list fname) : list fname := fold_right ins_name [] l.
Definition subset_names (a b : list fname) : bool := forallb (fun x => mem_name x b) a.
Definition memN (x : N) (l : list N) : bool := existsb (N.eqb x) l.

(* ---------- specification oracle ---------- *)
Definition smap := list (bytes * bytes).
Definition sm_del (m : smap) (k : bytes) : smap := filter (fun p => negb (bytes_eqb k (fst p))) m.
Definition sm_put (m : smap) (k v : bytes) : smap := (k, v) :: sm_del m k.
Fixpoint sm_get (m : smap) (k : bytes) : option bytes :=
  match m with [] => None | (k', v) :: m' => if bytes_eqb k k' then Some v else sm_get m' k end.
Fixpoint ins_kv (p : bytes * bytes) (l : smap) : smap :=
  match l with [] => [p] | q :: l' => match bcmp (fst p) (fst q) with Lt => p :: l | Eq => p :: l' | Gt => q :: ins_kv p l' end end.
Definition sm_sorted (m : smap) : smap := fold_right ins_kv [] m.

Record sdb := mkS { s_map : smap; s_ids : list N; s_scope : list own; s_live : bool; s_dir : N;
                     s_pend : list N; (* ids a retention update dropped from the list but whose removal has not been saved yet *)
                     s_srcs : list N  (* keys (hk id dir) of the handles this database was restored from *) }.
Definition hk (id dir : N) : N := id * 1000 + dir.
Record spec := mkSpec {
  p_dbs : list sdb;
  p_snaps : list (N * (smap * list own));    (* checkpoint id -> oracle map and scope at the call *)
  p_tasks : list (N * bool);                 (* checkpoint id -> WAL saved *)
  p_done : list (N * N);                     (* completed handles: id, directory *)
  p_dropped : list N;                        (* ids no longer retained *)
  p_wals : list (N * (fname * list (fname * N)));   (* WAL file of each completed handle, and the content hash of each of its files as first seen *)
  p_d11 : list (fname * bool);               (* files deleted by cleanups of table objects of dropped database objects; true = the dropped object had created the table *)
  p_nextdir : N }.

Definition in_scope (sc : list own) (k : bytes) : bool := forallb (fun o => owns o k) sc.
Definition sget (p : spec) (d : N) : option sdb := nth_error (p_dbs p) (N.to_nat d).
Definition sset (p : spec) (d : N) (x : sdb) : spec :=
  mkSpec (upd (p_dbs p) (N.to_nat d) x) (p_snaps p) (p_tasks p) (p_done p) (p_dropped p) (p_wals p) (p_d11 p) (p_nextdir p).
Definition retained (p : spec) (id : N) : bool := negb (memN id (p_dropped p)).
Definition completed (p : spec) (id : N) : bool := existsb (fun h => fst h =? id) (p_done p).

Definition spec_write (p : spec) (d : N) (k : bytes) (v : option bytes) : spec :=
  match sget p d with
  | Some x => if s_live x && in_scope (s_scope x) k then
                sset p d (mkS (match v with Some v' => sm_put (s_map x) k v' | None => sm_del (s_map x) k end) (s_ids x) (s_scope x) true (s_dir x) (s_pend x) (s_srcs x))
              else p
  | None => p
  end.

(* a Save of database d that wrote the checkpoints file: the ids dropped from its list are no longer in the durable list *)
Definition spec_saved (p : spec) (d : N) : spec :=
  match sget p d with
  | Some x => let p1 := sset p d (mkS (s_map x) (s_ids x) (s_scope x) (s_live x) (s_dir x) [] (s_srcs x)) in
              mkSpec (p_dbs p1) (p_snaps p) (p_tasks p) (p_done p) (p_dropped p ++ s_pend x) (p_wals p) (p_d11 p) (p_nextdir p)
  | None => p
  end.

Definition spec_ckpt_step (p : spec) (d id f : N) : spec :=
  match find (fun t => fst t =? id) (p_tasks p), sget p d with
  | Some (_, false), _ =>
      if f =? 1 then (* the WAL save failed: this checkpoint never completes *)
        mkSpec (p_dbs p) (p_snaps p) (filter (fun t => negb (fst t =? id)) (p_tasks p)) (p_done p) (p_dropped p) (p_wals p) (p_d11 p) (p_nextdir p)
      else
        mkSpec (p_dbs p) (p_snaps p) (map (fun t => if fst t =? id then (id, true) else t) (p_tasks p)) (p_done p) (p_dropped p) (p_wals p) (p_d11 p) (p_nextdir p)
  | Some (_, true), Some x =>
      let p1 := mkSpec (p_dbs p) (p_snaps p) (filter (fun t => negb (fst t =? id)) (p_tasks p)) (p_done p) (p_dropped p) (p_wals p) (p_d11 p) (p_nextdir p) in
      if f =? 1 then p1
      else let p2 := spec_saved p1 d in
           if (f =? 2) && negb (match s_pend x with [] => true | _ => false end) then p2
           else mkSpec (p_dbs p2) (p_snaps p2) (p_tasks p2) (p_done p2 ++ [(id, s_dir x)]) (p_dropped p2) (p_wals p2) (p_d11 p2) (p_nextdir p2)
  | _, _ => p
  end.

Definition spec_retain (p : spec) (d : N) (ids : list N) (f : N) : spec :=
  match sget p d with
  | Some x =>
      let stays := fun i => memN i ids || (fold_right N.max 0 ids <? i) in
      if match filter stays (s_ids x) with [] => true | _ => false end then p (* the update names no checkpoint of this database: refused, nothing changes *) else
      let gone := filter (fun i => negb (stays i)) (s_ids x) in
      let p1 := sset p d (mkS (s_map x) (filter stays (s_ids x)) (s_scope x) (s_live x) (s_dir x) (s_pend x ++ gone) (s_srcs x)) in
      if f =? 1 then p1 else spec_saved p1 d
  | None => p
  end.

Fixpoint spec_step (p : spec) (o : op) (restore_ok : bool) : spec :=
  match o with
  | OPut d k v _ => spec_write p d k (Some v)
  | ODel d k _ => spec_write p d k None
  | OCkpt d id =>
      match sget p d with
      | Some x => let p1 := sset p d (mkS (s_map x) (s_ids x ++ [id]) (s_scope x) (s_live x) (s_dir x) (s_pend x) (s_srcs x)) in
                  mkSpec (p_dbs p1) ((hk id (s_dir x), (s_map x, s_scope x)) :: p_snaps p) (p_tasks p ++ [(id, false)]) (p_done p) (p_dropped p) (p_wals p) (p_d11 p) (p_nextdir p)
      | None => p
      end
  | OStepCkpt d id => spec_ckpt_step p d id 0
  | OStepCkptF d id f => spec_ckpt_step p d id f
  | ORetain d ids => spec_retain p d ids 0
  | ORetainF d ids f => spec_retain p d ids f
  | ORestore _ id same ow _ =>
      let hd := match find (fun h => fst h =? id) (p_done p) with Some h => snd h | None => 0 end in
      let dir := if same then hd else p_nextdir p in
      let '(m, sc) := match find (fun s => fst s =? hk id hd) (p_snaps p) with Some s => snd s | None => ([], []) end in
      let sc' := ow :: sc in
      let x := mkS (filter (fun kv => in_scope sc' (fst kv)) m) [id] sc' restore_ok dir [] [hk id hd] in
      (* restoring into the directory of the source supersedes the other handles of that directory *)
      let gone := if same then map fst (filter (fun h => (snd h =? hd) && negb (fst h =? id)) (p_done p)) else [] in
      mkSpec (p_dbs p ++ [x]) (p_snaps p) (p_tasks p) (p_done p) (p_dropped p ++ gone) (p_wals p) (p_d11 p)
             (if same then p_nextdir p else p_nextdir p + 1)
  | ORestoreM _ id dirs same ow _ =>
      let m := flat_map (fun dir => match find (fun s => fst s =? hk id dir) (p_snaps p) with Some s => fst (snd s) | None => [] end) dirs in
      let sc' := [ow] in
      let dir := if same then hd 0 dirs else p_nextdir p in
      let x := mkS (filter (fun kv => in_scope sc' (fst kv)) m) [id] sc' restore_ok dir [] (map (hk id) dirs) in
      let gone := if same then map fst (filter (fun h => (snd h =? dir) && negb (fst h =? id)) (p_done p)) else [] in
      mkSpec (p_dbs p ++ [x]) (p_snaps p) (p_tasks p) (p_done p) (p_dropped p ++ gone) (p_wals p) (p_d11 p) (if same then p_nextdir p else p_nextdir p + 1)
  | ORestoreF _ same =>
      (* a restore that a storage read fault made fail: a dead object, nothing else *)
      mkSpec (p_dbs p ++ [mkS [] [] [] false 0 [] []]) (p_snaps p) (p_tasks p) (p_done p) (p_dropped p) (p_wals p) (p_d11 p)
             (if same then p_nextdir p else p_nextdir p + 1)
  | OOpen _ =>
      mkSpec (p_dbs p ++ [mkS [] [] [] true (p_nextdir p) [] []]) (p_snaps p) (p_tasks p) (p_done p) (p_dropped p) (p_wals p) (p_d11 p) (p_nextdir p + 1)
  | OSeq a b => spec_step (spec_step p a restore_ok) b restore_ok
  | OCrash d | ODrop d =>
      match sget p d with
      | Some x => let p1 := sset p d (mkS (s_map x) (s_ids x) (s_scope x) false (s_dir x) (s_pend x) (s_srcs x)) in
                  (* checkpoints of that object that had not completed never will *)
                  mkSpec (p_dbs p1) (p_snaps p) (filter (fun t => negb (memN (fst t) (s_ids x))) (p_tasks p)) (p_done p) (p_dropped p) (p_wals p) (p_d11 p) (p_nextdir p)
      | None => p
      end
  | _ => p
  end.

(* ---------- one step: model, oracle, comparisons ---------- *)
Definition model_handle (w : world) (h : N * N) : hobs :=
  let '(id, dir) := h in
  match fs_get (g_fs w) (dir, 2, 0) with
  | Some (FCk docs) =>
      match find_doc docs id with
      | Some d => let ts := sort_names (map td_name (dc_tables d)) in
                  mkHObs id dir [] true (dc_wal d :: dc_xw d) (dc_after d) (dc_lastseq d) ts
                         (sort_names (filter (fun n => negb (fs_has (g_fs w) n)) (dc_wal d :: dc_xw d ++ map td_name (dc_tables d))))
      | None => mkHObs id dir [] false [] 0 0 [] []
      end
  | _ => mkHObs id dir [] false [] 0 0 [] []
  end.
Fixpoint ins_handle (h : N * N) (l : list (N * N)) : list (N * N) :=
  match l with [] => [h] | y :: l' => if (fst h <? fst y) || ((fst h =? fst y) && (snd h <? snd y)) then h :: l else y :: ins_handle h l' end.
Definition sort_handles (l : list (N * N)) : list (N * N) := fold_right ins_handle [] l.
Definition hobs_eqb (a b : hobs) : bool :=
  (h_id a =? h_id b) && (h_dir a =? h_dir b) && Bool.eqb (h_present a) (h_present b) && names_eqb (h_wal a) (h_wal b) && (h_after a =? h_after b)
  && (h_lastseq a =? h_lastseq b) && names_eqb (h_tables a) (h_tables b) && names_eqb (sort_names (h_missing a)) (h_missing b).

Fixpoint model_live (dbs : list wdb) (i : N) : list lobs :=
  match dbs with
  | [] => []
  | x :: r => (if is_live x then [mkLObs i (d_seq (x_core x)) (d_latest (x_core x)) (sort_names (map t_name (d_tables (x_core x)))) []] else [])
              ++ model_live r (i + 1)
  end.
Definition lobs_eqb (a b : lobs) : bool :=
  (l_db a =? l_db b) && (l_seq a =? l_seq b) && (l_latest a =? l_latest b) && names_eqb (l_tables a) (l_tables b).

Definition model_read (w : world) (x : wdb) (keys : list bytes) : robs :=
  if existsb (fun t => negb (fs_has (g_fs w) (t_name t))) (d_tables (x_core x)) then mkRObs 4 [] []
  else mkRObs 0 (db_scan (x_core x)) (map (fun k => (k, db_get (x_core x) k)) keys).
(* a = observed, b = model. When the model says a table file is missing (outcome 4) the implementation may still answer from
   the bytes a file object cached before the deletion (memory file system): both outcomes are accepted there. *)
Definition robs_eqb (a b : robs) : bool :=
  if r_outcome b =? 4 then (r_outcome a =? 4) || (r_outcome a =? 0) else
  (r_outcome a =? r_outcome b) &&
  (if r_outcome a =? 0 then list_eqb kv_eqb (r_scan a) (r_scan b) && list_eqb get_eqb (r_gets a) (r_gets b) else true).

Definition flag (b : bool) (code : N) : list N := if b then [] else [code].

(* spec comparison of an observed read against an oracle map restricted to a scope *)
Definition spec_read_ok (m : smap) (sc : list own) (r : robs) (c_scan c_get : N) : list N :=
  flag (list_eqb kv_eqb (filter (fun kv => in_scope sc (fst kv)) (r_scan r)) (sm_sorted m)) c_scan ++
  flag (forallb (fun g => negb (in_scope sc (fst g)) || ob_eqb (snd g) (sm_get m (fst g))) (r_gets r)) c_get.

(* files deleted by cleanups of table objects of DROPPED database objects. [d11_created]: tables the dropped object had created,
   or had opened from a document while it was configured as the only owner (AllDataOwnership / a partition without
   neighbours: a redeployed single operator) - these deletions ask nobody, so they can hit a live successor as well as retained
   documents. [d11_any]: every deletion by a dropped object, also those decided by asking neighbours - they can still hit the
   retained document the dropped object was restored from, but a live neighbour that lost a table is NOT in this class. *)
Definition asks_nobody (x : wdb) : bool :=
  match x_own x, x_nb x with OwnAll, _ => true | _, NbNone => true | _, _ => false end.
Definition d11_created (w : world) : list fname :=
  flat_map (fun x => match x_state x with
                     | Dropped => map o_name (filter (fun o => (negb (o_fromdoc o) || asks_nobody x) && cleanup_deletes w x o) (x_objs x))
                     | _ => [] end) (g_dbs w).
Definition d11_any (w : world) : list fname :=
  flat_map (fun x => match x_state x with
                     | Dropped => map o_name (filter (cleanup_deletes w x) (x_objs x))
                     | _ => [] end) (g_dbs w).

Definition check_step1 (st : world * spec) (so : op * obs) : (world * spec) * list N :=
  let '(w, p) := st in
  let '(o, ob) := so in
  let w' := step w o in
  let restore_ok := match o, o_read ob with ORestore _ _ _ _ _, Some r | ORestoreM _ _ _ _ _ _, Some r => r_outcome r =? 0 | _, _ => false end in
  let p0 := spec_step p o restore_ok in
  let p1 := match o with
            | OGc => mkSpec (p_dbs p0) (p_snaps p0) (p_tasks p0) (p_done p0) (p_dropped p0) (p_wals p0) (p_d11 p0 ++ map (fun n => (n, true)) (d11_created w) ++ map (fun n => (n, false)) (d11_any w)) (p_nextdir p0)
            | _ => p0 end in
  (* remember the WAL of every handle whose document is visible *)
  (* a handle the implementation RETURNED is a completed checkpoint, whatever the oracle expected of that step (e.g. a storage
     fault that should have failed it): it must restore exactly *)
  let done' := fold_left (fun acc h => if existsb (fun q => (fst q =? h_id h) && (snd q =? h_dir h)) acc then acc else acc ++ [(h_id h, h_dir h)]) (o_handles ob) (p_done p1) in
  let p' := mkSpec (p_dbs p1) (p_snaps p1) (p_tasks p1) done' (p_dropped p1)
                   (fold_left (fun acc h =>
                      if h_present h then
                        match h_wal h with
                        | n :: _ =>
                            let k := hk (h_id h) (h_dir h) in
                            let old := match find (fun q => fst q =? k) acc with Some q => snd (snd q) | None => [] end in
                            let fresh := filter (fun s => negb (mem_name (fst s) (map fst old))) (h_sigs h) in
                            (k, (n, old ++ fresh)) :: filter (fun q => negb (fst q =? k)) acc
                        | [] => acc end
                      else acc) (o_handles ob) (p_wals p1))
                   (p_d11 p1) (p_nextdir p1) in
  let keys := match o_read ob with Some r => map fst (r_gets r) | None => [] end in
  (* ----- model comparisons ----- *)
  let c_rot := match o with
               (* retired (code 6): whether a write rotates is observed data replayed by the model, not a prediction that is compared *)
               | _ => @nil N end in
  let c_files := flag (names_eqb (o_files ob) (sort_names (map fst (g_fs w')))) 2 in
  let c_handles := flag (list_eqb hobs_eqb (o_handles ob) (map (model_handle w') (sort_handles (g_handles w')))) 3 in
  let c_live := flag (list_eqb lobs_eqb (o_live ob) (model_live (g_dbs w') 0)) 4 in
  let c_read := match o, o_read ob with
                | ORestore _ id same ow nb, Some r =>
                    let dir := if same then match handle_dir w id with Some hd => hd | None => 0 end else g_nextdir w in
                    match open_from w id dir ow nb with
                    | RFail c => flag (r_outcome r =? c) 1
                    | ROpen x => flag (robs_eqb r (model_read w' x keys)) 1
                    end
                | ORestoreM _ id dirs same ow nb, Some r =>
                    match open_fromM w id dirs (if same then hd 0 dirs else g_nextdir w) ow nb with
                    | RFail c => flag (r_outcome r =? c) 1
                    | ROpen x => flag (robs_eqb r (model_read w' x keys)) 1
                    end
                | ORestoreF _ _, Some r => flag (r_outcome r =? 1) 1
                | ORead d, Some r => match get_db w' d with Some x => flag (robs_eqb r (model_read w' x keys)) 1 | None => [1] end
                | ORetain d ids, Some r => flag ((r_outcome r =? 3) && retain_empty w d ids) 1
                | ORetain d ids, None => flag (negb (retain_empty w d ids)) 1
                | ORetainF d ids f, Some r => flag ((r_outcome r =? 1) && negb (retain_ok w d ids f)) 1
                | ORetainF d ids f, None => flag (retain_ok w d ids f) 1
                | _, _ => [] end in
  let c_gc := match o with OGc => flag (names_eqb (o_gcdel ob) (sort_names (gc_deleted w))) 7 | _ => [] end in
  (* ----- specification ----- *)
  let d11 := map fst (p_d11 p') in
  let d11c := map fst (filter snd (p_d11 p')) in
  let s_files := flat_map (fun h =>
                   if completed p' (h_id h) && retained p' (h_id h) then
                     flag (h_present h) 103 ++
                     (match find (fun q => fst q =? hk (h_id h) (h_dir h)) (p_wals p) with
                      | Some q => flag (forallb (fun s => match find (fun o => fname_eqb (fst o) (fst s)) (snd (snd q)) with
                                                          | Some o => snd o =? snd s | None => true end) (h_sigs h)) 105
                      | None => [] end) ++
                     (match h_missing h with [] => [] | ms => if subset_names ms d11 then [110] else [100] end)
                   else []) (o_handles ob) in
  let s_live := flat_map (fun l => match l_missing l with [] => [] | ms => if subset_names ms d11c then [111] else [101] end) (o_live ob) in
  let s_wal := match o with
               | ORetain d _ | OStepCkpt d _ =>
                   (* the update has been saved and its deletions did not fail: for every id that just left the durable list, the
                      WAL of the database's own checkpoint and of every handle it was restored from must be gone *)
                   match sget p d, sget p' d with
                   | Some x, Some x' =>
                       flat_map (fun i => if memN i (s_ids x' ++ s_pend x') then [] else
                                   flat_map (fun k => match find (fun q => fst q =? k) (p_wals p') with
                                                      | Some q => flag (negb (mem_name (fst (snd q)) (o_files ob))) 102
                                                      | None => [] end)
                                            (hk i (s_dir x) :: filter (fun k => k / 1000 =? i) (s_srcs x)))
                                (s_ids x ++ s_pend x)
                   | _, _ => [] end
               | _ => [] end in
  (* [o_during] holds (id, 9, 0) for every completed handle that had a missing file while a slow neighbour had not answered;
     only the retained ones matter, and the D11 class is left to codes 110/111 *)
  let s_during := flag (negb (existsb (fun n => let id := fst (fst n) in
                                         completed p id && retained p id &&
                                         negb (existsb (fun h => (h_id h =? id) && subset_names (h_missing h) (map fst (p_d11 p'))) (o_handles ob)))
                                      (o_during ob))) 104 in
  let s_restore := match o, o_read ob with
                   | ORestore _ id _ ow _, Some r =>
                       if completed p id && retained p id then
                         match find (fun s => fst s =? hk id (match find (fun h => fst h =? id) (p_done p) with Some h => snd h | None => 0 end)) (p_snaps p) with
                         | Some (_, (m, sc)) =>
                             let sc' := ow :: sc in
                             if r_outcome r =? 0 then spec_read_ok (filter (fun kv => in_scope sc' (fst kv)) m) sc' r 11 12
                             else
                               let miss := flat_map h_missing (filter (fun h => h_id h =? id) (o_handles ob)) in
                               if (r_outcome r =? 4) && negb (match miss with [] => true | _ => false end) && subset_names miss d11 then [14] else [10]
                         | None => [] end
                       else []
                   | ORestoreM _ id dirs _ ow _, Some r =>
                       if forallb (fun dir => existsb (fun h => (fst h =? id) && (snd h =? dir)) (p_done p)) dirs && retained p id then
                         let m := flat_map (fun dir => match find (fun s => fst s =? hk id dir) (p_snaps p) with Some s => fst (snd s) | None => [] end) dirs in
                         let sc' := [ow] in
                         if r_outcome r =? 0 then spec_read_ok (filter (fun kv => in_scope sc' (fst kv)) m) sc' r 11 12
                         else
                           let miss := flat_map h_missing (filter (fun h => h_id h =? id) (o_handles ob)) in
                           if (r_outcome r =? 4) && negb (match miss with [] => true | _ => false end) && subset_names miss d11 then [14] else [10]
                       else []
                   | ORead d, Some r =>
                       match sget p' d with
                       | Some x => if r_outcome r =? 0 then spec_read_ok (s_map x) (s_scope x) r 13 13
                                   else if (r_outcome r =? 4) && existsb (fun l => (l_db l =? d) && subset_names (l_missing l) d11c && negb (match l_missing l with [] => true | _ => false end)) (o_live ob) then [111] else [13]
                       | None => [] end
                   | _, _ => [] end in
  ((w', p'), c_rot ++ c_files ++ c_handles ++ c_live ++ c_read ++ c_gc ++ s_files ++ s_live ++ s_wal ++ s_during ++ s_restore).

(* overlapping steps observed as one: all but the last are applied to the model and the oracle without observation *)
Fixpoint check_seq (st : world * spec) (o : op) (ob : obs) : (world * spec) * list N :=
  match o with
  | OSeq a b => check_seq (step (fst st) a, spec_step (snd st) a false) b ob
  | _ => check_step1 st (o, ob)
  end.
Definition check_step (st : world * spec) (so : op * obs) : (world * spec) * list N := check_seq st (fst so) (snd so).

Fixpoint dedup (l : list N) : list N :=
  match l with [] => [] | x :: l' => if memN x l' then dedup l' else x :: dedup l' end.

Definition check_case (c : case) : list N :=
  let init := (init_world (k_mem c) (k_wal c),
               mkSpec [mkS [] [] [] true 0 [] []] [] [] [] [] [] [] 1) in
  dedup (snd (fold_left (fun acc so => let '(st, codes) := check_step (fst acc) so in (st, snd acc ++ codes)) (k_steps c) (init, []))).

Definition is_c09_code (c : N) : bool := (c =? 2) || (c =? 3) || (c =? 4) || (c =? 7) || (100 <=? c).
Definition run_with (keep : N -> bool) (cases : list (N * case)) : list (N * N) :=
  flat_map (fun ic => map (fun code => (fst ic, code)) (filter keep (check_case (snd ic)))) cases.
(* C08 reports the content codes and, so that nothing is lost when only one property is checked, every model disagreement;
   C09 reports the file codes and every model disagreement. *)
Definition run_c08 := run_with (fun c => (c <? 100)).
Definition run_c09 := run_with (fun c => is_c09_code c || (c <? 10)).
