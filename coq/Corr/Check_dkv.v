(* Correspondence check for C07 (mode c07: real dkv.DB under a forced background schedule) and C18 (mode c18:
   sst.Compactor stepped on directly built layouts).  Codes 1..9: implementation differs from the model;
   codes 11..19: implementation violates the specification predicate (plain sorted map / "newest write wins"),
   checked on the observed outputs without the model. *)
From Coq Require Import List NArith Bool.
From RV Require Import Base.Bytes Model.LsmBase Model.LsmCompaction Model.Lsm Model.LsmReplay.
Import ListNotations.
Open Scope N_scope.

Inductive oact :=
| OPut (k v : bytes) (rot : bool) | ODel (k : bytes) (rot : bool)
| OGet1 (k : bytes) | OGet2 (r : getres)
| OScan1 (p : bytes) | OScan2 (r : list (bytes * bytes))
| OF1 | OF2 (outs : list table) (* the level-0 tables the flush installed *) | OC1 (ocs : option changeset) (* the change set Compact returned (observed when it is applied) / nil *) | OC2
| OC1F (* the compaction step hit an injected storage read fault and Compact returned the error *)
| OReadErr (* the following Get / ScanPrefix returned an error *)
| ODupFile (* a table file name (NNNNNN.sst) was created or saved a second time *)
| OTaskErr. (* db.WaitOnTasks reported a background task error although no fault was injected *)

(* observations of a level list: Get of every key of the alphabet, ScanPrefix of every prefix *)
Definition reads := (list getres * list (list (bytes * bytes)))%type.

Inductive cstep :=
| CStep (ocs : option changeset)             (* the change set Compact returned (level, output tables, removed tables) / nil *)
        (failed : bool)                      (* Compact returned an error (injected storage read fault) *)
        (extra : list table)                 (* level-0 tables added between Compact and the apply *)
        (ranges : list (list (bytes * bytes))) (* per level (startKey, endKey) of every table afterwards *)
        (post : reads).

Inductive case :=
| C07 (mem wal trig maxamp smallest target : N) (acts : list oact)
| C18 (trig maxamp smallest target : N) (layout : levels) (keys prefixes : list bytes) (pre : reads) (steps : list cstep).

(* ---------- equality tests ---------- *)
Fixpoint list_eqb {A} (eqb : A -> A -> bool) (a b : list A) : bool :=
  match a, b with
  | [], [] => true
  | x :: a', y :: b' => eqb x y && list_eqb eqb a' b'
  | _, _ => false
  end.
Definition kv_eqb (a b : bytes * bytes) : bool := beqb (fst a) (fst b) && beqb (snd a) (snd b).
Definition kvs_eqb := list_eqb kv_eqb.
Definition getres_eqb (a b : getres) : bool :=
  match a, b with
  | GFound x, GFound y => beqb x y
  | GDeleted, GDeleted => true
  | GAbsent, GAbsent => true
  | _, _ => false
  end.
(* the specification does not distinguish "deleted" from "absent" *)
Definition spec_get_ok (r : getres) (o : option bytes) : bool :=
  match r, o with
  | GFound x, Some y => beqb x y
  | GFound _, None => false
  | _, Some _ => false
  | _, None => true
  end.
Fixpoint strictly_ascending (l : list (bytes * bytes)) : bool :=
  match l with
  | [] => true
  | x :: r => match r with [] => true | y :: _ => bltb (fst x) (fst y) end && strictly_ascending r
  end.

(* ---------- C07 ---------- *)

Definition to_ract (o : oact) : ract :=
  match o with
  | OPut k v r => RPut k v r | ODel k r => RDel k r
  | OGet1 k => RGet1 k | OGet2 _ => RGet2
  | OScan1 p => RScan1 p | OScan2 _ => RScan2
  | OF1 => RF1 | OF2 outs => RF2o outs | OC1 ocs => RC1 ocs | OC2 => RC2 | OC1F => RC1F
  | OReadErr | ODupFile | OTaskErr => RF1 (* not model actions: skipped by model_codes *)
  end.

Definition obs_code (o : oact) (m : obs) : list N :=
  match o, m with
  | OGet2 r, OGet r' => if getres_eqb r r' then [] else [3]
  | OScan2 r, OScan r' => if kvs_eqb r r' then [] else [4]
  | _, _ => []
  end.

(* The scheduling decisions of the implementation (rotation, Compact's change set) are data of the replay machine
   Model/LsmReplay.v; what is checked against the model is the task discipline (code 1), that every change set is legal for the
   layout it was computed on (code 6) and every read result (3, 4). *)
Fixpoint model_codes (st : db) (acts : list oact) : list N :=
  match acts with
  | [] => []
  | OReadErr :: r | ODupFile :: r | OTaskErr :: r => model_codes st r
  | o :: r =>
      match rstep true st (to_ract o) with
      | Some (st', m) => obs_code o m ++ model_codes st' r
      | None =>
          match rstep false st (to_ract o) with
          | Some (st', m) => 6 :: obs_code o m ++ model_codes st' r
          | None => [1]
          end
      end
  end.

(* the plain map oracle; [pend] is the key / prefix of the read in flight *)
Fixpoint spec_codes (m : list (bytes * bytes)) (pend : bytes) (acts : list oact) : list N :=
  match acts with
  | [] => []
  | o :: r =>
      match o with
      | OPut k v _ => spec_codes (sm_put k v m) pend r
      | ODel k _ => spec_codes (sm_del k m) pend r
      | OGet1 k => spec_codes m k r
      | OScan1 p => spec_codes m p r
      | OReadErr => 100 :: spec_codes m pend r
      | ODupFile => 19 :: spec_codes m pend r
      | OTaskErr => 101 :: spec_codes m pend r
      | OGet2 g => (if spec_get_ok g (sm_get pend m) then [] else [11]) ++ spec_codes m pend r
      | OScan2 s => (if kvs_eqb s (sm_scan pend m) then [] else if strictly_ascending s then [12] else [13])
                      ++ spec_codes m pend r
      | _ => spec_codes m pend r
      end
  end.

(* ---------- C18 ---------- *)

Definition model_reads (keys prefixes : list bytes) (ll : levels) : reads :=
  (map (fun k => to_getres (ll_get k ll)) keys, map (fun p => kvs (ll_scan p ll)) prefixes).
Definition reads_codes (cg cs : N) (a b : reads) : list N :=
  (if list_eqb getres_eqb (fst a) (fst b) then [] else [cg]) ++
  (if list_eqb kvs_eqb (snd a) (snd b) then [] else [cs]).

Definition ranges_of (ll : levels) : list (list (bytes * bytes)) :=
  map (map (fun t => (first_key t, last_key t))) ll.

(* specification: per key the entry with the greatest sequence number among everything ever put into the layout *)
Definition spec_store (tables : list table) : table := merge_all tables.
Definition spec_reads (keys prefixes : list bytes) (tables : list table) : list (option bytes) * list (list (bytes * bytes)) :=
  let s := spec_store tables in
  (map (fun k => match tbl_get k s with Some e => if edel e then None else Some (eval e) | None => None end) keys,
   map (fun p => kvs (without_deletes (tbl_scan p s))) prefixes).
Fixpoint gets_ok (a : list getres) (b : list (option bytes)) : bool :=
  match a, b with
  | [], [] => true
  | x :: a', y :: b' => spec_get_ok x y && gets_ok a' b'
  | _, _ => false
  end.
Definition spec_reads_codes (cg cs : N) (a : reads) (b : list (option bytes) * list (list (bytes * bytes))) : list N :=
  (if gets_ok (fst a) (fst b) then [] else [cg]) ++
  (if list_eqb kvs_eqb (snd a) (snd b) then [] else [cs]).

(* levels >= 1: every table's range is well-formed and the ranges ascend without overlap *)
Fixpoint ranges_sorted (l : list (bytes * bytes)) : bool :=
  match l with
  | [] => true
  | (s, e) :: r => bleb s e && match r with [] => true | (s', _) :: _ => bltb e s' end && ranges_sorted r
  end.
Definition ranges_valid (rs : list (list (bytes * bytes))) : bool := forallb ranges_sorted (tl rs).

Fixpoint c18_steps (keys prefixes : list bytes) (ll : levels) (all : list table) (steps : list cstep) : list N :=
  match steps with
  | [] => []
  | CStep ocs failed extra ranges post :: r =>
      let ll1 := add_l0 extra ll in
      let ll2 := match ocs with Some cs => apply_cs cs ll1 | None => ll1 end in
      let all' := all ++ extra in
      (* the change set must be legal for the layout it meets, also with the level-0 tables that arrived meanwhile *)
      (match ocs with Some cs => if good_csb ll1 cs then [] else [6] | None => [] end) ++
      (if failed && match ocs with Some _ => true | None => false end then [5] else []) ++
      reads_codes 3 4 post (model_reads keys prefixes ll2) ++
      spec_reads_codes 14 15 post (spec_reads keys prefixes all') ++
      (if ranges_valid ranges && validb ll2 then [] else [16]) ++
      c18_steps keys prefixes ll2 all' r
  end.

Definition check_case (c : case) : list N :=
  match c with
  | C07 mem wal trig maxamp smallest target acts =>
      (* the option values are recorded for replay; neither the model run nor the oracle depends on them *)
      model_codes (rinit 6) acts ++ spec_codes [] [] acts
  | C18 trig maxamp smallest target layout keys prefixes pre steps =>
      (if validb layout then [] else [9]) ++
      reads_codes 7 8 pre (model_reads keys prefixes layout) ++
      spec_reads_codes 17 18 pre (spec_reads keys prefixes (concat layout)) ++
      c18_steps keys prefixes layout (concat layout) steps
  end.

Definition run (cases : list (N * case)) : list (N * N) :=
  flat_map (fun ic => map (fun code => (fst ic, code)) (check_case (snd ic))) cases.
