(* Correspondence check of engine snapstore (modes c12 and c13).
   Codes 1..9 and 20..98: the implementation differs from the model.
   Codes 11..17 (C12) and 101..106 (C13): the implementation violates the specification predicate the theorems
   state, checked on the observed outputs alone. *)
From RV Require Import Base.Mach Base.Bytes Model.PathSeg Model.SnapStore Model.Publish.
Open Scope N_scope.

Inductive c12op :=
| XCreate (ops srs : list N) (o_err : bool) (o_id : N)
| XSavepoint (ops srs : list N) (o_err : bool) (o_id : N) (o_created : bool)
| XAckOp (cid op pl : N) (o_err : bool) (o_pub : option pubobs)
| XAckSr (cid sr : N) (sts : list N) (o_err : bool) (o_pub : option pubobs)
| XRestart (o_files : list N) (o_cur : option snapobs)
| XLoseRemoves (b : bool)    (* fault injection: from now on the Remove calls of this process do not reach storage *)
| XRestartFrom (id : N) (o_files : list N) (o_cur : option snapobs)   (* new Store with the SavepointURI of savepoint id *)
| XAbort
| XFailNextWrite             (* fault injection: the next Write of a snapshot file returns an error *)
(* the ack completed the checkpoint but the write of its snapshot file failed (error on the error channel) *)
| XAckOpF (cid op pl : N) (o_err : bool) (o_removed o_notes : list (list N)) (o_cur : option N)
| XAckSrF (cid sr : N) (sts : list N) (o_err : bool) (o_removed o_notes : list (list N)) (o_cur : option N).

Inductive c13step :=
| YPub (n : N) (sp : bool) (o_id : N)                 (* checkpoint (savepoint if sp) with n split states *)
| YW (i : N) (o_id : option N) (o_tag : N) (o_cur : N) (* o_tag: split states decoded from the file READ BACK after the write;
                                                          o_cur: CurrentCheckpoint().Id afterwards (0 = none) *)
| YR (i : N) (o_ids : option (list N))
| YT (o_note : option (list N))
| YCrash (o_files : list N) (o_loaded : option N) (o_ltag : N)
| YRewind (sp : N) (o_files : list N) (o_loaded : option N) (o_ltag : N)    (* new Store started from savepoint sp *)
| YWF (i : N) (o_id : option N) (o_cur : N).   (* the i-th parked Write returns an error; o_cur: CurrentCheckpoint().Id afterwards *)

Inductive case :=
| C12 (ops : list c12op)
| Seg (id : N) (o_seg : bytes)
| Load (ids : list N) (o_listing : list N) (o_loaded : option N)
(* the same over an S3Location (memory S3 service) at s3://bucket/jobs/etl while a sibling location
   s3://bucket/jobs/etl-v2 of the same bucket holds the snapshot files of [sib] *)
| LoadS3 (ids sib : list N) (o_listing : list N) (o_loaded : option N)
| Sched (base : N) (steps : list c13step) (o_end_writes : list N) (o_end_removes o_end_notes : list (list N))
(* a real dkv.DB takes DKV checkpoints 1,2,.. (RCk) and receives the job's retention notifications (RRt id), possibly
   late; o_open: the ids whose handle still opens at the end and holds every key written before that checkpoint *)
| Retain (steps : list rstep) (o_open : list N)
(* jobs.New over a storage holding the snapshot files of [ids] whose reads of snapshot files fail as [fault] says
   (0 none, 1 not-found, 2 another error): refused (error / panic) or started from o_cur *)
| JobStart (ids : list N) (fault : N) (o_refused : bool) (o_cur : option N).

(* ---------- equality tests on observables (order-insensitive where the order is not an API matter) ---------- *)
Definition optN_eqb (a b : option N) : bool :=
  match a, b with Some x, Some y => x =? y | None, None => true | _, _ => false end.
Fixpoint list_eqb {A} (eqb : A -> A -> bool) (a b : list A) : bool :=
  match a, b with
  | [], [] => true
  | x :: a', y :: b' => eqb x y && list_eqb eqb a' b'
  | _, _ => false
  end.
Definition nll_eqb := list_eqb listN_eqb.
Definition opt_eqb {A} (eqb : A -> A -> bool) (a b : option A) : bool :=
  match a, b with Some x, Some y => eqb x y | None, None => true | _, _ => false end.
Definition set_eqb (a b : list N) : bool := listN_eqb (sortN a) (sortN b).
Definition snap_same (a b : snapobs) : bool :=
  (sn_id a =? sn_id b)
  && Nat.eqb (length (sn_entries a)) (length (sn_entries b))
  && incl_b entry_eqb (sn_entries a) (sn_entries b) && incl_b entry_eqb (sn_entries b) (sn_entries a)
  && set_eqb (sn_splits a) (sn_splits b).

(* ---------- C12 ---------- *)
Definition action_of (o : c12op) : action :=
  match o with
  | XCreate ops srs _ _ => ACreate ops srs
  | XSavepoint ops srs _ _ _ => ASavepoint ops srs
  | XAckOp cid op pl _ _ => AAckOp cid op pl
  | XAckSr cid sr sts _ _ => AAckSr cid sr sts
  | XRestart _ _ => ARestart
  | XLoseRemoves b => ALoseRemoves b
  | XRestartFrom id _ _ => ARestartFrom id
  | XAbort => AAbort
  | XFailNextWrite => AFailNextWrite
  | XAckOpF cid op pl _ _ _ _ => AAckOp cid op pl
  | XAckSrF cid sr sts _ _ _ _ => AAckSr cid sr sts
  end.
Definition result_of (o : c12op) : result :=
  match o with
  | XCreate _ _ e id => RCreate e id
  | XSavepoint _ _ e id c => RSavepoint e id c
  | XAckOp _ _ _ e p => RAck e p
  | XAckSr _ _ _ e p => RAck e p
  | XRestart f c => RRestart f c
  | XLoseRemoves _ => RFault
  | XRestartFrom _ f c => RRestart f c
  | XAbort => RFault
  | XFailNextWrite => RFault
  | XAckOpF _ _ _ e rm nt c => RAckFailed e rm nt c
  | XAckSrF _ _ _ e rm nt c => RAckFailed e rm nt c
  end.

Definition cmp_result (model obs : result) : list N :=
  match model, obs with
  | RCreate e1 i1, RCreate e2 i2 => if Bool.eqb e1 e2 && (e1 || (i1 =? i2)) then [] else [1]
  | RSavepoint e1 i1 c1, RSavepoint e2 i2 c2 =>
      if Bool.eqb e1 e2 && (e1 || ((i1 =? i2) && Bool.eqb c1 c2)) then [] else [2]
  | RAck e1 p1, RAck e2 p2 =>
      (if Bool.eqb e1 e2 then [] else [3]) ++
      match p1, p2 with
      | None, None => []
      | Some a, Some b =>
          (if snap_same (pb_snap a) (pb_snap b) && Bool.eqb (pb_sp a) (pb_sp b) then [] else [4]) ++
          (if list_eqb set_eqb (pb_removed a) (pb_removed b) && nll_eqb (pb_notes a) (pb_notes b) then [] else [5])
      | _, _ => [4]
      end
  | RRestart f1 c1, RRestart f2 c2 =>
      if set_eqb f1 f2 && opt_eqb snap_same c1 c2 then [] else [6]
  | RFault, RFault => []
  | RAckFailed e1 r1 n1 c1, RAckFailed e2 r2 n2 c2 =>
      (if Bool.eqb e1 e2 then [] else [3]) ++
      (if list_eqb set_eqb r1 r2 && nll_eqb n1 n2 && optN_eqb c1 c2 then [] else [5])
  | RAck _ _, RAckFailed _ _ _ _ => [4]
  | RAckFailed _ _ _ _, RAck _ _ => [4]
  | _, _ => [9]
  end.

Fixpoint cmp_results (ms os : list result) : list N :=
  match ms, os with
  | m :: ms', o :: os' => cmp_result m o ++ cmp_results ms' os'
  | [], [] => []
  | _, _ => [9]
  end.

(* retention side of a publication, on the observation alone: only older files are removed, and the only id
   announced is the published one *)
Definition retention_ok (o : c12op) : bool :=
  match result_of o with
  | RAck _ (Some pb) =>
      forallb (forallb (fun i => i <? sn_id (pb_snap pb))) (pb_removed pb)
      && forallb (fun note => listN_eqb note [sn_id (pb_snap pb)]) (pb_notes pb)
  | _ => true
  end.

Definition check_c12 (ops : list c12op) : list N :=
  let acts := map action_of ops in
  let obs := map result_of ops in
  cmp_results (run repaired init acts) obs
  ++ mon_run mon_init (combine acts obs)
  ++ (if forallb retention_ok ops then [] else [17]).

(* ---------- C13 ---------- *)
Definition hstep_of (y : c13step) : hstep :=
  match y with
  | YPub _ _ _ => HPub | YW i _ _ _ => HW i | YR _ o => HR o | YT _ => HT | YCrash _ _ _ => HCrash
  | YRewind sp _ _ _ => HRewind sp
  | YWF i _ _ => HWFail i
  end.

Definition cmp_hobs (model : hobs) (obs : c13step) : list N :=
  match model, obs with
  | OPub a, YPub _ _ b => if a =? b then [] else [21]
  | OW a, YW _ b _ _ => if optN_eqb a b then [] else [22]
  | OW a, YWF _ b _ => if optN_eqb a b then [] else [22]
  | OR a, YR _ b => if opt_eqb set_eqb a b then [] else [23]
  | OT a, YT b => if opt_eqb listN_eqb a b then [] else [24]
  | OCrash l a, YCrash f b _ => (if listN_eqb l f then [] else [25]) ++ (if optN_eqb a b then [] else [26])
  | OCrash l a, YRewind _ f b _ => (if listN_eqb l f then [] else [25]) ++ (if optN_eqb a b then [] else [26])
  | _, _ => [29]
  end.
Fixpoint cmp_hobss (ms : list hobs) (os : list c13step) : list N :=
  match ms, os with
  | m :: ms', o :: os' => cmp_hobs m o ++ cmp_hobss ms' os'
  | [], [] => []
  | _, _ => [29]
  end.

(* CurrentCheckpoint().Id after every released write, against the model's completedSnapshots *)
Fixpoint cmp_cur (q : pquirks) (s : pstate) (steps : list c13step) : list N :=
  match steps with
  | [] => []
  | y :: r =>
      let s' := fst (hexec1 q s (hstep_of y)) in
      (match y with
       | YW _ (Some _) _ c => if c =? match completed s' with x :: _ => x | [] => 0 end then [] else [28]
       | YWF _ (Some _) c => if c =? match completed s' with x :: _ => x | [] => 0 end then [] else [28]
       | _ => []
       end) ++ cmp_cur q s' r
  end.

Definition max_opt (l : list N) : option N := match l with [] => None | _ => Some (list_max l) end.
Fixpoint increasing (l : list N) : bool :=
  match l with
  | x :: ((y :: _) as l') => (x <? y) && increasing l'
  | _ => true
  end.

(* spec on the observed schedule.  [tl]: ids written in the current timeline (after a crash: the files present;
   after a start from a savepoint: none yet - the savepoint lives in its artifact, its checkpoint file may be gone); [wr]: every id ever written; [notes]: ids announced in this store
   lifetime (newest first); [pubs]: id -> 2*n+sp of the created checkpoints; [cont]: id -> tag of the last write
   (LocalDirectory.Write replaces the content); [spc]: id -> tag of the savepoint artifact *)
Record sst := MkSst { z_tl : list N; z_wr : list N; z_notes : list N;
                      z_pubs : list (N * N); z_cont : list (N * N); z_spc : list (N * N);
                      z_cur : N }.   (* the last CurrentCheckpoint id seen in this store lifetime *)

Definition tag_ok (expected : option N) (t : N) : bool :=
  match expected with Some e => e =? t | None => true end.

Fixpoint spec_sched (z : sst) (steps : list c13step) : list N :=
  match steps with
  | [] => []
  | YPub n sp id :: r =>
      spec_sched (MkSst (z_tl z) (z_wr z) (z_notes z) (write_file id (2 * n + (if sp then 1 else 0)) (z_pubs z)) (z_cont z) (z_spc z) (z_cur z)) r
  | YW _ (Some id) tag cur :: r =>
      let e := file_tag id (z_pubs z) in
      let n := match e with Some v => v / 2 | None => tag end in
      let sp := match e with Some v => v mod 2 =? 1 | None => false end in
      (if tag =? n then [] else [107]) ++
      (if cur <? z_cur z then [112] else []) ++
      spec_sched (MkSst (id :: z_tl z) (id :: z_wr z) (z_notes z) (z_pubs z) (write_file id n (z_cont z))
                        (if sp then write_file id n (z_spc z) else z_spc z) cur) r
  | YWF _ (Some _) cur :: r =>
      (* a failed write leaves everything as it was: in particular the current checkpoint *)
      (if cur =? z_cur z then [] else [113]) ++ spec_sched z r
  | YR _ (Some ids) :: r =>
      (if negb (is_nil (z_tl z)) && mem (list_max (z_tl z)) ids then [102] else []) ++ spec_sched z r
  | YT (Some note) :: r =>
      (if forallb (fun n => mem n (z_wr z)) note then [] else [106]) ++
      (match note, z_notes z with
       | [n], p :: _ => if p <? n then [] else [103]
       | [n], [] => []
       | _, _ => [103]
       end) ++ spec_sched (MkSst (z_tl z) (z_wr z) (note ++ z_notes z) (z_pubs z) (z_cont z) (z_spc z) (z_cur z)) r
  | YCrash fs ld ltag :: r =>
      (if optN_eqb ld (max_opt fs) then [] else [101]) ++
      (if is_nil (z_tl z) || mem (list_max (z_tl z)) fs then [] else [102]) ++
      (match ld with Some l => if tag_ok (file_tag l (z_cont z)) ltag then [] else [108] | None => [] end) ++
      spec_sched (MkSst fs (z_wr z) [] (z_pubs z) (z_cont z) (z_spc z) (match ld with Some l => l | None => 0 end)) r
  | YRewind s fs ld ltag :: r =>
      (if optN_eqb ld (Some s) then [] else [109]) ++
      (if is_nil (z_tl z) || mem (list_max (z_tl z)) fs then [] else [102]) ++
      (if tag_ok (file_tag s (z_spc z)) ltag then [] else [108]) ++
      spec_sched (MkSst [] (z_wr z) [] (z_pubs z) (z_cont z) (z_spc z) (match ld with Some l => l | None => 0 end)) r
  | _ :: r => spec_sched z r
  end.

Fixpoint last_note (steps : list rstep) (acc : option N) : option N :=
  match steps with [] => acc | RCk :: r => last_note r acc | RRt id :: r => last_note r (Some id) end.

Definition check_retain (steps : list rstep) (o_open : list N) : list N :=
  let kept := retain_run [] 1 steps in
  let newest := taken 1 steps in
  (if forallb (fun i => mem i o_open) kept then [] else [30]) ++
  (if (newest =? 0) || mem newest o_open then [] else [110]) ++
  (match last_note steps None with Some i => if mem i o_open then [] else [110] | None => [] end).

Definition check_case (c : case) : list N :=
  match c with
  | C12 ops => check_c12 ops
  | Seg id o =>
      (if listN_eqb (path_segment id) o then [] else [7]) ++
      (if optN_eqb (seg_id o) (Some id) then [] else [105])
  | Load ids l ld =>
      (if listN_eqb (listing ids) l then [] else [8]) ++
      (if optN_eqb (load false ids) ld then [] else [9]) ++
      (if optN_eqb ld (max_opt ids) then [] else [104])
  | LoadS3 ids sib l ld =>
      (if set_eqb ids l then [] else [32]) ++
      (if optN_eqb (load false ids) ld then [] else [9]) ++
      (if optN_eqb ld (max_opt ids) then [] else [104])
  | Sched base steps ew er et =>
      let (s, os) := hrun prepaired (boot prepaired base) (map hstep_of steps) in
      cmp_hobss os steps ++ cmp_cur prepaired (boot prepaired base) steps ++
      (if listN_eqb (inflW s) ew && list_eqb set_eqb (pend_rm s) er
          && nll_eqb (match nhold s with Some n => [[n]] | None => [] end) et then [] else [27]) ++
      spec_sched (MkSst (if base =? 0 then [] else [base]) (if base =? 0 then [] else [base]) []
                        [] (if base =? 0 then [] else [(base, 0)]) [] base) steps
  | Retain steps o => check_retain steps o
  | JobStart ids fault refused cur =>
      (match job_start ids fault with
       | None => if refused then [] else [31]
       | Some c => if negb refused && optN_eqb c cur then [] else [31]
       end) ++
      (* the job either starts from the newest completed checkpoint in its storage or refuses to start *)
      (if refused || optN_eqb cur (max_opt ids) then [] else [111])
  end.

Definition run (cases : list (N * case)) : list (N * N) :=
  flat_map (fun ic => map (fun code => (fst ic, code)) (check_case (snd ic))) cases.
