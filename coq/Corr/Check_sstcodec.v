(* Correspondence check for C17 (engine sstcodec).
   Codes 1..9  : the implementation differs from the byte-level model (Model/SstTable, Bloom, WriteRun, WalCodec).
   Codes 100+  : the implementation violates the specification the theorems of Props/C17.v state, checked on the
                 observed results against the INPUT run / history only (no model function is involved). *)
From RV Require Import Model.SstTable Model.WriteRun Model.WalCodec.
Open Scope N_scope.

(* observed TableDocument fields *)
Record odoc := mkD { d_start : bytes; d_end : bytes; d_esize : N; d_size : N; d_sseq : N; d_eseq : N }.

(* one observed table: document, full scans (fresh / re-opened from the document; None = error), checksum of the raw
   file bytes (0 = not captured; terms with the raw bytes themselves are too slow to load) *)
(* ot_rdoc = Document() of the table re-opened from the descriptor that went through json.Marshal / json.Unmarshal
   (the checkpoint file encoding) *)
Record otable := mkOT { ot_doc : odoc; ot_rdoc : odoc; ot_scan : option (list entry); ot_rscan : option (list entry); ot_cks : N }.

(* a 60-bit shift/xor checksum (no multiplication: cheap under vm_compute), same arithmetic as the engine's cksum *)
Definition cksum (b : bytes) : N :=
  let m := N.ones 60 in
  fold_left (fun a x => N.land (N.lxor (N.lxor (N.shiftl a 7) (N.shiftr a 3)) (a + x + 1)) m) b 7 + 1.

(* a point lookup on table [lk_t]: fresh and re-opened results *)
(* lk_fin / lk_rin = RangeContainsKey on the fresh / re-opened table *)
Record olookup := mkL { lk_t : N; lk_key : bytes; lk_fresh : get_res; lk_reopen : get_res; lk_fin : bool; lk_rin : bool }.
(* a prefix scan over all tables of the run in order, concatenated *)
(* sc_lfresh / sc_lreopen: LevelList.ScanPrefixEntries over the level list {L0 = {}, L1 = the run's tables} built from
   the fresh / the re-opened tables *)
Record oscan := mkS { sc_prefix : bytes; sc_fresh : option (list entry); sc_reopen : option (list entry);
                      sc_lfresh : option (list entry); sc_lreopen : option (list entry) }.
(* LevelList.Get over the same two level lists *)
Record olget := mkLG { lg_key : bytes; lg_fresh : get_res; lg_reopen : get_res }.
(* the real bloom package on the run's keys: queried key, MightHave on the filter, MightHave after Encode/Decode *)
Record obloom := mkB { bl_key : bytes; bl_has : bool; bl_has_dec : bool }.

(* Table.Get on table [fg_t] (re-opened over a filesystem whose k-th ReadAt fails once, for k = 0,1,2,... until the
   lookup finishes without reaching the failing read): number of runs that reported an error, and every other outcome *)
Record ofget := mkFG { fg_t : N; fg_key : bytes; fg_errs : N; fg_outs : list get_res }.
(* ScanPrefix under the same single read faults: per run, whether an error was reported and what was yielded *)
Record ofscan := mkFS { fs_t : N; fs_prefix : bytes; fs_runs : list (bool * list entry) }.

Inductive wread := mkR (file : N) (after : N) (res : wal_res).

Inductive case :=
| TabC (tp : tparams)       (* the writer-side constants of the code under test (index spacing, bloom bits / hashes),
                               read off a probe table the engine writes with the real TableWriter: the property does
                               not fix them, the model's encoder takes them as parameters *)
       (deep : bool) (es : list entry) (target : N)            (* target 0 = TableWriter.Write, else WriteRun *)
       (tables : list otable) (lookups : list olookup) (scans : list oscan) (blooms : list obloom) (lgets : list olget)
       (fgets : list ofget) (fscans : list ofscan)
| WalC (deep : bool) (s0 : N) (ops : list wop) (files : list bytes) (reads : list wread).

(* ---------- equality tests ---------- *)
Fixpoint list_eqb {A} (eqb : A -> A -> bool) (a b : list A) : bool :=
  match a, b with
  | [], [] => true
  | x :: a', y :: b' => eqb x y && list_eqb eqb a' b'
  | _, _ => false
  end.
Fixpoint all2 {A B} (f : A -> B -> bool) (a : list A) (b : list B) : bool :=
  match a, b with
  | [], [] => true
  | x :: a', y :: b' => f x y && all2 f a' b'
  | _, _ => false
  end.
Definition bytes_eqb := list_eqb N.eqb.
Definition entry_eqb (a b : entry) : bool :=
  bytes_eqb (e_key a) (e_key b) && bytes_eqb (e_val a) (e_val b) && (e_seq a =? e_seq b) && Bool.eqb (e_del a) (e_del b).
Definition entries_eqb := list_eqb entry_eqb.
Definition oentries_eqb (a b : option (list entry)) : bool :=
  match a, b with Some x, Some y => entries_eqb x y | None, None => true | _, _ => false end.
Definition get_res_eqb (a b : get_res) : bool :=
  match a, b with
  | GFound x, GFound y => entry_eqb x y
  | GNotFound, GNotFound | GErr, GErr | GPanic, GPanic => true
  | _, _ => false
  end.
(* WAL replay: key, value, tombstone flag, in order (sequence numbers are re-assigned by the replaying DB) *)
Definition wentry_eqb (a b : entry) : bool :=
  bytes_eqb (e_key a) (e_key b) && bytes_eqb (e_val a) (e_val b) && Bool.eqb (e_del a) (e_del b).
Definition wal_res_eqb (a b : wal_res) : bool :=
  match a, b with
  | WOk x, WOk y => list_eqb wentry_eqb x y
  | WErr x, WErr y => list_eqb wentry_eqb x y
  | WPanic, WPanic => true
  | _, _ => false
  end.

Definition flag (ok : bool) (code : N) : list N := if ok then [] else [code].

(* ---------- table cases ---------- *)
Definition scan_of (t : otable) : list entry := match ot_scan t with Some l => l | None => [] end.

(* spec: ranges of consecutive tables are disjoint and ascending, and each document's range is exactly the
   first/last key read back from the table *)
Fixpoint ranges_ascending (docs : list odoc) : bool :=
  match docs with
  | [] => true
  | d :: r => bleb (d_start d) (d_end d) &&
              match r with [] => true | d' :: _ => bltb (d_end d) (d_start d') && ranges_ascending r end
  end.
Definition range_is_first_last (d : odoc) (scan : option (list entry)) : bool :=
  let l := match scan with Some l => l | None => [] end in
  bytes_eqb (d_start d) (first_key l) && bytes_eqb (d_end d) (last_key l).
Definition rscan_of (t : otable) : list entry := match ot_rscan t with Some l => l | None => [] end.
Definition in_range (l : list entry) (k : bytes) : bool := bleb (first_key l) k && bleb k (last_key l).

(* the input run cut at the observed table lengths *)
Fixpoint split_by (lens : list nat) (es : list entry) : list (list entry) :=
  match lens with
  | [] => []
  | n :: r => firstn n es :: split_by r (skipn n es)
  end.

Definition nth_table (ts : list otable) (i : N) : option otable := nth_error ts (N.to_nat i).

Definition check_lookup_spec (ts : list otable) (l : olookup) : list N :=
  match nth_table ts (lk_t l) with
  | None => [9]
  | Some t =>
      let want := get_spec (scan_of t) (lk_key l) in
      flag (get_res_eqb (lk_fresh l) want) 102 ++ flag (get_res_eqb (lk_reopen l) want) 103 ++
      (* the table's range holds a key iff it lies between the table's first and last key *)
      flag (Bool.eqb (lk_fin l) (in_range (scan_of t) (lk_key l))) 107 ++
      flag (Bool.eqb (lk_rin l) (in_range (rscan_of t) (lk_key l))) 111
  end.

Definition check_lookup_model (mts : list table) (l : olookup) : list N :=
  match nth_error mts (N.to_nat (lk_t l)) with
  | None => [9]
  | Some t =>
      flag (get_res_eqb (lk_fresh l) (table_get t (lk_key l))) 4 ++
      flag (get_res_eqb (lk_reopen l) (table_get (reopen t) (lk_key l))) 4
  end.

Definition doc_matches (deep : bool) (t : table) (d : odoc) : bool :=
  (* the sequence-number fields of the document belong to other properties (C08) and are not compared *)
  bytes_eqb (t_start t) (d_start d) && bytes_eqb (t_end t) (d_end d) && (t_esize t =? d_esize d) &&
  (negb deep || (t_size t =? d_size d)).

(* a table without running the bloom filter and the serialiser of the meta blocks (cheap; used when not deep) *)
Definition light_table (es : list entry) : table :=
  mkT [] 0 (blen (ser_entries es)) (first_key es) (last_key es) (first_seq es) (max_seq es) None.

Definition opt_concat (l : list (option (list entry))) : option (list entry) :=
  fold_right (fun o acc => match o, acc with Some x, Some y => Some (x ++ y) | _, _ => None end) (Some []) l.

Definition check_tab (tp : tparams) (deep : bool) (es : list entry) (target : N) (ts : list otable)
           (lookups : list olookup) (scans : list oscan) (blooms : list obloom) (lgets : list olget)
           (fgets : list ofget) (fscans : list ofscan) : list N :=
  (* WHERE a run is cut into tables is not fixed by the property: the cut points are observed data (the numbers of
     entries the tables read back); the model encodes the run cut at the same points *)
  let chunks := split_by (map (fun t => length (scan_of t)) ts) es in
  let mts := if deep then map (write_table tp) chunks else map light_table chunks in
  let ochunks := map scan_of ts in
  (* --- model --- *)
  flag (all2 (fun t ot => doc_matches deep t (ot_doc ot) && doc_matches deep (reopen t) (ot_rdoc ot)) mts ts) 2 ++
  (if deep then
     flag (all2 (fun t ot => (ot_cks ot =? 0) || (cksum (t_file t) =? ot_cks ot)) mts ts) 3 ++
     flat_map (check_lookup_model mts) lookups ++
     flag (forallb (fun b => let bf := bloom_of tp es in
                             Bool.eqb (bl_has b) (bf_might_have bf (bl_key b))
                             && match bf_decode (bf_encode bf) with
                                | Some (bf', _) => Bool.eqb (bl_has_dec b) (bf_might_have bf' (bl_key b))
                                | None => false end) blooms) 5 ++
     flag (forallb (fun s =>
             oentries_eqb (sc_fresh s) (opt_concat (map (fun t => table_scan_prefix t (sc_prefix s)) mts)) &&
             oentries_eqb (sc_reopen s) (opt_concat (map (fun t => table_scan_prefix (reopen t) (sc_prefix s)) mts))) scans) 6
   else []) ++
  (* --- specification --- *)
  (* read back entry for entry by a full scan of the tables in order, fresh and re-opened *)
  flag (oentries_eqb (opt_concat (map ot_scan ts)) (Some (map norm es))) 100 ++
  flag (oentries_eqb (opt_concat (map ot_rscan ts)) (Some (map norm es))) 101 ++
  (* point lookups on each table = the entry with that key among the entries of the table, else NotFound *)
  flat_map (check_lookup_spec ts) lookups ++
  (* prefix scans over the run *)
  flag (forallb (fun s => oentries_eqb (sc_fresh s) (Some (scan_spec es (sc_prefix s)))) scans) 104 ++
  flag (forallb (fun s => oentries_eqb (sc_reopen s) (Some (scan_spec es (sc_prefix s)))) scans) 105 ++
  (* the split run read back as ONE sorted level (table selection by range included) *)
  flag (forallb (fun s => oentries_eqb (sc_lfresh s) (Some (scan_spec es (sc_prefix s))) &&
                          oentries_eqb (sc_lreopen s) (Some (scan_spec es (sc_prefix s)))) scans) 112 ++
  flag (forallb (fun g => get_res_eqb (lg_fresh g) (get_spec es (lg_key g)) &&
                          get_res_eqb (lg_reopen g) (get_spec es (lg_key g))) lgets) 113 ++
  (* under one transient read failure a lookup / scan reports the error or answers correctly, never wrongly *)
  flag (forallb (fun g => match nth_table ts (fg_t g) with
                          | None => false
                          | Some t => forallb (fun r => get_res_eqb r (get_spec (scan_of t) (fg_key g))) (fg_outs g)
                          end) fgets) 114 ++
  flag (forallb (fun f => match nth_table ts (fs_t f) with
                          | None => false
                          | Some t =>
                              let want := scan_spec (scan_of t) (fs_prefix f) in
                              forallb (fun r : bool * list entry => if fst r then entries_eqb (snd r) (firstn (length (snd r)) want)
                                                else entries_eqb (snd r) want) (fs_runs f)
                          end) fscans) 115 ++
  (* split tables: none empty unless the run is empty, ranges = first/last key, disjoint and ascending *)
  flag (match es with [] => true | _ => forallb (fun c => negb (Nat.eqb (length c) 0)) ochunks end) 106 ++
  flag (forallb (fun t => range_is_first_last (ot_doc t) (ot_scan t)) ts &&
        (match es with [] => true | _ => ranges_ascending (map ot_doc ts) end)) 107 ++
  (* the same after the descriptors went through the JSON checkpoint encoding and the tables were re-opened *)
  flag (forallb (fun t => range_is_first_last (ot_rdoc t) (ot_rscan t)) ts &&
        (match es with [] => true | _ => ranges_ascending (map ot_rdoc ts) end)) 111 ++
  (* the bloom filter never denies a present key (before and after an encode/decode round trip) *)
  flag (forallb (fun b => match find_key (bl_key b) es with Some _ => bl_has b && bl_has_dec b | None => true end) blooms) 109.

(* ---------- WAL cases ---------- *)
(* walk the history: number of appends so far, largest Truncate argument so far, and at each WRotate the
   expected replay source (all appends so far) *)
Record wwalk := mkWW { ww_apps : list entry (* reversed *); ww_maxtr : N; ww_anytr : bool;
                       ww_files : list (list entry * N * bool) (* reversed: appends at rotate, max trunc, any trunc *) }.
Definition walk_step (a : wwalk) (op : wop) : wwalk :=
  match op with
  | WPut _ _ | WDel _ => mkWW (rev (op_entry op) ++ ww_apps a) (ww_maxtr a) (ww_anytr a) (ww_files a)
  | WCut => a
  | WTrunc s => mkWW (ww_apps a) (N.max s (ww_maxtr a)) true (ww_files a)
  | WRotate => mkWW (ww_apps a) (ww_maxtr a) (ww_anytr a) ((rev (ww_apps a), ww_maxtr a, ww_anytr a) :: ww_files a)
  end.
Definition walk (ops : list wop) : list (list entry * N * bool) :=
  rev (ww_files (fold_left walk_step ops (mkWW [] 0 false []))).

(* spec: for a start marker [after] that is not before the writer's first sequence number, not before any
   truncation point issued so far and not beyond the last append, the replay is exactly the appends after it *)
Definition check_read_spec (s0 : N) (w : list (list entry * N * bool)) (r : wread) : list N :=
  match r with
  | mkR fi after res =>
      match nth_error w (N.to_nat fi) with
      | None => [9]
      | Some (apps, maxtr, anytr) =>
          let n := N.of_nat (length apps) in
          if (s0 <=? after) && (after <=? s0 + n) && (negb anytr || (maxtr <=? after)) then
            flag (wal_res_eqb res (WOk (skipn (N.to_nat (after - s0)) apps))) 110
          else []
      end
  end.

(* The writer's SEGMENTATION (which buffers are sealed segments after a Cut / Rotate, hence how much already flushed
   prefix a Truncate can drop) is a writer-side policy the property does not fix; only what a reader replays after a
   valid start marker is (code 110). The byte-level tie is therefore independent of it:
   8 = a saved file is not a byte suffix of the serialisation of ALL records appended so far (the model's file of
       the same history without its Truncates);
   7 = Reader.All on the saved file differs from the model's READER run on the implementation's own file bytes
       (every start marker, inside or outside the valid window: panics and errors included), or the number of saved
       files differs from the number of rotations. *)
Definition is_wtrunc (op : wop) : bool := match op with WTrunc _ => true | _ => false end.
Definition is_byte_suffix (f full : bytes) : bool :=
  (length f <=? length full)%nat && bytes_eqb f (skipn (length full - length f) full).

Definition check_wal (deep : bool) (s0 : N) (ops : list wop) (files : list bytes) (reads : list wread) : list N :=
  let fulls := rev (ws_saved (wrun s0 (filter (fun op => negb (is_wtrunc op)) ops))) in
  let w := walk ops in
  flag (Nat.eqb (length fulls) (length files)) 7 ++
  (if deep then
     flag (all2 is_byte_suffix files fulls) 8 ++
     flat_map (fun r => match r with mkR fi after res =>
                 match nth_error files (N.to_nat fi) with
                 | Some f => flag (wal_res_eqb res (wal_read_all f after)) 7
                 | None => [9]
                 end end) reads
   else []) ++
  flat_map (check_read_spec s0 w) reads.

Definition check_case (c : case) : list N :=
  match c with
  | TabC tp deep es target ts lookups scans blooms lgets fgets fscans =>
      check_tab tp deep es target ts lookups scans blooms lgets fgets fscans
  | WalC deep s0 ops files reads => check_wal deep s0 ops files reads
  end.

Definition run (cases : list (N * case)) : list (N * N) :=
  flat_map (fun ic => map (fun code => (fst ic, code)) (nodup N.eq_dec (check_case (snd ic)))) cases.
