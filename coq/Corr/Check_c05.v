(* Correspondence check for C05: implementation observations vs the model (codes 1..9) and vs the
   specification the theorems of Props/C05.v state (codes 11..19). *)
From RV Require Import Model.KeyCodec Proofs.C05_KeySpace.
Open Scope N_scope.

Inductive case :=
| KS (count n : N) (ranges : list (N * N))
| KeyC (count n own : N) (subject ns data : bytes) (t : Z)
       (o_kg o_ridx o_route : N) (o_dbkey o_subjkey o_timerkey : bytes) (o_owns_db o_owns_timer : bool)
(* a real Operator deployed several times in a row (same process) into assemblies of different sizes:
   per deployment (n, own index, reported key-group range, per key (subject, state key, timer key at t=0, owns state key, owns timer key)) *)
(* o_lost = number of keys owned by this deployment whose timer, stored through the operator's timer store, was NOT found
   by a fresh timer store reloading the operator's range from the database (0 expected) *)
| DeployC (count : N) (deploys : list (N * N * (N * N) * N * list (bytes * bytes * bytes * bool * bool))).

Definition pair_eqb (a b : N * N) := (fst a =? fst b) && (snd a =? snd b).
Fixpoint list_eqb {A} (eqb : A -> A -> bool) (a b : list A) : bool :=
  match a, b with
  | [], [] => true
  | x :: a', y :: b' => eqb x y && list_eqb eqb a' b'
  | _, _ => false
  end.
Definition bytes_eqb := list_eqb N.eqb.

(* spec on observed ranges: first starts at 0, contiguous, last ends at count, sizes differ by <= 1 *)
Fixpoint contiguous_from (s : N) (rs : list (N * N)) : option N :=
  match rs with
  | [] => Some s
  | (a, b) :: rs' => if (a =? s) && (a <=? b) then contiguous_from b rs' else None
  end.
Definition sizes (rs : list (N * N)) := map (fun r => snd r - fst r) rs.
Definition balanced (rs : list (N * N)) : bool :=
  match sizes rs with
  | [] => true
  | x :: xs => let mx := fold_left N.max xs x in let mn := fold_left N.min xs x in mx - mn <=? 1
  end.

Definition check_case (c : case) : list N :=
  match c with
  | KS count n ranges =>
      (if list_eqb pair_eqb ranges (kg_ranges count n) then [] else [1]) ++
      (match contiguous_from 0 ranges with Some e => if e =? count then [] else [11] | None => [11] end) ++
      (if balanced ranges then [] else [12]) ++
      (if N.of_nat (length ranges) =? n then [] else [13])
  | KeyC count n own subject ns data t o_kg o_ridx o_route o_dbkey o_subjkey o_timerkey o_owns_db o_owns_timer =>
      let kg := key_group count subject in
      (* = range_index count n subject by theorem range_index_is_find (Props/C05.v); the table itself is
         evaluated for small configurations only (it costs O(count) per case) *)
      let rs := kg_ranges count n in
      let ri := find_range rs kg 0 in
      let rng := nth (N.to_nat own) rs (0, 0) in
      (if (count <=? 600) then (if range_index count n subject =? ri then [] else [3]) else []) ++
      (if o_kg =? kg then [] else [2]) ++
      (if o_ridx =? ri then [] else [3]) ++
      (if o_route =? ri then [] else [4]) ++
      (if bytes_eqb o_dbkey (encode_db_key count subject ns data) then [] else [5]) ++
      (if bytes_eqb o_subjkey (encode_subject_key count subject) then [] else [6]) ++
      (if bytes_eqb o_timerkey (encode_timer_key count subject t) then [] else [7]) ++
      (match owns_key rng (encode_db_key count subject ns data) with
       | Some b => if Bool.eqb b o_owns_db then [] else [8] | None => [8] end) ++
      (match owns_key rng (encode_timer_key count subject t) with
       | Some b => if Bool.eqb b o_owns_timer then [] else [9] | None => [9] end) ++
      (* spec: group is murmur mod count; router and operator agree; ownership <-> routed here;
         stored keys carry the group in their first two bytes *)
      (if o_kg =? murmur_hash subject 0 mod count then [] else [14]) ++
      (if o_route =? o_ridx then [] else [15]) ++
      (if Bool.eqb o_owns_db (o_route =? own) && Bool.eqb o_owns_timer (o_route =? own) then [] else [16]) ++
      (if bytes_eqb (firstn 2 o_dbkey) (be16 o_kg) && bytes_eqb (firstn 2 o_timerkey) (be16 o_kg)
          && bytes_eqb (firstn 2 o_subjkey) (be16 o_kg) then [] else [17]) ++
      (if includes_kg (nth (N.to_nat o_route) rs (0, 0)) o_kg then [] else [18])
  | DeployC _ _ => []
  end.

Definition check_deploy (count : N) (d : N * N * (N * N) * N * list (bytes * bytes * bytes * bool * bool)) : list N :=
  let '(n, own, o_range, o_lost, keys) := d in
  let rs := kg_ranges count n in
  let rng := nth (N.to_nat own) rs (0, 0) in
  (if pair_eqb o_range rng then [] else [19]) ++
  (if o_lost =? 0 then [] else [110]) ++
  flat_map (fun k : bytes * bytes * bytes * bool * bool =>
    let '(subject, o_dbkey, o_timerkey, o_owns_db, o_owns_timer) := k in
    let kg := key_group count subject in
    let routed := find_range rs kg 0 in
    (if bytes_eqb o_dbkey (encode_db_key count subject [] []) then [] else [5]) ++
    (if bytes_eqb o_timerkey (encode_timer_key count subject 0%Z) then [] else [7]) ++
    (if Bool.eqb o_owns_db (routed =? own) && Bool.eqb o_owns_timer (routed =? own) then [] else [16]) ++
    (if bytes_eqb (firstn 2 o_dbkey) (be16 kg) && bytes_eqb (firstn 2 o_timerkey) (be16 kg) then [] else [17])) keys.

Definition check_case' (c : case) : list N :=
  match c with
  | DeployC count deploys => flat_map (check_deploy count) deploys
  | _ => check_case c
  end.

Definition run (cases : list (N * case)) : list (N * N) :=
  flat_map (fun ic => map (fun code => (fst ic, code)) (check_case' (snd ic))) cases.
