(* Correspondence check for C19 (engine ds).  For every structure a history of exported-method calls with the observed
   results is replayed (a) on the Gallina model (codes 1..9: implementation differs from the model) and (b) on a plain
   sorted-list / multiset reference, i.e. the specification predicate of the theorems (codes 11..19, 100+).
   Ties between equal priorities are not observables: pops are compared by priority, the popped identity only has to
   be a member of the reference. *)
From RV Require Import Base.Bytes Model.Search Model.Heap Model.PPQ Model.ZipTree Model.DsSet Model.SortedMap
  Model.SortedCache Model.MergeSort.
Open Scope N_scope.

(* ---------- equality helpers ---------- *)
Fixpoint list_eqb {A} (eqb : A -> A -> bool) (a b : list A) : bool :=
  match a, b with
  | [], [] => true
  | x :: a', y :: b' => eqb x y && list_eqb eqb a' b'
  | _, _ => false
  end.
Definition opt_eqb {A} (eqb : A -> A -> bool) (a b : option A) : bool :=
  match a, b with None, None => true | Some x, Some y => eqb x y | _, _ => false end.
Definition bytes_eqb : bytes -> bytes -> bool := list_eqb N.eqb.
Definition pair_eqb {A B} (ea : A -> A -> bool) (eb : B -> B -> bool) (x y : A * B) := ea (fst x) (fst y) && eb (snd x) (snd y).
Definition nn_eqb := pair_eqb N.eqb N.eqb.
Definition kv_eqb := pair_eqb bytes_eqb bytes_eqb.
Definition chk (b : bool) (code : N) : list N := if b then [] else [code].

(* ---------- cases ---------- *)
Inductive heap_op :=
| HPush (prio id : N) | HPop (o : option (N * N)) | HPeek (o : option (N * N)) | HSize (o : N) | HEmpty (o : bool)
| HFixNeg | HFix (id newprio : N).
Inductive ppq_op :=
| QPush (prio part : N) | QDelete (prio part : N) | QPop (o : option (N * N)) | QPeek (o : option N) | QEmpty (o : bool).
Inductive zip_op :=
| ZPut (k v : bytes) (rank : N) (o : option bytes) | ZGet (k : bytes) (o : option (bytes * bytes))   (* key and value of the returned node *)
| ZAscend (p : bytes) (o : list (bytes * bytes)) | ZAscendN (p : bytes) (n : N) (o : list (bytes * bytes))
(* iterator values: ZSeq p = seq := t.AscendPrefix(p) kept in a pool; ZRange i n o = one range over pool[i], stopped after n
   items (n = 0: drained).  Every range is a fresh traversal of the tree as it is when that range starts. *)
| ZSeq (p : bytes) | ZRange (i n : N) (o : list (bytes * bytes)).
Inductive zipn_op := ZOn (i : N) (op : zip_op) | ZReset (i : N).
Inductive cache_op :=
| KPush (v : bytes) (o_size : N) | KPop (o : option bytes) (o_size : N) | KPopLast (o : option bytes) (o_size : N)
| KPeek (o : option bytes) | KDelete (k : bytes) (o_size : N) | KEmpty (o : bool).
Inductive set_op :=
| SAdd (vs : list bytes) | SAdded (vs : list bytes) (o_old : list bytes) | SWithout (vs : list bytes) (o_old : list bytes)
| SNil (o_size o_count : N)   (* Size() and All() on a nil *Set *)
| SHas (v : bytes) (o : bool) | SSize (o : N) | SSlice (o o_all : list bytes) | SDiff (vs : list bytes) (o : list bytes).
(* persistent use of Set: a pool of set values; every op names its base(s) by pool index (resolved by the engine), derived
   sets are appended to the pool, PObs observes EVERY set of the pool: (Slice, All, Size, Has for each key of the universe) *)
Inductive pset_op :=
| PNew (cap : N) | POf (vs : list bytes)
| PAddInPlace (i : N) (vs : list bytes)
| PAdded (i : N) (vs : list bytes) | PWithout (i : N) (vs : list bytes) | PDiff (i j : N)
| PObs (o : list (list bytes * list bytes * N * list bool))
(* PSeq i = seq := pool[i].All() kept in a pool of iterators; PRange k n o = one range over iterator k stopped after n items
   (0 = drained): it lists the set as it is when the range runs *)
| PSeq (i : N) | PRange (k n : N) (o : list bytes).

Inductive smap_op :=
| MSet (k : bytes) (v : N) (o_new : bool) | MDelete (k : bytes) (o : bool) | MGet (k : bytes) (o : option N)
| MHas (k : bytes) (o : bool) | MSize (o : N) | MKeys (o : list bytes) | MValues (o : list N) | MAll (o : list (bytes * N))
(* one range over a previously obtained seq := m.All() (any of them), stopped after n items (0 = drained): sorted listing of the
   map as it is when the range runs *)
| MRange (n : N) (o : list (bytes * N)).

Inductive case :=
| CSearch (xs : list N) (t : N) (o_idx : N) (o_ok : bool)
| CSearchRange (tbls : list (bytes * bytes)) (key : bytes) (o_idx : N) (o_ok : bool)
| CHeap (ops : list heap_op)
| CPPQ (init : list (list N)) (ops : list ppq_op)
| CZip (ops : list zip_op)
| CZipN (ntrees : N) (ops : list zipn_op)
| CCache (probe : N) (ops : list cache_op)
| CSet (ops : list set_op)
| CPSet (univ : list bytes) (ops : list pset_op)
| CSMap (ops : list smap_op)
| CMerge (lim : N) (its : list (list (bytes * N * N))) (o : list (bytes * N * N))   (* lim > 0: the consumer stops after lim items *)
| CMergeSorted (lim : N) (its : list (list (N * N))) (o : list (N * N)).

(* ---------- search ---------- *)
Definition search_check {E T} (cmp : E -> T -> comparison) (xs : list E) (t : T) (o_idx : N) (o_ok : bool) : list N :=
  let m := search_unique cmp xs t in
  chk (match m with Some i => o_ok && (o_idx =? N.of_nat i) | None => negb o_ok && (o_idx =? 0) end) 1 ++
  (* spec: ok iff some element compares Eq; then the reported index holds such an element *)
  chk (Bool.eqb o_ok (existsb (fun e => match cmp e t with Eq => true | _ => false end) xs)) 11 ++
  chk (if o_ok then match nth_error xs (N.to_nat o_idx) with Some e => match cmp e t with Eq => true | _ => false end | None => false end
       else true) 11.

(* ---------- heap ---------- *)
Definition hlt (a b : N * N) : bool := fst a <? fst b.
Fixpoint pos_of_id (id : N) (l : list (N * N)) : option nat :=
  match l with [] => None | x :: r => if snd x =? id then Some O else option_map S (pos_of_id id r) end.
Fixpoint remove1 {A} (eqb : A -> A -> bool) (x : A) (l : list A) : list A :=
  match l with [] => [] | y :: r => if eqb x y then r else y :: remove1 eqb x r end.
Definition min_prio {B} (ref : list (N * B)) : option N :=
  match ref with [] => None | x :: r => Some (fold_left (fun m y => N.min m (fst y)) r (fst x)) end.
Definition is_min_member (o : option (N * N)) (ref : list (N * N)) : bool :=
  match o with
  | None => match ref with [] => true | _ => false end
  | Some x => existsb (nn_eqb x) ref && opt_eqb N.eqb (min_prio ref) (Some (fst x))
  end.

Definition rename_id (from to : N) (h : list (N * N)) : list (N * N) :=
  map (fun x => if snd x =? from then (fst x, to) else x) h.

Fixpoint heap_run (ops : list heap_op) (h ref : list (N * N)) : list N :=
  match ops with
  | [] => []
  | op :: r =>
      match op with
      | HPush p id => heap_run r (push hlt (p, id) h) ((p, id) :: ref)
      | HPop o =>
          let '(m, h') := pop hlt h in
          (* equal priorities: which of them leaves first is not an observable; the model follows the implementation's
             choice by exchanging the two identities (positions and priorities, hence the heap order, are unchanged) *)
          let h'' := match m, o with
                     | Some (mp, mid), Some (op, oid) => if (mp =? op) && negb (mid =? oid) then rename_id oid mid h' else h'
                     | _, _ => h'
                     end in
          chk (opt_eqb N.eqb (option_map fst m) (option_map fst o)) 2 ++ chk (is_min_member o ref) 12 ++
          heap_run r h'' (match o with Some x => remove1 nn_eqb x ref | None => ref end)
      | HPeek o =>
          chk (opt_eqb N.eqb (option_map fst (peek h)) (option_map fst o)) 2 ++ chk (is_min_member o ref) 12 ++ heap_run r h ref
      | HSize o => chk (o =? N.of_nat (length h)) 2 ++ chk (o =? N.of_nat (length ref)) 12 ++ heap_run r h ref
      | HEmpty o => chk (Bool.eqb o (match h with [] => true | _ => false end)) 2 ++
                    chk (Bool.eqb o (match ref with [] => true | _ => false end)) 12 ++ heap_run r h ref
      | HFixNeg => heap_run r h ref
      | HFix id np =>
          let ref' := map (fun x => if snd x =? id then (np, id) else x) ref in
          match pos_of_id id h with
          | Some i => heap_run r (fix_ hlt (upd i (np, id) h) i) ref'
          | None => 2 :: heap_run r h ref'
          end
      end
  end.

(* ---------- ppq ---------- *)
Fixpoint ppq_run (ops : list ppq_op) (q : ppq) (ref : list (N * N)) : list N :=
  match ops with
  | [] => []
  | op :: r =>
      match op with
      | QPush p part => ppq_run r (ppq_push p (N.to_nat part) q) ((p, part) :: ref)
      | QDelete p part => ppq_run r (ppq_delete p (N.to_nat part) q) (remove1 nn_eqb (p, part) ref)
      | QPop o =>
          let '(m, q') := ppq_pop q in
          (* equal minima in several partitions: which partition is served first is not an observable; the model
             then takes the element from the partition the implementation chose *)
          let q'' := match m, o with
                     | Some (mx, mp), Some (ox, opart) =>
                         if (mx =? ox) && negb (Nat.eqb mp (N.to_nat opart)) then
                           match nth (N.to_nat opart) (parts q) [] with
                           | y :: rest => if y =? ox then ppq_fix q (set_part (parts q) (N.to_nat opart) rest) (N.to_nat opart) else q'
                           | [] => q'
                           end
                         else q'
                     | _, _ => q'
                     end in
          chk (opt_eqb N.eqb (option_map fst m) (option_map fst o)) 3 ++ chk (is_min_member o ref) 13 ++
          ppq_run r q'' (match o with Some x => remove1 nn_eqb x ref | None => ref end)
      | QPeek o => chk (opt_eqb N.eqb (ppq_peek q) o) 3 ++ chk (opt_eqb N.eqb (min_prio ref) o) 13 ++ ppq_run r q ref
      | QEmpty o => chk (Bool.eqb o (ppq_is_empty q)) 3 ++ chk (Bool.eqb o (match ref with [] => true | _ => false end)) 13 ++ ppq_run r q ref
      end
  end.
Definition ppq_ref_init (init : list (list N)) : list (N * N) :=
  concat (map (fun ip => map (fun p => (p, N.of_nat (fst ip))) (snd ip)) (combine (seq 0 (length init)) init)).

(* a range stopped by the consumer after lim items (lim = 0: drained) *)
Definition limited {A} (lim : N) (l : list A) : list A := if lim =? 0 then l else firstn (N.to_nat lim) l.

(* ---------- zip tree ---------- *)
Definition kvs_eqb := list_eqb kv_eqb.
Definition pfilter (p : bytes) (m : list (bytes * bytes)) := filter (fun kv => is_prefix p (fst kv)) m.
(* one tree: model tree, reference association list, pool of iterator prefixes *)
Definition zstate := (tree * list (bytes * bytes) * list bytes)%type.
Definition zstate0 : zstate := (Leaf, [], []).
Definition zip_step (op : zip_op) (st : zstate) : list N * zstate :=
  let '(t, ref, seqs) := st in
  match op with
  | ZPut k v rank o =>
      let '(t', old) := put k v rank t in
      (chk (opt_eqb bytes_eqb old o) 4 ++ chk (opt_eqb bytes_eqb (al_get k ref) o) 14, (t', al_put k v ref, seqs))
  | ZGet k o =>
      (chk (opt_eqb bytes_eqb (get k t) (option_map snd o)) 4 ++
       chk (opt_eqb bytes_eqb (al_get k ref) (option_map snd o) && match o with Some kv => bytes_eqb (fst kv) k | None => true end) 14, st)
  | ZAscend p o => (chk (kvs_eqb (ascend_prefix p t) o) 4 ++ chk (kvs_eqb (pfilter p ref) o) 14, st)
  | ZAscendN p n o => (chk (kvs_eqb (firstn (N.to_nat n) (ascend_prefix p t)) o) 4 ++
                       chk (kvs_eqb (firstn (N.to_nat n) (pfilter p ref)) o) 14, st)
  | ZSeq p => ([], (t, ref, seqs ++ [p]))
  | ZRange i n o =>
      let p := nth (N.to_nat i) seqs [] in
      (chk (kvs_eqb (limited n (ascend_prefix p t)) o) 4 ++ chk (kvs_eqb (limited n (pfilter p ref)) o) 14, st)
  end.
Fixpoint zip_run (ops : list zip_op) (st : zstate) : list N :=
  match ops with
  | [] => []
  | op :: r => let '(codes, st') := zip_step op st in codes ++ zip_run r st'
  end.
(* several trees in one case: node OBJECTS travel between them (the node Put returned as replaced, nodes of a tree that was
   given up); Put inserts the node's (key, value) only - its previous links and rank must not matter, which is why the
   model needs nothing but ZPut for it.  ZReset i: tree i is given up and replaced by a new empty tree. *)
Fixpoint zipn_run (ops : list zipn_op) (sts : list zstate) : list N :=
  match ops with
  | [] => []
  | ZOn i op :: r =>
      let '(codes, st') := zip_step op (nth (N.to_nat i) sts zstate0) in codes ++ zipn_run r (upd (N.to_nat i) st' sts)
  | ZReset i :: r => zipn_run r (upd (N.to_nat i) zstate0 sts)
  end.

(* ---------- sorted cache ---------- *)
Definition obytes_eqb := opt_eqb bytes_eqb.
Fixpoint cache_run (probe : N) (ops : list cache_op) (c : cache) (ref : list bytes) : list N :=
  let szm c' o := chk (o =? N.min (byte_size c') probe) 5 in
  let szr ref' o := chk (o =? N.min (sum_len ref') probe) 105 in
  match ops with
  | [] => []
  | op :: r =>
      match op with
      | KPush v o => let c' := cache_push v c in let ref' := fst (roi v ref) in szm c' o ++ szr ref' o ++ cache_run probe r c' ref'
      | KPop o os =>
          let '(m, c') := cache_pop c in
          let ref' := tl ref in
          chk (obytes_eqb m o) 5 ++ chk (obytes_eqb (hd_error ref) o) 15 ++ szm c' os ++ szr ref' os ++ cache_run probe r c' ref'
      | KPopLast o os =>
          let '(m, c') := cache_pop_last c in
          let ref' := removelast ref in
          chk (obytes_eqb m o) 5 ++ chk (obytes_eqb (hd_error (rev ref)) o) 15 ++ szm c' os ++ szr ref' os ++ cache_run probe r c' ref'
      | KPeek o => chk (obytes_eqb (cache_peek c) o) 5 ++ chk (obytes_eqb (hd_error ref) o) 15 ++ cache_run probe r c ref
      | KDelete k os =>
          let c' := cache_delete k c in let ref' := fst (sdel k ref) in szm c' os ++ szr ref' os ++ cache_run probe r c' ref'
      | KEmpty o => chk (Bool.eqb o (cache_is_empty c)) 5 ++ chk (Bool.eqb o (match ref with [] => true | _ => false end)) 15 ++ cache_run probe r c ref
      end
  end.

(* ---------- set ---------- *)
Definition bl_eqb := list_eqb bytes_eqb.
(* reference: duplicate-free list in first-insertion order: ref_add / ref_without of Model.DsSet *)
Fixpoint set_run (ops : list set_op) (s : set) (ref : list bytes) : list N :=
  match ops with
  | [] => []
  | op :: r =>
      match op with
      | SAdd vs => set_run r (set_add vs s) (ref_add ref vs)
      | SAdded vs old => chk (bl_eqb (set_slice s) old) 6 ++ chk (bl_eqb ref old) 16 ++ set_run r (set_add vs s) (ref_add ref vs)
      | SWithout vs old => chk (bl_eqb (set_slice s) old) 6 ++ chk (bl_eqb ref old) 16 ++ set_run r (set_without vs s) (ref_without ref vs)
      | SNil osz ocnt => chk ((osz =? 0) && (ocnt =? 0)) 16 ++ set_run r s ref
      | SHas v o => chk (Bool.eqb o (set_has v s)) 6 ++ chk (Bool.eqb o (mem v ref)) 16 ++ set_run r s ref
      | SSize o => chk (o =? N.of_nat (set_size s)) 6 ++ chk (o =? N.of_nat (length ref)) 16 ++ set_run r s ref
      | SSlice o oall => chk (bl_eqb (set_slice s) o && bl_eqb (set_slice s) oall) 6 ++ chk (bl_eqb ref o && bl_eqb ref oall) 16 ++ set_run r s ref
      | SDiff vs o => chk (bl_eqb (set_slice (set_diff s (set_add vs set_empty))) o) 6 ++ chk (bl_eqb (ref_without ref vs) o) 16 ++ set_run r s ref
      end
  end.

(* pool of set values (model) and pool of references (duplicate-free lists in first-insertion order) *)
Definition pool_get {A} (d : A) (i : N) (pool : list A) : A := nth (N.to_nat i) pool d.
Definition obs_eqb (univ : list bytes) (sl : list bytes) (has : bytes -> bool) (o : list bytes * list bytes * N * list bool) : bool :=
  let '(osl, oall, osz, ohas) := o in
  bl_eqb sl osl && bl_eqb sl oall && (osz =? N.of_nat (length sl)) && list_eqb Bool.eqb (map has univ) ohas.
Fixpoint all2 {A B} (f : A -> B -> bool) (a : list A) (b : list B) : bool :=
  match a, b with [], [] => true | x :: a', y :: b' => f x y && all2 f a' b' | _, _ => false end.
Fixpoint pset_run (univ : list bytes) (ops : list pset_op) (pool : list set) (rpool : list (list bytes)) (seqs : list N) : list N :=
  match ops with
  | [] => []
  | op :: r =>
      match op with
      | PNew _ => pset_run univ r (pool ++ [set_empty]) (rpool ++ [[]]) seqs
      | POf vs => pset_run univ r (pool ++ [set_add vs set_empty]) (rpool ++ [ref_add [] vs]) seqs
      | PAddInPlace i vs =>
          pset_run univ r (upd (N.to_nat i) (set_add vs (pool_get set_empty i pool)) pool)
                          (upd (N.to_nat i) (ref_add (pool_get [] i rpool) vs) rpool) seqs
      | PAdded i vs => pset_run univ r (pool ++ [set_add vs (pool_get set_empty i pool)]) (rpool ++ [ref_add (pool_get [] i rpool) vs]) seqs
      | PWithout i vs => pset_run univ r (pool ++ [set_without vs (pool_get set_empty i pool)]) (rpool ++ [ref_without (pool_get [] i rpool) vs]) seqs
      | PDiff i j => pset_run univ r (pool ++ [set_diff (pool_get set_empty i pool) (pool_get set_empty j pool)])
                                     (rpool ++ [filter (fun e => negb (mem e (pool_get [] j rpool))) (pool_get [] i rpool)]) seqs
      | PObs o =>
          chk (all2 (fun s ob => obs_eqb univ (set_slice s) (fun v => set_has v s) ob) pool o) 6 ++
          chk (all2 (fun rf ob => obs_eqb univ rf (fun v => mem v rf) ob) rpool o) 16 ++
          pset_run univ r pool rpool seqs
      | PSeq i => pset_run univ r pool rpool (seqs ++ [i])
      | PRange k n o =>
          let i := nth (N.to_nat k) seqs 0 in
          chk (bl_eqb (limited n (set_slice (pool_get set_empty i pool))) o) 6 ++ chk (bl_eqb (limited n (pool_get [] i rpool)) o) 16 ++
          pset_run univ r pool rpool seqs
      end
  end.

(* ---------- sorted map ---------- *)
(* reference: association list sorted by key: rm_put / rm_del / rm_get of Model.SortedMap *)
Definition kn_eqb := pair_eqb bytes_eqb N.eqb.
Definition is_some {A} (o : option A) := match o with Some _ => true | None => false end.
Fixpoint smap_run (ops : list smap_op) (s : smap) (ref : list (bytes * N)) : list N :=
  match ops with
  | [] => []
  | op :: r =>
      match op with
      | MSet k v o => let '(s', nw) := smap_set k v s in
          chk (Bool.eqb o nw) 7 ++ chk (Bool.eqb o (negb (is_some (rm_get k ref)))) 17 ++ smap_run r s' (rm_put k v ref)
      | MDelete k o => let '(s', rm) := smap_delete k s in
          chk (Bool.eqb o rm) 7 ++ chk (Bool.eqb o (is_some (rm_get k ref))) 17 ++ smap_run r s' (rm_del k ref)
      | MGet k o => chk (opt_eqb N.eqb (smap_get k s) o) 7 ++ chk (opt_eqb N.eqb (rm_get k ref) o) 17 ++ smap_run r s ref
      | MHas k o => chk (Bool.eqb (smap_has k s) o) 7 ++ chk (Bool.eqb (is_some (rm_get k ref)) o) 17 ++ smap_run r s ref
      | MSize o => chk (o =? N.of_nat (smap_size s)) 7 ++ chk (o =? N.of_nat (length ref)) 17 ++ smap_run r s ref
      | MKeys o => let '(s', ks) := smap_keys s in chk (bl_eqb ks o) 7 ++ chk (bl_eqb (map fst ref) o) 17 ++ smap_run r s' ref
      | MValues o => let '(s', vs) := smap_values s in chk (list_eqb N.eqb vs o) 7 ++ chk (list_eqb N.eqb (map snd ref) o) 17 ++ smap_run r s' ref
      | MAll o => let '(s', kvs) := smap_all s in chk (list_eqb kn_eqb kvs o) 7 ++ chk (list_eqb kn_eqb ref o) 17 ++ smap_run r s' ref
      | MRange n o => let '(s', kvs) := smap_all s in
          chk (list_eqb kn_eqb (limited n kvs) o) 7 ++ chk (list_eqb kn_eqb (limited n ref) o) 17 ++ smap_run r s' ref
      end
  end.

(* ---------- merges ---------- *)
Definition mitem := (bytes * N * N)%type.             (* key, sequence number, value *)
Definition mkey (x : mitem) := fst (fst x).
Definition mseq (x : mitem) := snd (fst x).
Definition mcmp (a b : mitem) := bcmp (mkey a) (mkey b).
Definition keep_newest (a b : mitem) : mitem := if mseq b <? mseq a then a else b.
Definition mitem_eqb (a b : mitem) := bytes_eqb (mkey a) (mkey b) && (mseq a =? mseq b) && (snd a =? snd b).
(* reference: insert every item into a sorted association list keeping the larger sequence number *)
Fixpoint ref_merge_ins (x : mitem) (m : list mitem) : list mitem :=
  match m with
  | [] => [x]
  | y :: m' => match mcmp x y with
               | Lt => x :: m
               | Eq => (if mseq y <? mseq x then x else y) :: m'
               | Gt => y :: ref_merge_ins x m'
               end
  end.
Definition ref_merge (its : list (list mitem)) : list mitem := fold_left (fun m x => ref_merge_ins x m) (concat its) [].
Definition merge_check (lim : N) (its : list (list mitem)) (o : list mitem) : list N :=
  chk (match merge mcmp keep_newest mitem_eqb its with Some l => list_eqb mitem_eqb (limited lim l) o | None => false end) 8 ++
  chk (list_eqb mitem_eqb (limited lim (ref_merge its)) o) 18.

Definition scmp (a b : N * N) := fst a ?= fst b.
Fixpoint sorted_fst (l : list (N * N)) : bool :=
  match l with x :: ((y :: _) as r) => (fst x <=? fst y) && sorted_fst r | _ => true end.
(* multiset equality through sorting by (key, tag) *)
Fixpoint nn_ins (x : N * N) (l : list (N * N)) : list (N * N) :=
  match l with
  | [] => [x]
  | y :: l' => if (fst x <? fst y) || ((fst x =? fst y) && (snd x <=? snd y)) then x :: l else y :: nn_ins x l'
  end.
Definition nn_sort (l : list (N * N)) := fold_right nn_ins [] l.
(* a drained sequence is a sorted permutation of the inputs; a sequence the consumer stopped early is the prefix of that
   length of the sorted keys, made of input elements *)
Definition merge_sorted_check (lim : N) (its : list (list (N * N))) (o : list (N * N)) : list N :=
  chk (list_eqb N.eqb (limited lim (map fst (merge_sorted scmp its))) (map fst o)) 9 ++
  chk (if lim =? 0 then sorted_fst o && list_eqb nn_eqb (nn_sort o) (nn_sort (concat its))
       else list_eqb N.eqb (map fst o) (firstn (N.to_nat lim) (map fst (nn_sort (concat its)))) &&
            forallb (fun x => existsb (nn_eqb x) (concat its)) o) 19.

Definition check_case (c : case) : list N :=
  match c with
  | CSearch xs t i ok => search_check N.compare xs t i ok
  | CSearchRange tbls key i ok => search_check range_key_compare tbls key i ok
  | CHeap ops => heap_run ops [] []
  | CPPQ init ops => ppq_run ops (ppq_new init) (ppq_ref_init init)
  | CZip ops => zip_run ops zstate0
  | CZipN n ops => zipn_run ops (repeat zstate0 (N.to_nat n))
  | CCache probe ops => cache_run probe ops (cache_new 0) []
  | CSet ops => set_run ops set_empty []
  | CPSet univ ops => pset_run univ ops [] [] []
  | CSMap ops => smap_run ops smap_empty []
  | CMerge lim its o => merge_check lim its o
  | CMergeSorted lim its o => merge_sorted_check lim its o
  end.

Definition run (cases : list (N * case)) : list (N * N) :=
  flat_map (fun ic => map (fun code => (fst ic, code)) (check_case (snd ic))) cases.
