(* Correspondence check for C02 (engine align).
   A case is the trace the harness executed on a real Operator: every scheduled action with what the
   implementation answered.  check_case
     - replays the trace on Model.Align and compares every answer            (codes 1..9)
     - evaluates the specification of Props/C02.v (consistent cut, barrier id check) directly on the
       observed trace, without the model                                     (codes 10..19). *)
From RV Require Import Model.Align.
From Coq Require Export List NArith.
From Coq Require Import Bool Arith.
Export ListNotations.
Open Scope N_scope.

Inductive aitem := AEv (id : N) | ATm (key ts : N).
Inductive ev :=
| ECall (wm : N) (items : list aitem)
| ECkpt (cid : N) (evids : list N) (tapplied pending : list (N * N)).
Inductive gres := GPass | GPark.
Inductive obs :=
| OGate (s : nat) (it : item) (r : gres)
| OWake (s : nat)
| OEarlyWake (s : nat)
| OHandle (hf : bool) (s : nat) (ok : bool) (evs : list ev)  (* hf: the user handler fails its next call if it comes now *)
| OTimerFire
| OTimeout (evs : list ev)
| OCancel (s : nat)     (* the context of the parked sender's call was cancelled *)
| OAbandon (s : nat)    (* a parked call returned with an error without its event ever passing the gate *)
| OFault                (* the sink's next Write fails *)
| ODeploy               (* HandleDeploy on the live operator: same runners, fresh storage *)
| OTimeoutFail (stopped : bool) (evs : list ev)  (* a time-out token delivered while the handler fails its next call;
                                                    stopped: the operator's Start returned *)
| OStuck (what : N).
Inductive case := AlignCase (n : nat) (maxsize : N) (delay : bool) (trace : list obs).

(* ---------- helpers ---------- *)
Fixpoint list_eqb {A} (eqb : A -> A -> bool) (a b : list A) : bool :=
  match a, b with
  | [], [] => true
  | x :: a', y :: b' => eqb x y && list_eqb eqb a' b'
  | _, _ => false
  end.
Fixpoint ninsert (x : N) (l : list N) : list N :=
  match l with [] => [x] | y :: l' => if x <=? y then x :: l else y :: ninsert x l' end.
Definition nsort (l : list N) : list N := fold_right ninsert [] l.
Fixpoint pinsert (x : N * N) (l : list (N * N)) : list (N * N) :=
  match l with [] => [x] | y :: l' => if tlt y x then y :: pinsert x l' else x :: l end.
Definition psort (l : list (N * N)) : list (N * N) := fold_right pinsert [] l.
Definition pair_eqb (a b : N * N) : bool := (fst a =? fst b) && (snd a =? snd b).
Definition aitem_eqb (a b : aitem) : bool :=
  match a, b with
  | AEv x, AEv y => x =? y
  | ATm k t, ATm k' t' => (k =? k') && (t =? t')
  | _, _ => false
  end.
Definition ev_eqb (a b : ev) : bool :=
  match a, b with
  | ECall w i, ECall w' i' => (w =? w') && list_eqb aitem_eqb i i'
  | ECkpt c e t p, ECkpt c' e' t' p' =>
      (c =? c') && list_eqb N.eqb e e' && list_eqb pair_eqb t t' && list_eqb pair_eqb p p'
  | _, _ => false
  end.
Definition is_call (e : ev) : bool := match e with ECall _ _ => true | _ => false end.
Definition ev_kind_eqb (a b : ev) : bool := Bool.eqb (is_call a) (is_call b).

(* ---------- model side: the events of the log entries a step added ---------- *)
Definition aitem_of (b : bitem) : aitem :=
  match b with BEv _ id _ _ => AEv id | BTm _ key ts => ATm key ts end.
Definition ev_ids (l : list bitem) : list N :=
  flat_map (fun b => match b with BEv _ id _ _ => [id] | _ => [] end) l.
Definition tm_applied (l : list bitem) : list (N * N) :=
  flat_map (fun b => match b with BTm _ key ts => [(ts, key)] | _ => [] end) l.
(* chronological entries -> events *)
Fixpoint evs_of (l : list lentry) (cur : option (N * list aitem)) : list ev :=
  let close := match cur with Some (w, is) => [ECall w (rev is)] | None => [] end in
  match l with
  | [] => close
  | LCall w :: l' => close ++ evs_of l' (Some (w, []))
  | LApp b :: l' => match cur with
                    | Some (w, is) => evs_of l' (Some (w, aitem_of b :: is))
                    | None => evs_of l' (Some (0, [aitem_of b]))
                    end
  | LCkpt c (app, pend) :: l' =>
      close ++ ECkpt c (nsort (ev_ids app)) (psort (tm_applied app)) (psort pend) :: evs_of l' None
  | LAct _ _ _ :: l' => close ++ evs_of l' None
  end.
Definition new_entries (old new : dat) : list lentry :=
  rev (firstn (length (log new) - length (log old)) (log new)).
Definition step_evs (x x' : st) : list ev := evs_of (new_entries (dt x) (dt x')) None.
Definition last_ok (x x' : st) : bool :=
  match filter (fun e => match e with LAct _ _ _ => true | _ => false end) (new_entries (dt x) (dt x')) with
  | LAct _ _ ok :: _ => ok
  | _ => true
  end.

(* replay: returns failure codes; stops comparing at the first control divergence *)
Fixpoint replay (c : cfg) (x : st) (tr : list obs) : list N :=
  match tr with
  | [] => []
  | o :: tr' =>
      match o with
      | OGate s it r =>
          match step c x (Gate s it) with
          | None => [6]
          | Some x' =>
              match nth_error (modes x') s, r with
              | Some (Passed _), GPass | Some (Parked _ _), GPark => replay c x' tr'
              | _, _ => [1]
              end
          end
      | OWake s => match step c x (Wake s) with None => [2] | Some x' => replay c x' tr' end
      | OEarlyWake s => [2]
      | OHandle hf s ok evs =>
          match step c x (if hf then HandleFail s else Handle s) with
          | None => [6]
          | Some x' =>
              let mevs := step_evs x x' in
              (* the reply: a rejected barrier, a failed flush in front of the cut, or the sink's error out of a flush *)
              let mok := match nth_error (modes x) s with
                         | Some (Passed (IBar _)) => last_ok x x' && negb (failed x')
                         | _ => negb (errored (dt x) (dt x'))
                         end in
              (if Bool.eqb ok mok then [] else [3]) ++
              (if list_eqb ev_eqb (filter is_call evs) (filter is_call mevs) then [] else [4]) ++
              (if list_eqb ev_eqb (filter (fun e => negb (is_call e)) evs) (filter (fun e => negb (is_call e)) mevs)
                  && list_eqb ev_kind_eqb evs mevs then [] else [5]) ++
              replay c x' tr'
          end
      | OTimerFire => match step c x TimerFire with None => [6] | Some x' => replay c x' tr' end
      | OTimeout evs =>
          match step c x Timeout with
          | None => [6]
          | Some x' =>
              (if list_eqb ev_eqb evs (step_evs x x') then [] else [4]) ++ replay c x' tr'
          end
      | OCancel s => match step c x (Cancel s) with None => [6] | Some x' => replay c x' tr' end
      | OAbandon _ => [8]
      | OTimeoutFail st evs =>
          match step c x TimeoutFail with
          | None => [6]
          | Some x' =>
              (if Bool.eqb st (stopped (dt x') && negb (stopped (dt x))) then [] else [9]) ++
              (if list_eqb ev_eqb evs (step_evs x x') then [] else [4]) ++
              (if st then [] else replay c x' tr')
          end
      | OFault => match step c x Fault with None => [6] | Some x' => replay c x' tr' end
      | ODeploy => match step c x Deploy with None => [6] | Some x' => replay c x' tr' end
      | OStuck _ => [7]
      end
  end.

(* ---------- specification side: only the observed trace ----------
   Per sender: the items it delivered (gated), how many of them have been acted on (handled), and the
   index of its accepted barrier of the checkpoint in progress. *)
Record sp := mkSp {
  deliv : list (list item);        (* per sender, delivery order *)
  nhand : list nat;                (* per sender, number handled *)
  cuts : list (option nat);        (* per sender: index of its accepted, not yet checkpointed barrier *)
  cur : option N;                  (* id of the checkpoint in progress (first accepted barrier) *)
  called : list aitem;             (* entries handed to the handler so far *)
  relw : list bool }.              (* [true] while an injected sink fault is armed and not yet consumed by a handler call *)

Definition nth_l {A} (l : list (list A)) (s : nat) : list A := nth s l [].
Definition ev_id_of (it : item) : list N := match it with IEv id _ _ => [id] | _ => [] end.
Definition ids_before (its : list item) (k : nat) : list N := flat_map ev_id_of (firstn k its).
Definition last_wm (its : list item) : N :=
  fold_left (fun acc it => match it with IWm t => N.max acc t | _ => acc end) its 0.

(* ids that must be in a checkpoint taken now: for every sender everything before its cut *)
Definition expected_ids (p : sp) : list N :=
  flat_map (fun s => match nth s (cuts p) None with
                     | Some k => ids_before (nth_l (deliv p) s) k
                     | None => [] end) (seq 0 (length (deliv p))).
(* ids a sender delivered after its cut (must not be applied before the checkpoint) *)
Definition post_ids (p : sp) : list N :=
  flat_map (fun s => match nth s (cuts p) None with
                     | Some k => flat_map ev_id_of (skipn k (nth_l (deliv p) s))
                     | None => [] end) (seq 0 (length (deliv p))).
(* watermark bound: per sender the last watermark among its items up to its cut (all delivered items if it
   has no cut); the operator may act on nothing larger than the minimum *)
Definition wm_bound (p : sp) : N :=
  list_min (map (fun s => let its := nth_l (deliv p) s in
                          last_wm (match nth s (cuts p) None with Some k => firstn k its | None => its end))
                (seq 0 (length (deliv p)))).
Definition memN (x : N) (l : list N) : bool := existsb (N.eqb x) l.
Definition fault_armed (p : sp) : bool := match relw p with true :: _ => true | _ => false end.
Definition all_cut (p : sp) : bool := forallb (fun o => match o with Some _ => true | None => false end) (cuts p).

Definition spec_evs (p : sp) (evs : list ev) : sp * list N :=
  fold_left (fun (acc : sp * list N) e =>
    let '(p, codes) := acc in
    match e with
    | ECall w items =>
        let ids := flat_map (fun a => match a with AEv id => [id] | _ => [] end) items in
        let late := existsb (fun id => memN id (post_ids p)) ids in
        let wbad := (wm_bound p <? w) || existsb (fun a => match a with ATm _ ts => wm_bound p <? ts | _ => false end) items in
        (mkSp (deliv p) (nhand p) (cuts p) (cur p) (called p ++ items) (relw p),
         codes ++ (if late then [11] else []) ++ (if wbad then [15] else []))
    | ECkpt cid evids _ _ =>
        let exp := nsort (expected_ids p) in
        let cids := flat_map (fun a => match a with AEv id => [id] | _ => [] end) (called p) in
        (mkSp (deliv p) (nhand p) (map (fun _ => None) (cuts p)) None (called p) (relw p),
         codes ++
         (if all_cut p && match cur p with Some c => c =? cid | None => false end then [] else [16]) ++
         (if list_eqb N.eqb (nsort evids) exp then [] else [10]) ++
         (if forallb (fun id => memN id cids) exp then [] else [12]))
    end) evs (p, []).

Fixpoint spec (p : sp) (tr : list obs) : list N :=
  match tr with
  | [] => []
  | o :: tr' =>
      match o with
      | OGate s it _ =>
          spec (mkSp (set_nth s (nth_l (deliv p) s ++ [it]) (deliv p)) (nhand p) (cuts p) (cur p) (called p) (relw p)) tr'
      | OHandle hf s ok evs =>
          let k := nth s (nhand p) O in
          let it := nth k (nth_l (deliv p) s) (IWm 0) in
          let nh := set_nth s (S k) (nhand p) in
          (* barrier id check: accepted iff no checkpoint in progress or same id *)
          let '(p1, c13) :=
            match it with
            | IBar cid =>
                let should := match cur p with None => true | Some c => c =? cid end in
                let p1 := if ok then mkSp (deliv p) nh (set_nth s (Some k) (cuts p))
                                          (match cur p with None => Some cid | some => some end) (called p) (relw p)
                          else mkSp (deliv p) nh (cuts p) (cur p) (called p) (relw p) in
                (* the flush in front of the cut may fail (handler failure scheduled now, or an armed sink fault consumed
                   by a handler call of this action): then the last barrier's reply is that error and nothing is cut *)
                let last := all_cut (mkSp (deliv p) nh (set_nth s (Some k) (cuts p)) (cur p) (called p) (relw p)) in
                let may_fail := should && last && (hf || (fault_armed p && existsb is_call evs)) in
                (p1, if Bool.eqb ok should then [] else if negb ok && may_fail then [] else [13])
            | _ => (mkSp (deliv p) nh (cuts p) (cur p) (called p) (relw p),
                    (* an error reply to anything but a barrier is only the sink's injected error out of a flush *)
                    if ok then [] else if fault_armed p && existsb is_call evs then [] else [13])
            end in
          let had_all := all_cut p1 in
          let '(p2, cs) := spec_evs p1 evs in
          let p2 := if existsb is_call evs then mkSp (deliv p2) (nhand p2) (cuts p2) (cur p2) (called p2) [] else p2 in
          c13 ++ cs ++
          (* every sender's barrier accepted, so the checkpoint must have been taken in this very action *)
          (if had_all && all_cut p2 then [16] else []) ++
          spec p2 tr'
      | OTimeout evs => let '(p2, cs) := spec_evs p evs in cs ++ spec p2 tr'
      | OTimeoutFail st evs =>  (* a stopped operator reports nothing more; one that goes on is judged by its checkpoints *)
          let '(p2, cs) := spec_evs p evs in cs ++ (if st then [] else spec p2 tr')
      | OFault => spec (mkSp (deliv p) (nhand p) (cuts p) (cur p) (called p) [true]) tr'
      | ODeploy =>  (* a new deployment: nothing delivered, nothing applied, no checkpoint in progress *)
          let n := length (deliv p) in
          spec (mkSp (repeat [] n) (repeat O n) (repeat None n) None [] (relw p)) tr'
      | OEarlyWake _ => 14 :: spec p tr'
      | OAbandon s =>  (* the gated event was given up: it counts as never delivered *)
          let its := nth_l (deliv p) s in
          spec (mkSp (set_nth s (firstn (length its - 1) its) (deliv p)) (nhand p) (cuts p) (cur p) (called p) (relw p)) tr'
      | OStuck _ => [17]
      | _ => spec p tr'
      end
  end.

Definition check_case (c : case) : list N :=
  match c with
  | AlignCase n maxsize dl tr =>
      let cf := mkCfg n maxsize dl in
      replay cf (init cf) tr ++
      spec (mkSp (repeat [] n) (repeat O n) (repeat None n) None [] (repeat false n)) tr
  end.

Definition run (cases : list (N * case)) : list (N * N) :=
  flat_map (fun ic => map (fun code => (fst ic, code)) (check_case (snd ic))) cases.
