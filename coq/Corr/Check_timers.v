(* Correspondence check for C10 (engine `timers`).
   A case = configuration + history + the (key, timestamp) sequence every AdvanceWatermark yielded on the REAL
   TimerRegistry / TimerStore / dkv.DB.
   codes 1..9   : the implementation differs from the model (Model.TimerStore / Model.TimerRegistry, quirks_now)
   codes 10..18 : the implementation violates the specification the theorems of Props/C10.v state, checked directly on
                  the observed outputs against the plain oracle below (a set of pending (key, t) pairs; no byte
                  encoding, no cache, no DB) - independent of the model
   code  19     : as 10..18 but the history registers a timer before 1970 (outside the guard of the theorem:
                  uint64(UnixNano) wraps and sorts such timers last) - the recorded known finding *)
From RV Require Import Base.Bytes Model.KeySpace Model.TimerStore Model.TimerRegistry Proofs.C10_Spec.
Open Scope N_scope.

(* what the scripted handler of a real Operator saw (mode c10op with event batches > 1, checkpoints and crashes): every
   event the handler processed has a sequence number and is marked with it in the keyed state of its key; [HSet] is a
   keyed event whose handler result registered the timers [ts] for [key], [HFired] a TimerExpired event.  A call carries
   the watermark of its request (TimerRegistry.watermark when the batch was processed). *)
Inductive hev :=
| HSet (seq : N) (key : bytes) (ts : list Z)
| HFired (seq : N) (key : bytes) (t : Z).
Definition hcall := (Z * list hev)%type.

Inductive case :=
| TC (count start size cache : N) (srids : list N) (ops : list op) (observed : list (list (bytes * Z)))
(* [pre]: the handler calls of all incarnations before the last crash; [marks]: the sequence numbers found in the keyed
   state right after the last restore (= the events whose effects are part of the checkpoint restored from); [post]: the
   calls after the last restore, up to a final flush; [wfinal]: the composite watermark at the end *)
| TB (pre : list hcall) (marks : list N) (post : list hcall) (wfinal : Z).

(* ---------- comparing outputs: ties among equal timestamps as multisets ---------- *)
Definition fired_leb (a b : fired) : bool :=
  match (snd a ?= snd b)%Z with
  | Lt => true
  | Gt => false
  | Eq => bleb (fst a) (fst b)
  end.
Fixpoint ins_fired (x : fired) (l : list fired) : list fired :=
  match l with
  | [] => [x]
  | y :: l' => if fired_leb x y then x :: l else y :: ins_fired x l'
  end.
Definition sort_fired (l : list fired) : list fired := fold_right ins_fired [] l.
Fixpoint list_eqb {A} (eqb : A -> A -> bool) (a b : list A) : bool :=
  match a, b with
  | [], [] => true
  | x :: a', y :: b' => eqb x y && list_eqb eqb a' b'
  | _, _ => false
  end.

(* ---------- key groups of the keys of a history, computed once per case with the KeySpace model ---------- *)
Definition op_keys (o : op) : list bytes :=
  match o with
  | SetTimer k _ => [k]
  | AdvanceSet _ _ during => map (fun e => snd (fst e)) during
  | AdvancePartial _ _ _ during => map (fun e => snd (fst e)) during
  | _ => []
  end.
Fixpoint add_key (k : bytes) (l : list bytes) : list bytes :=
  match l with
  | [] => [k]
  | x :: l' => if beqb k x then l else x :: add_key k l'
  end.
Definition kg_table (count : N) (ops : list op) : list (bytes * N) :=
  map (fun k => (k, key_group count k)) (fold_left (fun l k => add_key k l) (flat_map op_keys ops) []).
Fixpoint kg_lookup (tbl : list (bytes * N)) (k : bytes) : N :=
  match tbl with
  | [] => 0
  | (x, g) :: tbl' => if beqb k x then g else kg_lookup tbl' k
  end.

(* ---------- the oracle: Proofs/C10_Spec.v, the specification of the theorems ---------- *)
(* 10: not in non-decreasing timestamp order; 11: fired a timer that is not due / not pending / fired it twice;
   12: a due pending timer did not fire *)
Definition o_check (out due : list fired) : list N :=
  (if time_sorted out then [] else [10]) ++
  (if forallb (fun x => (count_fired x out <=? count_fired x due)%nat) out then [] else [11]) ++
  (if forallb (fun x => (count_fired x due <=? count_fired x out)%nat) due then [] else [12]).

(* the consumer stopped after k items ([partial_ok]): 10 also when a due timer that was not handed out is earlier than one
   that was; 12 when fewer than min(k, number of due timers) were handed out *)
Definition o_check_partial (k : nat) (out due : list fired) : list N :=
  (if time_sorted out &&
      forallb (fun x => forallb (fun y => existsb (fired_eqb y) out || (snd x <=? snd y)%Z) due) out then [] else [10]) ++
  (if forallb (fun x => (count_fired x out <=? count_fired x due)%nat) out then [] else [11]) ++
  (if (Nat.min k (length due) <=? length out)%nat then [] else [12]).

Fixpoint oracle (obs : list (list fired)) (exps : list expect) : list N :=
  match obs, exps with
  | out :: obs', (due, None) :: exps' => o_check out due ++ oracle obs' exps'
  | out :: obs', (due, Some k) :: exps' => o_check_partial k out due ++ oracle obs' exps'
  | _, _ => []
  end.

Definition pre_epoch (ops : list op) : bool := negb (forallb op_ok ops).

Fixpoint dedup (l : list N) : list N :=
  match l with
  | [] => []
  | x :: l' => if existsb (N.eqb x) l' then dedup l' else x :: dedup l'
  end.

(* ---------- the recovered timeline seen by the handler against the pending-set specification ----------
   The recovered timeline = the pre-crash events that are part of the restored checkpoint, then everything after the
   restore.  Along it: a delivered TimerExpired must be a pending timer that is due (else 11) and leaves the pending set;
   a timer the handler registers is pending iff it is later than the request's watermark ([sp_add]: once); at the end no
   pending timer may be at or before the final watermark (else 12: its expiry was never delivered to the handler in the
   recovered timeline). *)
Definition hev_seq (e : hev) : N := match e with HSet s _ _ => s | HFired s _ _ => s end.
Definition keep_marked (marks : list N) (c : hcall) : hcall :=
  (fst c, filter (fun e => existsb (N.eqb (hev_seq e)) marks) (snd c)).
Fixpoint remove_fired (x : fired) (l : list fired) : list fired :=
  match l with
  | [] => []
  | y :: l' => if fired_eqb x y then l' else y :: remove_fired x l'
  end.
Definition tl_call (c : hcall) (st : list fired * list N) : list fired * list N :=
  let w := fst c in
  let st1 := fold_left (fun st e => match e with
                                    | HFired _ k t =>
                                        if existsb (fired_eqb (k, t)) (fst st) && (t <=? w)%Z
                                        then (remove_fired (k, t) (fst st), snd st)
                                        else (fst st, 11 :: snd st)
                                    | _ => st
                                    end) (snd c) st in
  fold_left (fun st e => match e with
                         | HSet _ k ts => (fold_left (fun P t => if (w <? t)%Z then sp_add (k, t) P else P) ts (fst st), snd st)
                         | _ => st
                         end) (snd c) st1.
Definition tl_check (pre : list hcall) (marks : list N) (post : list hcall) (wfinal : Z) : list N :=
  let '(P, codes) := fold_left (fun st c => tl_call c st) (map (keep_marked marks) pre ++ post) ([], []) in
  codes ++ (if existsb (is_due wfinal) P then [12] else []).

(* When a consumer stops after k items and several due timers of DIFFERENT keys carry the same timestamp, which of them
   it was handed depends on the heap layout (not modelled): from then on the model's pending set may legitimately differ
   from the implementation's.  Such histories are compared with the specification only (it follows the observed hand-outs). *)
Definition op_regs (o : op) : list fired :=
  match o with
  | SetTimer k t => [(k, t)]
  | AdvanceSet _ _ during => map (fun e => (snd (fst e), snd e)) during
  | AdvancePartial _ _ _ during => map (fun e => (snd (fst e), snd e)) during
  | _ => []
  end.
Definition has_partial (ops : list op) : bool :=
  existsb (fun o => match o with AdvancePartial _ _ _ _ => true | _ => false end) ops.
Definition has_ties (ops : list op) : bool :=
  let regs := flat_map op_regs ops in
  existsb (fun a => existsb (fun b => (snd a =? snd b)%Z && negb (beqb (fst a) (fst b))) regs) regs.

Definition check_case (c : case) : list N :=
  match c with
  | TB pre marks post wfinal => dedup (tl_check pre marks post wfinal)
  | TC count start size cache srids ops observed =>
      let tbl := kg_table count ops in
      let cfg := {| cf_q := quirks_now; cf_kgf := kg_lookup tbl; cf_start := start; cf_size := size;
                    cf_cache := cache; cf_srids := srids |} in
      let model := fst (TimerRegistry.run cfg ops (sys_new cfg [])) in
      let m :=
        if has_partial ops && has_ties ops then [] else
        if (length model =? length observed)%nat
        then if list_eqb (list_eqb fired_eqb) (map sort_fired model) (map sort_fired observed) then [] else [2]
        else [1] in
      let sp := dedup (oracle observed (fst (spec_run srids ops observed (spec_new srids [])))) in
      m ++ (if pre_epoch ops then (match sp with [] => [] | _ => [19] end) else sp)
  end.

Definition run (cases : list (N * case)) : list (N * N) :=
  flat_map (fun ic => map (fun code => (fst ic, code)) (check_case (snd ic))) cases.
