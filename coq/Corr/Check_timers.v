(* Correspondence check for C10 (engine `timers`).
   A case = configuration + history + the (key, timestamp) sequence every AdvanceWatermark yielded on the REAL
   TimerRegistry / TimerStore / dkv.DB.
   codes 1..9   : the implementation differs from the model (Model.TimerStore / Model.TimerRegistry, quirks_now)
   codes 10..18 : the implementation violates the specification the theorems of Props/C10.v state, checked directly on
                  the observed outputs against the plain oracle below (a set of pending (key, t) pairs; no byte
                  encoding, no cache, no DB) - independent of the model
   code  19     : as 10..18 but the history registers a timer before 1970 (outside the guard of the theorem:
                  uint64(UnixNano) wraps and sorts such timers last) - the recorded known finding *)
From RV Require Import Base.Bytes Model.KeySpace Model.TimerStore Model.TimerRegistry.
Open Scope N_scope.

Inductive case :=
| TC (count start size cache : N) (srids : list N) (ops : list op) (observed : list (list (bytes * Z))).

(* ---------- comparing outputs: ties among equal timestamps as multisets ---------- *)
Definition fired := (bytes * Z)%type.
Definition fired_leb (a b : fired) : bool :=
  match (snd a ?= snd b)%Z with
  | Lt => true
  | Gt => false
  | Eq => bleb (fst a) (fst b)
  end.
Definition fired_eqb (a b : fired) : bool := (snd a =? snd b)%Z && beqb (fst a) (fst b).
Fixpoint ins_fired (x : fired) (l : list fired) : list fired :=
  match l with
  | [] => [x]
  | y :: l' => if fired_leb x y then x :: l else y :: ins_fired x l'
  end.
Definition sort_fired (l : list fired) : list fired := fold_right ins_fired [] l.
Fixpoint list_eqb {A} (eqb : A -> A -> bool) (a b : list A) : bool :=
  match a, b with
  | [], [] => true
  | x :: a', y :: b' => eqb x y && list_eqb eqb a' b'
  | _, _ => false
  end.
Fixpoint nondecreasing (l : list fired) : bool :=
  match l with
  | x :: ((y :: _) as l') => (snd x <=? snd y)%Z && nondecreasing l'
  | _ => true
  end.
Definition count_fired (x : fired) (l : list fired) : nat := length (filter (fired_eqb x) l).

(* ---------- key groups of the keys of a history, computed once per case with the KeySpace model ---------- *)
Definition op_keys (o : op) : list bytes :=
  match o with
  | SetTimer k _ => [k]
  | AdvanceSet _ _ during => map (fun e => snd (fst e)) during
  | _ => []
  end.
Fixpoint add_key (k : bytes) (l : list bytes) : list bytes :=
  match l with
  | [] => [k]
  | x :: l' => if beqb k x then l else x :: add_key k l'
  end.
Definition kg_table (count : N) (ops : list op) : list (bytes * N) :=
  map (fun k => (k, key_group count k)) (fold_left (fun l k => add_key k l) (flat_map op_keys ops) []).
Fixpoint kg_lookup (tbl : list (bytes * N)) (k : bytes) : N :=
  match tbl with
  | [] => 0
  | (x, g) :: tbl' => if beqb k x then g else kg_lookup tbl' k
  end.

(* ---------- the plain oracle ---------- *)
Record ospec := { o_pending : list fired; o_ups : list (N * Z); o_wm : Z }.
Definition ospec_new (srids : list N) (pending : list fired) : ospec :=
  {| o_pending := pending; o_ups := fold_left (fun l id => ups_set id 0%Z l) srids []; o_wm := zero_time |}.
Definition o_add (x : fired) (l : list fired) : list fired := if existsb (fired_eqb x) l then l else x :: l.

(* one advance of the oracle: the due timers, and the state afterwards.  SetTimer calls after the n-th yield happen iff
   at least n timers are due; they are subject to the guard with the new composite watermark. *)
Definition o_advance (sender : N) (wm : Z) (during : list (nat * bytes * Z)) (s : ospec) : list fired * ospec :=
  let ups := ups_set sender wm (o_ups s) in
  let cw := ups_min ups in
  let due := filter (fun x => (snd x <=? cw)%Z) (o_pending s) in
  let rest := filter (fun x => negb (snd x <=? cw)%Z) (o_pending s) in
  let rest' := fold_left (fun l e => let '(a, k, t) := e in
                            if (1 <=? a)%nat && (a <=? length due)%nat && (cw <? t)%Z then o_add (k, t) l else l) during rest in
  (due, {| o_pending := rest'; o_ups := ups; o_wm := cw |}).

Definition o_check (out due : list fired) : list N :=
  (if nondecreasing out then [] else [10]) ++
  (if forallb (fun x => (count_fired x out <=? count_fired x due)%nat) out then [] else [11]) ++
  (if forallb (fun x => (count_fired x due <=? count_fired x out)%nat) due then [] else [12]).

(* returns the failure codes of the advances, consuming the observed outputs *)
Fixpoint oracle (srids : list N) (ops : list op) (obs : list (list fired)) (s : ospec) : list N :=
  match ops with
  | [] => []
  | SetTimer k t :: r =>
      oracle srids r obs
        (if (o_wm s <? t)%Z then {| o_pending := o_add (k, t) (o_pending s); o_ups := o_ups s; o_wm := o_wm s |} else s)
  | Restore :: r => oracle srids r obs (ospec_new srids (o_pending s))
  | Advance sender wm :: r =>
      let '(due, s') := o_advance sender wm [] s in
      match obs with
      | [] => [1]
      | out :: obs' => o_check out due ++ oracle srids r obs' s'
      end
  | AdvanceSet sender wm during :: r =>
      let '(due, s') := o_advance sender wm during s in
      match obs with
      | [] => [1]
      | out :: obs' => o_check out due ++ oracle srids r obs' s'
      end
  end.

Definition pre_epoch (ops : list op) : bool :=
  existsb (fun o => match o with
                    | SetTimer _ t => (t <? 0)%Z
                    | AdvanceSet _ _ during => existsb (fun e => (snd e <? 0)%Z) during
                    | _ => false
                    end) ops.

Fixpoint dedup (l : list N) : list N :=
  match l with
  | [] => []
  | x :: l' => if existsb (N.eqb x) l' then dedup l' else x :: dedup l'
  end.

Definition check_case (c : case) : list N :=
  match c with
  | TC count start size cache srids ops observed =>
      let tbl := kg_table count ops in
      let cfg := {| cf_q := quirks_now; cf_kgf := kg_lookup tbl; cf_start := start; cf_size := size;
                    cf_cache := cache; cf_srids := srids |} in
      let model := fst (TimerRegistry.run cfg ops (sys_new cfg [])) in
      let m :=
        if (length model =? length observed)%nat
        then if list_eqb (list_eqb fired_eqb) (map sort_fired model) (map sort_fired observed) then [] else [2]
        else [1] in
      let sp := dedup (oracle srids ops observed (ospec_new srids [])) in
      let sp := filter (fun c => negb (c =? 1)) sp in
      m ++ (if pre_epoch ops then (match sp with [] => [] | _ => [19] end) else sp)
  end.

Definition run (cases : list (N * case)) : list (N * N) :=
  flat_map (fun ic => map (fun code => (fst ic, code)) (check_case (snd ic))) cases.
