(* Correspondence check for C06 (rescaling) and C14 (savepoints).
   Codes 20..39: the implementation differs from the model.
   Codes 100+  : the implementation violates the specification the theorems state, checked on the observed outputs
                 without the model (the reference is the fold of the handler's own mutations / timers).
   Code 120    : the specification is violated inside the class recompacted_shared_table (known finding D22). *)
From RV Require Import Model.Rescale Model.Savepoint.
Open Scope N_scope.

Inductive probe := Probe (prefix : bytes) (obs : list (bytes * N)).

Inductive sop :=
| SEv (key ns ek act val tm : N) (obs : list (N * N * N))
      (* act 0 = none, 1 = put val, 2 = delete; tm 0 = no timer; obs = KeyState handed to the handler BEFORE the event *)
| SWm (t : N) (fired : list (N * N))                       (* (key, ts) of the TimerExpired events delivered *)
| SRescale (n : N) (recorded : list (kgrange * ckdoc)) (asg : list (list N)) (layout_ok : bool) (probes : list (list probe))
| SRedeploy (n : N) (recorded : list (kgrange * ckdoc)) (asg : list (list N)) (layout_ok : bool) (probes : list (list probe))
      (* the job deploys the job checkpoint of the LAST SRescale again (the checkpoints taken since were not published):
         state and timers are those of that checkpoint *)
| SFresh (n : N)      (* C14: a fresh life of the job (working storage wiped, savepoint storage kept): empty state, n operators *)
| SRelease (asked deleted : N)      (* an operator let go of the old tables it shares with its neighbours: how many shared
                                       files it asked about, how many of them were deleted although a neighbour lists them *)
| SSave (c : sp_case).                                     (* C14: observations of a savepoint taken / restored here *)

Inductive case :=
| CAssign (to from : list kgrange) (res : list (list N))
| CDeploy (count n : N) (from : list kgrange) (handles : list (list N))
| CRescale (count n0 : N) (ops : list sop)
| CSave (c : sp_case).

(* ---------- small equality helpers ---------- *)
Fixpoint list_eqb {A} (eqb : A -> A -> bool) (a b : list A) : bool :=
  match a, b with
  | [], [] => true
  | x :: a', y :: b' => eqb x y && list_eqb eqb a' b'
  | _, _ => false
  end.
Definition bytes_eqb := list_eqb N.eqb.
Definition nn_eqb (a b : N * N) := (fst a =? fst b) && (snd a =? snd b).
Definition nnn_eqb (a b : N * N * N) := nn_eqb (fst a) (fst b) && (snd a =? snd b).
Definition bn_eqb (a b : bytes * N) := bytes_eqb (fst a) (fst b) && (snd a =? snd b).
Definition asg_eqb := list_eqb (list_eqb N.eqb).

(* The property constrains WHICH recorded checkpoints a new operator is handed, not the order in which they are listed
   (rescale_exact_clean holds for the handles in any order): assignments are compared as sorted lists, and the model's
   restore takes the handles in the OBSERVED order. *)
Fixpoint ins_N (x : N) (l : list N) : list N :=
  match l with [] => [x] | y :: l' => if x <=? y then x :: l else y :: ins_N x l' end.
Definition sort_N (l : list N) : list N := fold_right ins_N [] l.
Definition asg_same (a b : list (list N)) : bool := asg_eqb (map sort_N a) (map sort_N b).

(* ---------- specification of the assignment, written without the model ---------- *)
Fixpoint nseq (start : N) (len : nat) : list N :=
  match len with O => [] | S l => start :: nseq (start + 1) l end.
Definition dfl : kgrange := (0, 0).
Definition exact_overlaps (to from : list kgrange) (res : list (list N)) : bool :=
  (length res =? length to)%nat &&
  forallb (fun i => list_eqb N.eqb (sort_N (nth i res []))
                      (filter (fun j => overlaps (nth i to dfl) (nth (N.to_nat j) from dfl)) (nseq 0 (length from))))
          (seq 0 (length to)).
(* every key group's old owner is handed to every new range including it: whenever to[i] and from[j] have a key
   group below count in common, j is in res[i] (stated on the end points, so that count = 65535 stays cheap) *)
Definition owner_handed (count : N) (to from : list kgrange) (res : list (list N)) : bool :=
  forallb (fun i =>
     forallb (fun j => let t := nth i to dfl in let f := nth (N.to_nat j) from dfl in
                negb (N.max (fst t) (fst f) <? N.min (N.min (snd t) (snd f)) count) || existsb (N.eqb j) (nth i res []))
             (nseq 0 (length from)))
    (seq 0 (length to)).
(* nothing foreign: what is handed to i shares a key group with i (non-empty ranges) *)
Definition nothing_foreign (to from : list kgrange) (res : list (list N)) : bool :=
  forallb (fun i =>
     forallb (fun j => let t := nth i to dfl in let f := nth (N.to_nat j) from dfl in
                (j <? N.of_nat (length from)) &&
                (negb (fst t <? snd t) || negb (fst f <? snd f) || ((N.max (fst t) (fst f)) <? (N.min (snd t) (snd f)))))
             (nth i res []))
    (seq 0 (length to)).

Definition check_assign (count : option N) (to from : list kgrange) (res : list (list N)) (mcode : N) : list N :=
  (if asg_same res (assign_ranges to from) then [] else [mcode]) ++
  (if exact_overlaps to from res then [] else [110]) ++
  (match count with
   | Some c => if owner_handed c to from res then [] else [111]
   | None => []
   end) ++
  (if nothing_foreign to from res then [] else [113]).

(* ---------- reference for the handler-visible behaviour ---------- *)
Definition skey := (N * N * N)%type.    (* subject key, namespace, entry key *)
Definition skey_cmp (a b : skey) : comparison :=
  match N.compare (fst (fst a)) (fst (fst b)) with
  | Eq => match N.compare (snd (fst a)) (snd (fst b)) with Eq => N.compare (snd a) (snd b) | c => c end
  | c => c
  end.
Fixpoint st_put (k : skey) (v : N) (st : list (skey * N)) : list (skey * N) :=
  match st with
  | [] => [(k, v)]
  | (k', v') :: st' =>
      match skey_cmp k k' with
      | Lt => (k, v) :: st
      | Eq => (k, v) :: st'
      | Gt => (k', v') :: st_put k v st'
      end
  end.
Definition st_del (k : skey) (st : list (skey * N)) : list (skey * N) :=
  filter (fun kv => match skey_cmp k (fst kv) with Eq => false | _ => true end) st.
Definition st_view (key : N) (st : list (skey * N)) : list (N * N * N) :=
  map (fun kv => (snd (fst (fst kv)), snd (fst kv), snd kv)) (filter (fun kv => fst (fst (fst kv)) =? key) st).

(* timers: sorted set of (ts, key) *)
Fixpoint tm_add (t : N * N) (l : list (N * N)) : list (N * N) :=
  match l with
  | [] => [t]
  | x :: l' =>
      if nn_eqb t x then l
      else if (fst t <? fst x) || ((fst t =? fst x) && (snd t <? snd x)) then t :: l
      else x :: tm_add t l'
  end.

(* r_sv = the reference state at the last job checkpoint that was deployed (a redeployment of it rolls back to it) *)
Record rstate := mkR { r_st : list (skey * N); r_tm : list (N * N); r_wm : N; r_n : N; r_class : bool;
                       r_sv : list (skey * N) * list (N * N) }.

(* what new operator i restores when it is handed the recorded checkpoints at positions idxs, in that order *)
Definition restore_handed (count n : N) (recorded : list (kgrange * ckdoc)) (i : nat) (idxs : list N) : option dbstate :=
  match pick recorded idxs with
  | None => None
  | Some hs => restore true (nth i (kg_ranges count n) (0, 0)) (map snd hs)
  end.

Definition model_rescale (count : N) (n : N) (recorded : list (kgrange * ckdoc)) (asg : list (list N)) (probes : list (list probe)) : list N :=
  flat_map (fun i =>
     match restore_handed count n recorded i (nth i asg []) with
     | None => [23]
     | Some st =>
         flat_map (fun p => match p with Probe pre obs =>
                      (if list_eqb bn_eqb obs (scan_prefix st pre) then [] else [22]) ++
                      (* the lemma rescale_exact_partial leaves open, tested: outside the class the level search
                         finds every table that holds the prefix *)
                      (if list_eqb bn_eqb (scan_prefix st pre) (scan_prefix_all st pre) then [] else [24]) end)
                  (nth i probes [])
     end) (seq 0 (N.to_nat n)).

Definition class_at (count n : N) (recorded : list (kgrange * ckdoc)) (asg : list (list N)) : bool :=
  existsb (fun i =>
     match pick recorded (nth i asg []) with
     | Some (d :: rest) => match merge_into (snd d) (map snd rest) with
                           | Some c => overlapping_level (d_levels c)
                           | None => false end
     | _ => false
     end) (seq 0 (N.to_nat n)).

Definition step (count : N) (rs : rstate * list N) (o : sop) : rstate * list N :=
  let '(r, errs) := rs in
  match o with
  | SEv key ns ek act val tm obs =>
      let e1 := if list_eqb nnn_eqb obs (st_view key (r_st r)) then [] else [if r_class r then 120 else 100] in
      let st' := match act with
                 | 1 => st_put (key, ns, ek) val (r_st r)
                 | 2 => st_del (key, ns, ek) (r_st r)
                 | _ => r_st r end in
      let tm' := if (tm =? 0) || (tm <=? r_wm r) then r_tm r else tm_add (tm, key) (r_tm r) in
      (mkR st' tm' (r_wm r) (r_n r) (r_class r) (r_sv r), errs ++ e1)
  | SWm t fired =>
      let due := filter (fun x => fst x <=? t) (r_tm r) in
      let rest := filter (fun x => negb (fst x <=? t)) (r_tm r) in
      let got := fold_right tm_add [] (map (fun kt => (snd kt, fst kt)) fired) in
      let e1 := if list_eqb nn_eqb due got && (length fired =? length got)%nat then [] else [if r_class r then 120 else 101] in
      (mkR (r_st r) rest (N.max t (r_wm r)) (r_n r) (r_class r) (r_sv r), errs ++ e1)
  | SRescale n recorded asg layout_ok probes =>
      let to := kg_ranges count n in
      let from := map fst recorded in
      let e1 := check_assign (Some count) to from asg 21 in
      let here := layout_ok && class_at count n recorded asg in
      (* inside the class the reads of a composite depend on whether a compaction has already rewritten the
         overlapping level (the model abstracts flush / compaction away, which is only sound for well-formed levels) *)
      let e2 := if layout_ok && negb here then model_rescale count n recorded asg probes else [] in
      let cls := r_class r || here in
      (mkR (r_st r) (r_tm r) 0 n cls (r_st r, r_tm r), errs ++ e1 ++ e2)
  | SRedeploy n recorded asg layout_ok probes =>
      let to := kg_ranges count n in
      let from := map fst recorded in
      let e1 := check_assign (Some count) to from asg 21 in
      let here := layout_ok && class_at count n recorded asg in
      (* inside the class the reads of a composite depend on whether a compaction has already rewritten the
         overlapping level (the model abstracts flush / compaction away, which is only sound for well-formed levels) *)
      let e2 := if layout_ok && negb here then model_rescale count n recorded asg probes else [] in
      let cls := r_class r || here in
      (mkR (fst (r_sv r)) (snd (r_sv r)) 0 n cls (r_sv r), errs ++ e1 ++ e2)
  | SFresh n => (mkR [] [] 0 n false ([], []), errs)
  | SRelease asked deleted => (r, errs ++ (if deleted =? 0 then [] else [102]))
  | SSave c => (r, errs ++ check_sp c)
  end.

Definition check_rescale (count n0 : N) (ops : list sop) : list N :=
  snd (fold_left (step count) ops (mkR [] [] 0 n0 false ([], []), [])).

Definition check_case (c : case) : list N :=
  match c with
  | CAssign to from res => check_assign None to from res 20
  | CDeploy count n from handles => check_assign (Some count) (kg_ranges count n) from handles 21
  | CRescale count n0 ops => check_rescale count n0 ops
  | CSave sc => check_sp sc
  end.

Definition run (cases : list (N * case)) : list (N * N) :=
  flat_map (fun ic => map (fun code => (fst ic, code)) (nodup N.eq_dec (check_case (snd ic)))) cases.
