(* Correspondence check for C16 (engine `splits`).
   Codes 1..9, 20..98: the implementation differs from the model.
   Codes 10..19, 100+: the observed outputs violate the specification the theorems of Props/C16.v state
   (computed from the observations only, not from the tracker / splitter model). *)
From Coq Require Import List NArith Bool.
From RV Require Import Model.SplitTracker Model.Splitters Model.RunnerLoop Model.HttpReader Model.KinReader.
Import ListNotations.
Open Scope N_scope.

(* ---------- generic helpers ---------- *)
Fixpoint list_eqb {A} (eqb : A -> A -> bool) (a b : list A) : bool :=
  match a, b with
  | [], [] => true
  | x :: a', y :: b' => eqb x y && list_eqb eqb a' b'
  | _, _ => false
  end.
Definition pair_eqb (a b : N * N) := (fst a =? fst b) && (snd a =? snd b).
Definition trip_eqb (a b : N * N * N) := pair_eqb (fst a) (fst b) && (snd a =? snd b).
Definition shard_eqb (a b : shard) :=
  (sid a =? sid b) && list_eqb N.eqb (parents a) (parents b) && (hlo a =? hlo b) && (hhi a =? hhi b).
Definition ev_eqb (a b : ev) :=
  match a, b with
  | Rec s i, Rec s' i' => (s =? s') && (i =? i')
  | Bar x, Bar y => x =? y
  | _, _ => false
  end.
Definition memb {A} (eqb : A -> A -> bool) (x : A) (l : list A) := existsb (eqb x) l.
Definition subset {A} (eqb : A -> A -> bool) (a b : list A) := forallb (fun x => memb eqb x b) a.
Definition same_set {A} (eqb : A -> A -> bool) (a b : list A) :=
  subset eqb a b && subset eqb b a && (N.of_nat (length a) =? N.of_nat (length b)).
Definition count {A} (p : A -> bool) (l : list A) : N := N.of_nat (length (filter p l)).
Definition flag (b : bool) (code : N) : list N := if b then [] else [code].

(* ---------- cases ---------- *)
Inductive top :=
| TLoad (shards : list shard) (l : N)
| TAdd (shards : list shard)
| TTrack (shards : list shard)
| TRemove (ids : list N)
| TAvail (o : list shard)
| TAssigned (o : list shard)
| TLast (o : N).

Inductive kev :=
| KStart (restore : bool) (ck_assigned : list shard) (ck_last : N) (states : list (N * N)) (o : list (N * N * N))
| KAppend (shards : list shard)
| KTick (o : list (N * N * N))
| KFinish (ids : list N) (o : list (N * N * N))
| KCkpt (o_assigned : list shard) (o_last : N)
        (reported o_published : list (N * N)).   (* split positions reported for this checkpoint id / in the published checkpoint *)

(* real httpapi reader against a bounded topic *)
Inductive hop :=
| HRead (o : list N) (o_eoi : bool)     (* records returned by ReadEvents (topic positions), ErrEndOfInput? *)
| HCkpt (o_cursor : N)                  (* Checkpoint() *)
| HRestore.                             (* a new reader, assigned the split with the last checkpointed cursor *)

(* real kinesis reader against kinesisfake *)
Inductive krop :=
| RPut (shard count : N)                       (* records appended to a shard *)
| RClose (shard : N)                           (* the shard was split: it ends after its last record *)
| RAssign (fresh : bool) (splits : list (N * N)) (* AssignSplits (shard, position); fresh = on a new reader (recovery) *)
| RRead (o : list (N * N)) (o_fin : list N)    (* ReadEvents: records (shard, position); shards reported finished *)
| RCkpt (o : list (N * N)).                    (* Checkpoint(): (shard, position) *)

Inductive case :=
| CRunner (steps : list step) (o_reports : list (N * list (N * N))) (o_streams : list (list ev)) (complete : bool)
          (o_acked : list (N * N))   (* splits of the assignment rounds HandleAssignSplits acknowledged *)
| CTracker (ops : list top)
| CKinesis (n : N) (evs : list kev)
| CEmbedded (splits runners : N) (o : list (list N))
| CEmbeddedRestore (splits runners : N) (panicked : bool) (states : list (N * N)) (o : list (list N)) (o_cur : list (N * option N))
| CHttp (runners : N) (states : list (list N)) (o : list (N * list N))
| CHttpRead (n b : N) (ops : list hop)
| CKinRead (limit : N) (ops : list krop)
(* a re-deployment by the real Job: checkpoint current when the job chose (0 = none), the newest complete checkpoint,
   ids the operators were deployed from, id the splitter was started from, positions handed to the splitter,
   published positions of checkpoints n1 (= the older) and n2 *)
| CJobRestore (cur newest : N) (ops_from : list N) (splitter_from : N) (handed pos_old pos_new : list N).

(* ================= runner: positions match the cut ================= *)

Definition is_rec (e : ev) := match e with Rec _ _ => true | _ => false end.
Definition bar_ids (o : list ev) : list N := flat_map (fun e => match e with Bar b => [b] | _ => [] end) o.

(* segments between barriers, as lists of records *)
Fixpoint segments (o : list ev) (cur : list ev) : list (list ev) :=
  match o with
  | [] => [cur]
  | Bar _ :: r => cur :: segments r []
  | e :: r => segments r (cur ++ [e])
  end.

Definition streams_agree (m o : list ev) : bool :=
  list_eqb N.eqb (bar_ids m) (bar_ids o) &&
  list_eqb (same_set ev_eqb) (segments m []) (segments o []).

Definition observed_route (streams : list (list ev)) (s i : N) : N :=
  let fix go (j : N) (l : list (list ev)) :=
    match l with
    | [] => j
    | o :: r => if memb ev_eqb (Rec s i) o then j else go (j + 1) r
    end in go 0 streams.

Definition pos_of (pos : list (N * N)) (s : N) : option N := get_cur pos s.

Definition ckpt_ids (steps : list step) : list N := flat_map (fun x => match x with SCkpt id => [id] | _ => [] end) steps.

(* splits assigned before checkpoint [id] *)
Fixpoint assigned_before (id : N) (steps : list step) : list (N * N) :=
  match steps with
  | [] => []
  | SCkpt b :: r => if b =? id then [] else assigned_before id r
  | SAssign sp :: r => sp ++ assigned_before id r
  | _ :: r => assigned_before id r
  end.
Definition all_assigned (steps : list step) : list (N * N) :=
  flat_map (fun x => match x with SAssign sp => sp | _ => [] end) steps.

Definition check_cut (universe : list ev) (streams : list (list ev)) (rep : N * list (N * N)) : list N :=
  let '(id, pos) := rep in
  let befores := map (before_bar id) streams in
  let afters := map (after_bar id) streams in
  flag (forallb (fun o => count (ev_eqb (Bar id)) o =? 1) streams) 12 ++
  (* nothing beyond the position ahead of the barrier *)
  flag (forallb (forallb (fun e => match e with
                                   | Rec s i => match pos_of pos s with Some p => i <? p | None => false end
                                   | _ => true end)) befores) 11 ++
  (* nothing before the position behind the barrier *)
  flag (forallb (forallb (fun e => match e with
                                   | Rec s i => match pos_of pos s with Some p => p <=? i | None => true end
                                   | _ => true end)) afters) 10 ++
  (* every record before the position is ahead of the barrier somewhere *)
  flag (forallb (fun e => match e with
                          | Rec s i => match pos_of pos s with
                                       | Some p => if i <? p then existsb (memb ev_eqb e) befores else true
                                       | None => true end
                          | _ => true end) universe) 10.

Definition check_runner (steps : list step) (o_reports : list (N * list (N * N))) (o_streams : list (list ev)) (complete : bool) (o_acked : list (N * N)) : list N :=
  let m := run steps in
  let universe := filter is_rec (out m) in
  let route := observed_route o_streams in
  let nops := N.of_nat (length o_streams) in
  (* model *)
  flag (list_eqb (fun a b => (fst a =? fst b) && list_eqb pair_eqb (snd a) (snd b)) (reports m) o_reports) 1 ++
  flag (forallb (fun jo => streams_agree (op_stream route (fst jo) (out m)) (snd jo))
                (combine (iota_from 0 (length o_streams)) o_streams)) 2 ++
  (* spec *)
  flag complete 12 ++
  flag (forallb (fun e => count (ev_eqb e) (concat o_streams) =? 1) universe
        && forallb (fun e => negb (is_rec e) || memb ev_eqb e universe) (concat o_streams)) 14 ++
  flag (list_eqb N.eqb (map fst o_reports) (ckpt_ids steps)
        && forallb (fun rep => same_set N.eqb (map fst (snd rep)) (map fst (assigned_before (fst rep) steps))) o_reports) 13 ++
  flag (forallb (fun o => list_eqb N.eqb (bar_ids o) (ckpt_ids steps)) o_streams) 12 ++
  flat_map (check_cut universe o_streams) o_reports ++
  (* every split of an acknowledged assignment round reaches the reader exactly once, and nothing else does *)
  flag (forallb (fun x => count (pair_eqb x) (all_assigned steps) =? count (pair_eqb x) o_acked)
                (o_acked ++ all_assigned steps)) 16 ++
  (* resumption: nothing below the assigned cursor is emitted, the record at the cursor is the first one *)
  flag (forallb (fun sc => let '(s, c) := sc in
                  forallb (fun e => match e with Rec s' i => negb (s' =? s) || (c <=? i) | _ => true end) (concat o_streams)
                  && (negb (existsb (fun e => match e with Rec s' _ => s' =? s | _ => false end) universe)
                      || memb ev_eqb (Rec s c) (concat o_streams)))
                (all_assigned steps)) 15.

(* ================= tracker ================= *)

(* spec state: ids known (with their latest parents), ids assigned - plain association lists *)
Record tspec := mkTS { ts_known : list (N * list N); ts_assigned : list N }.
Definition ts_set (k : list (N * list N)) (s : shard) := (sid s, parents s) :: filter (fun x => negb (fst x =? sid s)) k.
Definition ts_knownb (k : list (N * list N)) (i : N) := existsb (fun x => fst x =? i) k.
Definition ts_eligible (t : tspec) (x : N * list N) : bool :=
  negb (mem (fst x) (ts_assigned t)) && negb (existsb (ts_knownb (ts_known t)) (snd x)).

Definition tspec_step (t : tspec) (x : top) : tspec * list N :=
  match x with
  | TLoad sh _ | TAdd sh => (mkTS (fold_left ts_set sh (ts_known t)) (ts_assigned t), [])
  | TTrack sh => (mkTS (ts_known t) (map sid sh ++ ts_assigned t), [])
  | TRemove ids => (mkTS (filter (fun x => negb (mem (fst x) ids)) (ts_known t))
                         (filter (fun i => negb (mem i ids)) (ts_assigned t)), [])
  | TAvail o =>
      (t,
       flag (forallb (fun s => negb (mem (sid s) (ts_assigned t))) o) 110 ++
       flag (forallb (fun s => negb (existsb (ts_knownb (ts_known t)) (parents s))) o) 111 ++
       flag (forallb (fun x => negb (ts_eligible t x) || mem (fst x) (map sid o)) (ts_known t)) 112 ++
       flag (forallb (fun s => ts_knownb (ts_known t) (sid s)) o
             && forallb (fun s => count (N.eqb (sid s)) (map sid o) =? 1) o) 113)
  | TAssigned o =>
      (t, flag (same_set N.eqb (filter (fun i => ts_knownb (ts_known t) i) (map sid o))
                         (filter (fun i => ts_knownb (ts_known t) i)
                                 (nodup N.eq_dec (ts_assigned t)))) 114)
  | TLast _ => (t, [])
  end.

Definition tmodel_step (t : tracker) (x : top) : tracker * list N :=
  match x with
  | TLoad sh l => (load_splits sh l t, [])
  | TAdd sh => (add_splits sh t, [])
  | TTrack sh => (track_assigned sh t, [])
  | TRemove ids => (remove_splits ids t, [])
  | TAvail o => (t, flag (list_eqb shard_eqb (available t) o) 20)
  | TAssigned o => (t, flag (list_eqb shard_eqb (assigned_splits t) o) 21)
  | TLast o => (t, flag (last t =? o) 22)
  end.

Fixpoint check_tracker (ops : list top) (t : tracker) (s : tspec) : list N :=
  match ops with
  | [] => []
  | x :: r => let '(t', c1) := tmodel_step t x in
              let '(s', c2) := tspec_step s x in
              c1 ++ c2 ++ check_tracker r t' s'
  end.

(* ================= kinesis splitter ================= *)

Record kspec := mkKS {
  ks_stream : list shard;
  ks_fin : list N;                  (* finished in the current timeline *)
  ks_epoch : list N;                (* assigned since the last Start *)
  ks_lost : list N;                 (* unassigned, unfinished shards below the restored LastAssignedShardId *)
  ks_states : list (N * N);         (* split states of the checkpoint restored from *)
  ks_saved : list N * list N        (* fin, lost at the last checkpoint *)
}.

Definition ks_parents (k : kspec) (i : N) : list N :=
  match get_shard i (ks_stream k) with Some s => parents s | None => [] end.

Definition ks_assign (n : N) (k : kspec) (a : N * N * N) : kspec * list N :=
  let '(r, i, c) := a in
  (mkKS (ks_stream k) (ks_fin k) (i :: ks_epoch k) (ks_lost k) (ks_states k) (ks_saved k),
   flag ((r <? n) && known_b i (ks_stream k)) 100 ++
   flag (negb (mem i (ks_epoch k))) 101 ++
   flag (negb (mem i (ks_fin k))) 102 ++
   flat_map (fun p => if mem p (ks_fin k) || negb (known_b p (ks_stream k)) then []
                      else if mem p (ks_lost k) then [105] else [103]) (ks_parents k i) ++
   flag (c =? cursor_of (ks_states k) i) 104).

Fixpoint ks_assigns (n : N) (k : kspec) (o : list (N * N * N)) : kspec * list N :=
  match o with
  | [] => (k, [])
  | a :: r => let '(k', c1) := ks_assign n k a in
              let '(k'', c2) := ks_assigns n k' r in (k'', c1 ++ c2)
  end.

(* after a discovery round every unfinished shard whose parents are all finished has a reader *)
Definition ks_live (k : kspec) : list N :=
  flat_map (fun s => if mem (sid s) (ks_fin k) || mem (sid s) (ks_epoch k) then []
                     else if forallb (fun p => mem p (ks_fin k) || negb (known_b p (ks_stream k))) (parents s)
                          then (if mem (sid s) (ks_lost k) then [105] else [106])
                          else []) (ks_stream k).

Definition kspec_step (n : N) (k : kspec) (x : kev) : kspec * list N :=
  match x with
  | KAppend sh => (mkKS (ks_stream k ++ sh) (ks_fin k) (ks_epoch k) (ks_lost k) (ks_states k) (ks_saved k), [])
  | KCkpt oa _ rep pub => (mkKS (ks_stream k) (ks_fin k) (ks_epoch k) (ks_lost k) (ks_states k) (ks_fin k, ks_lost k),
                   (* the published splitter state lists exactly the shards that have a reader now *)
                   flag (same_set N.eqb (map sid oa) (filter (fun i => negb (mem i (ks_fin k))) (ks_epoch k))) 107 ++
                   (* the published split positions are the ones reported for this checkpoint *)
                   flag (same_set pair_eqb rep pub) 108)
  | KFinish ids o =>
      ks_assigns n (mkKS (ks_stream k) (ids ++ ks_fin k) (ks_epoch k) (ks_lost k) (ks_states k) (ks_saved k)) o
  | KTick o => let '(k', c) := ks_assigns n k o in (k', c ++ ks_live k')
  | KStart restore cka ckl states o =>
      let fin := if restore then fst (ks_saved k) else [] in
      let lost0 := if restore then snd (ks_saved k) else [] in
      let lost := lost0 ++ map sid (filter (fun s => (sid s <? ckl) && negb (mem (sid s) (map sid cka))
                                                     && negb (mem (sid s) fin)) (ks_stream k)) in
      let '(k', c) := ks_assigns n (mkKS (ks_stream k) fin [] lost states (ks_saved k)) o in
      (k', c ++ ks_live k')
  end.

Definition opt_out (o : option assignment) : assignment := match o with Some a => a | None => [] end.

(* the runner of each shard is taken from the observation (which runner is not part of the property; codes 100 / 101
   constrain it to one index < n); everything else - the shards handed out, their cursors, their order within a
   runner's list - is compared with the model *)
Definition obs_runner (o : list (N * N * N)) (s : shard) : N :=
  match find (fun a => snd (fst a) =? sid s) o with Some a => fst (fst a) | None => 0 end.

Definition expected_out (n : N) (cs : list (N * N)) (pending : list shard) (o : list (N * N * N)) : list (N * N * N) :=
  assign_out_with (obs_runner o) n cs pending.

Definition kmodel_step (n : N) (st : list shard * ksplitter) (x : kev) : (list shard * ksplitter) * list N :=
  let '(stream, k) := st in
  match x with
  | KAppend sh => ((stream ++ sh, k), [])
  | KCkpt oa ol _ _ => (st, flag (list_eqb shard_eqb (fst (k_checkpoint k)) oa && (snd (k_checkpoint k) =? ol)) 31)
  | KFinish ids o => ((stream, fst (k_finish n ids k)),
                      flag (list_eqb trip_eqb (expected_out n (cursors k) (k_finish_pending ids k) o) o) 30)
  | KTick o => ((stream, fst (k_tick n stream k)),
                flag (list_eqb trip_eqb (expected_out n (cursors k) (k_tick_pending stream k) o) o) 30)
  | KStart _ cka ckl states o =>
      ((stream, fst (k_start n stream cka ckl states)),
       flag (list_eqb trip_eqb (expected_out n (load_cursors states) (k_start_pending stream cka ckl states) o) o) 30)
  end.

Fixpoint check_kinesis (n : N) (evs : list kev) (m : list shard * ksplitter) (s : kspec) : list N :=
  match evs with
  | [] => []
  | x :: r => let '(m', c1) := kmodel_step n m x in
              let '(s', c2) := kspec_step n s x in
              c1 ++ c2 ++ check_kinesis n r m' s'
  end.

(* ================= static splitters ================= *)

Definition exactly_one_group (splits : N) (o : list (list N)) : bool :=
  forallb (fun i => count (N.eqb i) (concat o) =? 1) (iota_from 0 (N.to_nat splits))
  && (N.of_nat (length (concat o)) =? splits).

(* ================= httpapi reader ================= *)

(* state: model reader, last checkpointed cursor (model), spec position = start cursor + records emitted,
   last checkpointed cursor (observed) *)
Fixpoint check_httpread (n b : N) (ops : list hop) (r : hreader) (ck : N) (pos : N) (ock : N) : list N :=
  match ops with
  | [] => []
  | HRead o o_eoi :: rest =>
      let '(r', evs, eoi) := h_read n b r in
      flag (list_eqb N.eqb evs o && Bool.eqb eoi o_eoi) 50 ++
      (* the records emitted are the next consecutive records of the topic, inside the topic *)
      flag (list_eqb N.eqb o (h_range pos (length o)) && (pos + N.of_nat (length o) <=? n)) 18 ++
      (* end of input only when everything has been emitted *)
      flag (negb o_eoi || (pos + N.of_nat (length o) =? n)) 18 ++
      check_httpread n b rest r' ck (pos + N.of_nat (length o)) ock
  | HCkpt oc :: rest =>
      flag (h_checkpoint r =? oc) 51 ++
      (* the checkpointed position stands exactly behind the records emitted so far *)
      flag (oc =? pos) 17 ++
      check_httpread n b rest r (h_checkpoint r) pos oc
  | HRestore :: rest => check_httpread n b rest (h_assign ck) ck ock ock
  end.

(* ================= kinesis reader ================= *)

Definition bump (l : list (N * N)) (s d : N) : list (N * N) := (s, lookupN l s + d) :: filter (fun c => negb (fst c =? s)) l.

(* model state: reader, records available per shard, closed shards; spec state: [pos] = (shard, position) of the
   shards the reader holds = start position + records emitted since *)
Fixpoint check_kinread (limit : N) (ops : list krop) (r : kreader) (avail : list (N * N)) (closed : list N)
         (pos : list (N * N)) : list N :=
  match ops with
  | [] => []
  | RPut s c :: rest => check_kinread limit rest r (bump avail s c) closed pos
  | RClose s :: rest => check_kinread limit rest r avail (s :: closed) pos
  | RAssign fresh sp :: rest =>
      check_kinread limit rest (kr_assign sp (if fresh then kr_new else r)) avail closed ((if fresh then [] else pos) ++ sp)
  | RRead o ofin :: rest =>
      let '(r', recs, fin) := kr_read limit avail closed r in
      flag (list_eqb pair_eqb recs o && list_eqb N.eqb fin ofin) 60 ++
      (* the records of a read belong to one held shard and are its next consecutive records, inside the shard *)
      flag (match o with
            | [] => true
            | (s, _) :: _ => existsb (fun c => fst c =? s) pos
                             && list_eqb pair_eqb o (map (fun i => (s, i)) (h_range (lookupN pos s) (length o)))
                             && (lookupN pos s + N.of_nat (length o) <=? lookupN avail s)
            end) 131 ++
      (* a shard is reported finished only when it is closed and everything in it has been emitted *)
      flag (forallb (fun s => memN s closed && (lookupN pos s + (match o with (s', _) :: _ => if s' =? s then N.of_nat (length o) else 0 | [] => 0 end) =? lookupN avail s)) ofin) 131 ++
      let pos1 := match o with (s, _) :: _ => map (fun c => if fst c =? s then (s, snd c + N.of_nat (length o)) else c) pos | [] => pos end in
      check_kinread limit rest r' avail closed (filter (fun c => negb (memN (fst c) ofin)) pos1)
  | RCkpt o :: rest =>
      flag (list_eqb pair_eqb (kr_checkpoint r) o) 61 ++
      (* every held shard is reported exactly once, with position = records of it emitted so far *)
      flag (same_set pair_eqb o pos) 130 ++
      check_kinread limit rest r avail closed pos
  end.

Definition check_case (c : case) : list N :=
  match c with
  | CRunner steps o_reports o_streams complete o_acked => check_runner steps o_reports o_streams complete o_acked
  | CTracker ops => check_tracker ops new_tracker (mkTS [] [])
  | CKinesis n evs => check_kinesis n evs ([], mkK new_tracker []) (mkKS [] [] [] [] [] ([], []))
  | CEmbedded splits runners o =>
      (* any partition of the splits over the runners satisfies the property: which runner gets which split is free *)
      flag (exactly_one_group splits o) 120 ++
      flag (N.of_nat (length o) =? runners) 120
  | CEmbeddedRestore splits runners panicked states o o_cur =>
      flag (negb panicked) 122 ++
      (if panicked then [] else
         flag (N.of_nat (length o) =? runners) 120 ++
         flag (exactly_one_group splits o) 120 ++
         (* every split resumes from its checkpointed cursor, or from the start when it has none *)
         flag (list_eqb N.eqb (map fst o_cur) (concat o)
               && forallb (fun sc => match snd sc, embedded_cursor states (fst sc) with
                                     | Some a, Some b => a =? b | None, None => true | _, _ => false end) o_cur) 123)
  | CJobRestore cur newest ops_from sfrom handed pos_old pos_new =>
      let '(mo, ms) := job_start cur newest in
      flag (forallb (N.eqb mo) ops_from && (ms =? sfrom)) 70 ++
      (* the splitter is restored from the checkpoint the operators were deployed from *)
      flag (forallb (N.eqb sfrom) ops_from && negb (match ops_from with [] => true | _ => false end)) 140 ++
      (* ... and is handed the split positions of that checkpoint *)
      flag (match ops_from with
            | o :: _ => if o =? newest then list_eqb N.eqb handed pos_new
                        else if o =? 0 then forallb (N.eqb 0) handed else list_eqb N.eqb handed pos_old
            | [] => true end) 141
  | CKinRead limit ops => check_kinread limit ops kr_new [] [] []
  | CHttpRead n b ops => check_httpread n b ops (h_assign 0) 0 0 0
  | CHttp runners states o =>
      (if runners =? 0 then flag (match o with [] => true | _ => false end) 41 else
         (* the single split goes to exactly one runner in range (which one is free) with the checkpointed cursor *)
         flag (N.of_nat (length o) =? 1) 121 ++
         flag (forallb (fun a => fst a <? runners) o) 121 ++
         flag (forallb (fun a => list_eqb N.eqb (snd a) (httpapi_cursor states)) o) 123)
  end.

Definition run (cases : list (N * case)) : list (N * N) :=
  flat_map (fun ic => map (fun code => (fst ic, code)) (check_case (snd ic))) cases.
