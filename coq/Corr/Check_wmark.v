(* Correspondence check for C11 (engine wmark).
   codes 1..9   : the implementation differs from the model (Model/Wmark.v, Model/UpstreamWm.v)
   codes 10..19, 100+ : the observed outputs violate the specification predicate a theorem of Props/C11.v
                  states, computed from the inputs and observed outputs alone (no model state involved). *)
From Coq Require Import ZArith NArith List Bool.
From RV Require Import Model.Wmark Model.UpstreamWm.
Import ListNotations.
Open Scope Z_scope.

(* ---------- observed forms ---------- *)
Inductive wobs := WAdvO (p : pbts) | WCurO (s n : Z).
Inductive robs :=
| RAdvO (s : N) (p : pbts) (fired : list (Z * N)) (wm_after : Z)
| RSetO (k : N) (t : Z)
| RAdvStopO (s : N) (p : pbts) (k : nat) (fired : list (Z * N)) (wm_after : Z).   (* the consumer stops after k timers *)
Inductive oev := EK (id : N) | ET (k : N) (ts : Z).
Definition ocall := ((Z * Z) * list oev)%type.

Inductive case :=
| WmC (late : Z) (ops : list wobs)
| PipeC (nops : N) (ops : list pop) (streams : list (list sev))
| RunC (nops : N) (routed : list (N * N * pbts)) (streams : list (list sev))
| RegC (ids : list N) (wm0 : Z) (ops : list robs)
| OpC (ids : list N) (m : N) (ops : list oop) (calls : list (list ocall)).

(* ---------- small equality tests ---------- *)
Definition zz_eqb (a b : Z * Z) := (fst a =? fst b) && (snd a =? snd b).
Definition zn_eqb (a b : Z * N) := (fst a =? fst b) && (snd a =? snd b)%N.
Fixpoint list_eqb {A} (eqb : A -> A -> bool) (a b : list A) : bool :=
  match a, b with
  | [], [] => true
  | x :: a', y :: b' => eqb x y && list_eqb eqb a' b'
  | _, _ => false
  end.
Definition pbts_eqb (a b : pbts) :=
  match a, b with None, None => true | Some x, Some y => zz_eqb x y | _, _ => false end.
Definition sev_eqb (a b : sev) :=
  match a, b with
  | SK i p, SK j q => (i =? j)%N && pbts_eqb p q
  | SW s, SW t => zz_eqb s t
  | SB, SB => true
  | _, _ => false
  end.
Definition oev_eqb (a b : oev) :=
  match a, b with
  | EK i, EK j => (i =? j)%N
  | ET k t, ET k' t' => (k =? k')%N && (t =? t')
  | _, _ => false
  end.

Definition flag (ok : bool) (code : N) : list N := if ok then [] else [code].

(* ---------- (a) Watermarker ---------- *)
Definition wops_of (ops : list wobs) : list wop :=
  map (fun o => match o with WAdvO p => WAdv p | WCurO _ _ => WCur end) ops.
Definition wobserved (ops : list wobs) : list (Z * Z) :=
  flat_map (fun o => match o with WAdvO _ => [] | WCurO s n => [(s, n)] end) ops.

Fixpoint nondecreasing (l : list Z) : bool :=
  match l with
  | a :: ((b :: _) as r) => (a <=? b) && nondecreasing r
  | _ => true
  end.

(* spec, per CurrentWatermark call: forwarded = every timestamp passed to AdvanceTime before it *)
Definition w_below (late : Z) (fw : list Z) (w : Z) : bool :=
  match fw with
  | [] => true
  | x :: r => let mx := zmax_list x r in
              if (0 <=? late) && (go_zero_time <=? mx) then w <? mx else true
  end.
Definition w_tracks (late : Z) (fw : list Z) (w : Z) : bool := w =? zmax_list go_zero_time fw - late - 1.

Definition check_wm (late : Z) (ops : list wobs) : list N :=
  let obs := wobserved ops in
  let ws := map (fun sn => tm (fst sn) (snd sn)) obs in
  let fws := wm_forwarded_before [] (wops_of ops) in
  flag (list_eqb zz_eqb obs (wm_trace (wm_new late) (wops_of ops))) 1 ++
  flag (nondecreasing ws) 10 ++
  flag (forallb (fun x => w_below late (fst x) (snd x)) (combine fws ws)) 11 ++
  flag (forallb (fun x => w_tracks late (fst x) (snd x)) (combine fws ws)) 12 ++
  flag (forallb (fun sn => (0 <=? snd sn) && (snd sn <? NS)) obs) 13.

(* ---------- (d) runner output stage ---------- *)
Fixpoint count_pw (ops : list pop) : nat :=
  match ops with [] => O | PW :: r => S (count_pw r) | _ :: r => count_pw r end.

(* keyed timestamps before the i-th watermark of a stream, and that watermark *)
Fixpoint before_nth_sw (i : nat) (acc : list Z) (st : list sev) : option (list Z * (Z * Z)) :=
  match st with
  | [] => None
  | SK _ p :: r => before_nth_sw i (as_time p :: acc) r
  | SW s :: r => match i with O => Some (acc, s) | S i' => before_nth_sw i' acc r end
  | SB :: r => before_nth_sw i acc r
  end.

Definition check_stamp (streams : list (list sev)) (i : nat) : bool :=
  let parts := map (before_nth_sw i []) streams in
  if forallb (fun o => match o with Some _ => true | None => false end) parts then
    let fw := flat_map (fun o => match o with Some (l, _) => l | None => [] end) parts in
    let expect := pb_new (zmax_list go_zero_time fw - 1) in
    forallb (fun o => match o with Some (_, s) => zz_eqb s expect | None => false end) parts
  else false.

(* the same facts stated separately, per position of the delivered stream: a watermark is strictly below the
   largest valid keyed timestamp emitted before it (to any operator), and watermarks never decrease along a stream *)
Definition check_below (streams : list (list sev)) (i : nat) : bool :=
  let parts := map (before_nth_sw i []) streams in
  let fw := flat_map (fun o => match o with Some (l, _) => l | None => [] end) parts in
  match fw with
  | [] => true
  | x :: r => let mx := zmax_list x r in
              if go_zero_time <=? mx then
                forallb (fun o => match o with Some (_, s) => tm (fst s) (snd s) <? mx | None => true end) parts
              else true
  end.
Definition sw_instants (st : list sev) : list Z :=
  flat_map (fun e => match e with SW s => [tm (fst s) (snd s)] | _ => [] end) st.

Definition count_sw (st : list sev) : nat :=
  length (filter (fun e => match e with SW _ => true | _ => false end) st).

Definition check_pipe (nops : N) (ops : list pop) (streams : list (list sev)) : list N :=
  let out := pipe_run (wm_new 0) ops in
  let model := map (fun j => stream_of (N.of_nat j) out) (seq 0 (N.to_nat nops)) in
  let nw := count_pw ops in
  flag (list_eqb (list_eqb sev_eqb) streams model) 2 ++
  flag (forallb (fun st => Nat.eqb (count_sw st) nw) streams && Nat.eqb (length streams) (N.to_nat nops)) 15 ++
  flag (forallb (check_stamp streams) (seq 0 nw)) 14 ++
  flag (forallb (check_below streams) (seq 0 nw)) 103 ++
  flag (forallb (fun st => nondecreasing (sw_instants st)) streams) 102.

(* ---------- (e) a whole source runner reading a source to its end ----------
   Wall-clock ticker watermarks may or may not occur, so only schedule-independent facts are compared: the keyed
   events each operator receives (per-operator FIFO), that every broadcast watermark reaches every operator,
   that every watermark is max(keyed timestamps sent before it, to any operator) - 1 ns, and that the
   end-of-input watermark comes after every keyed event. *)
Definition keyed_of (st : list sev) : list sev := filter (fun e => match e with SK _ _ => true | _ => false end) st.
Fixpoint after_last_sw (st : list sev) (acc : list sev) : list sev :=
  match st with
  | [] => acc
  | SW _ :: r => after_last_sw r []
  | e :: r => after_last_sw r (acc ++ [e])
  end.

Definition check_run (nops : N) (routed : list (N * N * pbts)) (streams : list (list sev)) : list N :=
  let expect := map (fun j => flat_map (fun x => match x with (o, id, p) => if (o =? N.of_nat j)%N then [SK id p] else [] end) routed)
                    (seq 0 (N.to_nat nops)) in
  let nw := match streams with st :: _ => count_sw st | [] => O end in
  flag (list_eqb (list_eqb sev_eqb) (map keyed_of streams) expect &&
        forallb (fun st => match keyed_of (after_last_sw st []) with [] => true | _ => false end) streams) 2 ++
  flag (forallb (fun st => Nat.eqb (count_sw st) nw) streams && Nat.eqb (length streams) (N.to_nat nops) && Nat.leb 1 nw) 15 ++
  flag (forallb (check_stamp streams) (seq 0 nw)) 14 ++
  flag (forallb (check_below streams) (seq 0 nw)) 103 ++
  flag (forallb (fun st => nondecreasing (sw_instants st)) streams) 102.

(* ---------- (b) TimerRegistry ---------- *)
Definition rops_of (ops : list robs) : list rop :=
  map (fun o => match o with RAdvO s p _ _ => RAdv s p | RSetO k t => RSet k t | RAdvStopO s p k _ _ => RAdvStop s p k end) ops.

(* order among equal timestamps is not fixed by the code: sort every run of equal timestamps by key *)
Fixpoint tie_insert (x : Z * N) (l : list (Z * N)) : list (Z * N) :=
  match l with
  | y :: r => if (fst x =? fst y) && (snd y <? snd x)%N then y :: tie_insert x r else x :: l
  | [] => [x]
  end.
Definition norm_ties (l : list (Z * N)) : list (Z * N) := fold_right tie_insert [] l.

Fixpoint check_reg_ops (ids : list N) (i : nat) (all : list rop) (ops : list robs) (model : list (list timer * Z)) : list N :=
  match ops, model with
  | [], _ => []
  | RSetO _ _ :: r, _ :: mr => check_reg_ops ids (S i) all r mr
  | RAdvStopO s p _ fired wm_after :: r, (mf, mwm) :: mr
  | RAdvO s p fired wm_after :: r, (mf, mwm) :: mr =>
      let c := spec_composite ids (rop_msgs (firstn (S i) all)) in
      flag (list_eqb zn_eqb (norm_ties fired) (norm_ties mf)) 3 ++
      flag (wm_after =? mwm) 4 ++
      flag (wm_after =? c) 16 ++
      flag (forallb (fun f => fst f <=? c) fired) 17 ++
      check_reg_ops ids (S i) all r mr
  | _, [] => [9%N]
  end.

Definition check_reg (ids : list N) (wm0 : Z) (ops : list robs) : list N :=
  let all := rops_of ops in
  flag (wm0 =? r_wm (reg_new ids)) 5 ++
  flag (wm0 =? spec_composite ids []) 18 ++
  check_reg_ops ids 0 all ops (reg_trace (reg_new ids) all).

(* ---------- (c) Operator with a scripted recording handler ---------- *)
(* the harness handler: a keyed event sets the timers scripted in its payload; an expired timer of a key
   with id >= 4 whose second is 0..1 mod 10 re-arms at +2 s and tries -1 s (at or before the watermark); a batch
   holding an expired timer of key 6 at an even second makes the handler fail (after the call was recorded) *)
Definition poison (e : hevent) : bool :=
  match e with HT key ts => (key =? 6)%N && (fst (pb_new ts) mod 2 =? 0) | _ => false end.
Definition h_script : handler := fun _ evs =>
  if existsb poison evs then None   (* ProcessEventBatch returns an error: expired timer of key 6 at an even second *)
  else Some (map (fun e => match e with
                | HK _ key timers => (key, timers)
                | HT key ts =>
                    let '(s, n) := pb_new ts in
                    if (4 <=? key)%N && (s mod 10 <? 2) then (key, [Some (s + 2, n); Some (s - 1, n)]) else (key, [])
                end) evs).

Definition oev_of (e : hevent) : oev := match e with HK id _ _ => EK id | HT k t => ET k t end.

Fixpoint otie_insert (x : oev) (l : list oev) : list oev :=
  match x, l with
  | ET k t, (ET k' t' as y) :: r => if (t =? t') && (k' <? k)%N then y :: otie_insert x r else x :: l
  | _, _ => x :: l
  end.
Definition onorm (l : list oev) : list oev := fold_right otie_insert [] l.

Definition calls_agree (obs : list ocall) (mod_ : list call) : bool :=
  list_eqb zz_eqb (map fst obs) (map c_told mod_) &&
  list_eqb Nat.eqb (map (fun c => length (snd c)) obs) (map (fun c => length (c_events c)) mod_) &&
  list_eqb oev_eqb (onorm (flat_map snd obs)) (onorm (flat_map (fun c => map oev_of (c_events c)) mod_)).

(* A timer leaves the registry while a watermark message is handled, but with batches larger than one it may
   reach the handler later (when the batch fills).  Specification at the handler: an expired timer is never
   later than the composite watermark of some watermark message already handled (cmax = the largest such
   composite so far; None = no watermark message yet, nothing may expire). *)
Fixpoint check_op_ops (ids : list N) (i : nat) (cmax : option Z) (all : list oop) (ops : list oop) (obs : list (list ocall)) (model : list (list call)) : list N :=
  match ops, obs, model with
  | [], [], _ => []
  | o :: r, oc :: obr, mc :: mr =>
      let c := spec_at ids (firstn (S i) all) in
      let cmax' := match o with
                   | OWm _ _ => Some (match cmax with Some x => Z.max x c | None => c end)
                   | _ => cmax
                   end in
      flag (calls_agree oc mc) 7 ++
      flag (forallb (fun cl => zz_eqb (fst cl) (pb_new c)) oc) 19 ++
      flag (forallb (fun cl => forallb (fun e => match e with
                                                  | ET _ t => match cmax' with Some x => t <=? x | None => false end
                                                  | EK _ => true end) (snd cl)) oc) 100 ++
      check_op_ops ids (S i) cmax' all r obr mr
  | _, _, _ => [8%N]
  end.

Definition check_op (ids : list N) (m : N) (ops : list oop) (calls : list (list ocall)) : list N :=
  check_op_ops ids 0 None ops ops calls (op_trace h_script (N.to_nat m) (op_new ids) ops).

Definition check_case (c : case) : list N :=
  match c with
  | WmC late ops => check_wm late ops
  | PipeC nops ops streams => check_pipe nops ops streams
  | RunC nops routed streams => check_run nops routed streams
  | RegC ids wm0 ops => check_reg ids wm0 ops
  | OpC ids m ops calls => check_op ids m ops calls
  end.

Definition run (cases : list (N * case)) : list (N * N) :=
  flat_map (fun ic => map (fun code => (fst ic, code)) (check_case (snd ic))) cases.
