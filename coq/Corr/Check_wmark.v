(* Correspondence check for C11 (engine wmark).
   codes 1..9   : the implementation differs from the model (Model/Wmark.v, Model/UpstreamWm.v)
   codes 10..19, 100+ : the observed outputs violate the specification predicate a theorem of Props/C11.v
                  states, computed from the inputs and observed outputs alone (no model state involved). *)
From Coq Require Import ZArith NArith List Bool.
From RV Require Import Model.Wmark Model.UpstreamWm.
Import ListNotations.
Open Scope Z_scope.

(* ---------- observed forms ---------- *)
Inductive wobs := WAdvO (p : pbts) | WCurO (s n : Z).
Inductive robs :=
| RAdvO (s : N) (p : pbts) (fired : list (Z * N)) (wm_after : Z)
| RSetO (k : N) (t : Z)
| RAdvStopO (s : N) (p : pbts) (k : nat) (fired : list (Z * N)) (wm_after : Z).   (* the consumer stops after k timers *)
Inductive oev := EK (id : N) | ET (k : N) (ts : Z).
Definition ocall := ((Z * Z) * list oev)%type.

Inductive case :=
| WmC (late : Z) (ops : list wobs)
| PipeC (nops : N) (ops : list pop) (streams : list (list sev))
| LoopC (nops : N) (ops : list pop) (streams : list (list sev))
| RunC (nops : N) (routed : list (N * N * pbts)) (streams : list (list sev))
| RegC (ids : list N) (wm0 : Z) (ops : list robs)
| OpC (ids : list N) (m : N) (ops : list oop) (calls : list (list ocall)).

(* ---------- small equality tests ---------- *)
Definition zz_eqb (a b : Z * Z) := (fst a =? fst b) && (snd a =? snd b).
Definition zn_eqb (a b : Z * N) := (fst a =? fst b) && (snd a =? snd b)%N.
Fixpoint list_eqb {A} (eqb : A -> A -> bool) (a b : list A) : bool :=
  match a, b with
  | [], [] => true
  | x :: a', y :: b' => eqb x y && list_eqb eqb a' b'
  | _, _ => false
  end.
Definition pbts_eqb (a b : pbts) :=
  match a, b with None, None => true | Some x, Some y => zz_eqb x y | _, _ => false end.
Definition sev_eqb (a b : sev) :=
  match a, b with
  | SK i p, SK j q => (i =? j)%N && pbts_eqb p q
  | SW s, SW t => zz_eqb s t
  | SB, SB => true
  | _, _ => false
  end.
Definition oev_eqb (a b : oev) :=
  match a, b with
  | EK i, EK j => (i =? j)%N
  | ET k t, ET k' t' => (k =? k')%N && (t =? t')
  | _, _ => false
  end.

Definition flag (ok : bool) (code : N) : list N := if ok then [] else [code].

(* ---------- (a) Watermarker ---------- *)
Definition wops_of (ops : list wobs) : list wop :=
  map (fun o => match o with WAdvO p => WAdv p | WCurO _ _ => WCur end) ops.
Definition wobserved (ops : list wobs) : list (Z * Z) :=
  flat_map (fun o => match o with WAdvO _ => [] | WCurO s n => [(s, n)] end) ops.

Fixpoint nondecreasing (l : list Z) : bool :=
  match l with
  | a :: ((b :: _) as r) => (a <=? b) && nondecreasing r
  | _ => true
  end.

(* spec, per CurrentWatermark call: forwarded = every timestamp passed to AdvanceTime before it *)
Definition w_below (late : Z) (fw : list Z) (w : Z) : bool :=
  match fw with
  | [] => true
  | x :: r => let mx := zmax_list x r in
              if (0 <=? late) && (go_zero_time <=? mx) then w <? mx else true
  end.
Definition w_tracks (late : Z) (fw : list Z) (w : Z) : bool := w =? zmax_list go_zero_time fw - late - 1.

Definition check_wm (late : Z) (ops : list wobs) : list N :=
  let obs := wobserved ops in
  let ws := map (fun sn => tm (fst sn) (snd sn)) obs in
  let fws := wm_forwarded_before [] (wops_of ops) in
  flag (list_eqb zz_eqb obs (wm_trace (wm_new late) (wops_of ops))) 1 ++
  flag (nondecreasing ws) 10 ++
  flag (forallb (fun x => w_below late (fst x) (snd x)) (combine fws ws)) 11 ++
  flag (forallb (fun x => w_tracks late (fst x) (snd x)) (combine fws ws)) 12 ++
  flag (forallb (fun sn => (0 <=? snd sn) && (snd sn <? NS)) obs) 13.

(* ---------- (d) runner output stage ---------- *)
Fixpoint count_pw (ops : list pop) : nat :=
  match ops with [] => O | PW :: r => S (count_pw r) | _ :: r => count_pw r end.

(* keyed timestamps before the i-th watermark of a stream, and that watermark *)
Fixpoint before_nth_sw (i : nat) (acc : list Z) (st : list sev) : option (list Z * (Z * Z)) :=
  match st with
  | [] => None
  | SK _ p :: r => before_nth_sw i (as_time p :: acc) r
  | SW s :: r => match i with O => Some (acc, s) | S i' => before_nth_sw i' acc r end
  | SB :: r => before_nth_sw i acc r
  end.

Definition check_stamp (streams : list (list sev)) (i : nat) : bool :=
  let parts := map (before_nth_sw i []) streams in
  if forallb (fun o => match o with Some _ => true | None => false end) parts then
    let fw := flat_map (fun o => match o with Some (l, _) => l | None => [] end) parts in
    let expect := pb_new (zmax_list go_zero_time fw - 1) in
    forallb (fun o => match o with Some (_, s) => zz_eqb s expect | None => false end) parts
  else false.

(* the same facts stated separately, per position of the delivered stream: a watermark is strictly below the
   largest valid keyed timestamp emitted before it (to any operator), and watermarks never decrease along a stream *)
Definition check_below (streams : list (list sev)) (i : nat) : bool :=
  let parts := map (before_nth_sw i []) streams in
  let fw := flat_map (fun o => match o with Some (l, _) => l | None => [] end) parts in
  match fw with
  | [] => true
  | x :: r => let mx := zmax_list x r in
              if go_zero_time <=? mx then
                forallb (fun o => match o with Some (_, s) => tm (fst s) (snd s) <? mx | None => true end) parts
              else true
  end.
Definition sw_instants (st : list sev) : list Z :=
  flat_map (fun e => match e with SW s => [tm (fst s) (snd s)] | _ => [] end) st.

Definition count_sw (st : list sev) : nat :=
  length (filter (fun e => match e with SW _ => true | _ => false end) st).

Definition check_pipe (nops : N) (ops : list pop) (streams : list (list sev)) : list N :=
  let out := pipe_run (wm_new 0) ops in
  let model := map (fun j => stream_of (N.of_nat j) out) (seq 0 (N.to_nat nops)) in
  let nw := count_pw ops in
  flag (list_eqb (list_eqb sev_eqb) streams model) 2 ++
  flag (forallb (fun st => Nat.eqb (count_sw st) nw) streams && Nat.eqb (length streams) (N.to_nat nops)) 15 ++
  flag (forallb (check_stamp streams) (seq 0 nw)) 14 ++
  flag (forallb (check_below streams) (seq 0 nw)) 103 ++
  flag (forallb (fun st => nondecreasing (sw_instants st)) streams) 102.

(* ---------- (e) a whole source runner reading a source to its end ----------
   Wall-clock ticker watermarks may or may not occur, so only schedule-independent facts are compared: the keyed
   events each operator receives (per-operator FIFO), that every broadcast watermark reaches every operator,
   that every watermark is max(keyed timestamps sent before it, to any operator) - 1 ns, and that at
   quiescence the latest watermark has caught up with everything forwarded. *)
Definition keyed_of (st : list sev) : list sev := filter (fun e => match e with SK _ _ => true | _ => false end) st.
Fixpoint after_last_sw (st : list sev) (acc : list sev) : list sev :=
  match st with
  | [] => acc
  | SW _ :: r => after_last_sw r []
  | e :: r => after_last_sw r (acc ++ [e])
  end.

(* "follows closely", at quiescence: every keyed event has been forwarded and the runner had its chance to
   announce - the latest watermark an operator holds is max(forwarded) - 1 ns *)
Fixpoint last_sw (st : list sev) (acc : option (Z * Z)) : option (Z * Z) :=
  match st with
  | [] => acc
  | SW s :: r => last_sw r (Some s)
  | _ :: r => last_sw r acc
  end.
Definition caught_up (all_ts : list Z) (streams : list (list sev)) : bool :=
  match all_ts with
  | [] => true
  | _ => let expect := pb_new (zmax_list go_zero_time all_ts - 1) in
         forallb (fun st => match last_sw st None with Some s => zz_eqb s expect | None => false end) streams
  end.

Definition check_run (nops : N) (routed : list (N * N * pbts)) (streams : list (list sev)) : list N :=
  let expect := map (fun j => flat_map (fun x => match x with (o, id, p) => if (o =? N.of_nat j)%N then [SK id p] else [] end) routed)
                    (seq 0 (N.to_nat nops)) in
  let nw := match streams with st :: _ => count_sw st | [] => O end in
  flag (list_eqb (list_eqb sev_eqb) (map keyed_of streams) expect) 2 ++
  flag (forallb (fun st => Nat.eqb (count_sw st) nw) streams && Nat.eqb (length streams) (N.to_nat nops)) 15 ++
  flag (forallb (check_stamp streams) (seq 0 nw)) 14 ++
  flag (caught_up (map (fun x => as_time (snd x)) routed) streams) 12 ++
  flag (forallb (check_below streams) (seq 0 nw)) 103 ++
  flag (forallb (fun st => nondecreasing (sw_instants st)) streams) 102.

(* ---------- (f) the scripted event loop ----------
   How many of the ticks the loop turns into watermark events is not the property's business (a runner may skip a
   tick whose watermark would repeat the previous one); what is: the keyed events each operator receives, that a
   watermark reaches every operator, the stamp rule for every delivered watermark, and - the history ends with a
   tick after the last read - that the latest delivered watermark has caught up with everything forwarded. *)
Fixpoint pop_routed (ops : list pop) : list (N * N * pbts) :=
  match ops with
  | [] => []
  | PK evs :: r => evs ++ pop_routed r
  | _ :: r => pop_routed r
  end.

Definition check_loop (nops : N) (ops : list pop) (streams : list (list sev)) : list N :=
  let nw := match streams with st :: _ => count_sw st | [] => O end in
  check_run nops (pop_routed ops) streams ++
  flag (Nat.leb nw (count_pw ops)) 15.

(* ---------- (b) TimerRegistry ---------- *)
Definition rops_of (ops : list robs) : list rop :=
  map (fun o => match o with RAdvO s p _ _ => RAdv s p | RSetO k t => RSet k t | RAdvStopO s p k _ _ => RAdvStop s p k end) ops.

(* order among equal timestamps is not fixed by the code: sort every run of equal timestamps by key *)
Fixpoint tie_insert (x : Z * N) (l : list (Z * N)) : list (Z * N) :=
  match l with
  | y :: r => if (fst x =? fst y) && (snd y <? snd x)%N then y :: tie_insert x r else x :: l
  | [] => [x]
  end.
Definition norm_ties (l : list (Z * N)) : list (Z * N) := fold_right tie_insert [] l.

Fixpoint check_reg_ops (ids : list N) (i : nat) (all : list rop) (ops : list robs) (model : list (list timer * Z)) : list N :=
  match ops, model with
  | [], _ => []
  | RSetO _ _ :: r, _ :: mr => check_reg_ops ids (S i) all r mr
  | RAdvStopO s p _ fired wm_after :: r, (mf, mwm) :: mr
  | RAdvO s p fired wm_after :: r, (mf, mwm) :: mr =>
      let c := spec_composite ids (rop_msgs (firstn (S i) all)) in
      flag (list_eqb zn_eqb (norm_ties fired) (norm_ties mf)) 3 ++
      flag (wm_after =? mwm) 4 ++
      flag (wm_after =? c) 16 ++
      flag (forallb (fun f => fst f <=? c) fired) 17 ++
      check_reg_ops ids (S i) all r mr
  | _, [] => [9%N]
  end.

Definition check_reg (ids : list N) (wm0 : Z) (ops : list robs) : list N :=
  let all := rops_of ops in
  flag (wm0 =? r_wm (reg_new ids)) 5 ++
  flag (wm0 =? spec_composite ids []) 18 ++
  check_reg_ops ids 0 all ops (reg_trace (reg_new ids) all).

(* ---------- (c) Operator with a scripted recording handler ---------- *)
(* the harness handler: a keyed event sets the timers scripted in its payload; an expired timer of a key
   with id >= 4 whose second is 0..1 mod 10 re-arms at +2 s and tries -1 s (at or before the watermark); a batch
   holding an expired timer of key 6 at an even second makes the handler fail (after the call was recorded) *)
Definition poison (e : hevent) : bool :=
  match e with HT key ts => (key =? 6)%N && (fst (pb_new ts) mod 2 =? 0) | _ => false end.
Definition h_script : handler := fun _ evs =>
  if existsb poison evs then None   (* ProcessEventBatch returns an error: expired timer of key 6 at an even second *)
  else Some (map (fun e => match e with
                | HK _ key timers => (key, timers)
                | HT key ts =>
                    let '(s, n) := pb_new ts in
                    if (4 <=? key)%N && (s mod 10 <? 2) then (key, [Some (s + 2, n); Some (s - 1, n)]) else (key, [])
                end) evs).

Definition oev_of (e : hevent) : oev := match e with HK id _ _ => EK id | HT k t => ET k t end.

Fixpoint otie_insert (x : oev) (l : list oev) : list oev :=
  match x, l with
  | ET k t, (ET k' t' as y) :: r => if (t =? t') && (k' <? k)%N then y :: otie_insert x r else x :: l
  | _, _ => x :: l
  end.
Definition onorm (l : list oev) : list oev := fold_right otie_insert [] l.

(* WHEN a batch of events is handed to the handler is not the property's business (size trigger, delay trigger, a
   flush at the end of a watermark that fired timers, ...).  The batch boundaries are therefore OBSERVED DATA: the
   replay below adds events to the pending batch exactly as the code does (keyed event; due timers one by one) and
   hands the pending batch to the handler model at the moments the implementation was observed to do so - i.e.
   whenever the pending batch equals the next observed call of the incoming event being handled (the pending batch
   only grows until it is flushed, so that moment is unique).  What IS compared: every observed call is a flush
   of exactly the pending batch, in order, and is told the model's cached composite; nothing else is flushed. *)
Definition evs_match (pending : list hevent) (obs : list oev) : bool := list_eqb oev_eqb (map oev_of pending) obs.

(* flush if the implementation did so here; result: state, remaining observed calls, told agrees, handler succeeded *)
Definition try_flush (st : opst) (obs : list ocall) : opst * list ocall * bool * bool :=
  match o_batch st, obs with
  | _ :: _, oc :: rest =>
      if evs_match (o_batch st) (snd oc) then
        let '(st', calls, ok) := process_batch h_script st in
        (st', rest, forallb (fun c => zz_eqb (c_told c) (fst oc)) calls, ok)
      else (st, obs, true, true)
  | _, _ => (st, obs, true, true)
  end.

Definition add_pending (st : opst) (e : hevent) : opst := {| o_reg := o_reg st; o_batch := o_batch st ++ [e] |}.

(* the due-timer loop of handleWatermark with observed flush points; a failed handler call ends it *)
Fixpoint fire_replay (c : Z) (fuel : nat) (st : opst) (obs : list ocall) (good : bool) : opst * list ocall * bool :=
  match fuel with
  | O => (st, obs, good)
  | S fuel' =>
      match r_timers (o_reg st) with
      | (t, k) :: rest =>
          if c <? t then
            let '(st', obs', g, _) := try_flush st obs in (st', obs', good && g)   (* a flush at the end of the watermark *)
          else
            let r := o_reg st in
            let st1 := add_pending {| o_reg := {| r_ups := r_ups r; r_wm := r_wm r; r_timers := rest |}; o_batch := o_batch st |} (HT k t) in
            let '(st2, obs', g, ok) := try_flush st1 obs in
            if ok then fire_replay c fuel' st2 obs' (good && g) else (st2, obs', good && g)
      | [] => let '(st', obs', g, _) := try_flush st obs in (st', obs', good && g)
      end
  end.

Definition op_replay_step (st : opst) (o : oop) (obs : list ocall) : opst * bool :=
  let '(st0, obs0, g0, _) := try_flush st obs in          (* a flush before anything else (SourceComplete does that) *)
  match o with
  | OEv _ id key timers =>
      let '(st1, obs1, g1, _) := try_flush (add_pending st0 (HK id key timers)) obs0 in
      (st1, g0 && g1 && match obs1 with [] => true | _ => false end)
  | OWm s p =>
      let r1 := reg_note (o_reg st0) s p in
      let '(st1, obs1, g1) := fire_replay (r_wm r1) (S (length (r_timers r1))) {| o_reg := r1; o_batch := o_batch st0 |} obs0 g0 in
      (st1, g1 && match obs1 with [] => true | _ => false end)
  | OComplete _ => (st0, g0 && match obs0 with [] => true | _ => false end)
  | ODeploy ids' => ({| o_reg := reg_new ids'; o_batch := o_batch st0 |}, g0 && match obs0 with [] => true | _ => false end)
  end.

(* A timer leaves the registry while a watermark message is handled, but it may reach the handler later (when
   its batch is flushed).  Specification at the handler: an expired timer is never later than the composite
   watermark of some watermark message already handled (cmax = the largest such composite so far; None = no
   watermark message yet, nothing may expire). *)
Fixpoint check_op_ops (ids : list N) (i : nat) (cmax : option Z) (all : list oop) (ops : list oop) (obs : list (list ocall)) (st : opst) : list N :=
  match ops, obs with
  | [], [] => []
  | o :: r, oc :: obr =>
      let c := spec_at ids (firstn (S i) all) in
      let cmax' := match o with
                   | OWm _ _ => Some (match cmax with Some x => Z.max x c | None => c end)
                   | _ => cmax
                   end in
      let '(st', good) := op_replay_step st o oc in
      flag good 7 ++
      flag (forallb (fun cl => zz_eqb (fst cl) (pb_new c)) oc) 19 ++
      flag (forallb (fun cl => forallb (fun e => match e with
                                                  | ET _ t => match cmax' with Some x => t <=? x | None => false end
                                                  | EK _ => true end) (snd cl)) oc) 100 ++
      check_op_ops ids (S i) cmax' all r obr st'
  | _, _ => [8%N]
  end.

(* m (the configured batch size) is part of the case but no longer of the comparison *)
Definition check_op (ids : list N) (m : N) (ops : list oop) (calls : list (list ocall)) : list N :=
  check_op_ops ids 0 None ops ops calls (op_new ids).

Definition check_case (c : case) : list N :=
  match c with
  | WmC late ops => check_wm late ops
  | PipeC nops ops streams => check_pipe nops ops streams
  | LoopC nops ops streams => check_loop nops ops streams
  | RunC nops routed streams => check_run nops routed streams
  | RegC ids wm0 ops => check_reg ids wm0 ops
  | OpC ids m ops calls => check_op ids m ops calls
  end.

Definition run (cases : list (N * case)) : list (N * N) :=
  flat_map (fun ic => map (fun code => (fst ic, code)) (check_case (snd ic))) cases.
