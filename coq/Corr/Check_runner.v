(* Correspondence check for C04 (engine runner): the per-operator streams observed on the real SourceRunner
   vs the model (codes 1..9) and vs the conclusion of Props/C04.v delivery_exact_ordered, checked directly
   on the observations (codes 10..19, 100). *)
From Coq Require Import List NArith Bool Arith.
Import ListNotations.
From RV Require Import Model.KeySpace Model.RunnerPipe.
Open Scope N_scope.

(* what the scripted reader saw the read loop do, in order: a record (id, split, its key-by result),
   a checkpoint taken / a watermark tick consumed *)
Inductive ritem := RRec (x split : N) (kvs : list kev) | RMark (m : marker).

Inductive case :=
| RC (nops kgc mx : N) (delay : bool) (input : list ritem)
     (obs : list (list (list ev)))      (* per operator: the HandleEventBatch arguments in call order *)
     (wms : list (list N))              (* per operator: the values of the delivered watermarks, read at delivery: q = "max event
                                           time - 1ns is the time of the q-th record read", 0 = no event yet *)
     (aborted : bool)                   (* the reader reported a terminal error: the loop gives up, the run is not failure-free;
                                           only the safety half is checked (nothing wrong delivered, order, cuts) *)
     (failed : bool)                    (* the runner stopped by itself before the harness tore it down: an error was surfaced (e.g. a failed
                                           KeyEventBatch call went to the error channel). Not a failure-free run: nothing is promised beyond
                                           "nothing that was never produced, nothing twice, nothing at a wrong operator". A key-by call that
                                           fails WITHOUT the run failing leaves failed = false, so missing records fire code 10. *)
     (bad : bool).                      (* overlapping calls to one operator *)

Fixpoint list_eqb {A} (eqb : A -> A -> bool) (a b : list A) : bool :=
  match a, b with
  | [], [] => true
  | x :: a', y :: b' => eqb x y && list_eqb eqb a' b'
  | _, _ => false
  end.
Definition key_eqb := list_eqb N.eqb.
Definition marker_eqb (a b : marker) : bool :=
  match a, b with Wm, Wm => true | Done, Done => true | Bar x, Bar y => x =? y | _, _ => false end.
Definition ev_eqb (a b : ev) : bool :=
  match a, b with
  | EK x (k, j), EK y (k', j') => (x =? y) && key_eqb k k' && (j =? j')
  | EM m, EM m' => marker_eqb m m'
  | _, _ => false
  end.
Definition is_ek (e : ev) : bool := match e with EK _ _ => true | EM _ => false end.
Definition count (e : ev) (l : list ev) : nat := length (filter (ev_eqb e) l).
Definition sub_multiset (a b : list ev) : bool := forallb (fun e => Nat.leb (count e a) (count e b)) a.
Definition multiset_eqb (a b : list ev) : bool := sub_multiset a b && sub_multiset b a.
Fixpoint prefixb (a b : list ev) : bool :=
  match a, b with
  | [], _ => true
  | x :: a', y :: b' => ev_eqb x y && prefixb a' b'
  | _ :: _, [] => false
  end.

Fixpoint assoc {B V} (eqb : B -> B -> bool) (k : B) (l : list (B * V)) : option V :=
  match l with [] => None | (k', v) :: l' => if eqb k k' then Some v else assoc eqb k l' end.

(* for every marker of a stream, in order: the marker and the keyed events that precede it *)
Fixpoint cuts (seen : list ev) (l : list ev) : list (marker * list ev) :=
  match l with
  | [] => []
  | EM m :: l' => (m, seen) :: cuts seen l'
  | e :: l' => cuts (seen ++ [e]) l'
  end.
(* observed cuts are a prefix of the expected ones: same markers, same set of records ahead of each *)
Fixpoint cuts_ok (o e : list (marker * list ev)) : bool :=
  match o, e with
  | [], _ => true
  | (m, a) :: o', (m', b) :: e' => marker_eqb m m' && multiset_eqb a b && cuts_ok o' e'
  | _ :: _, [] => false
  end.

Section Case.
  Variables (nops kgc mx : N) (delay : bool) (input : list ritem) (obs : list (list (list ev))) (wms : list (list N)).

  Definition kbtab : list (N * (N * list kev)) :=
    flat_map (fun it => match it with RRec x sp kvs => [(x, (sp, kvs))] | RMark _ => [] end) input.
  Definition kb (x : N) : list kev := match assoc N.eqb x kbtab with Some (_, kvs) => kvs | None => [] end.
  Definition split_of (x : N) : N := match assoc N.eqb x kbtab with Some (sp, _) => sp | None => 0 end.
  Definition items : list item := map (fun it => match it with RRec x _ _ => IRec x | RMark m => IMark m end) input.

  (* the router, tabulated once per distinct key: partitioning.KeySpace.RangeIndex as modelled for C05 *)
  Definition keys : list (list N) :=
    fold_right (fun k acc => if existsb (key_eqb k) acc then acc else k :: acc) []
      (flat_map (fun it => match it with RRec _ _ kvs => map fst kvs | RMark _ => [] end) input).
  Definition rtab : list (list N * nat) := map (fun k => (k, N.to_nat (range_index kgc nops k))) keys.
  Definition route (k : list N) : nat :=
    match assoc key_eqb k rtab with Some i => i | None => N.to_nat (range_index kgc nops k) end.

  Definition n_ops := N.to_nat nops.
  Definition idl := ideal kb items.
  Definition stream (i : nat) : list ev := concat (nth i obs []).
  Definition all_obs : list ev := flat_map stream (seq 0 n_ops).

  (* ---- the model, run under its canonical schedule; streams at quiescence do not depend on the schedule *)
  Definition mxe := Nat.max 1 (N.to_nat mx).
  Definition fuel := (100 + 14 * (n_ops + 1) * (length idl + length input + 2))%nat.
  Definition model_final :=
    run_canon kb route n_ops mxe delay false fuel (init (batched_stage kb mxe delay) items).
  Definition model_stream (i : nat) : list ev := delivered _ model_final i.
  Definition model_agrees : bool := forallb (fun i => list_eqb ev_eqb (stream i) (model_stream i)) (seq 0 n_ops).
  Definition batch_sizes_ok : bool := forallb (forallb (fun b : list ev => Nat.leb (length b) mxe)) obs.

  (* ---- the specification, on the observations alone *)
  (* exactly once: the keyed events handed to all operators together are the key-by results of the records read *)
  Definition ideal_ek := filter is_ek idl.
  Definition obs_ek := filter is_ek all_obs.
  Definition no_dup_no_foreign : bool := sub_multiset obs_ek ideal_ek.
  Definition nothing_missing : bool := sub_multiset ideal_ek obs_ek.
  (* ... at the operator owning the key *)
  Definition routed_ok : bool :=
    forallb (fun i => forallb (fun e => match e with EK _ (k, _) => Nat.eqb (route k) i | EM _ => true end) (stream i))
            (seq 0 n_ops).
  (* same split, same key: in the order the split produced them *)
  Definition same_sk (sk : N * list N) (e : ev) : bool :=
    match e with EK x (k', _) => (split_of x =? fst sk) && key_eqb (snd sk) k' | EM _ => false end.
  Definition sks : list (N * list N) :=
    flat_map (fun it => match it with RRec _ sp kvs => map (fun kv => (sp, fst kv)) kvs | RMark _ => [] end) input.
  Definition order_ok : bool :=
    forallb (fun sk => prefixb (filter (same_sk sk) all_obs) (filter (same_sk sk) idl)) sks.
  (* markers: every operator sees the markers in read order, each after exactly the records read before it
     that are routed to this operator (no marker overtakes a record, no record overtakes a marker) *)
  Definition markers_ok : bool :=
    forallb (fun i => cuts_ok (cuts [] (stream i)) (cuts [] (filter (sel route i) idl))) (seq 0 n_ops).
  Definition markers_complete : bool :=
    forallb (fun i => Nat.eqb (length (cuts [] (stream i))) (length (cuts [] idl))) (seq 0 n_ops).

  (* watermark values: a watermark is stamped when the joiner reaches it, i.e. (placeholders!) with the newest event time of
     the records read before the tick; the handler stamps the q-th record read with time q, so the value is the number of
     the last record before the tick that produced a keyed event. Delivered values are read at delivery time. *)
  Fixpoint wm_expected (q cur : N) (l : list ritem) : list N :=
    match l with
    | [] => []
    | RRec _ _ kvs :: l' => wm_expected (q + 1) (match kvs with [] => cur | _ => q + 1 end) l'
    | RMark Wm :: l' => cur :: wm_expected q cur l'
    | RMark _ :: l' => wm_expected q cur l'
    end.
  Fixpoint prefixN (a b : list N) : bool :=
    match a, b with
    | [], _ => true
    | x :: a', y :: b' => (x =? y) && prefixN a' b'
    | _ :: _, [] => false
    end.
  Definition wm_values_ok : bool :=
    forallb (fun i => prefixN (nth i wms []) (wm_expected 0 0 input)) (seq 0 n_ops).

  Definition check (aborted failed bad : bool) : list N :=
    if failed then
      (if no_dup_no_foreign then [] else [10]) ++ (if routed_ok then [] else [11])
    else
    (if Nat.eqb (length obs) n_ops then [] else [3]) ++
    (if batch_sizes_ok then [] else [2]) ++
    (if no_dup_no_foreign then [] else [10]) ++
    (if routed_ok then [] else [11]) ++
    (if order_ok then [] else [12]) ++
    (if markers_ok then [] else [13]) ++
    (if wm_values_ok then [] else [15]) ++
    (if bad then [14] else []) ++
    (if aborted then []
     else if nothing_missing && markers_complete then (if model_agrees then [] else [1])
     else if negb delay && model_agrees && no_dup_no_foreign then [100]
     else (if nothing_missing then [] else [10]) ++ (if markers_complete then [] else [13]) ++
          (if model_agrees then [] else [1])).
End Case.

(* ---- idle watermark ticks are optional. A tick the read loop consumed when no record had been read since the previous
   tick would carry the value of the previous watermark; C04 does not oblige the runner to emit it (a runner may suppress
   it). Which idle ticks were emitted is read off the operators' streams: an observed marker is matched with the next
   script marker that has the same kind and the same records ahead of it; script markers skipped on the way must be idle
   ticks. Every other marker (barriers, ticks after a record was read) stays mandatory. The decisions of the operator
   that got furthest are applied to the input (computed ONCE per case); all checks then run on that input, so an operator
   that decided differently fails the marker check. *)
Fixpoint idle_flags (dirty : bool) (l : list ritem) : list bool :=
  match l with
  | [] => []
  | RRec _ _ _ :: l' => idle_flags true l'
  | RMark Wm :: l' => negb dirty :: idle_flags false l'
  | RMark _ :: l' => false :: idle_flags dirty l'
  end.
Fixpoint decide (o e : list (marker * list ev)) (idl : list bool) : list bool :=
  match e, idl with
  | (m', b) :: e', id :: idl' =>
      match o with
      | (m, a) :: o' =>
          if marker_eqb m m' && multiset_eqb a b then true :: decide o' e' idl'
          else if id then false :: decide o e' idl' else []
      | [] => if id then false :: decide [] e' idl' else []
      end
  | _, _ => []
  end.
(* skips after an operator's last matched marker say nothing (its stream may simply not be complete yet) *)
Fixpoint trim_skips (d : list bool) : list bool :=
  match d with
  | [] => []
  | b :: d' => match trim_skips d' with [] => if b then [true] else [] | t => b :: t end
  end.
(* markers within the decisions: as decided; beyond them (no operator has been given any later marker): an idle tick
   counts as not emitted, every other marker stays expected *)
Fixpoint apply_decisions (dec flags : list bool) (l : list ritem) : list ritem :=
  match l with
  | [] => []
  | RMark m :: l' =>
      match dec with
      | false :: dec' => apply_decisions dec' (tl flags) l'
      | _ :: dec' => RMark m :: apply_decisions dec' (tl flags) l'
      | [] => if hd false flags then apply_decisions [] (tl flags) l' else RMark m :: apply_decisions [] (tl flags) l'
      end
  | r :: l' => r :: apply_decisions dec flags l'
  end.
Definition effective_input (nops kgc : N) (input0 : list ritem) (obs : list (list (list ev))) : list ritem :=
  let idl0 := idl input0 in
  let flags := idle_flags false input0 in
  let rt := rtab nops kgc input0 in
  let rte := fun k => match assoc key_eqb k rt with Some i => i | None => N.to_nat (range_index kgc nops k) end in
  let best :=
    fold_left (fun acc i =>
                 let d := trim_skips (decide (cuts [] (concat (nth i obs []))) (cuts [] (filter (sel rte i) idl0)) flags) in
                 if Nat.ltb (length acc) (length d) then d else acc)
              (seq 0 (N.to_nat nops)) [] in
  apply_decisions best flags input0.

Definition nodup (l : list N) : list N := fold_right (fun c acc => if existsb (N.eqb c) acc then acc else c :: acc) [] l.
Definition check_case (c : case) : list N :=
  match c with
  | RC nops kgc mx delay input0 obs wms aborted failed bad =>
      let input := effective_input nops kgc input0 obs in
      nodup (check nops kgc mx delay input obs wms aborted failed bad)
  end.

Definition run (cases : list (N * case)) : list (N * N) :=
  flat_map (fun ic => map (fun code => (fst ic, code)) (check_case (snd ic))) cases.

(* ---------------------------------------------------------------- mode c05: routing of fan-out records *)

(* every keyed event an operator received, as (key, index of that operator); [produced] = number of keyed events the
   key-by handler produced *)
Inductive case05 := RK (nops kgc produced : N) (evs : list (list N * N)).

Definition check_case05 (c : case05) : list N :=
  match c with
  | RK nops kgc produced evs =>
      let ranges := kg_ranges kgc nops in
      (* model: the operator index is the router's range_index *)
      (if forallb (fun ko => snd ko =? range_index kgc nops (fst ko)) evs then [] else [50]) ++
      (if N.of_nat (length evs) =? produced then [] else [51]) ++
      (* spec: the receiving operator's key-group range contains murmur(key) mod count *)
      (if forallb (fun ko => includes_kg (nth (N.to_nat (snd ko)) ranges (0, 0)) (murmur_hash (fst ko) 0 mod kgc)) evs
       then [] else [150])
  end.

Definition run05 (cases : list (N * case05)) : list (N * N) :=
  flat_map (fun ic => map (fun code => (fst ic, code)) (check_case05 (snd ic))) cases.
