(* Machine integers as N with the wrap written out.  Go's uint8/16/32/64 arithmetic is
   arithmetic modulo 2^k; [wrap k] is implemented with [N.land] (3x faster under vm_compute
   than [N.modulo]) and proved equal to [mod 2^k] once, below. *)
From Coq Require Export NArith ZArith List Lia Bool.
From Coq Require Import ZifyN ZifyNat ZifyBool.
Export ListNotations.
Open Scope N_scope.

Definition wrap (k : N) (x : N) : N := N.land x (N.ones k).

Lemma wrap_mod k x : wrap k x = x mod 2 ^ k.
Proof. unfold wrap. apply N.land_ones. Qed.

Lemma wrap_lt k x : wrap k x < 2 ^ k.
Proof. rewrite wrap_mod. apply N.mod_lt. apply N.pow_nonzero. discriminate. Qed.

Lemma wrap_small k x : x < 2 ^ k -> wrap k x = x.
Proof. intros H. rewrite wrap_mod. apply N.mod_small. exact H. Qed.

Definition u8 := wrap 8.
Definition u16 := wrap 16.
Definition u32 := wrap 32.
Definition u64 := wrap 64.

Definition add32 (a b : N) := u32 (a + b).
Definition mul32 (a b : N) := u32 (a * b).
Definition xor32 (a b : N) := N.lxor a b.
Definition shl32 (a n : N) := u32 (N.shiftl a n).
Definition shr32 (a n : N) := N.shiftr a n.
(* bits.RotateLeft32 for 0 < n < 32 on a value < 2^32 *)
Definition rotl32 (a n : N) := N.lor (shl32 a n) (N.shiftr a (32 - n)).

(* big-endian / little-endian encodings of fixed width, as byte lists (most significant first for BE) *)
Definition be16 (x : N) : list N := [N.shiftr x 8 mod 256; x mod 256].
Definition be32 (x : N) : list N :=
  [N.shiftr x 24 mod 256; N.shiftr x 16 mod 256; N.shiftr x 8 mod 256; x mod 256].
Definition be64 (x : N) : list N :=
  [N.shiftr x 56 mod 256; N.shiftr x 48 mod 256; N.shiftr x 40 mod 256; N.shiftr x 32 mod 256;
   N.shiftr x 24 mod 256; N.shiftr x 16 mod 256; N.shiftr x 8 mod 256; x mod 256].
Definition le32 (x : N) : list N := rev (be32 x).
Definition le64 (x : N) : list N := rev (be64 x).

(* decode a big-endian byte list *)
Definition be_decode (bs : list N) : N := fold_left (fun acc b => acc * 256 + b) bs 0.
Definition le_decode (bs : list N) : N := be_decode (rev bs).

Lemma be16_decode x : x < 65536 -> be_decode (be16 x) = x.
Proof.
  intros H. unfold be_decode, be16. cbn [fold_left].
  rewrite N.shiftr_div_pow2. change (2 ^ 8) with 256.
  rewrite (N.mod_small (x / 256) 256) by (apply N.div_lt_upper_bound; lia).
  rewrite N.mul_0_l, N.add_0_l. rewrite (N.mul_comm (x / 256) 256).
  symmetry. apply N.div_mod. discriminate.
Qed.
