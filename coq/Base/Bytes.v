(* Byte strings: [list N] whose elements are < 256; lexicographic order = Go's bytes.Compare;
   [is_prefix] = bytes.HasPrefix. *)
From RV Require Export Base.Mach.
Open Scope N_scope.

Definition bytes := list N.
Definition wf_bytes (b : bytes) : Prop := Forall (fun x => x < 256) b.
Definition wf_bytesb (b : bytes) : bool := forallb (fun x => x <? 256) b.

Fixpoint bcmp (a b : bytes) : comparison :=
  match a, b with
  | [], [] => Eq
  | [], _ :: _ => Lt
  | _ :: _, [] => Gt
  | x :: a', y :: b' => match x ?= y with Eq => bcmp a' b' | c => c end
  end.

Definition bltb (a b : bytes) : bool := match bcmp a b with Lt => true | _ => false end.
Definition bleb (a b : bytes) : bool := match bcmp a b with Gt => false | _ => true end.
Definition beqb (a b : bytes) : bool := match bcmp a b with Eq => true | _ => false end.

Fixpoint is_prefix (p b : bytes) : bool :=
  match p, b with
  | [], _ => true
  | _ :: _, [] => false
  | x :: p', y :: b' => (x =? y) && is_prefix p' b'
  end.

Lemma bcmp_refl a : bcmp a a = Eq.
Proof. induction a as [|x a IH]; cbn; [reflexivity|]. rewrite N.compare_refl. exact IH. Qed.

Lemma bcmp_eq a b : bcmp a b = Eq <-> a = b.
Proof.
  split.
  - revert b; induction a as [|x a IH]; intros [|y b]; cbn; try discriminate; [reflexivity|].
    destruct (x ?= y) eqn:E; try discriminate. apply N.compare_eq in E. intros H. f_equal; auto.
  - intros ->. apply bcmp_refl.
Qed.

Lemma bcmp_antisym a b : bcmp b a = CompOpp (bcmp a b).
Proof.
  revert b; induction a as [|x a IH]; intros [|y b]; cbn; try reflexivity.
  rewrite (N.compare_antisym x y). destruct (x ?= y); cbn; auto.
Qed.

Lemma bcmp_lt_trans a b c : bcmp a b = Lt -> bcmp b c = Lt -> bcmp a c = Lt.
Proof.
  revert b c; induction a as [|x a IH]; intros [|y b] [|z c]; cbn; try discriminate; try reflexivity.
  destruct (x ?= y) eqn:Exy; try discriminate.
  - apply N.compare_eq in Exy; subst y. destruct (x ?= z); try discriminate; eauto.
  - intros _. destruct (y ?= z) eqn:Eyz; try discriminate.
    + apply N.compare_eq in Eyz; subst z. rewrite Exy. reflexivity.
    + intros _. rewrite N.compare_lt_iff in *. assert (x < z) by lia.
      rewrite (proj2 (N.compare_lt_iff x z)); auto.
Qed.

Lemma beqb_eq a b : beqb a b = true <-> a = b.
Proof. unfold beqb. rewrite <- bcmp_eq. destruct (bcmp a b); split; congruence. Qed.

Lemma is_prefix_app p b : is_prefix p (p ++ b) = true.
Proof. induction p as [|x p IH]; cbn; [reflexivity|]. rewrite N.eqb_refl. exact IH. Qed.

Lemma is_prefix_spec p b : is_prefix p b = true <-> exists s, b = p ++ s.
Proof.
  split.
  - revert b; induction p as [|x p IH]; intros b H; cbn in *.
    + exists b; reflexivity.
    + destruct b as [|y b]; [discriminate|]. apply andb_true_iff in H as [H1 H2].
      apply N.eqb_eq in H1; subst y. destruct (IH _ H2) as [s ->]. exists s; reflexivity.
  - intros [s ->]. apply is_prefix_app.
Qed.
