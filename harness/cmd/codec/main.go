// engine codec: pure functions and codecs of the real code (partitioning, murmur, key encoders).
// mode c05: key-group ranges, key -> group -> range index, router index, stored-key encodings, ownership.
package main

import (
	"context"
	"encoding/json"
	"fmt"
	"time"

	"reduction.dev/reduction/partitioning"
	"reduction.dev/reduction/proto"
	"reduction.dev/reduction/proto/jobpb"
	"reduction.dev/reduction/proto/workerpb"
	"reduction.dev/reduction/workers/operator"
	"reduction.dev/reduction/workers/sourcerunner"
	"verifharness/hx"
)

type eng struct{}

func (eng) Name() string { return "codec" }
func (eng) CoqRequire(mode string) string {
	return "From RV Require Import Model.KeyCodec Corr.Check_c05."
}
func (eng) CoqCaseType(mode string) string { return "Check_c05.case" }
func (eng) CoqRun(mode string) string      { return "Check_c05.run" }
func (eng) Rule(mode string) string {
	return "KS cases: every (count,n) with count<=40, n<=count+3 exhaustively, plus boundary and random larger configurations; KeyC cases: random keys (length 0..70, every tail length mod 4, low-entropy and binary), random namespaces/data/timestamps (incl. pre-epoch), every operator as 'own'. Non-trivial: count>1 and n>1 (more than one range and group); distinct by hash of the case parameters."
}

type deployStep struct {
	N   int `json:"n"`
	Own int `json:"own"`
}

type ksOp struct {
	Kind    string       `json:"kind"` // "ks" | "key" | "deploy"
	Deploys []deployStep `json:"deploys,omitempty"`
	Keys    [][]byte     `json:"keys,omitempty"`
	Count   int          `json:"count"`
	N       int          `json:"n"`
	Own     int          `json:"own,omitempty"`
	Subj    []byte       `json:"subj,omitempty"`
	Ns      []byte       `json:"ns,omitempty"`
	Data    []byte       `json:"data,omitempty"`
	T       int64        `json:"t,omitempty"`
}

func mk(op ksOp) *hx.Case {
	return &hx.Case{Name: op.Kind, Params: map[string]any{"mode": "c05"}, Ops: []json.RawMessage{hx.Op(op)}}
}

func randKey(r *hx.Rand) []byte {
	switch r.Intn(6) {
	case 0:
		return []byte{}
	case 1: // low entropy
		n := r.Intn(12)
		b := make([]byte, n)
		for i := range b {
			b[i] = byte(r.Intn(3)) * 0x7f
		}
		return b
	case 2: // ascii
		n := r.Intn(20)
		b := make([]byte, n)
		for i := range b {
			b[i] = byte('a' + r.Intn(26))
		}
		return b
	default:
		return r.Bytes(r.Intn(71))
	}
}

func (eng) Generate(mode, tier string, r *hx.Rand) []*hx.Case {
	var cs []*hx.Case
	maxSmall := 40
	nkeys := 1500
	if tier == "thorough" {
		maxSmall = 120
		nkeys = 12000
	}
	for count := 1; count <= maxSmall; count++ {
		for n := 1; n <= count+3; n++ {
			cs = append(cs, mk(ksOp{Kind: "ks", Count: count, N: n}))
		}
	}
	for _, cn := range [][2]int{{65535, 1}, {65535, 2}, {65535, 7}, {65535, 256}, {256, 3}, {1024, 1000}, {32768, 5}, {7919, 13}, {3, 300}} {
		cs = append(cs, mk(ksOp{Kind: "ks", Count: cn[0], N: cn[1]}))
	}
	for i := 0; i < 40; i++ {
		count := r.Range(1, 65535)
		n := r.Range(1, 300)
		if r.Chance(1, 4) {
			n = r.Range(1, 3000)
		}
		cs = append(cs, mk(ksOp{Kind: "ks", Count: count, N: n}))
	}
	// a live operator redeployed into assemblies of different sizes (same process)
	ndeploy := 24
	if tier == "thorough" {
		ndeploy = 150
	}
	for i := 0; i < ndeploy; i++ {
		count := Pick3(r, 256, r.Range(2, 64), r.Range(2, 1024))
		if i%4 == 3 {
			count = r.Range(1, 4) // fewer key groups than operators: some operators own an empty range
		}
		steps := make([]deployStep, r.Range(2, 4))
		for j := range steps {
			n := r.Range(1, 6)
			steps[j] = deployStep{N: n, Own: r.Intn(n)}
		}
		keys := make([][]byte, 12)
		for j := range keys {
			keys[j] = randKey(r)
		}
		cs = append(cs, mk(ksOp{Kind: "deploy", Count: count, Deploys: steps, Keys: keys}))
	}
	for i := 0; i < nkeys; i++ {
		var count, n int
		switch r.Intn(5) {
		case 0:
			count, n = r.Range(1, 8), r.Range(1, 10)
		case 1:
			count, n = 65535, r.Range(1, 64)
		case 2:
			count, n = r.Range(1, 65535), r.Range(1, 2000)
		default:
			count, n = r.Range(2, 512), r.Range(2, 16)
		}
		own := r.Intn(n)
		var t int64
		switch r.Intn(6) {
		case 0:
			t = 0
		case 1:
			t = -int64(r.U64() >> 2) // before the epoch
		case 2:
			t = int64(r.U64() >> 1)
		default:
			t = int64(r.Intn(4000)) * 1_000_000_000
		}
		ns := r.Bytes(r.Intn(6))
		if r.Chance(1, 20) {
			ns = r.Bytes(255)
		}
		cs = append(cs, mk(ksOp{Kind: "key", Count: count, N: n, Own: own, Subj: randKey(r), Ns: ns, Data: r.Bytes(r.Intn(10)), T: t}))
	}
	return cs
}

func Pick3(r *hx.Rand, a, b, c int) int {
	switch r.Intn(3) {
	case 0:
		return a
	case 1:
		return b
	}
	return c
}

type fakeJob struct{ proto.UnimplementedJob }

func (fakeJob) RegisterOperator(ctx context.Context, id *jobpb.NodeIdentity) error   { return nil }
func (fakeJob) DeregisterOperator(ctx context.Context, id *jobpb.NodeIdentity) error { return nil }

func runDeploy(op ksOp) (*hx.Result, error) {
	opr := operator.NewOperator(operator.NewOperatorParams{
		ID: "op-self", Host: "h", Job: fakeJob{}, UserHandler: nil,
		NeighborOperatorFactory: func(senderID string, node *jobpb.NodeIdentity) proto.Operator { return &fakeOp{} },
	})
	ctx, cancel := context.WithCancel(context.Background())
	done := make(chan error, 1)
	go func() { done <- opr.Start(ctx) }()
	var items []string
	var obs []any
	for di, d := range op.Deploys {
		ids := make([]*jobpb.NodeIdentity, d.N)
		for i := range ids {
			ids[i] = &jobpb.NodeIdentity{Id: fmt.Sprintf("op-%d", i), Host: "h"}
		}
		ids[d.Own] = &jobpb.NodeIdentity{Id: "op-self", Host: "h"}
		if err := opr.HandleDeploy(ctx, &workerpb.DeployOperatorRequest{
			Operators: ids, SourceRunnerIds: []string{"sr1"}, KeyGroupCount: int32(op.Count),
			StorageLocation: fmt.Sprintf("memory://c05-deploy-%d", di),
		}, nil); err != nil {
			cancel()
			return nil, err
		}
		rng := opr.VerifKeyGroupRange()
		var ks []string
		for _, k := range op.Keys {
			dbk := opr.VerifStateDBKey(k, "", nil)
			tk := opr.VerifTimerDBKey(k, time.Unix(0, 0))
			ks = append(ks, fmt.Sprintf("(%s, %s, %s, %s, %s)", hx.CoqBytes(k), hx.CoqBytes(dbk), hx.CoqBytes(tk),
				hx.CoqBool(operator.VerifOwnsKey(rng, dbk)), hx.CoqBool(operator.VerifOwnsKey(rng, tk))))
		}
		// timers persisted for owned keys must be found again when a fresh timer store reloads the operator's range
		lost := 0
		router := partitioning.NewKeySpace(op.Count, d.N)
		db := opr.VerifDKV()
		for ki, k := range op.Keys {
			if router.RangeIndex(k) != d.Own {
				continue
			}
			at := time.Unix(int64(1+ki), 0)
			operator.NewTimerStore(db, router, rng, 1<<20).Put(k, at)
			reload := operator.NewTimerStore(db, router, rng, 1<<20)
			tm, ok := reload.GetEarliest()
			if !ok || string(tm.Key) != string(k) || !tm.Timestamp.Equal(at) {
				lost++
			}
			if ok {
				reload.Pop()
			}
		}
		items = append(items, fmt.Sprintf("(%d, %d, (%d, %d), %d, %s)", d.N, d.Own, rng.Start, rng.End, lost, hx.CoqList(ks, "bytes * bytes * bytes * bool * bool")))
		obs = append(obs, map[string]any{"n": d.N, "own": d.Own, "range": [2]int{rng.Start, rng.End}, "timers_lost_on_reload": lost})
	}
	opr.Stop()
	cancel()
	<-done
	term := fmt.Sprintf("DeployC %d %s", op.Count, hx.CoqList(items, "N * N * (N * N) * N * list (bytes * bytes * bytes * bool * bool)"))
	return &hx.Result{Term: term, Nontrivial: true, Tags: []string{"deploy", fmt.Sprintf("deploys=%d", len(op.Deploys))}, Observed: obs}, nil
}

type fakeOp struct {
	proto.UnimplementedOperator
}

func (eng) Execute(mode string, c *hx.Case) (*hx.Result, error) {
	var op ksOp
	if len(c.Ops) != 1 {
		return nil, fmt.Errorf("c05 case needs exactly one op")
	}
	if err := json.Unmarshal(c.Ops[0], &op); err != nil {
		return nil, err
	}
	if op.Kind == "deploy" {
		return runDeploy(op)
	}
	ks := partitioning.NewKeySpace(op.Count, op.N)
	switch op.Kind {
	case "ks":
		rs := ks.KeyGroupRanges()
		items := make([]string, len(rs))
		obs := make([][2]int, len(rs))
		for i, r := range rs {
			items[i] = hx.CoqPair(hx.CoqN(uint64(r.Start)), hx.CoqN(uint64(r.End)))
			obs[i] = [2]int{r.Start, r.End}
		}
		term := fmt.Sprintf("KS %d %d %s", op.Count, op.N, hx.CoqList(items, "N * N"))
		var o any = obs
		if len(obs) > 12 {
			o = map[string]any{"n_ranges": len(obs), "first": obs[:3], "last": obs[len(obs)-3:]}
		}
		return &hx.Result{Term: term, Nontrivial: op.Count > 1 && op.N > 1, Tags: []string{"ks", sizeTag("count", op.Count), nTag(op.Count, op.N)}, Observed: o}, nil
	case "key":
		ctx, cancel := context.WithCancel(context.Background())
		defer cancel()
		kg := ks.KeyGroup(op.Subj)
		ridx := ks.RangeIndex(op.Subj)
		ops := make([]proto.Operator, op.N)
		if op.N <= 64 {
			for i := range ops {
				ops[i] = &fakeOp{}
			}
		}
		route := ridx
		if op.N <= 64 {
			route = sourcerunner.VerifRouteIndex(ctx, op.Count, ops, op.Subj)
		} else {
			route = partitioning.NewKeySpace(op.Count, op.N).RangeIndex(op.Subj)
		}
		dbk := operator.VerifEncodeDBKey(ks, op.Subj, string(op.Ns), op.Data)
		sk := operator.VerifEncodeSubjectKey(ks, op.Subj)
		tk := operator.VerifEncodeTimerKey(ks, op.Subj, time.Unix(0, op.T))
		rng := ks.KeyGroupRanges()[op.Own]
		ownsDB := operator.VerifOwnsKey(rng, dbk)
		ownsT := operator.VerifOwnsKey(rng, tk)
		term := fmt.Sprintf("KeyC %d %d %d %s %s %s %s %d %d %d %s %s %s %s %s",
			op.Count, op.N, op.Own, hx.CoqBytes(op.Subj), hx.CoqBytes(op.Ns), hx.CoqBytes(op.Data), hx.CoqZ(op.T),
			kg, ridx, route, hx.CoqBytes(dbk), hx.CoqBytes(sk), hx.CoqBytes(tk), hx.CoqBool(ownsDB), hx.CoqBool(ownsT))
		return &hx.Result{Term: term, Nontrivial: op.Count > 1 && op.N > 1,
			Tags:     []string{"key", fmt.Sprintf("keylen_mod4=%d", len(op.Subj)%4), sizeTag("count", op.Count), nTag(op.Count, op.N), fmt.Sprintf("owns=%v", ownsDB)},
			Observed: map[string]any{"kg": kg, "range_index": ridx, "route": route, "dbkey": dbk, "timerkey": tk, "owns": ownsDB}}, nil
	}
	return nil, fmt.Errorf("unknown kind %q", op.Kind)
}

func sizeTag(name string, v int) string {
	switch {
	case v == 1:
		return name + "=1"
	case v <= 8:
		return name + "<=8"
	case v <= 512:
		return name + "<=512"
	case v < 65535:
		return name + "<65535"
	default:
		return name + "=65535"
	}
}
func nTag(count, n int) string {
	switch {
	case n > count:
		return "n>count"
	case count%n == 0:
		return "n|count"
	default:
		return "n∤count"
	}
}

func main() { hx.Main(eng{}) }
