// engine runner: the whole REAL workers/sourcerunner.SourceRunner in-process.
//
// mode c04: a scripted SourceReader (several splits, records with ids), a fake key-by handler whose
// KeyEventBatch calls complete in an order the harness controls (gates, no sleeps), recording fake operators
// with harness-controlled back-pressure, batch sizes 0..n, time-outs realised by one harness timer per batcher (the
// script says when a timer expires and when its callback runs - at once or late, after the batch was handed out on
// size and the next one started; Stop cancels only what has not expired, like time.AfterFunc), by the real
// SystemTimer with a tiny delay, or absent (delay 0). Between two script steps the harness waits until every
// goroutine of the process is blocked (a barrier, not a sleep), so the stimuli are applied in a reproducible order;
// what remains nondeterministic (Go's select among ready channels, goroutine interleaving inside one step) only
// changes batch boundaries, never the per-operator streams the property speaks about.
//
// Observables: for every operator the sequence of HandleEventBatch arguments; the order in which the read loop
// obtained records / took checkpoints / consumed watermark ticks (from the scripted reader).
package main

import (
	"bytes"
	"context"
	"encoding/binary"
	"encoding/json"
	"errors"
	"fmt"
	"io"
	"log/slog"
	"runtime"
	"strings"
	"sync"
	"time"

	"google.golang.org/protobuf/types/known/timestamppb"
	"reduction.dev/reduction-protocol/handlerpb"
	"reduction.dev/reduction-protocol/jobconfigpb"
	"reduction.dev/reduction/batching"
	"reduction.dev/reduction/clocks"
	"reduction.dev/reduction/connectors"
	"reduction.dev/reduction/proto"
	"reduction.dev/reduction/proto/jobpb"
	"reduction.dev/reduction/proto/workerpb"
	"reduction.dev/reduction/workers/sourcerunner"
	"verifharness/hx"
)

// ---------------------------------------------------------------- quiescence barrier

func allBlocked(dump []byte) bool {
	first := true
	for _, line := range bytes.Split(dump, []byte("\n")) {
		if !bytes.HasPrefix(line, []byte("goroutine ")) {
			continue
		}
		a := bytes.IndexByte(line, '[')
		b := bytes.IndexByte(line, ']')
		if a < 0 || b < a {
			continue
		}
		if first { // the caller
			first = false
			continue
		}
		st := string(line[a+1 : b])
		if strings.HasPrefix(st, "running") || strings.HasPrefix(st, "runnable") || strings.HasPrefix(st, "syscall") || strings.HasPrefix(st, "sleep") {
			return false
		}
	}
	return true
}

var stackBuf = make([]byte, 1<<18)

// quiesce returns when every goroutine other than the caller is blocked on a channel / mutex / select.
func quiesce() {
	for {
		runtime.Gosched()
		n := runtime.Stack(stackBuf, true)
		if n == len(stackBuf) {
			stackBuf = make([]byte, 2*len(stackBuf))
			continue
		}
		if allBlocked(stackBuf[:n]) {
			runtime.Gosched()
			n = runtime.Stack(stackBuf, true)
			if n < len(stackBuf) && allBlocked(stackBuf[:n]) {
				return
			}
		}
		// no bound of its own: a system that never settles is reported by hx's no-progress detector
	}
}

// ---------------------------------------------------------------- case format

type recJ struct {
	ID    uint64   `json:"id"`
	Split int      `json:"split"`
	Keys  []string `json:"keys"`            // the key-by result: one keyed event per entry (may be empty)
	KBErr string   `json:"kberr,omitempty"` // the KeyEventBatch call containing this record fails with: plain (errors.New) | canceled (wraps context.Canceled) | deadline (wraps context.DeadlineExceeded); the runner's own context stays alive
	Short int      `json:"short,omitempty"` // 1: the record's bytes are empty, 2: a single byte (the id's low byte); else a JSON payload
}
type opJ struct {
	Op    string `json:"op"` // read | eoi (last chunk, returned with ErrEndOfInput) | readerr (a read that fails: retryable / terminal) | barrier | tick | fire / expire / deliver (which: all|new|old) | relkb | holdop | relop
	Recs  []recJ `json:"recs,omitempty"`
	ID    uint64 `json:"id,omitempty"`
	I     int    `json:"i,omitempty"`
	Which string `json:"which,omitempty"` // relkb: old | new | all
	Err   string `json:"err,omitempty"`   // eoi: "" plain ErrEndOfInput | wrapped (fmt.Errorf("...: %w", ErrEndOfInput)); readerr: retry | terminal
}
type params struct {
	NOps    int    `json:"nops"`
	KGC     int    `json:"kgc"`
	MaxSize int    `json:"maxsize"`
	Timer   string `json:"timer"` // none (MaxDelay 0) | fake | system
	DelayUS int    `json:"delay_us"`
	KBGate  bool   `json:"kbgate"`
	OpGate  bool   `json:"opgate"`
}

type payload struct {
	ID    uint64   `json:"i"`
	Split int      `json:"s"`
	Keys  []string `json:"k"`
	Seq   uint64   `json:"q"`
	KBErr string   `json:"e,omitempty"` // the KeyEventBatch call that contains this record fails: plain | canceled | deadline
}

// ---------------------------------------------------------------- fakes

type oev struct {
	K   string `json:"k"` // ke | wm | bar | done
	Rec uint64 `json:"rec,omitempty"`
	J   int    `json:"j,omitempty"`
	Key []byte `json:"key,omitempty"`
	ID  uint64 `json:"id,omitempty"`
	Ts  int64  `json:"ts,omitempty"`
}

type fop struct {
	proto.UnimplementedOperator
	idx     int
	mu      sync.Mutex
	gate    bool
	pending chan struct{}
	inCall  bool
	overlap bool
	batches [][]oev
	count   int
}

func (f *fop) ID() string   { return fmt.Sprintf("op-%d", f.idx) }
func (f *fop) Host() string { return "fake" }
func (f *fop) HandleEventBatch(ctx context.Context, batch []*workerpb.Event) error {
	b := make([]oev, 0, len(batch))
	for _, e := range batch {
		switch t := e.Event.(type) {
		case *workerpb.Event_KeyedEvent:
			v := t.KeyedEvent.GetValue()
			var rec uint64
			j := 0
			if len(v) == 9 {
				rec = binary.BigEndian.Uint64(v[:8])
				j = int(v[8])
			}
			b = append(b, oev{K: "ke", Rec: rec, J: j, Key: append([]byte{}, t.KeyedEvent.GetKey()...), Ts: t.KeyedEvent.GetTimestamp().AsTime().Unix()})
		case *workerpb.Event_Watermark:
			// the handler stamps record number q with time 1000+q s; the watermark is max event time - 1 ns, read here,
			// at delivery: value q = "everything up to record q", 0 = nothing yet, 1<<40 + .. = not of that form
			wt := t.Watermark.GetTimestamp().AsTime()
			var q int64
			switch {
			case wt.Nanosecond() == 999999999 && wt.Unix() >= 1000:
				q = wt.Unix() + 1 - 1000
			case wt.Equal(time.Time{}.Add(-time.Nanosecond)):
				q = 0
			default:
				q = 1<<40 + wt.Unix()&0xffffffff
			}
			b = append(b, oev{K: "wm", Ts: q})
		case *workerpb.Event_CheckpointBarrier:
			b = append(b, oev{K: "bar", ID: t.CheckpointBarrier.GetCheckpointId()})
		case *workerpb.Event_SourceComplete:
			b = append(b, oev{K: "done"})
		default:
			b = append(b, oev{K: "unknown"})
		}
	}
	f.mu.Lock()
	if f.inCall {
		f.overlap = true
	}
	f.inCall = true
	f.batches = append(f.batches, b)
	f.count += len(b)
	var rel chan struct{}
	if f.gate {
		rel = make(chan struct{})
		f.pending = rel
	}
	f.mu.Unlock()
	if rel != nil {
		<-rel
	}
	f.mu.Lock()
	f.inCall = false
	f.mu.Unlock()
	return nil
}
func (f *fop) release() bool {
	f.mu.Lock()
	defer f.mu.Unlock()
	if f.pending != nil {
		close(f.pending)
		f.pending = nil
		return true
	}
	return false
}
func (f *fop) open() bool {
	f.mu.Lock()
	f.gate = false
	f.mu.Unlock()
	return f.release()
}

type kbCall struct {
	idx int
	rel chan struct{}
}

// shortTab: records whose bytes are too short to carry a payload (length 0 or 1), by content
type shortTab struct {
	mu sync.Mutex
	m  map[string]payload
}

func (t *shortTab) get(k string) (payload, bool) {
	t.mu.Lock()
	defer t.mu.Unlock()
	p, ok := t.m[k]
	return p, ok
}

type handler struct {
	failed    int // KeyEventBatch calls that returned an error
	short     *shortTab
	mu        sync.Mutex
	gate      bool
	pending   []*kbCall
	arrivals  int
	completed []int
}

func (h *handler) ProcessEventBatch(ctx context.Context, req *handlerpb.ProcessEventBatchRequest) (*handlerpb.ProcessEventBatchResponse, error) {
	return &handlerpb.ProcessEventBatchResponse{}, nil
}
func (h *handler) KeyEventBatch(ctx context.Context, events [][]byte) ([][]*handlerpb.KeyedEvent, error) {
	h.mu.Lock()
	idx := h.arrivals
	h.arrivals++
	var c *kbCall
	if h.gate {
		c = &kbCall{idx: idx, rel: make(chan struct{})}
		h.pending = append(h.pending, c)
	}
	h.mu.Unlock()
	if c != nil {
		<-c.rel
	}
	h.mu.Lock()
	h.completed = append(h.completed, idx)
	h.mu.Unlock()
	out := make([][]*handlerpb.KeyedEvent, len(events))
	var failWith error
	defer func() {
		if failWith != nil {
			h.mu.Lock()
			h.failed++
			h.mu.Unlock()
		}
	}()
	for i, raw := range events {
		var p payload
		if len(raw) <= 1 { // a blank or one-byte record is a record like any other: the reader told us what it is
			sp, ok := h.short.get(string(raw))
			if !ok {
				return nil, fmt.Errorf("unknown short record %q", raw)
			}
			p = sp
		} else if err := json.Unmarshal(raw, &p); err != nil {
			return nil, err
		}
		switch p.KBErr {
		case "plain":
			failWith = errors.New("scripted key-by failure")
		case "canceled":
			failWith = fmt.Errorf("scripted rpc failure: %w", context.Canceled)
		case "deadline":
			failWith = fmt.Errorf("scripted rpc failure: %w", context.DeadlineExceeded)
		}
		for j, k := range p.Keys {
			v := make([]byte, 9)
			binary.BigEndian.PutUint64(v, p.ID)
			v[8] = byte(j)
			out[i] = append(out[i], &handlerpb.KeyedEvent{Key: []byte(k), Value: v, Timestamp: timestamppb.New(time.Unix(int64(1000+p.Seq), 0))})
		}
	}
	if failWith != nil { // this one call fails; the runner itself is not shutting down
		return nil, failWith
	}
	return out, nil
}
func (h *handler) release(which string) bool {
	h.mu.Lock()
	defer h.mu.Unlock()
	if len(h.pending) == 0 {
		return false
	}
	switch which {
	case "new":
		c := h.pending[len(h.pending)-1]
		h.pending = h.pending[:len(h.pending)-1]
		close(c.rel)
	case "all":
		for _, c := range h.pending {
			close(c.rel)
		}
		h.pending = nil
	default:
		c := h.pending[0]
		h.pending = h.pending[1:]
		close(c.rel)
	}
	return true
}
func (h *handler) open() bool {
	h.mu.Lock()
	h.gate = false
	h.mu.Unlock()
	return h.release("all")
}

// treg / ptimer: one clocks.Timer per batcher (the key-by batcher and every operator batcher, as each has its own
// SystemTimer in production; installed through the hook VerifSetBatchTimers). A timer has one slot like time.AfterFunc:
// Set arms it (replacing what was armed), Stop disarms it. The script decides when a timer EXPIRES: the armed callback is
// committed (taken out of the slot: Stop can no longer cancel it) and is DELIVERED (run on its own goroutine) either at once
// (op fire) or later (ops expire ... deliver): the late callback of a batch that has meanwhile been handed out on size.
type treg struct {
	mu        sync.Mutex
	auto      bool
	timers    []*ptimer
	clock     int // orders the Set calls
	committed []func()
	sets      int
	expired   int
	late      int // callbacks delivered by a deliver op (after having been committed by an earlier op)
}
type ptimer struct {
	reg   *treg
	idx   int // -1: the key-by batcher, i: operator i's batcher
	slot  func()
	setAt int
}

func (g *treg) mk(idx int) *ptimer {
	g.mu.Lock()
	defer g.mu.Unlock()
	t := &ptimer{reg: g, idx: idx}
	g.timers = append(g.timers, t)
	return t
}
func (t *ptimer) Set(d time.Duration, do func()) {
	g := t.reg
	g.mu.Lock()
	g.sets++
	g.clock++
	if g.auto { // end phase: every time-out expires right away
		g.expired++
		g.mu.Unlock()
		go do()
		return
	}
	t.slot = do
	t.setAt = g.clock
	g.mu.Unlock()
}
func (t *ptimer) Stop() {
	t.reg.mu.Lock()
	t.slot = nil
	t.reg.mu.Unlock()
}

// expire commits armed callbacks (which: "" = all, new / old = the most / least recently armed, kb / ops = of the key-by
// batcher / of the operator batchers) and
// returns them.
func (g *treg) expire(which string) []func() {
	g.mu.Lock()
	defer g.mu.Unlock()
	var sel []*ptimer
	for _, t := range g.timers {
		if t.slot == nil {
			continue
		}
		switch which {
		case "kb": // only the key-by batcher's timer
			if t.idx == -1 {
				sel = append(sel, t)
			}
		case "ops": // only the operator batchers' timers
			if t.idx >= 0 {
				sel = append(sel, t)
			}
		case "new":
			if len(sel) == 0 || t.setAt > sel[0].setAt {
				sel = []*ptimer{t}
			}
		case "old":
			if len(sel) == 0 || t.setAt < sel[0].setAt {
				sel = []*ptimer{t}
			}
		default:
			sel = append(sel, t)
		}
	}
	var out []func()
	for _, t := range sel {
		out = append(out, t.slot)
		t.slot = nil
		g.expired++
	}
	return out
}
func (g *treg) commit(fs []func()) {
	g.mu.Lock()
	g.committed = append(g.committed, fs...)
	g.mu.Unlock()
}

// deliver runs committed callbacks (which as above; in order of commitment).
func (g *treg) deliver(which string) int {
	g.mu.Lock()
	var fs []func()
	switch {
	case len(g.committed) == 0:
	case which == "new":
		fs = []func(){g.committed[len(g.committed)-1]}
		g.committed = g.committed[:len(g.committed)-1]
	case which == "old":
		fs = []func(){g.committed[0]}
		g.committed = g.committed[1:]
	default:
		fs = g.committed
		g.committed = nil
	}
	g.late += len(fs)
	g.mu.Unlock()
	for _, f := range fs {
		go f()
	}
	return len(fs)
}

// stimer: the "system" timer mode: a real timer per batcher, written like clocks.SystemTimer (Set: stop the old one,
// time.AfterFunc; Stop: stop) but counting the timers that are armed and have neither fired nor been stopped, so that the end
// of a run is established by "every goroutine is blocked and no timer is armed" instead of by waiting for a while.
type sreg struct {
	mu    sync.Mutex
	armed int
}
type stimer struct {
	reg *sreg
	cur *scur
}
type scur struct {
	t    *time.Timer
	done bool // fired or stopped (under reg.mu)
}

func (t *stimer) stopLocked() {
	if c := t.cur; c != nil && !c.done {
		c.t.Stop()
		c.done = true // if the callback is starting right now it finds done set and does nothing: exactly a Stop in time
		t.reg.armed--
	}
	t.cur = nil
}
func (t *stimer) Set(d time.Duration, do func()) {
	t.reg.mu.Lock()
	defer t.reg.mu.Unlock()
	t.stopLocked()
	c := &scur{}
	t.reg.armed++
	c.t = time.AfterFunc(d, func() {
		t.reg.mu.Lock()
		if c.done {
			t.reg.mu.Unlock()
			return
		}
		c.done = true
		t.reg.armed--
		t.reg.mu.Unlock()
		do() // this goroutine is visible to the quiescence barrier from here on
	})
	t.cur = c
}
func (t *stimer) Stop() {
	t.reg.mu.Lock()
	t.stopLocked()
	t.reg.mu.Unlock()
}
func (g *sreg) pending() int {
	g.mu.Lock()
	defer g.mu.Unlock()
	return g.armed
}

// drain: from now on every time-out expires and is delivered at once; everything armed or committed so far too.
func (g *treg) drain() {
	g.mu.Lock()
	g.auto = true
	g.mu.Unlock()
	fs := g.expire("")
	g.deliver("")
	for _, f := range fs {
		go f()
	}
}

type logItem struct {
	Kind  string   `json:"kind"` // rec | ckpt | tick
	ID    uint64   `json:"id"`
	Split int      `json:"split,omitempty"`
	Keys  []string `json:"keys,omitempty"`
}
type chunk struct {
	nop  bool
	eoi  bool   // this is the last chunk: it is returned together with ErrEndOfInput
	err  string // eoi: "" | wrapped; otherwise: retry | terminal = this read fails without records
	recs []recJ
}
type reader struct {
	sr          *sourcerunner.SourceRunner
	mu          sync.Mutex
	inbox       chan *chunk
	log         []logItem
	ckptReq     int
	ckptSeen    int
	ticks       chan time.Time
	tickPending bool
	seq         uint64
	queued      int
	seen        map[uint64]bool
	dup         bool
	spins       int
	gaveUp      bool
	atEOI       bool     // ErrEndOfInput has been reported
	handed      [][]byte // every record handed out so far
	extraReads  int      // ReadEvents calls after ErrEndOfInput was reported
	eoiErr      error
	short       *shortTab
	nshort      int
}

func (r *reader) noticeTickLocked() {
	if r.tickPending && len(r.ticks) == 0 {
		r.tickPending = false
		r.log = append(r.log, logItem{Kind: "tick"})
	}
}
func (r *reader) ReadEvents() ([][]byte, error) {
	r.mu.Lock()
	r.noticeTickLocked()
	if r.atEOI {
		// A bounded source that is asked again after it reported the end of its input starts over (like the fixture reader of
		// testrun): it hands out all its records once more. These are NOT new input: if they get delivered, records are
		// delivered twice. A correct ReadSourceChannel never comes here.
		r.extraReads++
		again := append([][]byte{}, r.handed...)
		err := r.eoiErr
		r.mu.Unlock()
		return again, err
	}
	spin := r.ckptSeen < r.ckptReq || r.tickPending
	if spin {
		r.spins++
	} else {
		r.spins = 0
	}
	if r.spins > 300 {
		// the loop's select had 300 chances to take the barrier / tick and did not: the checkpoint is not taken by the
		// loop (or not at once); stop insisting, its position is logged wherever Checkpoint() is finally called
		spin = false
		r.gaveUp = true
	}
	r.mu.Unlock()
	if spin { // a barrier / tick was requested: hand the loop back to its select until it has taken it
		return nil, nil
	}
	c, ok := <-r.inbox
	if !ok {
		return nil, connectors.ErrEndOfInput
	}
	if c.nop {
		return nil, nil
	}
	r.mu.Lock()
	defer r.mu.Unlock()
	r.queued--
	switch {
	case c.eoi:
	case c.err == "retry":
		return nil, connectors.NewRetryableError(fmt.Errorf("scripted transient read failure"))
	case c.err == "terminal":
		return nil, connectors.NewTerminalError(fmt.Errorf("scripted terminal read failure"))
	}
	out := make([][]byte, 0, len(c.recs))
	for _, rec := range c.recs {
		if r.seen[rec.ID] {
			r.dup = true
		}
		r.seen[rec.ID] = true
		r.seq++
		pl := payload{ID: rec.ID, Split: rec.Split, Keys: rec.Keys, Seq: r.seq, KBErr: rec.KBErr}
		b, _ := json.Marshal(pl)
		if rec.Short == 1 || rec.Short == 2 {
			sb := []byte{}
			if rec.Short == 2 {
				sb = []byte{byte(rec.ID)}
			}
			r.short.mu.Lock()
			if _, taken := r.short.m[string(sb)]; !taken { // one record per short content, others keep their payload
				r.short.m[string(sb)] = pl
				b = sb
				r.nshort++
			}
			r.short.mu.Unlock()
		}
		out = append(out, b)
		r.handed = append(r.handed, b)
		r.log = append(r.log, logItem{Kind: "rec", ID: rec.ID, Split: rec.Split, Keys: rec.Keys})
	}
	if c.eoi {
		r.atEOI = true
		r.eoiErr = connectors.ErrEndOfInput
		if c.err == "wrapped" {
			r.eoiErr = fmt.Errorf("scripted source exhausted: %w", connectors.ErrEndOfInput)
		}
		return out, r.eoiErr // "still return events even with the EOI error"
	}
	return out, nil
}
func (r *reader) AssignSplits(splits []*workerpb.SourceSplit) error {
	// runs on the goroutine of processEvents
	return nil
}
func (r *reader) Checkpoint() [][]byte {
	r.mu.Lock()
	defer r.mu.Unlock()
	r.noticeTickLocked()
	r.ckptSeen++
	r.log = append(r.log, logItem{Kind: "ckpt"})
	return nil
}

type fjob struct {
	proto.NoopJob
	rd *reader
}

func (j fjob) OnSourceRunnerCheckpointComplete(ctx context.Context, req *jobpb.SourceRunnerCheckpointCompleteRequest) error {
	j.rd.mu.Lock()
	defer j.rd.mu.Unlock()
	for i := len(j.rd.log) - 1; i >= 0; i-- {
		if j.rd.log[i].Kind == "ckpt" {
			j.rd.log[i].ID = req.CheckpointId
			break
		}
	}
	return nil
}

// ---------------------------------------------------------------- one run

type observed struct {
	Input      []logItem `json:"input"`
	Batches    [][][]oev `json:"batches"`
	Overlap    bool      `json:"overlap"`
	Unread     int       `json:"unread_chunks"`
	KBOrder    []int     `json:"kb_completion_order"`
	TimerSets  int       `json:"timer_sets"`
	Late       int       `json:"late_callbacks"`
	EOI        bool      `json:"end_of_input_reported"`
	Short      int       `json:"short_records"`
	Retried    bool      `json:"retryable_read_failure"`
	Aborted    bool      `json:"terminal_read_failure"`
	KBFailed   int       `json:"keyby_calls_failed"`
	Failed     bool      `json:"run_failed"` // the runner stopped by itself (an error was surfaced) before the harness tore it down
	FailedWith string    `json:"run_failed_with,omitempty"`
	ExtraReads int       `json:"reads_after_end_of_input"`
	Races      int       `json:"select_races"`
}

func runCase(p params, ops []opJ) (*observed, error) {
	if p.NOps < 1 || p.NOps > 16 || p.KGC < 1 || p.KGC > 4096 || p.MaxSize < 0 || p.MaxSize > 64 {
		return nil, fmt.Errorf("bad params %+v", p)
	}
	ft := &treg{}
	st := &shortTab{m: map[string]payload{}}
	h := &handler{gate: p.KBGate, short: st}
	rd := &reader{inbox: make(chan *chunk, len(ops)*2+8), ticks: make(chan time.Time, 1), seen: map[uint64]bool{}, short: st}
	fops := make([]*fop, p.NOps)
	nodes := make([]*jobpb.NodeIdentity, p.NOps)
	for i := range fops {
		fops[i] = &fop{idx: i, gate: p.OpGate}
		nodes[i] = &jobpb.NodeIdentity{Id: fmt.Sprintf("%d", i), Host: "fake"}
	}
	bp := batching.EventBatcherParams{MaxSize: p.MaxSize}
	switch p.Timer {
	case "fake":
		bp.MaxDelay = time.Hour // the timers are installed after HandleDeploy, one per batcher
	case "system":
		d := p.DelayUS
		if d < 1 {
			d = 1
		}
		bp.MaxDelay = time.Duration(d) * time.Microsecond
	case "none", "":
	default:
		return nil, fmt.Errorf("bad timer mode %q", p.Timer)
	}
	var sr *sourcerunner.SourceRunner
	sr = sourcerunner.New(sourcerunner.NewParams{
		Host:        "h",
		UserHandler: h,
		Job:         fjob{rd: rd},
		Clock:       clocks.NewFrozenClock(),
		OperatorFactory: func(senderID string, node *jobpb.NodeIdentity) proto.Operator {
			var i int
			fmt.Sscanf(node.Id, "%d", &i)
			return fops[i]
		},
		SourceReaderFactory: func(*jobconfigpb.Source) connectors.SourceReader {
			// HandleDeploy calls this after it created the 200 ms wall-clock watermark ticker and before it starts the
			// goroutine of processEvents: replacing the ticker here (same goroutine, before the `go`) means no real tick can
			// ever be taken, however late the harness gets to its next step
			sr.VerifSetWatermarkTicks(rd.ticks)
			return rd
		},
		EventBatching: bp,
	})
	rd.sr = sr
	ctx, cancel := context.WithCancel(context.Background())
	var startErr error
	startDone := make(chan struct{})
	go func() { startErr = sr.Start(ctx); close(startDone) }()
	runEnded := func() bool { // Start returns only when the runner stops: before the teardown that means the run FAILED
		select {
		case <-startDone:
			return true
		default:
			return false
		}
	}
	if err := sr.HandleDeploy(ctx, &workerpb.DeploySourceRunnerRequest{Operators: nodes, KeyGroupCount: int32(p.KGC), Sources: []*jobconfigpb.Source{{}}}); err != nil {
		cancel()
		return nil, err
	}
	sysT := &sreg{}
	switch p.Timer {
	case "fake":
		sr.VerifSetBatchTimers(func(i int) clocks.Timer { return ft.mk(i) })
	case "system":
		sr.VerifSetBatchTimers(func(i int) clocks.Timer { return &stimer{reg: sysT} })
	}
	if err := sr.HandleAssignSplits([]*workerpb.SourceSplit{{SplitId: "s0"}, {SplitId: "s1"}, {SplitId: "s2"}}); err != nil {
		cancel()
		return nil, err
	}
	quiesce()

	obs := &observed{}
	eoiSent := false
	retried, aborted := false, false
	for _, op := range ops {
		switch op.Op {
		case "read", "eoi": // eoi: the last chunk (possibly empty), returned with ErrEndOfInput; later reads are void
			if eoiSent {
				break
			}
			rd.mu.Lock()
			rd.queued++
			rd.mu.Unlock()
			eoiSent = op.Op == "eoi"
			rd.inbox <- &chunk{recs: op.Recs, eoi: eoiSent, err: op.Err}
		case "readerr": // this read fails: retry = retryable (logged, read again after the back-off), terminal = the loop gives up
			if eoiSent || (op.Err != "retry" && op.Err != "terminal") {
				break
			}
			rd.mu.Lock()
			rd.queued++
			rd.mu.Unlock()
			if op.Err == "retry" {
				retried = true
			} else {
				aborted = true
				eoiSent = true
			}
			rd.inbox <- &chunk{err: op.Err}
		case "barrier":
			// HandleStartCheckpoint returns once the barrier sits in the runner's (one-slot) channel; only then the reader is
			// told to keep handing the loop back to its select, so every round really has the barrier to choose
			done := make(chan struct{})
			go func() { sr.HandleStartCheckpoint(ctx, op.ID); close(done) }()
			quiesce()
			select {
			case <-done:
				rd.mu.Lock()
				rd.ckptReq++
				rd.mu.Unlock()
				rd.inbox <- &chunk{nop: true}
			default:
				// the previous barrier has not been taken yet (cannot happen with a loop that takes barriers itself): this one
				// stays behind it and is logged when and if it is taken
			}
		case "tick":
			rd.mu.Lock()
			rd.noticeTickLocked() // after the end of input nobody calls the reader any more
			sent := false
			if !rd.tickPending {
				rd.ticks <- time.Unix(0, 0)
				rd.tickPending = true
				sent = true
			}
			rd.mu.Unlock()
			if sent {
				rd.inbox <- &chunk{nop: true}
			}
		case "fire": // expire and deliver at once
			for _, f := range ft.expire(op.Which) {
				go f()
			}
		case "expire": // the time-out expires, its callback is on its way but has not run yet
			ft.commit(ft.expire(op.Which))
		case "deliver": // a callback committed earlier runs now (late)
			ft.deliver(op.Which)
		case "relkb":
			h.release(op.Which)
		case "relop":
			if op.I >= 0 && op.I < len(fops) {
				// the regime of interest: the joiner waits with a full batch while a time-out token is waiting too
				fops[op.I].open()
			}
		case "holdop":
			if op.I >= 0 && op.I < len(fops) {
				fops[op.I].mu.Lock()
				fops[op.I].gate = true
				fops[op.I].mu.Unlock()
			}
		default:
			cancel()
			return nil, fmt.Errorf("unknown op %q", op.Op)
		}
		quiesce()
	}

	// end phase: open every gate, let every timer fire, until nothing is pending
	h.open()
	for _, f := range fops {
		f.open()
	}
	ft.drain()
	quiesce()
	// Nothing below has a deadline. Two things in the code under test are driven by the wall clock, and for both the end is
	// established by the event itself: (1) after a retryable read failure ReadSourceChannel backs off (100 ms * 2^failures):
	// wait until the loop has come back for every chunk the script queued (unless the run ended: nobody reads any more);
	// (2) real batch time-outs ("system" mode): wait until no timer is armed and every goroutine is blocked - then nothing
	// can move any more. A pipeline that is wedged for good is hx's business (no-progress detector), not a verdict made here.
	for {
		rd.mu.Lock()
		q := rd.queued
		rd.mu.Unlock()
		if !(retried && q > 0 && !runEnded()) && sysT.pending() == 0 {
			quiesce()
			rd.mu.Lock()
			q = rd.queued
			rd.mu.Unlock()
			if !(retried && q > 0 && !runEnded()) && sysT.pending() == 0 {
				break
			}
		}
		time.Sleep(200 * time.Microsecond) // pacing only
	}

	rd.mu.Lock()
	rd.noticeTickLocked()
	obs.Input = append([]logItem{}, rd.log...)
	obs.EOI = rd.atEOI
	obs.ExtraReads = rd.extraReads
	obs.Short = rd.nshort
	obs.Retried = retried
	obs.Aborted = aborted
	h.mu.Lock()
	obs.KBFailed = h.failed
	h.mu.Unlock()
	if obs.Failed = runEnded(); obs.Failed && startErr != nil {
		obs.FailedWith = startErr.Error()
	}
	obs.Unread = rd.queued
	dup := rd.dup
	rd.mu.Unlock()
	for _, f := range fops {
		f.mu.Lock()
		obs.Batches = append(obs.Batches, append([][]oev{}, f.batches...))
		obs.Overlap = obs.Overlap || f.overlap
		f.mu.Unlock()
	}
	h.mu.Lock()
	obs.KBOrder = append([]int{}, h.completed...)
	h.mu.Unlock()
	ft.mu.Lock()
	obs.TimerSets = ft.sets
	obs.Late = ft.late
	ft.mu.Unlock()

	// teardown
	cancel()
	close(rd.inbox)
	stopped := false
	<-startDone // Start returns right after the cancellation (its shutdown path does not block); no deadline
	stopped = true
	if stopped {
		// the runner never closes outputStream nor stops its errChan listener: let those goroutines go, otherwise every
		// later quiescence barrier has to look at them
		quiesce()
		sr.VerifRelease()
	}
	if dup {
		return nil, fmt.Errorf("duplicate record id in the script")
	}
	return obs, nil
}

// ---------------------------------------------------------------- engine

type eng struct{}

func (eng) Name() string { return "runner" }
func (eng) CoqRequire(mode string) string {
	return "From Coq Require Import List NArith Bool.\nImport ListNotations.\nFrom RV Require Import Model.RunnerPipe Corr.Check_runner."
}
func (eng) CoqCaseType(mode string) string {
	if mode == "c05" {
		return "Check_runner.case05"
	}
	return "Check_runner.case"
}
func (eng) CoqRun(mode string) string {
	if mode == "c05" {
		return "Check_runner.run05"
	}
	return "Check_runner.run"
}
func (eng) Rule(mode string) string {
	if mode == "c05" {
		return "mode c05 (routing of fan-out records through the real SourceRunner): 2..5 operators, key-group counts 1..64 incl. fewer groups than operators, harness-fired batch time-outs (MaxDelay > 0), 4..12 records each fanning out into 1..4 keyed events with random keys (length 0..12); observable: (key, operator index) of every keyed event an operator's HandleEventBatch received. Non-trivial: a record with several keys and at least two operators reached."
	}
	return "one real SourceRunner per case: 1..4 operators, key-group counts from the operator count to 64, MaxSize 0..6, time-outs none / one harness timer per batcher (expiry and - possibly late - delivery of the callback scripted, Stop cancels what has not expired) / real (20us..2ms), 3..40 records over 1..3 splits with 0..3 keyed events each from a small key alphabet (one record in six is a zero-length or one-byte record, keyed like any other), reads that fail (retryable, then read again; terminal), in 1 of 20 cases one KeyEventBatch call that fails (plain error / wrapping context.Canceled / context.DeadlineExceeded) while the runner's context is alive, barriers and watermark ticks at generated positions, in 2 of 5 cases a bounded source (the last read returns ErrEndOfInput, plain or wrapped with %w, with or without records; a reader asked again afterwards would hand out all its records once more), gated KeyEventBatch completions released oldest/newest first, gated operators. Non-trivial: at least two operators, at least 4 keyed events, and a key that occurs in two records of one split."
}

func coqMarker(k string, id uint64) string {
	switch k {
	case "wm":
		return "Wm"
	case "bar":
		return fmt.Sprintf("(Bar %d)", id)
	default:
		return "Done"
	}
}

func (eng) Execute(mode string, c *hx.Case) (*hx.Result, error) {
	pb, _ := json.Marshal(c.Params)
	var p params
	if err := json.Unmarshal(pb, &p); err != nil {
		return nil, err
	}
	ops := make([]opJ, len(c.Ops))
	for i, raw := range c.Ops {
		if err := json.Unmarshal(raw, &ops[i]); err != nil {
			return nil, err
		}
	}
	obs, err := runCase(p, ops)
	if err != nil {
		return nil, err
	}
	// Gallina term
	var items []string
	nke := 0
	nbar, ntick := 0, 0
	sameKey := false
	seenSK := map[string]bool{}
	for _, it := range obs.Input {
		switch it.Kind {
		case "rec":
			var kvs []string
			for j, k := range it.Keys {
				kvs = append(kvs, hx.CoqPair(hx.CoqBytes([]byte(k)), hx.CoqN(uint64(j))))
				sk := fmt.Sprintf("%d/%s", it.Split, k)
				if seenSK[sk] {
					sameKey = true
				}
				nke++
			}
			for _, k := range it.Keys {
				seenSK[fmt.Sprintf("%d/%s", it.Split, k)] = true
			}
			items = append(items, fmt.Sprintf("RRec %d %d %s", it.ID, it.Split, hx.CoqList(kvs, "list N * N")))
		case "ckpt":
			nbar++
			items = append(items, fmt.Sprintf("RMark (Bar %d)", it.ID))
		case "tick":
			ntick++
			items = append(items, "RMark Wm")
		}
	}
	var opsT []string
	emptyB, partialB, fullB, maxB := 0, 0, 0, 0
	eff := p.MaxSize
	if eff == 0 {
		eff = 1
	}
	var wmT []string
	for _, bs := range obs.Batches {
		var bt []string
		var wv []string
		for _, b := range bs {
			var es []string
			for _, e := range b {
				if e.K == "wm" {
					wv = append(wv, hx.CoqN(uint64(e.Ts)))
				}
				if e.K == "ke" {
					es = append(es, fmt.Sprintf("EK %d %s", e.Rec, hx.CoqPair(hx.CoqBytes(e.Key), hx.CoqN(uint64(e.J)))))
				} else {
					es = append(es, "EM "+coqMarker(e.K, e.ID))
				}
			}
			switch {
			case len(b) == 0:
				emptyB++
			case len(b) < eff:
				partialB++
			default:
				fullB++
			}
			if len(b) > maxB {
				maxB = len(b)
			}
			bt = append(bt, hx.CoqList(es, "ev"))
		}
		opsT = append(opsT, hx.CoqList(bt, "list ev"))
		wmT = append(wmT, hx.CoqList(wv, "N"))
	}
	delayB := p.Timer == "fake" || p.Timer == "system"
	term := fmt.Sprintf("RC %d %d %d %s %s %s %s %s %s %s", p.NOps, p.KGC, p.MaxSize, hx.CoqBool(delayB),
		hx.CoqList(items, "ritem"), hx.CoqList(opsT, "list (list ev)"), hx.CoqList(wmT, "list N"), hx.CoqBool(obs.Aborted), hx.CoqBool(obs.Failed), hx.CoqBool(obs.Overlap))
	if mode == "c05" {
		// routing only: every delivered keyed event as (key, operator it arrived at)
		var kos []string
		opsHit := map[int]bool{}
		fan := false
		for i, bs := range obs.Batches {
			for _, b := range bs {
				for _, e := range b {
					if e.K == "ke" {
						kos = append(kos, hx.CoqPair(hx.CoqBytes(e.Key), hx.CoqN(uint64(i))))
						opsHit[i] = true
					}
				}
			}
		}
		for _, it := range obs.Input {
			if len(it.Keys) > 1 {
				fan = true
			}
		}
		t5 := fmt.Sprintf("RK %d %d %d %s", p.NOps, p.KGC, nke, hx.CoqList(kos, "list N * N"))
		return &hx.Result{Term: t5, Nontrivial: len(opsHit) >= 2 && fan,
			Tags:     []string{fmt.Sprintf("nops:%d", p.NOps), fmt.Sprintf("operators_hit:%d", len(opsHit)), fmt.Sprintf("kgc<nops:%v", p.KGC < p.NOps), fmt.Sprintf("fanout:%v", fan)},
			Observed: map[string]any{"delivered": len(kos), "produced": nke, "batches": obs.Batches}}, nil
	}
	ooo := false
	for i := 1; i < len(obs.KBOrder); i++ {
		if obs.KBOrder[i] < obs.KBOrder[i-1] {
			ooo = true
		}
	}
	tags := []string{"timer:" + p.Timer, fmt.Sprintf("nops:%d", p.NOps), fmt.Sprintf("maxsize:%d", p.MaxSize)}
	add := func(b bool, t string) {
		if b {
			tags = append(tags, t)
		}
	}
	add(ooo, "kb_completed_out_of_order")
	add(emptyB > 0, "empty_batch(stale token / nil hand-off)")
	add(partialB > 0, "partial_batch(time-out flush)")
	add(fullB > 0 && eff > 1, "full_batch_handoff(size>1)")
	add(nbar > 0, "barrier")
	add(ntick > 0, "tick")
	add(sameKey, "same_split_same_key_repeats")
	add(obs.Unread > 0, "unread_chunks")
	add(obs.Late > 0, "late_callback_delivered")
	add(obs.EOI, "end_of_input")
	add(obs.Short > 0, "zero_or_one_byte_record")
	add(obs.Retried, "retryable_read_failure")
	add(obs.Aborted, "terminal_read_failure")
	add(obs.KBFailed > 0, "keyby_call_failed")
	add(obs.Failed, "run_failed(error surfaced)")
	add(obs.KBFailed > 0 && !obs.Failed, "keyby_call_failed_but_run_continued")
	add(obs.ExtraReads > 0, "read_after_end_of_input")
	add(p.KBGate, "kbgate")
	add(p.OpGate, "opgate")
	return &hx.Result{Term: term, Nontrivial: p.NOps >= 2 && nke >= 4 && sameKey, Tags: tags, Observed: obs}, nil
}

// ---------------------------------------------------------------- generator

func genCase(r *hx.Rand, big bool) *hx.Case {
	p := params{}
	p.NOps = r.Range(1, 4)
	switch r.Intn(4) {
	case 0:
		p.KGC = p.NOps
	case 1:
		p.KGC = p.NOps + r.Intn(5)
	default:
		p.KGC = hx.Pick(r, []int{8, 16, 64})
	}
	if p.KGC < p.NOps {
		p.KGC = p.NOps
	}
	switch r.Intn(8) {
	case 0:
		p.MaxSize = 0
	case 1, 2:
		p.MaxSize = 1
	default:
		p.MaxSize = r.Range(2, 8)
	}
	switch r.Intn(10) {
	case 0, 1:
		p.Timer = "none"
	case 2, 3:
		p.Timer = "system"
		p.DelayUS = hx.Pick(r, []int{20, 100, 500, 2000})
	default:
		p.Timer = "fake"
	}
	p.KBGate = r.Chance(2, 3)
	p.OpGate = r.Chance(1, 2)
	nrec := r.Range(3, 14)
	if big {
		nrec = r.Range(10, 40)
	}
	alphabet := []string{"a", "b", "c", "d", "e", "kk", "x1", "zz9"}
	nalpha := r.Range(2, len(alphabet))
	nsplits := r.Range(1, 3)
	var ops []json.RawMessage
	id := uint64(1)
	bar := uint64(1)
	left := nrec
	for left > 0 {
		switch x := r.Intn(20); {
		case x < 9:
			n := r.Range(0, 4)
			if n > left {
				n = left
			}
			recs := make([]recJ, n)
			for i := range recs {
				nk := 1
				switch r.Intn(8) {
				case 0:
					nk = 0
				case 1:
					nk = 2
				case 2:
					nk = 3
				}
				ks := make([]string, nk)
				for j := range ks {
					ks[j] = alphabet[r.Intn(nalpha)]
				}
				recs[i] = recJ{ID: id, Split: r.Intn(nsplits), Keys: ks}
				if nk > 0 && r.Chance(1, 6) {
					recs[i].Short = r.Range(1, 2) // a blank / one-byte record, keyed like any other
				}
				id++
			}
			left -= n
			ops = append(ops, hx.Op(opJ{Op: "read", Recs: recs}))
		case x < 11:
			ops = append(ops, hx.Op(opJ{Op: "barrier", ID: bar}))
			bar++
		case x < 12:
			ops = append(ops, hx.Op(opJ{Op: "tick"}))
		case x < 13:
			ops = append(ops, hx.Op(opJ{Op: "fire", Which: hx.Pick(r, []string{"", "", "new", "old"})}))
		case x < 14:
			ops = append(ops, hx.Op(opJ{Op: "expire", Which: hx.Pick(r, []string{"", "new", "old"})}))
		case x < 15:
			ops = append(ops, hx.Op(opJ{Op: "deliver", Which: hx.Pick(r, []string{"", "new", "old"})}))
		case x < 18:
			ops = append(ops, hx.Op(opJ{Op: "relkb", Which: hx.Pick(r, []string{"old", "new", "new", "all"})}))
		case x < 19:
			ops = append(ops, hx.Op(opJ{Op: "holdop", I: r.Intn(p.NOps)}))
		default:
			ops = append(ops, hx.Op(opJ{Op: "relop", I: r.Intn(p.NOps)}))
		}
	}
	// a block aimed at the sender's select: every operator holds its current batch, enough records of one key arrive
	// to fill a second batch (the joiner must wait with it) and start a third, the time-outs fire, the operators let go
	if r.Chance(2, 5) {
		for i := 0; i < p.NOps; i++ {
			ops = append(ops, hx.Op(opJ{Op: "holdop", I: i}))
		}
		eff := p.MaxSize
		if eff == 0 {
			eff = 1
		}
		k := alphabet[r.Intn(nalpha)]
		sp := r.Intn(nsplits)
		// eff records (the key-by batches are full) carrying 2*eff+1 events of one key (two operator batches and one more)
		var recs []recJ
		for i := 0; i < eff; i++ {
			ks := []string{k, k}
			if i == 0 {
				ks = []string{k, k, k}
			}
			if eff == 1 {
				ks = []string{k}
			}
			recs = append(recs, recJ{ID: id, Split: sp, Keys: ks})
			id++
		}
		if eff == 1 {
			for i := 0; i < 2; i++ {
				recs = append(recs, recJ{ID: id, Split: sp, Keys: []string{k}})
				id++
			}
		}
		ops = append(ops, hx.Op(opJ{Op: "relkb", Which: "all"}), hx.Op(opJ{Op: "read", Recs: recs}), hx.Op(opJ{Op: "relkb", Which: "all"}),
			hx.Op(opJ{Op: "relkb", Which: "all"}), hx.Op(opJ{Op: "relkb", Which: "all"}), hx.Op(opJ{Op: "fire", Which: "new"}))
		if r.Bool() {
			ops = append(ops, hx.Op(opJ{Op: "barrier", ID: bar}))
			bar++
		}
		for i := 0; i < p.NOps; i++ {
			ops = append(ops, hx.Op(opJ{Op: "relop", I: i}))
		}
	}
	// a tail that exercises the select race: fire time-outs while operators hold, then release
	if r.Chance(1, 2) {
		ops = append(ops, hx.Op(opJ{Op: "fire"}), hx.Op(opJ{Op: "relkb", Which: "all"}), hx.Op(opJ{Op: "fire"}))
		for i := 0; i < p.NOps; i++ {
			ops = append(ops, hx.Op(opJ{Op: "relop", I: i}))
		}
	}
	// the late callback: the time-out of an operator batch expires (its callback is committed), the batch is filled and
	// handed out on size anyway, a further record starts the next batch, and only then the stale callback is delivered to
	// the sender goroutine; nothing else arrives, so the next batch can only leave by its own time-out
	if eff := p.MaxSize; p.Timer == "fake" && eff >= 2 && r.Chance(1, 2) {
		push := func() { // let what sits in the key-by batcher through
			ops = append(ops, hx.Op(opJ{Op: "fire"}), hx.Op(opJ{Op: "relkb", Which: "all"}))
		}
		for i := 0; i < p.NOps; i++ {
			ops = append(ops, hx.Op(opJ{Op: "relop", I: i}))
		}
		push()
		push() // batchers are empty now
		k := alphabet[r.Intn(nalpha)]
		sp := r.Intn(nsplits)
		one := func(n int) {
			ks := make([]string, n)
			for i := range ks {
				ks[i] = k
			}
			ops = append(ops, hx.Op(opJ{Op: "read", Recs: []recJ{{ID: id, Split: sp, Keys: ks}}}))
			id++
			push()
		}
		one(1)
		ops = append(ops, hx.Op(opJ{Op: "expire"}))
		one(eff - 1)
		one(1)
		ops = append(ops, hx.Op(opJ{Op: "deliver"}))
		if eff >= 3 && r.Bool() { // a barrier behind the stranded record (with MaxSize 2 it would fill the batch)
			ops = append(ops, hx.Op(opJ{Op: "barrier", ID: bar}))
			bar++
		}
	}
	// several watermark ticks with records in between, all inside operator batches that stay unsent (only the key-by
	// batcher's time-out fires): each watermark must be delivered with the value it was stamped with when it was sequenced
	if p.Timer == "fake" && p.MaxSize >= 4 && r.Chance(1, 2) {
		for i := 0; i < p.NOps; i++ {
			ops = append(ops, hx.Op(opJ{Op: "relop", I: i}))
		}
		ops = append(ops, hx.Op(opJ{Op: "fire"}), hx.Op(opJ{Op: "relkb", Which: "all"}), hx.Op(opJ{Op: "fire"}), hx.Op(opJ{Op: "relkb", Which: "all"}))
		n := r.Range(2, 3)
		for i := 0; i < n; i++ {
			ops = append(ops, hx.Op(opJ{Op: "tick"}))
			if i < n-1 || r.Bool() {
				ops = append(ops, hx.Op(opJ{Op: "read", Recs: []recJ{{ID: id, Split: r.Intn(nsplits), Keys: []string{alphabet[r.Intn(nalpha)]}}}}),
					hx.Op(opJ{Op: "fire", Which: "kb"}), hx.Op(opJ{Op: "relkb", Which: "all"}))
				id++
			}
		}
	}
	// a read that fails: retryable (one per case: each costs the channel's real back-off of 200 ms) somewhere before the last
	// read, or - rarely - terminal, after which nothing more is read
	if x := r.Intn(40); x < 2 {
		var reads []int
		for i, raw := range ops {
			var o opJ
			json.Unmarshal(raw, &o)
			if o.Op == "read" {
				reads = append(reads, i)
			}
		}
		if len(reads) >= 2 {
			at := reads[r.Intn(len(reads)-1)]
			ops = append(ops[:at+1], append([]json.RawMessage{hx.Op(opJ{Op: "readerr", Err: "retry"})}, ops[at+1:]...)...)
		}
	} else if x == 2 {
		ops = append(ops, hx.Op(opJ{Op: "readerr", Err: "terminal"}), hx.Op(opJ{Op: "fire"}))
	}
	// one key-by call fails (the runner itself is not shutting down): plain error, or one wrapping context.Canceled /
	// context.DeadlineExceeded as an RPC layer reports a call it gave up on
	if r.Chance(1, 20) {
		var reads []int
		for i, raw := range ops {
			var o opJ
			json.Unmarshal(raw, &o)
			if o.Op == "read" && len(o.Recs) > 0 {
				reads = append(reads, i)
			}
		}
		if len(reads) > 0 {
			at := reads[r.Intn(len(reads))]
			var o opJ
			json.Unmarshal(ops[at], &o)
			o.Recs[r.Intn(len(o.Recs))].KBErr = hx.Pick(r, []string{"plain", "canceled", "canceled", "deadline"})
			ops[at] = hx.Op(o)
		}
	}
	// a bounded source: the last read reports the end of input, either together with its records or in a read of its own
	if r.Chance(2, 5) {
		last := -1
		for i, raw := range ops {
			var o opJ
			json.Unmarshal(raw, &o)
			if o.Op == "read" {
				last = i
			}
		}
		if last >= 0 {
			var o opJ
			json.Unmarshal(ops[last], &o)
			werr := hx.Pick(r, []string{"", "wrapped"})
			if r.Chance(2, 3) {
				o.Op = "eoi"
				o.Err = werr
				ops[last] = hx.Op(o)
			} else {
				ops = append(ops[:last+1], append([]json.RawMessage{hx.Op(opJ{Op: "eoi", Err: werr})}, ops[last+1:]...)...)
			}
			if r.Bool() {
				ops = append(ops, hx.Op(opJ{Op: "tick"}), hx.Op(opJ{Op: "barrier", ID: bar}))
				bar++
			}
		}
	}
	pm := map[string]any{}
	b, _ := json.Marshal(p)
	json.Unmarshal(b, &pm)
	pm["mode"] = "c04"
	return &hx.Case{Name: "runner", Params: pm, Ops: ops}
}

// genC05: fan-out records with random keys, flowing freely (no gates), time-outs fired by the script
func genC05(r *hx.Rand) *hx.Case {
	p := params{Timer: "fake", MaxSize: r.Range(1, 4), NOps: r.Range(2, 5)}
	switch r.Intn(4) {
	case 0:
		p.KGC = r.Range(1, p.NOps) // as many or fewer groups than operators
	case 1:
		p.KGC = p.NOps + r.Intn(4)
	default:
		p.KGC = hx.Pick(r, []int{8, 16, 61, 64})
	}
	var ops []json.RawMessage
	id := uint64(1)
	nrec := r.Range(4, 12)
	for i := 0; i < nrec; i++ {
		nk := r.Range(1, 4)
		ks := make([]string, nk)
		for j := range ks {
			b := make([]byte, r.Intn(13))
			for x := range b {
				b[x] = byte(' ' + r.Intn(95))
			}
			ks[j] = string(b)
		}
		ops = append(ops, hx.Op(opJ{Op: "read", Recs: []recJ{{ID: id, Split: 0, Keys: ks}}}))
		id++
		if r.Chance(1, 3) {
			ops = append(ops, hx.Op(opJ{Op: "fire"}))
		}
	}
	pm := map[string]any{}
	b, _ := json.Marshal(p)
	json.Unmarshal(b, &pm)
	pm["mode"] = "c05"
	return &hx.Case{Name: "runner-c05", Params: pm, Ops: ops}
}

func (eng) Generate(mode, tier string, r *hx.Rand) []*hx.Case {
	if mode == "c05" {
		n := 60
		if tier == "thorough" {
			n = 600
		}
		var cs []*hx.Case
		for i := 0; i < n; i++ {
			cs = append(cs, genC05(r.Fork()))
		}
		return cs
	}
	n, nbig := 260, 40
	if tier == "thorough" {
		n, nbig = 3000, 500
	}
	var cs []*hx.Case
	for i := 0; i < n; i++ {
		cs = append(cs, genCase(r.Fork(), false))
	}
	for i := 0; i < nbig; i++ {
		cs = append(cs, genCase(r.Fork(), true))
	}
	return cs
}

func main() {
	slog.SetDefault(slog.New(slog.NewTextHandler(io.Discard, nil)))
	hx.Main(eng{})
}
