package main

// Instrumented storage.FileSystem: wraps one working-directory view of a shared MemoryFilesystem, logs every
// Save (create) and delete, and can be switched "dead" (crash): from then on writes, saves and deletes of this view
// have no effect on the shared file map, which is what abandoning the process at that storage operation means.

import (
	"errors"
	"fmt"
	"io"
	"io/fs"
	"strings"
	"sync"
	"sync/atomic"

	"reduction.dev/reduction/dkv/storage"
)

type fsEvent struct {
	Kind string // "create" | "delete"
	Path string // absolute path inside the shared memory file system, e.g. /d0/000001.sst
}

type fsLog struct {
	mu     sync.Mutex
	events []fsEvent
}

func (l *fsLog) add(kind, path string) {
	l.mu.Lock()
	l.events = append(l.events, fsEvent{kind, path})
	l.mu.Unlock()
}

func (l *fsLog) take() []fsEvent {
	l.mu.Lock()
	defer l.mu.Unlock()
	out := l.events
	l.events = nil
	return out
}

type vfs struct {
	root  *storage.MemoryFilesystem // the shared file system ("/")
	grave *storage.MemoryFilesystem // copies of deleted files: only dead views read them (their tasks must not panic on a missing file)
	inner *storage.MemoryFilesystem
	void  *storage.MemoryFilesystem // where files created after the crash go: a private map nobody else sees
	log   *fsLog
	dead  *atomic.Bool

	// one-shot storage faults armed by the harness for exactly one operation
	failSave   atomic.Value  // "", "ck" (checkpoints file), "wal", "sst": the next Save of such a file returns an error
	failDelete atomic.Bool   // the next Delete returns an error
	gateCk     atomic.Bool   // the next Save of the checkpoints file parks inside the commit until gateRel is closed
	gateArr    chan struct{}
	gateRel    chan struct{}
	failRead   atomic.Int64  // k+1: the k-th ReadAt (from 0) that this view does on *.wal files returns an error that is not end-of-file; 0 = off
	walReads   atomic.Int64  // ReadAt calls on *.wal files so far
	failWrite  atomic.Int64  // k+1: the k-th Write (from 0) on the next *.wal file that is written returns an error; 0 = off
	fired      chan struct{} // receives one token when an armed fault has been delivered
}

var errInjected = errors.New("injected fault: storage unavailable")

func kindOf(path string) string {
	switch {
	case strings.HasSuffix(path, "checkpoints"):
		return "ck"
	case strings.HasSuffix(path, ".wal"):
		return "wal"
	case strings.HasSuffix(path, ".sst"):
		return "sst"
	}
	return ""
}

func (v *vfs) armSave(kind string) { v.failSave.Store(kind) }
func (v *vfs) disarm() {
	v.failSave.Store("")
	v.failDelete.Store(false)
	v.failWrite.Store(0)
	v.failRead.Store(0)
	for {
		select {
		case <-v.fired:
			continue
		default:
		}
		return
	}
}

func newVFS(root, grave, inner, void *storage.MemoryFilesystem, log *fsLog) *vfs {
	v := &vfs{root: root, grave: grave, inner: inner, void: void, log: log, dead: &atomic.Bool{}, fired: make(chan struct{}, 4), gateArr: make(chan struct{}, 1)}
	v.failSave.Store("")
	return v
}

// bury keeps a copy of a file that is about to be deleted.
func (v *vfs) bury(path string) {
	data, err := io.ReadAll(&storage.Cursor{File: v.root.Open(path)})
	if err != nil {
		return
	}
	g := v.grave.New(path)
	g.Write(data)
	g.Save()
}

func uriPath(uri string) string {
	const p = "memory://"
	if len(uri) >= len(p) && uri[:len(p)] == p {
		return uri[len(p):]
	}
	return uri
}

func (v *vfs) New(path string) storage.File {
	if v.dead.Load() {
		return v.void.New(path)
	}
	return &vfile{File: v.inner.New(path), v: v}
}
func (v *vfs) Open(path string) storage.File { return &vfile{File: v.inner.Open(path), v: v} }
func (v *vfs) Copy(src, dst string) error {
	if v.dead.Load() {
		return nil
	}
	return v.inner.Copy(src, dst)
}

type vfile struct {
	storage.File
	v          *vfs
	neverSaved bool // its Save failed: the file does not exist
	writes     int64
}

func (f *vfile) Write(p []byte) (int, error) {
	if !f.v.dead.Load() && kindOf(f.File.URI()) == "wal" {
		k := f.writes
		f.writes++
		if f.v.failWrite.CompareAndSwap(k+1, 0) {
			f.neverSaved = true
			f.v.fired <- struct{}{}
			return 0, errInjected
		}
	}
	return f.File.Write(p)
}

func (f *vfile) Save() error {
	if f.v.dead.Load() {
		return nil
	}
	if k := kindOf(f.File.URI()); k != "" && f.v.failSave.CompareAndSwap(k, "") {
		f.neverSaved = true
		f.v.fired <- struct{}{}
		return errInjected
	}
	if kindOf(f.File.URI()) == "ck" && f.v.gateCk.CompareAndSwap(true, false) {
		rel := f.v.gateRel
		f.v.gateArr <- struct{}{}
		<-rel
	}
	err := f.File.Save()
	if err == nil {
		f.neverSaved = false
		f.v.log.add("create", uriPath(f.File.URI()))
	}
	return err
}

func (f *vfile) ReadAt(p []byte, off int64) (int, error) {
	if !f.v.dead.Load() && kindOf(f.File.URI()) == "wal" {
		k := f.v.walReads.Add(1) - 1
		if f.v.failRead.CompareAndSwap(k+1, 0) {
			f.v.fired <- struct{}{}
			return 0, errInjected
		}
	}
	n, err := f.File.ReadAt(p, off)
	if err != nil && errors.Is(err, storage.ErrNotFound) && f.v.dead.Load() {
		return f.v.grave.Open(uriPath(f.File.URI())).ReadAt(p, off)
	}
	return n, err
}

func (f *vfile) Delete() error {
	if f.v.dead.Load() {
		return nil
	}
	if f.v.failDelete.CompareAndSwap(true, false) {
		f.v.fired <- struct{}{}
		return errInjected
	}
	if !f.v.root.Exists(uriPath(f.File.URI())) {
		// a real file system reports a missing file (the memory file system deletes silently)
		return fmt.Errorf("remove %s: %w", f.File.URI(), fs.ErrNotExist)
	}
	if f.neverSaved {
		// like removing a path that was never created on a real file system
		return fmt.Errorf("remove %s: %w", f.File.URI(), fs.ErrNotExist)
	}
	f.v.bury(uriPath(f.File.URI()))
	f.v.log.add("delete", uriPath(f.File.URI()))
	return f.File.Delete()
}

func (f *vfile) CreateDeleteFunc() func() error {
	inner := f.File.CreateDeleteFunc()
	v := f.v
	path := uriPath(f.File.URI())
	return func() error {
		if v.dead.Load() {
			return nil
		}
		v.bury(path)
		v.log.add("delete", path)
		return inner()
	}
}

var _ storage.FileSystem = (*vfs)(nil)
