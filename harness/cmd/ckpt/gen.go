package main

import (
	"encoding/json"
	"fmt"

	"verifharness/hx"
)

// ------------------------------------------------------------------ generation

type gen struct {
	r      *hx.Rand
	ops    []opJ
	nextID uint64
	ids    []uint64 // checkpoint ids issued (may or may not be complete when used; the executor skips what is impossible)
	ndb    int      // database slots that exist if every restore so far succeeded
	kgs    int
}

func (g *gen) key() []int {
	if g.r.Chance(1, 6) {
		return []int{0, g.r.Intn(g.kgs), hx.Pick(g.r, []int{0x80, 0xc8, 0xff}), g.r.Intn(2) * 0xfe}
	}
	return []int{0, g.r.Intn(g.kgs), 97 + g.r.Intn(5)}
}

func (g *gen) val() []int {
	n := 1
	switch g.r.Intn(6) {
	case 0:
		n = 18 + g.r.Intn(10)
	case 1:
		n = 0
	}
	v := make([]int, n)
	for i := range v {
		v[i] = 48 + g.r.Intn(10)
	}
	return v
}

func (g *gen) add(o opJ) { g.ops = append(g.ops, o) }

func (g *gen) writes(db, n int) {
	for i := 0; i < n; i++ {
		if g.r.Chance(1, 5) {
			g.add(opJ{Op: "del", DB: db, K: g.key()})
		} else {
			g.add(opJ{Op: "put", DB: db, K: g.key(), V: g.val()})
		}
	}
}

func (g *gen) big(db int) {
	v := make([]int, 30+g.r.Intn(20))
	for i := range v {
		v[i] = 120
	}
	g.add(opJ{Op: "put", DB: db, K: g.key(), V: v})
}

func (g *gen) ckpt(db int) uint64 {
	g.nextID++
	id := g.nextID
	g.ids = append(g.ids, id)
	g.add(opJ{Op: "ckpt", DB: db, ID: id})
	return id
}

func (g *gen) finishCkpt(db int, id uint64) {
	f1, f2 := 0, 0
	if g.r.Chance(1, 12) {
		f1 = 1 // the WAL save fails
	} else if g.r.Chance(1, 6) {
		f1 = 10 + g.r.Intn(3) // a Write of one WAL segment fails
	} else if g.r.Chance(1, 10) {
		f2 = 1 + g.r.Intn(2) // the list save fails (write / delete of a pending WAL)
	}
	g.add(opJ{Op: "step", DB: db, Task: "ckpt", ID: id, Fail: f1})
	g.add(opJ{Op: "step", DB: db, Task: "ckpt", ID: id, Fail: f2})
}

func (g *gen) fault() int {
	if g.r.Chance(1, 4) {
		return 1 + g.r.Intn(2)
	}
	return 0
}

func (g *gen) steps(db int) {
	switch g.r.Intn(4) {
	case 0:
		f := 0
		if g.r.Chance(1, 6) {
			f = 1
		}
		g.add(opJ{Op: "step", DB: db, Task: "flush", Fail: f})
	case 1:
		g.add(opJ{Op: "step", DB: db, Task: "compact"})
	case 2:
		g.add(opJ{Op: "drain", DB: db, N: 1 + g.r.Intn(4)})
	case 3:
		g.add(opJ{Op: "drain", DB: db})
	}
}

// seqScript: 2 or 3 neighbours with every kind of answer in a generated arrival order ("never" only after a claim: without one
// the caller would wait for it for ever)
func (g *gen) seqScript() string {
	n := 2 + g.r.Intn(2)
	kinds := []string{"err", "clean", "claim", "live", "op", "err", "clean"}
	var out []string
	claimed := false
	for i := 0; i < n; i++ {
		k := hx.Pick(g.r, kinds)
		if claimed && g.r.Chance(1, 3) {
			k = "never"
		}
		if k == "claim" {
			claimed = true
		}
		out = append(out, k)
	}
	s := "seq:" + out[0]
	for _, k := range out[1:] {
		s += "," + k
	}
	return s
}

func (g *gen) ownership(o *opJ) {
	switch g.r.Intn(4) {
	case 0: // all keys, AllDataOwnership
	case 1: // the operator's partition over the whole key space: no neighbour is asked
		o.Lo, o.Hi = 0, g.kgs
	default:
		lo := g.r.Intn(g.kgs)
		o.Lo, o.Hi = lo, lo+1+g.r.Intn(g.kgs-lo)
		o.Nb = hx.Pick(g.r, []string{"needs", "err", "slow-needs", "slow-err", "live", "live", "slow-live", "op", "op", "needs+late", "live+late", "op+late", "seq", "seq", "seq", "seq"})
		if o.Nb == "seq" {
			o.Nb = g.seqScript()
		}
	}
}

func (g *gen) restore(id uint64, same bool) int {
	o := opJ{Op: "restore", ID: id, Same: same}
	g.ownership(&o)
	g.add(o)
	g.ndb++
	return g.ndb - 1
}

func (g *gen) restoreAll(id uint64, same bool) int {
	g.add(opJ{Op: "restore", ID: id, Same: same})
	g.ndb++
	return g.ndb - 1
}

// random history: a loop over weighted choices with loose state tracking
func (g *gen) random(n int) {
	live := []int{0}
	for i := 0; i < n; i++ {
		db := hx.Pick(g.r, live)
		switch x := g.r.Intn(100); {
		case x < 40:
			g.writes(db, 1+g.r.Intn(3))
		case x < 46:
			g.big(db)
		case x < 58:
			id := g.ckpt(db)
			switch g.r.Intn(4) {
			case 0: // leave it parked
			case 1:
				g.add(opJ{Op: "step", DB: db, Task: "ckpt", ID: id})
			default:
				g.finishCkpt(db, id)
			}
		case x < 72:
			g.steps(db)
		case x < 76:
			if len(g.ids) > 0 {
				keep := []uint64{}
				for _, id := range g.ids {
					if g.r.Chance(1, 2) {
						keep = append(keep, id)
					}
				}
				if g.r.Chance(2, 3) || len(keep) == 0 {
					keep = append(keep, g.ids[len(g.ids)-1]) // else: a late update that does not know the newest checkpoints yet
				}
				g.add(opJ{Op: "retain", DB: db, IDs: keep, Fail: g.fault()})
				if g.r.Chance(1, 4) {
					g.add(opJ{Op: "retain", DB: db, IDs: []uint64{1000000}}) // names nothing this database holds (refused)
				}
			}
		case x < 86:
			if len(g.ids) > 0 && g.ndb < 5 {
				id := hx.Pick(g.r, g.ids)
				same := g.r.Chance(1, 3)
				if same {
					// the source object must be gone first; crash or drop it (slot of the id is unknown here: try the picked one)
					if g.r.Bool() {
						g.add(opJ{Op: "crash", DB: db})
					} else {
						g.add(opJ{Op: "drop", DB: db})
					}
					live = remove(live, db)
				}
				nd := g.restore(id, same)
				live = append(live, nd)
			}
		case x < 90:
			if len(live) > 1 {
				if g.r.Bool() {
					g.add(opJ{Op: "crash", DB: db})
				} else {
					g.add(opJ{Op: "drop", DB: db})
				}
				live = remove(live, db)
			}
		case x < 95:
			g.add(opJ{Op: "gc"})
		default:
			g.add(opJ{Op: "read", DB: db})
		}
		if len(live) == 0 {
			break
		}
	}
	for _, d := range live {
		g.add(opJ{Op: "read", DB: d})
	}
}

func remove(xs []int, x int) []int {
	out := xs[:0:0]
	for _, y := range xs {
		if y != x {
			out = append(out, y)
		}
	}
	return out
}

// checkpoint while a flush is parked at a chosen point; a second checkpoint after it; restore both (the D7 history is the
// instance park=begin).
func (g *gen) parkedFlush() {
	g.writes(0, 1+g.r.Intn(2))
	g.big(0) // rotation: the flush task parks at flush.begin
	park := g.r.Intn(4)
	for i := 0; i < park; i++ { // 0 begin | 1 swap | 2 end | 3 compaction begin
		g.add(opJ{Op: "step", DB: 0, Task: "flush"})
	}
	g.writes(0, 1+g.r.Intn(2))
	id1 := g.ckpt(0)
	if g.r.Chance(2, 3) {
		g.finishCkpt(0, id1)
	}
	if g.r.Bool() {
		g.add(opJ{Op: "drain", DB: 0, N: 1 + g.r.Intn(6)})
	} else {
		g.add(opJ{Op: "drain", DB: 0})
	}
	g.writes(0, 1+g.r.Intn(3))
	if g.r.Bool() {
		g.big(0)
	}
	id2 := g.ckpt(0)
	g.add(opJ{Op: "drain", DB: 0})
	g.writes(0, g.r.Intn(3))
	if g.r.Bool() {
		g.add(opJ{Op: "crash", DB: 0})
	}
	g.restoreAll(id2, false)
	g.restoreAll(id1, false)
}

// restore into the same directory, write and flush there, then restore the first checkpoint again (D8 history), with chains.
func (g *gen) sameDir() {
	g.writes(0, 2)
	g.big(0)
	if g.r.Bool() {
		g.add(opJ{Op: "drain", DB: 0})
	}
	id1 := g.ckpt(0)
	g.add(opJ{Op: "drain", DB: 0})
	g.add(opJ{Op: "crash", DB: 0})
	d := g.restoreAll(id1, true)
	g.writes(d, 2)
	g.big(d)
	g.add(opJ{Op: "drain", DB: d})
	if g.r.Bool() {
		id2 := g.ckpt(d)
		g.add(opJ{Op: "drain", DB: d})
		g.writes(d, 1)
		g.add(opJ{Op: "crash", DB: d})
		d2 := g.restoreAll(id2, g.r.Bool())
		g.writes(d2, 2)
		g.add(opJ{Op: "read", DB: d2})
	} else {
		g.add(opJ{Op: "crash", DB: d})
	}
	g.restoreAll(id1, g.r.Bool())
}

// chain checkpoint -> restore -> write -> checkpoint -> restore ...
func (g *gen) chain() {
	db := 0
	for i := 0; i < 2+g.r.Intn(2); i++ {
		g.writes(db, 1+g.r.Intn(4))
		if g.r.Bool() {
			g.big(db)
		}
		if g.r.Bool() {
			g.steps(db)
		}
		id := g.ckpt(db)
		if g.r.Chance(1, 3) {
			g.writes(db, 1)
		}
		g.add(opJ{Op: "drain", DB: db})
		g.writes(db, g.r.Intn(3))
		same := g.r.Chance(1, 3)
		if same || g.r.Bool() {
			g.add(opJ{Op: hx.Pick(g.r, []string{"crash", "crash", "drop"}), DB: db})
		}
		o := opJ{Op: "restore", ID: id, Same: same}
		if g.r.Chance(1, 3) {
			g.ownership(&o)
		}
		g.add(o)
		g.ndb++
		db = g.ndb - 1
		g.add(opJ{Op: "read", DB: db})
		if g.r.Chance(1, 3) {
			g.add(opJ{Op: "gc"})
		}
	}
	g.writes(db, 2)
	g.add(opJ{Op: "read", DB: db})
}

// garbage collection regimes: compactions drop tables, retention drops checkpoints, restored databases with neighbours.
func (g *gen) gcRegime() {
	for i := 0; i < 2+g.r.Intn(2); i++ {
		g.writes(0, 2)
		g.big(0)
		g.add(opJ{Op: "drain", DB: 0})
	}
	id1 := g.ckpt(0)
	g.add(opJ{Op: "drain", DB: 0})
	if g.r.Bool() {
		g.add(opJ{Op: "gc"})
	}
	for i := 0; i < 1+g.r.Intn(2); i++ {
		g.writes(0, 2)
		g.big(0)
		g.add(opJ{Op: "drain", DB: 0})
	}
	id2 := g.ckpt(0)
	g.add(opJ{Op: "drain", DB: 0})
	if g.r.Bool() {
		g.add(opJ{Op: "retain", DB: 0, IDs: []uint64{id2}, Fail: g.fault()})
	}
	g.add(opJ{Op: "gc"})
	// a restored database sharing the tables with the original
	from := id2
	if g.r.Chance(1, 4) {
		from = id1
	}
	d := g.restore(from, false)
	for i := 0; i < 1+g.r.Intn(3); i++ {
		g.writes(d, 2)
		g.big(d)
		g.add(opJ{Op: "drain", DB: d})
	}
	id3 := g.ckpt(d)
	g.add(opJ{Op: "drain", DB: d})
	if g.r.Chance(2, 3) {
		g.add(opJ{Op: "retain", DB: d, IDs: []uint64{id3}, Fail: g.fault()})
	}
	g.add(opJ{Op: "gc"})
	switch g.r.Intn(4) {
	case 0:
		g.add(opJ{Op: "drop", DB: d})
		g.add(opJ{Op: "gc"})
	case 1:
		g.add(opJ{Op: "crash", DB: d})
		g.add(opJ{Op: "gc"})
	case 2:
		g.add(opJ{Op: "drop", DB: 0})
		g.add(opJ{Op: "gc"})
		g.add(opJ{Op: "read", DB: d})
	}
	g.restoreAll(id3, false)
}

// storage faults: a retention update / a checkpoint's list save / WAL save / a flush's table save fails; afterwards the durable
// checkpoints file decides what must still exist; crash and restore the handles it still holds.
func (g *gen) faults() {
	var ids []uint64
	for i := 0; i < 2+g.r.Intn(2); i++ {
		g.writes(0, 1+g.r.Intn(3))
		if g.r.Bool() {
			g.big(0)
			if g.r.Chance(1, 3) {
				g.add(opJ{Op: "step", DB: 0, Task: "flush", Fail: 1})
			}
			g.add(opJ{Op: "drain", DB: 0})
		}
		id := g.ckpt(0)
		ids = append(ids, id)
		g.finishCkpt(0, id)
		g.add(opJ{Op: "drain", DB: 0})
	}
	last := ids[len(ids)-1]
	g.add(opJ{Op: "retain", DB: 0, IDs: []uint64{last}, Fail: 1 + g.r.Intn(2)})
	if g.r.Bool() {
		g.add(opJ{Op: "gc"})
	}
	switch g.r.Intn(3) {
	case 0: // the update is retried and succeeds
		g.add(opJ{Op: "retain", DB: 0, IDs: []uint64{last}})
	case 1: // a later checkpoint saves the list
		g.writes(0, 1)
		id := g.ckpt(0)
		ids = append(ids, id)
		g.add(opJ{Op: "drain", DB: 0})
	}
	g.add(opJ{Op: "crash", DB: 0})
	g.restoreAll(ids[0], false)
	g.restoreAll(hx.Pick(g.r, ids), g.r.Bool())
}

// rescale: the old database is compacted (tables in every level, the base level included) before the checkpoint that is then
// shared by two new databases with disjoint key-group ranges; one takes its own checkpoint and drops the restored one, the
// other writes until compaction has replaced the shared tables, drops the restored checkpoint too and is collected; variants:
// the first one's process crashes before (its operator is registered but not deployed), neighbours answer through the real
// Operator.HandleNeedsTable ("op") or directly ("live").
func (g *gen) rescale() {
	for i := 0; i < 1+g.r.Intn(5); i++ {
		g.writes(0, 2+g.r.Intn(3))
		g.big(0)
		g.add(opJ{Op: "drain", DB: 0})
	}
	id := g.ckpt(0)
	g.add(opJ{Op: "drain", DB: 0})
	g.add(opJ{Op: "crash", DB: 0})
	nb := hx.Pick(g.r, []string{"op", "op", "live", "slow-op", "live+late", "op+late", "seq", "seq", "seq"})
	if nb == "seq" {
		// the truthful neighbour among failing / clean ones, in every order
		nb = hx.Pick(g.r, []string{"seq:err,clean", "seq:clean,err", "seq:err,err", "seq:live,clean", "seq:clean,live", "seq:err,live", "seq:live,err",
			"seq:op,clean", "seq:clean,op", "seq:err,clean,clean", "seq:clean,err,clean", "seq:clean,clean,live", "seq:live,clean,err", "seq:claim,never", "seq:clean,claim,never"})
	}
	split := 1 + g.r.Intn(g.kgs-1)
	g.add(opJ{Op: "restore", ID: id, Lo: 0, Hi: split, Nb: nb})
	a := g.ndb
	g.ndb++
	g.add(opJ{Op: "restore", ID: id, Lo: split, Hi: g.kgs, Nb: nb})
	b := g.ndb
	g.ndb++
	if g.r.Bool() {
		a, b = b, a
	}
	// a: keeps the shared tables, takes its own checkpoint, drops the restored one
	if g.r.Bool() {
		g.writes(a, 1+g.r.Intn(2))
	}
	ya := g.ckpt(a)
	g.add(opJ{Op: "drain", DB: a})
	g.add(opJ{Op: "retain", DB: a, IDs: []uint64{ya}})
	switch g.r.Intn(3) {
	case 0:
		g.add(opJ{Op: "crash", DB: a}) // its worker restarts: registered, not deployed
	}
	// b: compacts the shared tables away
	for i := 0; i < 2+g.r.Intn(3); i++ {
		g.writes(b, 2)
		g.big(b)
		g.add(opJ{Op: "drain", DB: b})
	}
	yb := g.ckpt(b)
	g.add(opJ{Op: "drain", DB: b})
	g.add(opJ{Op: "retain", DB: b, IDs: []uint64{yb}})
	g.add(opJ{Op: "gc"})
	if g.r.Bool() {
		g.add(opJ{Op: "drop", DB: b})
		g.add(opJ{Op: "gc"})
	}
	g.add(opJ{Op: "read", DB: a})
	g.restoreAll(ya, false)
}

// a flush completes while a compaction that has already computed its change set is parked before applying it; then a
// checkpoint, more work, crash, restore.
func (g *gen) midCompaction() {
	g.writes(0, 1+g.r.Intn(2))
	g.big(0)
	g.add(opJ{Op: "drain", DB: 0})
	for round := 0; round < 1+g.r.Intn(2); round++ {
		g.writes(0, 1+g.r.Intn(2))
		g.big(0)
		for i := 0; i < 3; i++ {
			g.add(opJ{Op: "step", DB: 0, Task: "flush"})
		}
		// the compaction: begin -> iter -> (wrote its tables) swap point
		g.add(opJ{Op: "step", DB: 0, Task: "compact"})
		g.add(opJ{Op: "step", DB: 0, Task: "compact"})
		if g.r.Chance(1, 4) {
			g.add(opJ{Op: "step", DB: 0, Task: "compact"})
		}
		// meanwhile a new memtable fills and is flushed completely
		g.writes(0, 1+g.r.Intn(2))
		g.big(0)
		for i := 0; i < 2+g.r.Intn(2); i++ {
			g.add(opJ{Op: "step", DB: 0, Task: "flush"})
		}
		if g.r.Bool() {
			id := g.ckpt(0)
			g.finishCkpt(0, id)
		}
		g.add(opJ{Op: "drain", DB: 0})
	}
	g.writes(0, g.r.Intn(3))
	id := g.ckpt(0)
	g.add(opJ{Op: "drain", DB: 0})
	g.writes(0, g.r.Intn(2))
	g.add(opJ{Op: "read", DB: 0})
	g.add(opJ{Op: "crash", DB: 0})
	g.restoreAll(id, g.r.Bool())
}

// a memtable generation (or the active WAL buffer at a checkpoint) that holds nothing but deletes, right behind a generation
// whose flush completes while the deletes are still unflushed; a checkpoint in that window; restore.
func (g *gen) deleteOnly() {
	var keys [][]int
	for i := 0; i < 4+g.r.Intn(3); i++ {
		k := []int{0, g.r.Intn(g.kgs), 97 + i}
		keys = append(keys, k)
		g.add(opJ{Op: "put", DB: 0, K: k, V: []int{48 + i}})
	}
	g.big(0) // rotation at the latest here: the flush of the puts parks at flush.begin
	park := g.r.Intn(3)
	for i := 0; i < park; i++ {
		g.add(opJ{Op: "step", DB: 0, Task: "flush"})
	}
	// nothing but deletes from here on
	nd := 1 + g.r.Intn(len(keys))
	for i := 0; i < nd; i++ {
		g.add(opJ{Op: "del", DB: 0, K: keys[i]})
	}
	early := g.r.Chance(1, 3)
	var id uint64
	if early { // the deletes are still in the active buffer when the checkpoint rotates the WAL
		id = g.ckpt(0)
	}
	// the flush of the puts completes (Truncate) while the deletes are unflushed
	g.add(opJ{Op: "step", DB: 0, Task: "flush"})
	g.add(opJ{Op: "step", DB: 0, Task: "flush"})
	g.add(opJ{Op: "step", DB: 0, Task: "flush"})
	if !early {
		id = g.ckpt(0)
	}
	g.finishCkpt(0, id)
	if g.r.Bool() {
		id2 := g.ckpt(0)
		g.add(opJ{Op: "drain", DB: 0})
		g.add(opJ{Op: "crash", DB: 0})
		g.restoreAll(id2, false)
	} else {
		g.add(opJ{Op: "drain", DB: 0, N: g.r.Intn(4)})
		g.add(opJ{Op: "crash", DB: 0})
	}
	g.restoreAll(id, g.r.Bool())
}

// overlapping saves: a list save parked inside the file commit while a second list save or a retention update is issued
func (g *gen) raceSave() {
	g.writes(0, 1+g.r.Intn(2))
	id0 := g.ckpt(0)
	g.add(opJ{Op: "drain", DB: 0})
	g.writes(0, 1+g.r.Intn(2))
	id1 := g.ckpt(0)
	g.add(opJ{Op: "step", DB: 0, Task: "ckpt", ID: id1}) // WAL saved, now at the list save
	if g.r.Bool() {
		g.nextID++
		id2 := g.nextID
		g.ids = append(g.ids, id2)
		g.add(opJ{Op: "race", DB: 0, ID: id1, ID2: id2})
		g.add(opJ{Op: "drain", DB: 0})
		g.add(opJ{Op: "crash", DB: 0})
		g.restoreAll(id2, false)
		g.restoreAll(id1, false)
	} else {
		f := 0
		if g.r.Chance(2, 3) {
			f = 1
		}
		g.add(opJ{Op: "race", DB: 0, ID: id1, IDs: []uint64{id1}, Fail: f}) // drops id0 while the save of id1 is committing
		if g.r.Bool() {
			g.add(opJ{Op: "gc"})
		}
		g.add(opJ{Op: "crash", DB: 0})
		g.restoreAll(id0, false)
		g.restoreAll(id1, false)
	}
}

// scale-in 2 -> 1 in place: the surviving instance (more checkpoints, so a higher WAL number) is redeployed in its own
// directory from the handles of both instances, its own handle first; it takes several checkpoints while the restored one is
// still retained; then crash and restore of the restored checkpoint and of the new ones.
func (g *gen) scaleInPlace() {
	g.add(opJ{Op: "open", Lo: 2, Hi: 4})
	g.ndb++
	// the survivor (database 0, key groups 0..1) has taken earlier checkpoints
	for i := 0; i < 1+g.r.Intn(3); i++ {
		g.writesIn(0, 1+g.r.Intn(2), 0, 2)
		id := g.ckpt(0)
		g.add(opJ{Op: "drain", DB: 0})
		_ = id
	}
	g.nextID++
	x := g.nextID
	g.ids = append(g.ids, x)
	for db, rg := range [][2]int{{0, 2}, {2, 4}} {
		g.writesIn(db, 1+g.r.Intn(3), rg[0], rg[1])
		if g.r.Bool() {
			g.add(opJ{Op: "put", DB: db, K: []int{0, rg[0], 121}, V: make([]int, 40)})
			g.add(opJ{Op: "drain", DB: db})
		}
		g.add(opJ{Op: "ckpt", DB: db, ID: x})
		g.add(opJ{Op: "drain", DB: db})
	}
	g.add(opJ{Op: "crash", DB: 0})
	g.add(opJ{Op: "crash", DB: 1})
	srcs := []int{0, 1}
	g.add(opJ{Op: "restore", ID: x, Srcs: srcs, Same: true})
	r := g.ndb
	g.ndb++
	var ys []uint64
	for i := 0; i < 2+g.r.Intn(3); i++ {
		g.writes(r, 1+g.r.Intn(2))
		y := g.ckpt(r)
		ys = append(ys, y)
		g.add(opJ{Op: "drain", DB: r})
	}
	if g.r.Chance(1, 3) {
		g.add(opJ{Op: "retain", DB: r, IDs: []uint64{ys[len(ys)-1]}})
	}
	g.add(opJ{Op: "crash", DB: r})
	g.add(opJ{Op: "restore", ID: x, Srcs: srcs})
	g.ndb++
	g.restoreAll(hx.Pick(g.r, ys), false)
}

func (g *gen) writesIn(db, n, lo, hi int) {
	for i := 0; i < n; i++ {
		k := []int{0, lo + g.r.Intn(hi-lo), 97 + g.r.Intn(5)}
		if g.r.Chance(1, 6) {
			g.add(opJ{Op: "del", DB: db, K: k})
		} else {
			g.add(opJ{Op: "put", DB: db, K: k, V: g.val()})
		}
	}
}

// scale-in 3 -> 2: three old databases with disjoint key-group ranges take the same checkpoint id; two new databases restore
// overlapping but different pairs of handles (composite checkpoints with two WAL handles each, one WAL shared); each takes its
// own checkpoint and drops the restored one: the second one finds the shared WAL already removed and must still remove the other.
func (g *gen) scaleIn() {
	ranges := [][2]int{{0, 1}, {1, 3}, {3, 4}}
	g.add(opJ{Op: "open", Lo: 1, Hi: 3})
	g.add(opJ{Op: "open", Lo: 3, Hi: 4})
	g.ndb += 2
	g.nextID++
	id := g.nextID
	g.ids = append(g.ids, id)
	for db, rg := range ranges {
		g.writesIn(db, 1+g.r.Intn(3), rg[0], rg[1])
		// 0..3 flush rounds: with two or more the instance compacts into the base level before its checkpoint
		for round := g.r.Intn(4); round > 0; round-- {
			g.add(opJ{Op: "put", DB: db, K: []int{0, rg[0], 120 + round}, V: make([]int, 40)})
			g.add(opJ{Op: "drain", DB: db})
			g.writesIn(db, 1+g.r.Intn(2), rg[0], rg[1])
		}
		g.add(opJ{Op: "ckpt", DB: db, ID: id})
		g.add(opJ{Op: "drain", DB: db})
	}
	for db := range ranges {
		g.add(opJ{Op: "crash", DB: db})
	}
	nb := hx.Pick(g.r, []string{"live", "op", "needs"})
	pairs := [][]int{{0, 1}, {1, 2}}
	if g.r.Bool() {
		pairs[1] = []int{2, 1}
	}
	if g.r.Bool() {
		pairs[0] = []int{1, 0}
	}
	g.add(opJ{Op: "restore", ID: id, Srcs: pairs[0], Lo: 0, Hi: 2, Nb: nb})
	a := g.ndb
	g.ndb++
	g.add(opJ{Op: "restore", ID: id, Srcs: pairs[1], Lo: 2, Hi: 4, Nb: nb})
	b := g.ndb
	g.ndb++
	order := []int{a, b}
	if g.r.Bool() {
		order = []int{b, a}
	}
	var ys []uint64
	for _, d := range order {
		g.add(opJ{Op: "read", DB: d})
		lo, hi := 0, 2
		if d == b {
			lo, hi = 2, 4
		}
		g.writesIn(d, 1+g.r.Intn(2), lo, hi)
		y := g.ckpt(d)
		ys = append(ys, y)
		g.add(opJ{Op: "drain", DB: d})
		g.add(opJ{Op: "retain", DB: d, IDs: []uint64{y}, Fail: 0})
		if g.r.Chance(1, 3) {
			g.add(opJ{Op: "gc"})
		}
	}
	g.add(opJ{Op: "crash", DB: a})
	g.add(opJ{Op: "crash", DB: b})
	for _, y := range ys {
		g.restoreAll(y, false)
	}
}

func (g *gen) build(name string, params map[string]any) *hx.Case {
	c := &hx.Case{Name: name, Params: params}
	for _, o := range g.ops {
		b, _ := json.Marshal(o)
		c.Ops = append(c.Ops, b)
	}
	return c
}

// readFault: writes that live only in the WAL at the checkpoint (some of them behind a completed flush, so that the reader's skip
// loop runs too), the source crashes, and the checkpoint is restored with ONE failing storage read of the WAL - five consecutive
// read positions in turn (an entry is 4 or 6 reads: one of them is the sequence-number read of an entry boundary) - and finally
// without a fault. Every faulted restore must fail or be exact; the retry must be exact.
func (g *gen) readFault() {
	if g.r.Bool() {
		g.writes(0, 1+g.r.Intn(3))
		g.big(0)
		g.add(opJ{Op: "drain", DB: 0})
	}
	g.writes(0, 3+g.r.Intn(6))
	if g.r.Chance(1, 3) {
		g.big(0) // a sealed memtable whose flush task stays parked
		g.writes(0, 1+g.r.Intn(3))
	}
	id := g.ckpt(0)
	g.add(opJ{Op: "step", DB: 0, Task: "ckpt", ID: id}) // the asynchronous part of the checkpoint: WAL save,
	g.add(opJ{Op: "step", DB: 0, Task: "ckpt", ID: id}) // list save
	if g.r.Bool() {
		g.writes(0, 1+g.r.Intn(2)) // the source goes on: these writes are not part of the checkpoint
	}
	g.add(opJ{Op: "crash", DB: 0})
	p := 1 + g.r.Intn(1000)
	for i := 0; i < 5; i++ {
		g.add(opJ{Op: "restore", ID: id, Same: false, Fail: p + i})
		g.ndb++
	}
	g.add(opJ{Op: "restore", ID: id})
	g.ndb++
	g.add(opJ{Op: "read", DB: g.ndb - 1})
}

func (eng) Generate(mode, tier string, r *hx.Rand) []*hx.Case {
	n := 90
	if tier == "thorough" {
		n = 1200
	}
	var out []*hx.Case
	// consecutive seeds of hx.Rand are shifted copies of one sequence: mix two outputs so that seeds give unrelated case sets
	a, b := r.U64(), r.U64()
	r = hx.NewRand(a*0x2545F4914F6CDD1D ^ (b >> 11) ^ (b << 29))
	for i := 0; i < n; i++ {
		g := &gen{r: r.Fork(), ndb: 1, kgs: 4}
		params := map[string]any{"mode": mode, "mem": hx.Pick(g.r, []int{45, 60, 60, 90}), "wal": hx.Pick(g.r, []int{1000, 1000, 70}), "tfs": hx.Pick(g.r, []int{60, 80, 200})}
		kind := ""
		weights := []string{"random", "random", "parked", "parked", "samedir", "chain", "gc", "faults", "midcomp", "midcomp", "delonly", "delonly", "scalein", "race", "inplace"}
		if mode == "c09" {
			weights = []string{"random", "gc", "gc", "chain", "samedir", "faults", "faults", "rescale", "rescale", "rescale", "scalein", "scalein", "race", "race", "inplace", "inplace"}
		}
		switch kind = hx.Pick(g.r, weights); kind {
		case "random":
			g.random(12 + g.r.Intn(14))
		case "parked":
			g.parkedFlush()
		case "samedir":
			g.sameDir()
		case "chain":
			g.chain()
		case "gc":
			g.gcRegime()
		case "faults":
			g.faults()
		case "rescale":
			g.rescale()
		case "midcomp":
			g.midCompaction()
		case "scalein":
			g.scaleIn()
		case "delonly":
			g.deleteOnly()
		case "race":
			g.raceSave()
		case "inplace":
			g.scaleInPlace()
		}
		out = append(out, g.build(fmt.Sprintf("%s-%s-%d", mode, kind, i), params))
	}
	// further cases, generated after the ones above so that those stay what they were: storage read faults during the replay
	if mode == "c08" {
		for i := 0; i < n/9; i++ {
			g := &gen{r: r.Fork(), ndb: 1, kgs: 4}
			params := map[string]any{"mode": mode, "mem": hx.Pick(g.r, []int{45, 60, 60, 90}), "wal": hx.Pick(g.r, []int{1000, 1000, 70}), "tfs": hx.Pick(g.r, []int{60, 80, 200})}
			g.readFault()
			out = append(out, g.build(fmt.Sprintf("%s-readfault-%d", mode, n+i), params))
		}
	}
	return out
}
