// engine ckpt (properties C08 mode c08, C09 mode c09): real dkv.DB objects over an instrumented view of one shared
// MemoryFilesystem. Every background goroutine of the databases (flush task, compaction task, asynchronous part of
// Checkpoint) stops at the named verifhook points of dkv/db.go; the harness is the scheduler: a history is a list of
// foreground operations (put/del/ckpt/retain/restore/crash/drop/gc/read) and explicit "step" operations that move ONE
// parked task to its next point. After every release the harness waits for exactly the arrivals that must follow
// (known from the task life cycles and the two package-global serial queues), so the state in which the next operation runs
// is determined by the case alone - no sleeps, no timing.
//
// crash d  = abandon the process state of database d: its file-system view goes dead (no write/save/delete has any effect
//            from now on, cleanups of its table objects included) and its parked tasks are let go into the void.
// drop d   = same-process redeploy: the tasks of d are run to completion, then the object is forgotten; its table objects'
//            runtime.AddCleanup functions are live and run at the next gc operation.
// gc       = runtime.GC() with a cleanup barrier (three rounds of GC + a sentinel object whose cleanup is awaited), so the set
//            of collected table objects is exactly the set of unreachable ones.
package main

import (
	"context"
	"encoding/json"
	"errors"
	"fmt"
	"hash/fnv"
	"io"
	"log/slog"
	"os"
	"runtime"
	"runtime/debug"
	"sort"
	"strconv"
	"strings"
	"sync"
	"sync/atomic"

	"reduction.dev/reduction/dkv"
	"reduction.dev/reduction/dkv/kv"
	"reduction.dev/reduction/dkv/recovery"
	"reduction.dev/reduction/dkv/sst"
	"reduction.dev/reduction/dkv/storage"
	"reduction.dev/reduction/dkv/wal"
	"reduction.dev/reduction/partitioning"
	"reduction.dev/reduction/proto"
	"reduction.dev/reduction/util/verifhook"
	"reduction.dev/reduction/workers/operator"
	"verifharness/hx"
)

type eng struct{}

func (eng) Name() string { return "ckpt" }
func (eng) CoqRequire(mode string) string {
	return "From Coq Require Import List NArith Bool. Import ListNotations. From RV Require Import Base.Bytes Model.Ckpt Model.Gc Corr.Check_ckpt."
}
func (eng) CoqCaseType(mode string) string { return "Check_ckpt.case" }
func (eng) CoqRun(mode string) string {
	if mode == "c09" {
		return "Check_ckpt.run_c09"
	}
	return "Check_ckpt.run_c08"
}
func (eng) Rule(mode string) string {
	return "histories over 1..4 database objects on one shared memory file system: put/delete (tiny memtable and WAL sizes so that rotations happen every few writes), Checkpoint whose asynchronous part is stepped (WAL save, list save) by the harness, flush and compaction tasks stepped point by point (checkpoint while a flush is parked before its snapshot / before its swap / after its swap, while a compaction is parked, second checkpoint after such a first), retention updates, restore of any completed handle into the same or a fresh directory with full or key-group-range ownership and scripted neighbours (needs/free/error/slow/live), crash (dead file-system view) and same-process drop, forced GC with cleanup barrier, injected storage faults (the Save of the checkpoints file / of a WAL / of a flush's first table fails, a WAL delete of Save's Destroy fails) on retention updates, checkpoint steps and flush steps, Write faults by call index on WAL files, further source databases taking the same checkpoint id and composite restores from several handles (scale-in), a flush completing while a compaction holds a computed change set, rescale sharing with base-level tables, operator-level neighbour answers (deployed / not deployed real Operator), reads of live databases, chains restore->write->checkpoint->restore. Non-trivial: the history restores at least one checkpoint that was taken while a background task was parked or after which the source database did further work, or runs a gc that collected at least one table object; distinct by hash of the case."
}

// ------------------------------------------------------------------ case format

type opJ struct {
	Op   string   `json:"op"`
	DB   int      `json:"db"`
	K    []int    `json:"k,omitempty"`
	V    []int    `json:"v,omitempty"`
	ID   uint64   `json:"id,omitempty"`
	Task string   `json:"task,omitempty"` // step: flush | compact | ckpt
	IDs  []uint64 `json:"ids,omitempty"`
	Same bool     `json:"same,omitempty"` // restore: into the directory of the source database
	Lo   int      `json:"lo,omitempty"`   // restore: ownership key-group range [lo,hi); hi = 0 means all keys (AllDataOwnership)
	Hi   int      `json:"hi,omitempty"`
	Nb   string   `json:"nb,omitempty"` // restore: neighbour script: "" | needs | free | err | slow-needs | slow-free | slow-err | live:<db>
	N    int      `json:"n,omitempty"`  // drain: maximum number of steps (0 = all)
	ID2  uint64   `json:"id2,omitempty"` // race: the checkpoint whose list save is issued while the first one is inside its file commit
	Srcs []int    `json:"srcs,omitempty"` // restore: the databases whose handles of checkpoint id are restored together (composite)
	Fail int      `json:"fail,omitempty"` // restore: p+1 = one storage read of the replayed WAL files fails, read number p modulo the number of reads of the healthy replay; retain / step: storage fault during this operation: 1 = the Save (checkpoints file / WAL / first table of the flush) fails, 2 = a WAL delete of Save's Destroy fails
}

func decodeOps(c *hx.Case) ([]opJ, error) {
	out := make([]opJ, 0, len(c.Ops))
	for _, raw := range c.Ops {
		var o opJ
		if err := json.Unmarshal(raw, &o); err != nil {
			return nil, err
		}
		out = append(out, o)
	}
	return out, nil
}

func toBytes(xs []int) []byte {
	b := make([]byte, len(xs))
	for i, x := range xs {
		b[i] = byte(x)
	}
	return b
}

// ------------------------------------------------------------------ world

type task struct {
	kind  string // flush | compact | ckpt
	slot  *slot
	id    uint64
	point string // current hook point ("" = queued, not started)
	gate  chan struct{}
	goid  uint64
}

type arrival struct {
	db   *dkv.DB
	name string
	id   uint64
	gate chan struct{}
	goid uint64 // the goroutine of the task
}

type hkey struct {
	id   uint64
	slot int
}

type handleRec struct {
	id   uint64
	uri  string
	slot int
}

type slot struct {
	idx   int
	db    *dkv.DB
	fs    *vfs
	dir   int
	state string // live | crashed | dropped
	ckpts map[uint64]*task
	waits map[uint64]func() (recovery.CheckpointHandle, error)
	nb    *neighbour
	op    *operator.Operator // script "op": the real operator object answering NeedsTable for this database (deployed while live, a fresh not deployed one after a crash)
	lo    int
	hi    int // 0 = owns every key
	ids   map[uint64]bool // checkpoint ids in its list
}

type world struct {
	root     *storage.MemoryFilesystem
	grave    *storage.MemoryFilesystem
	log      *fsLog
	slots    []*slot
	handles  map[hkey]*handleRec
	flushQ   []*task
	compQ    []*task
	actFlush *task
	actComp  *task
	capF     int // how many flush tasks may be pending in the global queue before Enqueue blocks its caller (read from the code under test)
	capC     int // the same for compaction tasks
	arrivals chan *arrival
	opening  *slot
	nextDir  int
	memSize  uint64
	walSize  uint64
	tfs      uint64
	universe map[string][]byte
	nbWait   chan *nbCall
	gcCount  int // table objects collected (deletes observed in gc operations)
	zombies  []*dkv.DB     // abandoned database objects whose tasks may still be running (dead view: nothing they do is observed)
	gone     sync.Map      // *dkv.DB -> chan struct{}, see goneCh (entries only while a faulted restore is in progress: a key would keep the object reachable)
	faulting atomic.Bool   // a restore with a storage read fault is in progress
	dead     sync.Map      // *dkv.DB of crashed database objects: their tasks are not stopped at hook points any more
	closed   chan struct{} // closed at the end of the case: every parked goroutine is let go
}

var cur atomic.Pointer[world]

func hook(name string, args ...any) {
	w := cur.Load()
	if w == nil || len(args) == 0 {
		return
	}
	db, ok := args[0].(*dkv.DB)
	if !ok {
		return
	}
	if !strings.HasPrefix(name, "dkv.flush.") && !strings.HasPrefix(name, "dkv.compact.") && !strings.HasPrefix(name, "dkv.ckpt.") {
		return
	}
	if _, dead := w.dead.Load(db); dead {
		return
	}
	a := &arrival{db: db, name: name, gate: make(chan struct{}), goid: goid()}
	if len(args) > 1 {
		if id, ok := args[1].(uint64); ok {
			a.id = id
		}
	}
	var gone chan struct{} // nil: never ready
	if w.faulting.Load() {
		gone = w.goneCh(db)
	}
	w.arrivals <- a
	select {
	case <-a.gate:
	case <-w.closed:
	case <-gone:
	}
}

// goneCh: closed when the database object is abandoned by the harness while one of its tasks may be parked unregistered.
func (w *world) goneCh(db *dkv.DB) chan struct{} {
	c, _ := w.gone.LoadOrStore(db, make(chan struct{}))
	return c.(chan struct{})
}

func (w *world) slotOf(db *dkv.DB) *slot {
	for _, s := range w.slots {
		if s.db == db && db != nil {
			return s
		}
	}
	if _, dead := w.dead.Load(db); dead {
		return nil
	}
	return w.opening
}

// expect consumes exactly n arrivals and files them.
func (w *world) expect(n int) error {
	for i := 0; i < n; i++ {
		a := <-w.arrivals
		s := w.slotOf(a.db)
		if s == nil || s.fs.dead.Load() {
			// a task of a crashed database object (or of an Open that failed): let it go, it does not count
			close(a.gate)
			i--
			continue
		}
		switch {
		case a.name == "dkv.flush.begin":
			if len(w.flushQ) == 0 || w.actFlush != nil {
				return fmt.Errorf("unexpected flush.begin")
			}
			t := w.flushQ[0]
			w.flushQ = w.flushQ[1:]
			if t.slot != s {
				return fmt.Errorf("flush task order: head of queue belongs to db %d, arrival to db %d", t.slot.idx, s.idx)
			}
			t.point, t.gate = "begin", a.gate
			w.actFlush = t
		case strings.HasPrefix(a.name, "dkv.flush."):
			if w.actFlush == nil || w.actFlush.slot != s {
				return fmt.Errorf("unexpected %s", a.name)
			}
			w.actFlush.point, w.actFlush.gate = strings.TrimPrefix(a.name, "dkv.flush."), a.gate
		case a.name == "dkv.compact.begin":
			if len(w.compQ) == 0 || w.actComp != nil {
				return fmt.Errorf("unexpected compact.begin")
			}
			t := w.compQ[0]
			w.compQ = w.compQ[1:]
			if t.slot != s {
				return fmt.Errorf("compaction task order")
			}
			t.point, t.gate = "begin", a.gate
			w.actComp = t
		case strings.HasPrefix(a.name, "dkv.compact."):
			if w.actComp == nil || w.actComp.slot != s {
				return fmt.Errorf("unexpected %s", a.name)
			}
			w.actComp.point, w.actComp.gate = strings.TrimPrefix(a.name, "dkv.compact."), a.gate
		case a.name == "dkv.ckpt.walsave":
			t := &task{kind: "ckpt", slot: s, id: a.id, point: "walsave", gate: a.gate, goid: a.goid}
			s.ckpts[a.id] = t
		case a.name == "dkv.ckpt.listsave":
			t := s.ckpts[a.id]
			if t == nil {
				return fmt.Errorf("unexpected ckpt.listsave %d", a.id)
			}
			t.point, t.gate = "listsave", a.gate
		}
	}
	return nil
}

// afterRotations registers k freshly enqueued flush tasks of slot s and waits for the one that starts (if the queue is free).
func (w *world) afterRotations(s *slot, k int) error {
	for i := 0; i < k; i++ {
		w.flushQ = append(w.flushQ, &task{kind: "flush", slot: s})
	}
	if k > 0 && w.actFlush == nil && len(w.flushQ) == k {
		return w.expect(1)
	}
	return nil
}

// flushRoom / compRoom: how many tasks the harness lets wait in a queue before it runs tasks first. Never more than the queue of the
// code under test accepts without blocking the caller of Enqueue (the harness holds the gate of the running task, so a blocked caller
// would wait for ever), and never more than 3 (the bound the histories were generated with).
// compWaiting: a compaction task of database s is queued and has not started. The harness never lets a flush task of s reach its end in
// that state: whether such a flush enqueues ANOTHER compaction task behind the waiting one is a policy of the code under test (it may
// coalesce them), and the harness counts the queued tasks. With at most one waiting task per database both policies enqueue the same.
func (w *world) compWaiting(s *slot) bool {
	for _, t := range w.compQ {
		if t.slot == s {
			return true
		}
	}
	return false
}

func (w *world) flushRoom() int { return max(1, min(3, w.capF)) }
func (w *world) compRoom() int  { return max(1, min(3, w.capC)) }

// release lets task t run to its next point (or to its end) and waits for what must arrive.
func (w *world) release(t *task, fail int) (handle *recovery.CheckpointHandle, err error) {
	g := t.gate
	t.gate = nil
	switch t.kind {
	case "flush":
		if t.point == "begin" && fail == 1 {
			// the Save of the first table fails: the task returns the error, no swap, no compaction; the next queued flush starts
			t.slot.fs.armSave("sst")
			w.actFlush = nil
			close(g)
			<-t.slot.fs.fired
			n := 0
			if len(w.flushQ) > 0 {
				n++
			}
			return nil, w.expect(n)
		}
		switch t.point {
		case "begin", "swap":
			close(g)
			return nil, w.expect(1)
		case "end":
			w.actFlush = nil
			w.compQ = append(w.compQ, &task{kind: "compact", slot: t.slot})
			n := 0
			if w.actComp == nil && len(w.compQ) == 1 {
				n++
			}
			if len(w.flushQ) > 0 {
				n++
			}
			close(g)
			return nil, w.expect(n)
		}
	case "compact":
		switch t.point {
		case "begin", "iter", "swap":
			close(g)
			return nil, w.expect(1)
		case "end":
			w.actComp = nil
			n := 0
			if len(w.compQ) > 0 {
				n++
			}
			close(g)
			return nil, w.expect(n)
		}
	case "ckpt":
		switch t.point {
		case "walsave":
			if fail >= 10 {
				// the (fail-10)-th Write on the WAL file fails; when the WAL has fewer segments the fault is not delivered
				t.slot.fs.failWrite.Store(int64(fail-10) + 1)
				close(g)
				wait := t.slot.waits[t.id]
				fired := false
				select {
				case <-t.slot.fs.fired:
					fired = true
				case a := <-w.arrivals:
					// not delivered: the task went on to the list save
					w.arrivals <- a
				}
				if fired {
					// correct code: Save returns the write error, the task ends. If the error is swallowed the task goes on to the list save.
					resCh := make(chan error, 1)
					go func() { _, e := wait(); resCh <- e }()
					select {
					case <-resCh:
						delete(t.slot.waits, t.id)
						delete(t.slot.ckpts, t.id)
						t.slot.fs.disarm()
						return nil, errFaultDelivered
					case a := <-w.arrivals:
						w.arrivals <- a
						t.slot.fs.disarm()
						if err := w.expect(1); err != nil {
							return nil, err
						}
						return nil, errWriteErrorLost
					}
				}
				t.slot.fs.disarm()
				return nil, w.expect(1)
			}
			if fail == 1 {
				t.slot.fs.armSave("wal")
				close(g)
				wait := t.slot.waits[t.id]
				delete(t.slot.waits, t.id)
				delete(t.slot.ckpts, t.id)
				_, _ = wait()
				t.slot.fs.disarm()
				return nil, nil
			}
			close(g)
			return nil, w.expect(1)
		case "listsave":
			if fail == 1 {
				t.slot.fs.armSave("ck")
			} else if fail == 2 {
				t.slot.fs.failDelete.Store(true)
			}
			defer t.slot.fs.disarm()
			close(g)
			wait := t.slot.waits[t.id]
			delete(t.slot.waits, t.id)
			delete(t.slot.ckpts, t.id)
			h, err := wait()
			if err != nil {
				return nil, nil
			}
			return &h, nil
		}
	}
	return nil, fmt.Errorf("release of task %s at point %q", t.kind, t.point)
}

func (w *world) tasksOf(s *slot) int {
	n := len(s.ckpts)
	if w.actFlush != nil && w.actFlush.slot == s {
		n++
	}
	if w.actComp != nil && w.actComp.slot == s {
		n++
	}
	for _, t := range w.flushQ {
		if t.slot == s {
			n++
		}
	}
	for _, t := range w.compQ {
		if t.slot == s {
			n++
		}
	}
	return n
}

// nextTask picks the task of slot s to step in canonical order: flush, compaction, checkpoints by id.
func (w *world) nextTask(s *slot, kind string, id uint64) *task {
	if (kind == "" || kind == "flush") && w.actFlush != nil && w.actFlush.slot == s {
		return w.actFlush
	}
	if (kind == "" || kind == "compact") && w.actComp != nil && w.actComp.slot == s {
		return w.actComp
	}
	if kind == "" || kind == "ckpt" {
		ids := []uint64{}
		for i := range s.ckpts {
			ids = append(ids, i)
		}
		sort.Slice(ids, func(a, b int) bool { return ids[a] < ids[b] })
		for _, i := range ids {
			if kind == "" || i == id {
				return s.ckpts[i]
			}
		}
	}
	return nil
}

// ------------------------------------------------------------------ goroutine identity (ordering without clocks)

// goid returns the id of the calling goroutine (from the header of its stack trace).
func goid() uint64 {
	var buf [64]byte
	n := runtime.Stack(buf[:], false)
	f := strings.Fields(string(buf[:n]))
	if len(f) < 2 {
		return 0
	}
	id, _ := strconv.ParseUint(f[1], 10, 64)
	return id
}

// goState returns the scheduler state of goroutine id as the runtime reports it ("running", "runnable", "chan receive",
// "sync.Mutex.Lock", ...), or "" when the goroutine does not exist any more.
func goState(id uint64) string {
	buf := make([]byte, 1<<16)
	for {
		n := runtime.Stack(buf, true)
		if n < len(buf) {
			buf = buf[:n]
			break
		}
		buf = make([]byte, 2*len(buf))
	}
	head := fmt.Sprintf("goroutine %d [", id)
	s := "\n" + string(buf)
	i := strings.Index(s, "\n"+head)
	if i < 0 {
		return ""
	}
	rest := s[i+1+len(head):]
	j := strings.IndexAny(rest, ",]")
	if j < 0 {
		return ""
	}
	return rest[:j]
}

// awaitGone returns when goroutine id has run to its end: everything it did - in particular handing its result to whoever
// collects it - has happened. No deadline: the goroutine is known to end (it has nothing left that could block).
func awaitGone(id uint64) {
	for id != 0 && goState(id) != "" {
		runtime.Gosched()
	}
}

// handoff is what a neighbour stand-in tells the neighbour whose answer has to arrive after its own.
type handoff struct {
	claimed bool   // it (or one before it) has claimed the table: the claim cancels the other calls
	goid    uint64 // the goroutine of ExclusivelyOwnsTable that carries its answer into the result channel
}

// after waits until the answer of the neighbour that sent h has been handed over: a claim is followed by the cancellation of the
// context (ExclusivelyOwnsTable cancels AFTER it has put the claim into the result channel); any other answer is in the result
// channel once the goroutine that asked has ended (it does nothing else after the send).
func (h handoff) after(ctx context.Context) {
	if h.claimed {
		<-ctx.Done()
		return
	}
	awaitGone(h.goid)
}

// ------------------------------------------------------------------ neighbours

type nbCall struct {
	uri  string
	done chan struct{}
}

type neighbour struct {
	proto.UnimplementedOperator
	w      *world
	owner  *slot
	script string
	mu     sync.Mutex
	asked  []string
	twin   chan handoff // script "+late": this neighbour's answer is handed to a second, slower neighbour
}

// lateNeighbour is a second neighbour that does not need the table and answers late: after the first neighbour has answered and,
// when that answer was a claim, after the claim has cancelled the other calls - it then still completes with a clean "not needed"
// instead of failing with the cancellation.
type lateNeighbour struct {
	proto.UnimplementedOperator
	from chan handoff
}

func (l *lateNeighbour) NeedsTable(ctx context.Context, uri string) (bool, error) {
	(<-l.from).after(ctx)
	return false, nil
}

func (n *neighbour) NeedsTable(ctx context.Context, uri string) (bool, error) {
	a, err := n.answer(ctx, uri)
	if n.twin != nil {
		n.twin <- handoff{claimed: a, goid: goid()}
	}
	return a, err
}

// scriptHas: is the database a member of an assembly whose neighbours answer with kind k (script k, slow-k, k+late, or a seq with k)
func scriptHas(script, k string) bool {
	sc := strings.TrimPrefix(script, "slow-")
	if sc == k {
		return true
	}
	if strings.HasPrefix(sc, "seq:") {
		for _, a := range strings.Split(strings.TrimPrefix(sc, "seq:"), ",") {
			if a == k {
				return true
			}
		}
	}
	return false
}

// seqNeighbour is one of several neighbours whose answers arrive in a generated order: it answers only after its predecessor's answer
// has been handed to the collecting loop's channel (see handoff.after: a happens-before chain, no clock).
type seqNeighbour struct {
	proto.UnimplementedOperator
	base *neighbour
	kind string
	prev chan handoff
	next chan handoff
}

func (q *seqNeighbour) NeedsTable(ctx context.Context, uri string) (bool, error) {
	claimed := false
	if q.prev != nil {
		h := <-q.prev
		claimed = h.claimed
		h.after(ctx)
	}
	var a bool
	var err error
	switch q.kind {
	case "clean":
	case "claim":
		a = true
	case "err":
		err = errors.New("neighbour unreachable")
	case "never":
		<-ctx.Done()
		err = ctx.Err()
	default: // live | op
		a, err = q.base.answerAs(q.kind, ctx, uri)
	}
	if q.next != nil {
		q.next <- handoff{claimed: claimed || a, goid: goid()}
	}
	return a, err
}

func (n *neighbour) answer(ctx context.Context, uri string) (bool, error) {
	return n.answerAs(n.script, ctx, uri)
}

func (n *neighbour) answerAs(sc string, ctx context.Context, uri string) (bool, error) {
	if n.owner.fs.dead.Load() {
		return true, nil
	}
	n.mu.Lock()
	n.asked = append(n.asked, uriPath(uri))
	n.mu.Unlock()
	if strings.HasPrefix(sc, "slow-") {
		c := &nbCall{uri: uri, done: make(chan struct{})}
		n.w.nbWait <- c
		<-c.done
		sc = strings.TrimPrefix(sc, "slow-")
	}
	switch {
	case sc == "needs":
		return true, nil
	case sc == "err":
		return false, errors.New("neighbour unreachable")
	case sc == "op":
		// the other operators of the assembly, asked through the real Operator.HandleNeedsTable behind an RPC: a handler that
		// panics produces no answer, the caller sees an error
		var firstErr error
		for _, o := range n.w.slots {
			if o == n.owner || o.nb == nil || !scriptHas(o.nb.script, "op") || o.op == nil {
				continue
			}
			needed, err := rpcNeedsTable(o.op, uri)
			if needed {
				return true, nil
			}
			if err != nil && firstErr == nil {
				firstErr = err
			}
		}
		return false, firstErr
	case sc == "live":
		// the truthful answer of every other live database object (all operators are each other's neighbours)
		var gone error
		for _, o := range n.w.slots {
			if o == n.owner {
				continue
			}
			if o.state == "live" && o.db != nil && o.db.NeedsTable(uri) {
				return true, nil
			}
			if o.state == "crashed" && o.nb != nil && scriptHas(o.nb.script, "live") {
				gone = errors.New("neighbour unreachable") // a crashed member of the assembly cannot answer
			}
		}
		return false, gone
	}
	return false, nil
}

// undeploy: the process of this operator is gone; what answers at its address now is a registered, not yet deployed operator.
func (s *slot) undeploy() {
	if s.op != nil {
		s.op = operator.NewOperator(operator.NewOperatorParams{ID: fmt.Sprintf("op-%d", s.idx), Host: "h"})
	}
}

var errFaultDelivered = errors.New("fault delivered")
var errWriteErrorLost = errors.New("write error lost")

func rpcNeedsTable(remote *operator.Operator, uri string) (needed bool, err error) {
	defer func() {
		if r := recover(); r != nil {
			needed, err = false, fmt.Errorf("rpc NeedsTable: connection closed by peer (remote handler panicked: %v)", r)
		}
	}()
	return remote.HandleNeedsTable(uri), nil
}

// ------------------------------------------------------------------ observation

type fname struct{ Dir, Kind, Num int }

func (f fname) coq() string { return fmt.Sprintf("(%d, %d, %d)", f.Dir, f.Kind, f.Num) }

func parsePath(p string) (fname, bool) {
	p = strings.TrimPrefix(uriPath(p), "/")
	parts := strings.Split(p, "/")
	if len(parts) != 2 || !strings.HasPrefix(parts[0], "d") {
		return fname{}, false
	}
	d, err := strconv.Atoi(parts[0][1:])
	if err != nil {
		return fname{}, false
	}
	switch {
	case parts[1] == "checkpoints":
		return fname{d, 2, 0}, true
	case strings.HasSuffix(parts[1], ".sst"):
		n, err := strconv.Atoi(strings.TrimSuffix(parts[1], ".sst"))
		return fname{d, 0, n}, err == nil
	case strings.HasSuffix(parts[1], ".wal"):
		n, err := strconv.Atoi(strings.TrimSuffix(parts[1], ".wal"))
		return fname{d, 1, n}, err == nil
	}
	return fname{}, false
}

func sortNames(xs []fname) {
	sort.Slice(xs, func(i, j int) bool {
		a, b := xs[i], xs[j]
		if a.Dir != b.Dir {
			return a.Dir < b.Dir
		}
		if a.Kind != b.Kind {
			return a.Kind < b.Kind
		}
		return a.Num < b.Num
	})
}

func coqNames(xs []fname) string {
	it := make([]string, len(xs))
	for i, x := range xs {
		it[i] = x.coq()
	}
	return hx.CoqList(it, "fname")
}

func (w *world) files() []fname {
	var out []fname
	for _, p := range w.root.List() {
		if f, ok := parsePath("/" + p); ok {
			out = append(out, f)
		}
	}
	sortNames(out)
	return out
}

type ckptDocJ struct {
	ID   uint64 `json:"id"`
	WALs []struct {
		URI   string `json:"uri"`
		After uint64 `json:"after"`
	} `json:"wals"`
	Levels [][]struct {
		URI string
	} `json:"levels"`
	LastSeqNum uint64 `json:"last_seq_num"`
}

type fsig struct {
	F fname
	H uint64
}

type handleObs struct {
	ID      uint64
	Dir     int
	Sigs    []fsig // FNV-1a of the contents of every existing WAL and table file of the document
	Present bool
	Wal     []fname
	After   uint64
	LastSeq uint64
	Tables  []fname
	Missing []fname
}

// countFS counts the ReadAt calls on the files opened through it.
type countFS struct {
	storage.FileSystem
	n int
}
type countFile struct {
	storage.File
	c *countFS
}

func (c *countFS) Open(path string) storage.File { return &countFile{File: c.FileSystem.Open(path), c: c} }
func (f *countFile) ReadAt(p []byte, off int64) (int, error) {
	f.c.n++
	return f.File.ReadAt(p, off)
}

// replayRotations predicts how often DB.Start rotates the memtable while it replays the WALs of the given handles (in the order
// of the handles, each WAL after its own After, keys outside [lo,hi) skipped when hi > 0): the size rules of memtable.Put/Delete
// and wal.Writer.Put/Delete (the ones of Model/Ckpt.v: 17+|k|+|v| per entry with a replaced entry subtracted, full when > MemTableSize;
// 8+4+|k|+1[+4+|v|] bytes per operation, full when >= MaxWALSize). Only used to keep the harness from deadlocking itself; a wrong
// prediction cannot hide or invent a difference.
func (w *world) replayRotations(hs []*handleRec, lo, hi int) (rot int, reads int) {
	cfs := &countFS{FileSystem: w.root}
	defer func() { recover(); reads = cfs.n }()
	sizes := map[string]uint64{}
	var mt, wb uint64
	for _, h := range hs {
		data, err := io.ReadAll(&storage.Cursor{File: w.root.Open(h.uri)})
		if err != nil {
			return
		}
		var doc struct {
			Checkpoints []ckptDocJ `json:"checkpoints"`
		}
		if json.Unmarshal(data, &doc) != nil {
			return
		}
		for _, d := range doc.Checkpoints {
			if d.ID != h.id {
				continue
			}
			for _, wl := range d.WALs {
				rd := wal.NewReader(cfs, wal.NewHandle(cfs, wal.HandleDocument{URI: wl.URI, After: wl.After}))
				for e, err := range rd.All() {
					if err != nil {
						return
					}
					k := e.Key()
					if hi > 0 {
						kg := 0
						if len(k) >= 2 {
							kg = int(k[0])*256 + int(k[1])
						}
						if kg < lo || kg >= hi {
							continue
						}
					}
					sz := uint64(17 + len(k))
					wb += uint64(8 + 4 + len(k) + 1)
					if !e.IsDelete() {
						sz += uint64(len(e.Value()))
						wb += uint64(4 + len(e.Value()))
					}
					mt += sz - sizes[string(k)]
					sizes[string(k)] = sz
					if wb >= w.walSize || mt > w.memSize {
						rot++
						sizes, mt, wb = map[string]uint64{}, 0, 0
					}
				}
			}
		}
	}
	return
}

func (w *world) observeHandles() []handleObs {
	keys := []hkey{}
	for k := range w.handles {
		keys = append(keys, k)
	}
	sort.Slice(keys, func(a, b int) bool {
		if keys[a].id != keys[b].id {
			return keys[a].id < keys[b].id
		}
		return w.slots[keys[a].slot].dir < w.slots[keys[b].slot].dir
	})
	var out []handleObs
	for _, k := range keys {
		h := w.handles[k]
		id := k.id
		ho := handleObs{ID: id, Dir: w.slots[k.slot].dir}
		data, err := io.ReadAll(&storage.Cursor{File: w.root.Open(h.uri)})
		if err == nil {
			var doc struct {
				Checkpoints []ckptDocJ `json:"checkpoints"`
			}
			if json.Unmarshal(data, &doc) == nil {
				for _, d := range doc.Checkpoints {
					if d.ID != id {
						continue
					}
					ho.Present = true
					ho.LastSeq = d.LastSeqNum
					for _, wl := range d.WALs {
						f, _ := parsePath(wl.URI)
						ho.Wal = append(ho.Wal, f)
						if len(ho.Wal) == 1 {
							ho.After = wl.After
						}
						if !w.root.Exists(uriPath(wl.URI)) {
							ho.Missing = append(ho.Missing, f)
						}
					}
					for _, lv := range d.Levels {
						for _, t := range lv {
							f, _ := parsePath(t.URI)
							ho.Tables = append(ho.Tables, f)
							if !w.root.Exists(uriPath(t.URI)) {
								ho.Missing = append(ho.Missing, f)
							}
						}
					}
					sortNames(ho.Tables)
					sortNames(ho.Missing)
					var uris []string
					for _, wl := range d.WALs {
						uris = append(uris, wl.URI)
					}
					for _, lv := range d.Levels {
						for _, t := range lv {
							uris = append(uris, t.URI)
						}
					}
					sort.Strings(uris)
					for i, u := range uris {
						if i > 0 && uris[i-1] == u {
							continue
						}
						if b, err := io.ReadAll(&storage.Cursor{File: w.root.Open(u)}); err == nil {
							hsh := fnv.New32a()
							hsh.Write(b)
							f, _ := parsePath(u)
							ho.Sigs = append(ho.Sigs, fsig{f, uint64(hsh.Sum32())})
						}
					}
					sort.Slice(ho.Sigs, func(a, b int) bool {
						x, y := ho.Sigs[a].F, ho.Sigs[b].F
						if x.Dir != y.Dir {
							return x.Dir < y.Dir
						}
						if x.Kind != y.Kind {
							return x.Kind < y.Kind
						}
						return x.Num < y.Num
					})
				}
			}
		}
		out = append(out, ho)
	}
	return out
}

func (h handleObs) coq() string {
	sg := make([]string, len(h.Sigs))
	for i, x := range h.Sigs {
		sg[i] = hx.CoqPair(x.F.coq(), fmt.Sprint(x.H))
	}
	return fmt.Sprintf("mkHObs %d %d %s %s %s %d %d %s %s", h.ID, h.Dir, hx.CoqList(sg, "fname * N"), hx.CoqBool(h.Present), coqNames(h.Wal), h.After, h.LastSeq, coqNames(h.Tables), coqNames(h.Missing))
}

type liveObs struct {
	DB      int
	Seq     uint64
	Latest  uint64
	Tables  []fname
	Missing []fname
}

func (w *world) observeLive() []liveObs {
	var out []liveObs
	for _, s := range w.slots {
		if s.state != "live" || s.db == nil {
			continue
		}
		lo := liveObs{DB: s.idx}
		lo.Seq, lo.Latest = s.db.VerifSeqNums()
		for _, lv := range s.db.VerifLevelDocs() {
			for _, t := range lv {
				f, _ := parsePath(t.URI)
				lo.Tables = append(lo.Tables, f)
				if !w.root.Exists(uriPath(t.URI)) {
					lo.Missing = append(lo.Missing, f)
				}
			}
		}
		sortNames(lo.Tables)
		sortNames(lo.Missing)
		out = append(out, lo)
	}
	return out
}

func (l liveObs) coq() string {
	return fmt.Sprintf("mkLObs %d %d %d %s %s", l.DB, l.Seq, l.Latest, coqNames(l.Tables), coqNames(l.Missing))
}

type readObs struct {
	Outcome int // 0 ok | 1 open error | 2 checkpoint id not in the file | 3 other panic | 4 read error
	Msg     string
	Scan    [][2][]byte
	Gets    []getObs
}
type getObs struct {
	K     []byte
	Found bool
	V     []byte
}

func (w *world) readDB(db *dkv.DB) (ro readObs) {
	defer func() {
		if p := recover(); p != nil {
			ro.Outcome, ro.Msg = 4, fmt.Sprint(p)
		}
	}()
	var serr error
	for e := range db.ScanPrefix(nil, &serr) {
		ro.Scan = append(ro.Scan, [2][]byte{append([]byte{}, e.Key()...), append([]byte{}, e.Value()...)})
	}
	if serr != nil {
		ro.Outcome, ro.Msg = 4, serr.Error()
		return
	}
	keys := []string{}
	for k := range w.universe {
		keys = append(keys, k)
	}
	sort.Strings(keys)
	for _, k := range keys {
		e, err := db.Get(w.universe[k])
		switch {
		case err == kv.ErrNotFound:
			ro.Gets = append(ro.Gets, getObs{K: w.universe[k]})
		case err != nil:
			ro.Outcome, ro.Msg = 4, err.Error()
			return
		case e.IsDelete():
			ro.Gets = append(ro.Gets, getObs{K: w.universe[k]})
		default:
			ro.Gets = append(ro.Gets, getObs{K: w.universe[k], Found: true, V: append([]byte{}, e.Value()...)})
		}
	}
	return
}

func (r *readObs) coq() string {
	if r == nil {
		return "None"
	}
	sc := make([]string, len(r.Scan))
	for i, kv := range r.Scan {
		sc[i] = hx.CoqPair(hx.CoqBytes(kv[0]), hx.CoqBytes(kv[1]))
	}
	gs := make([]string, len(r.Gets))
	for i, g := range r.Gets {
		v := "None"
		if g.Found {
			v = "(Some " + hx.CoqBytes(g.V) + ")"
		}
		gs[i] = hx.CoqPair(hx.CoqBytes(g.K), v)
	}
	return fmt.Sprintf("(Some (mkRObs %d %s %s))", r.Outcome, hx.CoqList(sc, "bytes * bytes"), hx.CoqList(gs, "bytes * option bytes"))
}

type entryJ struct {
	K   []byte
	Seq uint64
	Del bool
	V   []byte
}

func coqEntries(es []entryJ) string {
	it := make([]string, len(es))
	for i, e := range es {
		it[i] = fmt.Sprintf("mkE %s %d %s %s", hx.CoqBytes(e.K), e.Seq, hx.CoqBool(e.Del), hx.CoqBytes(e.V))
	}
	return hx.CoqList(it, "entry")
}

type keepAll struct{}

func (keepAll) OwnsKey([]byte) bool { return true }
func (keepAll) ExclusivelyOwnsTable(string, []byte, []byte) (bool, error) {
	return false, nil
}

// tableEntries reads a table file through the repository's own reader.
func (w *world) tableEntries(doc sst.TableDocument) ([]entryJ, error) {
	t := sst.NewTableFromDocument(w.root, keepAll{}, doc)
	var serr error
	var out []entryJ
	for e := range t.ScanPrefix(nil, &serr) {
		out = append(out, entryJ{K: append([]byte{}, e.Key()...), Seq: e.SeqNum(), Del: e.IsDelete(), V: append([]byte{}, e.Value()...)})
	}
	return out, serr
}

// ------------------------------------------------------------------ execution

type stepOut struct {
	op      string // Gallina term of the op
	read    *readObs
	gcDel   []fname
	gcAsked []fname
	during  []fname // gc: files referenced by retained documents that were missing while a slow neighbour had not answered yet
}

type runner struct {
	w     *world
	terms []string
	tags  map[string]bool
	nontr bool
	obs   []any
	// bookkeeping for the non-triviality rule
	ckptBusy  map[uint64]bool // checkpoint taken while some task was parked
	workAfter map[uint64]bool // source database did further work after the checkpoint
	lastCkpt  map[int][]uint64
}

func discardLogger() *slog.Logger { return slog.New(slog.NewTextHandler(io.Discard, nil)) }

func (r *runner) emit(so stepOut) {
	w := r.w
	files := w.files()
	hs := w.observeHandles()
	ls := w.observeLive()
	hsC := make([]string, len(hs))
	for i, h := range hs {
		hsC[i] = h.coq()
	}
	lsC := make([]string, len(ls))
	for i, l := range ls {
		lsC[i] = l.coq()
	}
	term := fmt.Sprintf("(%s, mkObs %s %s %s %s %s %s %s)", so.op, coqNames(files), so.read.coq(),
		hx.CoqList(hsC, "hobs"), hx.CoqList(lsC, "lobs"), coqNames(so.gcDel), coqNames(so.gcAsked), coqNames(so.during))
	r.terms = append(r.terms, term)
	r.obs = append(r.obs, map[string]any{"op": so.op, "files": len(files), "read": so.read, "gc_deleted": so.gcDel})
	// a live database that lost a table file (reported above) would panic in its next compaction: the object is abandoned
	for _, l := range ls {
		if len(l.Missing) > 0 {
			if s := w.slots[l.DB]; s.state == "live" {
				s.state = "crashed"
				r.voidTasks(s)
				s.db, s.waits = nil, nil
			s.undeploy()
				r.tag("abandoned-after-losing-a-table")
				r.emit(stepOut{op: fmt.Sprintf("OCrash %d", s.idx)})
			}
		}
	}
}

func (r *runner) tag(t string) { r.tags[t] = true }

func (r *runner) busy() bool {
	w := r.w
	if w.actFlush != nil || w.actComp != nil || len(w.flushQ) > 0 || len(w.compQ) > 0 {
		return true
	}
	for _, s := range w.slots {
		if len(s.ckpts) > 0 {
			return true
		}
	}
	return false
}

func (r *runner) slot(i int) *slot {
	if i < 0 || i >= len(r.w.slots) {
		return nil
	}
	s := r.w.slots[i]
	if s.state != "live" {
		return nil
	}
	return s
}

// stepTask advances one task of s and emits the corresponding model op (unless silent).
func (r *runner) stepTask(s *slot, t *task, silent bool, fail int) error {
	w := r.w
	switch t.kind {
	case "flush":
		if t.point == "swap" && w.actComp != nil && w.actComp.slot == s && w.actComp.point == "swap" {
			r.tag("flush-swaps-while-compaction-holds-a-change-set")
		}
		failing := fail == 1 && t.point == "begin" && s.db.VerifMemtableCount() > 1
		f := 0
		if failing {
			f = 1
		}
		_, err := w.release(t, f)
		if err != nil {
			return err
		}
		w.log.take()
		if !silent {
			if failing {
				r.tag("fault-flush-table-save")
				r.emit(stepOut{op: fmt.Sprintf("OStepFlushF %d", s.idx)})
			} else {
				r.emit(stepOut{op: fmt.Sprintf("OStepFlush %d", s.idx)})
			}
		}
	case "compact":
		from := t.point
		var before [][]sst.TableDocument
		if !silent {
			before = s.db.VerifLevelDocs()
		}
		_, err := w.release(t, 0)
		if err != nil {
			return err
		}
		evs := w.log.take()
		if silent {
			return nil
		}
		res := "CRnone"
		switch {
		case from == "iter" && t.point == "end":
			res = "CRnil"
		case from == "iter" && t.point == "swap":
			// the tables written by this compaction step: files created since the release (contents are reported at the swap)
			var added []fname
			for _, ev := range evs {
				if ev.Kind != "create" {
					continue
				}
				if f, ok := parsePath(ev.Path); ok && f.Kind == 0 {
					added = append(added, f)
				}
			}
			sortNames(added)
			res = "CRadded " + coqNames(added)
			r.tag("compaction-wrote")
		case from == "swap":
			after := s.db.VerifLevelDocs()
			have := map[string]bool{}
			for _, lv := range after {
				for _, d := range lv {
					have[d.URI] = true
				}
			}
			had := map[string]bool{}
			var removed []fname
			for _, lv := range before {
				for _, d := range lv {
					had[d.URI] = true
					if !have[d.URI] {
						f, _ := parsePath(d.URI)
						removed = append(removed, f)
					}
				}
			}
			sortNames(removed)
			type ad struct {
				f fname
				c string
			}
			var added []ad
			for _, lv := range after {
				for _, d := range lv {
					if had[d.URI] {
						continue
					}
					f, _ := parsePath(d.URI)
					es, err := w.tableEntries(d)
					if err != nil {
						return fmt.Errorf("reading compaction output %s: %v", d.URI, err)
					}
					added = append(added, ad{f, hx.CoqPair(f.coq(), coqEntries(es))})
				}
			}
			sort.Slice(added, func(i, j int) bool { return added[i].f.Num < added[j].f.Num })
			ac := make([]string, len(added))
			for i, a := range added {
				ac[i] = a.c
			}
			res = "CRswapped " + coqNames(removed) + " " + hx.CoqList(ac, "fname * list entry")
		}
		r.emit(stepOut{op: fmt.Sprintf("OStepCompact %d (%s)", s.idx, res)})
	case "ckpt":
		id := t.id
		f := fail
		if t.point == "walsave" && f != 1 && f < 10 {
			f = 0
		}
		if t.point != "walsave" && f >= 10 {
			f = 0
		}
		h, err := w.release(t, f)
		if f >= 10 {
			switch err {
			case errFaultDelivered, errWriteErrorLost:
				// a write error on a WAL segment: the model expects the WAL save to fail
				if err == errWriteErrorLost {
					r.tag("fault-wal-write-error-swallowed")
				}
				f, err = 1, nil
				r.tag("fault-wal-write")
			case nil:
				f = 0 // the WAL has fewer segments than the chosen index: no fault was delivered
			}
		}
		if err != nil {
			return err
		}
		w.log.take()
		if h != nil && !silent {
			w.handles[hkey{id, s.idx}] = &handleRec{id: id, uri: h.URI, slot: s.idx}
		}
		if !silent {
			if f != 0 {
				r.tag(fmt.Sprintf("fault-ckpt-%d", f))
				r.emit(stepOut{op: fmt.Sprintf("OStepCkptF %d %d %d", s.idx, id, f)})
			} else {
				r.emit(stepOut{op: fmt.Sprintf("OStepCkpt %d %d", s.idx, id)})
			}
		}
	}
	return nil
}

func (r *runner) drain(s *slot, max int, silent bool) error {
	for n := 0; max == 0 || n < max; n++ {
		t := r.w.nextTask(s, "", 0)
		if t == nil {
			if r.w.tasksOf(s) > 0 {
				return fmt.Errorf("db %d has queued tasks behind another database's parked task", s.idx)
			}
			return nil
		}
		ts := s
		if c := r.w.actComp; t.kind == "flush" && t.point == "end" && c != nil && c.slot.state == "live" && (len(r.w.compQ) >= r.w.capC || r.w.compWaiting(s)) {
			// the flush task is about to enqueue its compaction: the running compaction goes first when the compaction queue takes no
			// more, and when a compaction task of this database is still waiting to start (see compWaiting)
			t, ts = c, c.slot
		}
		if err := r.stepTask(ts, t, silent && ts == s, 0); err != nil {
			return err
		}
	}
	return nil
}

func (r *runner) drainOthers(s *slot) error {
	for _, o := range r.w.slots {
		if o != s && o.state == "live" && r.w.tasksOf(o) > 0 {
			if err := r.drain(o, 0, false); err != nil {
				return err
			}
		}
	}
	return nil
}

func (r *runner) noteWork(s *slot) {
	for _, id := range r.lastCkpt[s.idx] {
		r.workAfter[id] = true
	}
}

func (r *runner) write(o opJ, del bool) error {
	w := r.w
	s := r.slot(o.DB)
	if s == nil || len(o.K) < 2 {
		return nil
	}
	if kg := o.K[0]*256 + o.K[1]; s.hi > 0 && (kg < s.lo || kg >= s.hi) {
		return nil // an operator never writes keys outside its range
	}
	if err := r.drainOthers(s); err != nil {
		return err
	}
	if len(w.flushQ) >= w.flushRoom() || len(w.compQ) >= w.compRoom() {
		if err := r.drain(s, 0, false); err != nil {
			return err
		}
	}
	if s.state != "live" {
		return nil // abandoned meanwhile (it lost a table file)
	}
	k, v := toBytes(o.K), toBytes(o.V)
	w.universe[string(k)] = k
	before := s.db.VerifMemtableCount()
	if del {
		s.db.Delete(k)
	} else {
		s.db.Put(k, v)
	}
	rot := s.db.VerifMemtableCount() - before
	if err := w.afterRotations(s, rot); err != nil {
		return err
	}
	w.log.take()
	r.noteWork(s)
	if rot > 0 {
		r.tag("rotation")
	}
	if del {
		r.emit(stepOut{op: fmt.Sprintf("ODel %d %s %s", s.idx, hx.CoqBytes(k), hx.CoqBool(rot > 0))})
	} else {
		r.emit(stepOut{op: fmt.Sprintf("OPut %d %s %s %s", s.idx, hx.CoqBytes(k), hx.CoqBytes(v), hx.CoqBool(rot > 0))})
	}
	return nil
}

func (r *runner) newSlot(dir int) *slot {
	w := r.w
	s := &slot{idx: len(w.slots), dir: dir, state: "live", ckpts: map[uint64]*task{}, waits: map[uint64]func() (recovery.CheckpointHandle, error){}, ids: map[uint64]bool{}}
	s.fs = newVFS(w.root, w.grave, w.root.WithWorkingDir(fmt.Sprintf("d%d", dir)), storage.NewMemoryFilesystem().WithWorkingDir(fmt.Sprintf("d%d", dir)), w.log)
	return s
}

func (r *runner) opts(s *slot, own kv.DataOwnership) dkv.DBOptions {
	return dkv.DBOptions{FileSystem: s.fs, MemTableSize: r.w.memSize, MaxWALSize: r.w.walSize, TargetFileSize: r.w.tfs,
		Logger: discardLogger(), DataOwnership: own}
}

func (r *runner) restore(o opJ) error {
	w := r.w
	if len(w.slots) >= 7 {
		return nil
	}
	var hs []*handleRec
	composite := false
	if len(o.Srcs) > 0 {
		composite = true
		for _, sl := range o.Srcs {
			h := w.handles[hkey{o.ID, sl}]
			if h == nil || w.slots[sl].state == "live" {
				return nil
			}
			hs = append(hs, h)
		}
	} else {
		var slots []int
		for k := range w.handles {
			if k.id == o.ID {
				slots = append(slots, k.slot)
			}
		}
		if len(slots) == 0 {
			return nil
		}
		sort.Ints(slots)
		hs = []*handleRec{w.handles[hkey{o.ID, slots[0]}]}
		composite = len(slots) > 1
	}
	if composite && len(o.Srcs) == 0 {
		o.Same = false
	}
	for _, ho := range w.observeHandles() {
		for _, x := range hs {
			if ho.ID == x.id && ho.Dir == w.slots[x.slot].dir && len(ho.Wal) > 1 {
				return nil // the document was rewritten as a composite by an in-place redeploy: restoring it again together with its parts is not generated
			}
		}
	}
	h := hs[0]
	if err := r.drainOthers(nil); err != nil {
		return err
	}
	rots, walReads := w.replayRotations(hs, o.Lo, o.Hi)
	if rots > w.capF+1 {
		// Open would rotate more often during the replay than the flush queue takes while the harness parks the first flush task
		// at its begin (1 running + capF pending): the opener would block in Enqueue for ever. Such a restore is not generated.
		return nil
	}
	src := w.slots[h.slot]
	dir := w.nextDir
	if o.Same {
		if src.state == "live" {
			return nil // two live objects in one directory is not a use the property talks about
		}
		dir = src.dir
	} else {
		w.nextDir++
	}
	s := r.newSlot(dir)
	var own kv.DataOwnership
	ownC := "OwnAll"
	nbC := "NbNone"
	s.ids[o.ID] = true
	if src.state == "live" && (scriptHas(strings.TrimSuffix(o.Nb, "+late"), "op") || scriptHas(strings.TrimSuffix(o.Nb, "+late"), "live")) {
		o.Nb = "err" // a probe of the handle is not a member of the assembly
	}
	if o.Hi > 0 {
		s.lo, s.hi = o.Lo, o.Hi
		late := strings.HasSuffix(o.Nb, "+late")
		o.Nb = strings.TrimSuffix(o.Nb, "+late")
		s.nb = &neighbour{w: w, owner: s, script: o.Nb}
		var nbs []operator.VerifNeighbor
		if strings.HasPrefix(o.Nb, "seq:") {
			// several neighbours whose answers arrive in the listed order
			kinds := strings.Split(strings.TrimPrefix(o.Nb, "seq:"), ",")
			var prev chan handoff
			var ans []string
			for i, kd := range kinds {
				q := &seqNeighbour{base: s.nb, kind: kd, prev: prev}
				if i < len(kinds)-1 {
					q.next = make(chan handoff, 1)
				}
				prev = q.next
				nbs = append(nbs, operator.VerifNeighbor{KeyGroupRange: partitioning.KeyGroupRange{Start: 0, End: 65536}, Operator: q})
				ans = append(ans, map[string]string{"clean": "AClean", "claim": "AClaim", "err": "AErr", "never": "ANever", "live": "ALive", "op": "AOp"}[kd])
			}
			nbC = "(NbSeq " + hx.CoqList(ans, "nbans") + ")"
			r.tag(fmt.Sprintf("neighbours-%d-ordered-answers", len(kinds)))
			r.tag("nb-order-" + strings.TrimPrefix(o.Nb, "seq:"))
		} else if o.Nb != "" && late {
			// two neighbours: the scripted one and a slower one whose clean "not needed" arrives after the first answer
			s.nb.twin = make(chan handoff, 1)
			nbs = append(nbs, operator.VerifNeighbor{KeyGroupRange: partitioning.KeyGroupRange{Start: 0, End: 65536}, Operator: s.nb})
			nbs = append(nbs, operator.VerifNeighbor{KeyGroupRange: partitioning.KeyGroupRange{Start: 0, End: 65536}, Operator: &lateNeighbour{from: s.nb.twin}})
			r.tag("two-neighbours-late-clean-answer")
		} else if o.Nb != "" {
			// the other operators of the assembly hold the complement of this key-group range
			if o.Lo > 0 {
				nbs = append(nbs, operator.VerifNeighbor{KeyGroupRange: partitioning.KeyGroupRange{Start: 0, End: o.Lo}, Operator: s.nb})
			}
			nbs = append(nbs, operator.VerifNeighbor{KeyGroupRange: partitioning.KeyGroupRange{Start: o.Hi, End: 65536}, Operator: s.nb})
		}
		own = operator.VerifNewOperatorPartition(partitioning.KeyGroupRange{Start: o.Lo, End: o.Hi}, nbs)
		ownC = fmt.Sprintf("(OwnRange %d %d)", o.Lo, o.Hi)
		sc := strings.TrimPrefix(o.Nb, "slow-")
		switch sc {
		case "needs":
			nbC = "NbNeeds"
		case "err":
			nbC = "NbErr"
		case "live":
			nbC = "NbLive"
		case "op":
			nbC = "NbOp"
		}
		r.tag("own-range")
		if o.Nb != "" {
			r.tag("nb-" + o.Nb[:min(len(o.Nb), 9)])
		}
	}
	restoreOp := fmt.Sprintf("ORestore %d %d %s %s %s", s.idx, o.ID, hx.CoqBool(o.Same), ownC, nbC)
	if composite {
		dirs := make([]string, len(hs))
		for i, x := range hs {
			dirs[i] = fmt.Sprint(w.slots[x.slot].dir)
		}
		restoreOp = fmt.Sprintf("ORestoreM %d %d %s %s %s %s", s.idx, o.ID, hx.CoqList(dirs, "N"), hx.CoqBool(o.Same), ownC, nbC)
		if o.Same {
			r.tag("restore-composite-into-first-handles-directory")
		}
		if len(hs) > 1 {
			r.tag("restore-composite")
		}
	}
	w.opening = s
	faulted := false
	var fdb *dkv.DB
	if o.Fail > 0 && walReads > 0 {
		faulted = true
		// one storage read of the replay fails: read number (Fail-1) modulo the number of reads the healthy replay does
		s.fs.failRead.Store(int64((o.Fail-1)%walReads) + 1)
	}
	var ro readObs
	func() {
		defer func() {
			if p := recover(); p != nil {
				msg := fmt.Sprint(p)
				ro.Msg = msg
				switch {
				case strings.Contains(msg, "failed to find indicated checkpoint ID"):
					ro.Outcome = 2
				case strings.HasPrefix(msg, "db.boot"):
					ro.Outcome = 1
				default:
					ro.Outcome = 3
				}
			}
		}()
		var chs []recovery.CheckpointHandle
		for _, x := range hs {
			chs = append(chs, recovery.CheckpointHandle{CheckpointID: x.id, URI: x.uri})
		}
		if faulted {
			// what dkv.Open does, keeping the object so that the tasks of a failed Start can be run off before the history goes on
			w.faulting.Store(true) // until the object is registered or marked dead below
			fdb = dkv.New(r.opts(s, own))
			if err := fdb.Start(chs); err != nil {
				panic(fmt.Sprintf("db.boot: %v", err))
			}
			s.db = fdb
		} else {
			s.db = dkv.Open(r.opts(s, own), chs)
		}
	}()
	w.opening = nil
	if ro.Outcome != 0 && fdb != nil {
		// rotations before the failing read have enqueued flush tasks: they run to their end without being parked, their
		// effects go to the void
		s.fs.dead.Store(true)
		w.dead.Store(fdb, true)
		close(w.goneCh(fdb))
		fdb.WaitOnTasks()
	drained:
		for {
			select {
			case a := <-w.arrivals:
				close(a.gate)
			default:
				break drained
			}
		}
	}
	w.faulting.Store(false)
	if fdb != nil {
		w.gone.Delete(fdb)
		fdb = nil
	}
	readFault := false
	select {
	case <-s.fs.fired:
		readFault = true
		r.tag("fault-wal-read")
		r.nontr = true
	default:
	}
	s.fs.failRead.Store(0)
	if readFault && ro.Outcome != 0 {
		// the fault was handed up: Open did not return a database (what the model says of a faulted restore)
		restoreOp = fmt.Sprintf("ORestoreF %d %s", s.idx, hx.CoqBool(o.Same))
		r.tag(fmt.Sprintf("fault-wal-read-surfaced-as-%d", ro.Outcome))
	} else if readFault {
		r.tag("fault-wal-read-and-open-returned-a-database")
	}
	if ro.Outcome != 0 {
		// a failed Open may have left flush tasks behind (rotations during replay): they are let go into the void
		s.fs.dead.Store(true)
		s.state = "crashed"
		w.slots = append(w.slots, s)
		r.voidTasks(s)
		s.db = nil
		r.tag(fmt.Sprintf("restore-outcome-%d", ro.Outcome))
		r.emit(stepOut{op: restoreOp, read: &ro})
		return nil
	}
	w.slots = append(w.slots, s)
	if s.nb != nil && scriptHas(s.nb.script, "op") {
		s.op = operator.NewOperator(operator.NewOperatorParams{ID: fmt.Sprintf("op-%d", s.idx), Host: "h"})
		operator.VerifSetDB(s.op, s.db)
	}
	rot := s.db.VerifMemtableCount() - 1
	if err := w.afterRotations(s, rot); err != nil {
		return err
	}
	w.log.take()
	ro = w.readDB(s.db)
	r.tag("restore-ok")
	if o.Same {
		r.tag("restore-same-dir")
	} else {
		r.tag("restore-fresh-dir")
	}
	if rot > 0 {
		r.tag("restore-replay-rotated")
	}
	if r.ckptBusy[o.ID] {
		r.tag("restore-of-ckpt-taken-while-task-parked")
		r.nontr = true
	}
	if r.workAfter[o.ID] {
		r.tag("restore-after-source-did-more-work")
		r.nontr = true
	}
	if h.slot != 0 {
		r.tag("restore-chain")
	}
	r.emit(stepOut{op: restoreOp, read: &ro})
	if s.state == "live" && (src.state == "live" || ro.Outcome != 0) {
		// the database that created the tables lives on: the restored object is only a probe of the handle (two objects that
		// both believe they own the same created tables is not a deployment the properties talk about)
		s.state = "crashed"
		r.voidTasks(s)
		s.db, s.waits = nil, nil
			s.undeploy()
		r.tag("restore-probe-while-source-lives")
		r.emit(stepOut{op: fmt.Sprintf("OCrash %d", s.idx)})
	}
	return nil
}

// race: the list save of checkpoint o.ID is parked INSIDE the commit of the checkpoints file (after it took its view of the list);
// meanwhile a second save of the same database is issued - the list save of checkpoint o.ID2, or a retention update o.IDs (with an
// optional storage fault on ITS save). In the code as it is the second one waits for the first; the harness lets the second one run until
// it has either completed (the saves overlapped) or come to rest waiting (goroutine state, no clock), then lets the first one commit.
// One observation is emitted for both steps.
func (r *runner) race(o opJ) error {
	w := r.w
	s := r.slot(o.DB)
	if s == nil {
		return nil
	}
	ta := s.ckpts[o.ID]
	if ta == nil || ta.point != "listsave" {
		return nil
	}
	retain := len(o.IDs) > 0
	if !retain {
		// the second checkpoint is taken while the first one is inside its commit: its id must be new
		if o.ID2 == 0 || o.ID2 == o.ID || s.ids[o.ID2] || len(s.ckpts) != 1 {
			return nil
		}
	} else {
		// the same preconditions as for a retention update
		var newest uint64
		kept := 0
		for _, k := range o.IDs {
			newest = max(newest, k)
			if s.ids[k] {
				kept++
			}
		}
		if kept == 0 {
			return nil
		}
		for id := range s.ckpts {
			listed := id > newest
			for _, k := range o.IDs {
				listed = listed || k == id
			}
			if !listed {
				return nil
			}
		}
	}
	if err := r.drainOthers(s); err != nil {
		return err
	}
	// A goes into its file commit
	s.fs.gateRel = make(chan struct{})
	s.fs.gateCk.Store(true)
	waitA := s.waits[o.ID]
	delete(s.waits, o.ID)
	delete(s.ckpts, o.ID)
	close(ta.gate)
	<-s.fs.gateArr
	// B is issued meanwhile
	type res struct {
		h   recovery.CheckpointHandle
		err error
	}
	bDone := make(chan res, 1)
	var secondOp string
	var bGo uint64 // the goroutine that performs the second save
	if !retain {
		// Checkpoint(id2): locked part, WAL save, then its list save is issued
		s.ids[o.ID2] = true
		r.lastCkpt[s.idx] = append(r.lastCkpt[s.idx], o.ID2)
		waitB := s.db.Checkpoint(o.ID2)
		if err := w.expect(1); err != nil {
			return err
		}
		tb := s.ckpts[o.ID2]
		close(tb.gate)
		if err := w.expect(1); err != nil {
			return err
		}
		tb = s.ckpts[o.ID2]
		delete(s.ckpts, o.ID2)
		bGo = tb.goid // the goroutine of Checkpoint(id2)'s asynchronous part: it does the list save
		close(tb.gate)
		go func() { h, err := waitB(); bDone <- res{h, err} }()
		secondOp = ""
	} else {
		if o.Fail == 1 {
			s.fs.armSave("ck") // A is already past the fault check: this hits the retention update's own save
		}
		ids := make([]string, len(o.IDs))
		for i, id := range o.IDs {
			ids[i] = fmt.Sprint(id)
		}
		started := make(chan uint64, 1)
		go func() {
			started <- goid()
			var err error
			func() {
				defer func() {
					if p := recover(); p != nil {
						err = fmt.Errorf("panic: %v", p)
					}
				}()
				err = s.db.UpdateRetainedCheckpoints(o.IDs)
			}()
			bDone <- res{err: err}
		}()
		bGo = <-started
		if o.Fail == 1 {
			secondOp = fmt.Sprintf("ORetainF %d %s 1", s.idx, hx.CoqList(ids, "N"))
		} else {
			secondOp = fmt.Sprintf("ORetain %d %s", s.idx, hx.CoqList(ids, "N"))
		}
		var newest uint64
		for _, k := range o.IDs {
			newest = max(newest, k)
		}
		for id := range s.ids {
			found := id > newest
			for _, k := range o.IDs {
				found = found || k == id
			}
			if !found {
				delete(s.ids, id)
			}
		}
	}
	// B either completes while A is parked inside its commit (the saves overlapped), or it comes to rest: its goroutine is neither
	// running nor runnable, i.e. it waits for something only A can give (the save lock in the code as it is). No clock: the loop ends
	// on one of these two events; a goroutine that merely has not been scheduled yet is "runnable" and is waited for.
	var rb *res
waitB:
	for {
		select {
		case x := <-bDone:
			rb = &x
			r.tag("race-second-save-overtook-the-parked-one")
			break waitB
		default:
		}
		switch st := goState(bGo); {
		case st == "running" || st == "runnable" || st == "syscall" || st == "preempted" || st == "copystack" || st == "waiting" || strings.HasPrefix(st, "GC ") || strings.Contains(st, "the world"):
			runtime.Gosched() // on its way (or held up by the runtime for a moment)
		case st == "":
			// the goroutine has ended: its result is on its way through bDone (checkpoint path: through the waiter goroutine)
			x := <-bDone
			rb = &x
			r.tag("race-second-save-overtook-the-parked-one")
			break waitB
		default:
			r.tag("race-second-save-waits-for-the-parked-one")
			break waitB
		}
	}
	// A commits
	close(s.fs.gateRel)
	ha, errA := waitA()
	if rb == nil {
		x := <-bDone
		rb = &x
	}
	s.fs.disarm()
	w.log.take()
	if errA == nil {
		w.handles[hkey{o.ID, s.idx}] = &handleRec{id: o.ID, uri: ha.URI, slot: s.idx}
	}
	var ro *readObs
	if !retain {
		if rb.err == nil {
			w.handles[hkey{o.ID2, s.idx}] = &handleRec{id: o.ID2, uri: rb.h.URI, slot: s.idx}
		}
	} else if rb.err != nil {
		ro = &readObs{Outcome: 1, Msg: rb.err.Error()}
	}
	r.noteWork(s)
	r.tag("race-save-parked-inside-file-commit")
	if retain {
		r.tag("race-retention-update-during-save")
	}
	if !retain {
		r.tag("race-second-checkpoint-during-save")
		r.emit(stepOut{op: fmt.Sprintf("OSeq (OCkpt %d %d) (OSeq (OStepCkpt %d %d) (OSeq (OStepCkpt %d %d) (OStepCkpt %d %d)))",
			s.idx, o.ID2, s.idx, o.ID2, s.idx, o.ID, s.idx, o.ID2), read: ro})
		return nil
	}
	r.emit(stepOut{op: fmt.Sprintf("OSeq (OStepCkpt %d %d) (%s)", s.idx, o.ID, secondOp), read: ro})
	return nil
}

// voidTasks lets every task of a dead database run on by itself; nothing it does reaches the shared file system and it is
// not stopped at hook points any more.
func (r *runner) voidTasks(s *slot) {
	w := r.w
	s.fs.dead.Store(true)
	if s.db != nil {
		w.dead.Store(s.db, true)
		w.zombies = append(w.zombies, s.db) // its tasks run on by themselves: awaited at the end of the case
	}
	keep := func(q []*task) []*task {
		out := q[:0:0]
		for _, t := range q {
			if t.slot != s {
				out = append(out, t)
			}
		}
		return out
	}
	w.flushQ, w.compQ = keep(w.flushQ), keep(w.compQ)
	if w.actFlush != nil && w.actFlush.slot == s {
		close(w.actFlush.gate)
		w.actFlush = nil
	}
	if w.actComp != nil && w.actComp.slot == s {
		close(w.actComp.gate)
		w.actComp = nil
	}
	for id, t := range s.ckpts {
		close(t.gate)
		delete(s.ckpts, id)
	}
	w.log.take()
}

func (r *runner) gc() stepOut {
	w := r.w
	so := stepOut{op: "OGc"}
	before := w.files()
	for _, s := range w.slots {
		if s.nb != nil {
			s.nb.mu.Lock()
			s.nb.asked = nil
			s.nb.mu.Unlock()
		}
	}
	for round := 0; round < 3; round++ {
		done := make(chan struct{})
		func() {
			sentinel := new([64]byte)
			runtime.AddCleanup(sentinel, func(c chan struct{}) { close(c) }, done)
		}()
		runtime.GC()
	wait:
		for {
			select {
			case <-done:
				break wait
			case c := <-w.nbWait:
				// a slow neighbour has been asked and has not answered: the files must still be there
				for _, h := range w.observeHandles() {
					if len(h.Missing) > 0 || !h.Present {
						so.during = append(so.during, fname{int(h.ID), 9, 0}) // the id of a handle with missing files, encoded as a name
					}
				}
				close(c.done)
			default:
				runtime.GC()
				runtime.Gosched()
			}
		}
	}
	w.log.take()
	after := map[fname]bool{}
	for _, f := range w.files() {
		after[f] = true
	}
	for _, f := range before {
		if !after[f] {
			so.gcDel = append(so.gcDel, f)
		}
	}
	sortNames(so.gcDel)
	for _, s := range w.slots {
		if s.nb != nil {
			s.nb.mu.Lock()
			for _, p := range s.nb.asked {
				if f, ok := parsePath(p); ok {
					so.gcAsked = append(so.gcAsked, f)
				}
			}
			s.nb.mu.Unlock()
		}
	}
	sortNames(so.gcAsked)
	sortNames(so.during)
	w.gcCount += len(so.gcDel)
	return so
}

func execute(c *hx.Case) (*hx.Result, error) {
	if os.Getenv("CKPT_DEBUG") != "" {
		defer func() {
			if p := recover(); p != nil {
				fmt.Fprintf(os.Stderr, "panic: %v\n%s\n", p, debug.Stack())
				panic(p)
			}
		}()
	}
	ops, err := decodeOps(c)
	if err != nil {
		return nil, err
	}
	pi := func(k string, def int) int {
		if v, ok := c.Params[k]; ok {
			switch x := v.(type) {
			case float64:
				return int(x)
			case int:
				return x
			}
		}
		return def
	}
	slog.SetDefault(discardLogger())
	w := &world{root: storage.NewMemoryFilesystem(), grave: storage.NewMemoryFilesystem(), log: &fsLog{}, handles: map[hkey]*handleRec{}, arrivals: make(chan *arrival, 64),
		memSize: uint64(pi("mem", 60)), walSize: uint64(pi("wal", 1000)), tfs: uint64(pi("tfs", 80)), universe: map[string][]byte{},
		nbWait: make(chan *nbCall, 16), nextDir: 1, closed: make(chan struct{})}
	verifhook.SetTuning("dkv", dkv.VerifDBTuning{L0TableNumCompactionTrigger: pi("l0", 2), MaxSizeAmplificationPercent: pi("amp", 50),
		SmallestLevelSize: int64(pi("sls", 120)), LevelSizeMultiplier: pi("mult", 2)})
	w.capF, w.capC = dkv.VerifQueueLimits()
	cur.Store(w)
	verifhook.Set(hook)
	r := &runner{w: w, tags: map[string]bool{}, ckptBusy: map[uint64]bool{}, workAfter: map[uint64]bool{}, lastCkpt: map[int][]uint64{}}
	s0 := r.newSlot(0)
	s0.db = dkv.Open(r.opts(s0, nil), nil)
	w.slots = append(w.slots, s0)
	usedIDs := map[hkey]bool{}
	fail := func(e error) (*hx.Result, error) {
		r.cleanup()
		return nil, e
	}
	for _, o := range ops {
		switch o.Op {
		case "put":
			if err := r.write(o, false); err != nil {
				return fail(err)
			}
		case "del":
			if err := r.write(o, true); err != nil {
				return fail(err)
			}
		case "ckpt":
			s := r.slot(o.DB)
			if s == nil || o.ID == 0 || usedIDs[hkey{o.ID, s.idx}] || s.ids[o.ID] {
				continue
			}
			if err := r.drainOthers(s); err != nil {
				return fail(err)
			}
			if s.state != "live" {
				continue
			}
			usedIDs[hkey{o.ID, s.idx}] = true
			if r.busy() {
				r.ckptBusy[o.ID] = true
				r.tag("ckpt-while-task-parked")
				if w.actFlush != nil {
					r.tag("ckpt-flush-at-" + w.actFlush.point)
				}
				if w.actComp != nil {
					r.tag("ckpt-compact-at-" + w.actComp.point)
				}
				if len(s.ckpts) > 0 {
					r.tag("ckpt-while-earlier-ckpt-unsaved")
				}
			}
			r.noteWork(s)
			r.lastCkpt[s.idx] = append(r.lastCkpt[s.idx], o.ID)
			s.ids[o.ID] = true
			if lv := s.db.VerifLevelDocs(); len(lv) > 0 {
				for i, l := range lv {
					if len(l) == 0 {
						continue
					}
					switch {
					case i == len(lv)-1:
						r.tag("ckpt-tables-in-base-level")
					case i == 0:
						r.tag("ckpt-tables-in-L0")
					default:
						r.tag("ckpt-tables-in-middle-level")
					}
				}
			}
			s.waits[o.ID] = s.db.Checkpoint(o.ID)
			if err := w.expect(1); err != nil {
				return fail(err)
			}
			w.log.take()
			r.emit(stepOut{op: fmt.Sprintf("OCkpt %d %d", s.idx, o.ID)})
		case "step":
			s := r.slot(o.DB)
			if s == nil {
				continue
			}
			t := w.nextTask(s, o.Task, o.ID)
			if t == nil {
				continue
			}
			if t.kind == "flush" && t.point == "end" && (len(w.compQ) >= w.compRoom() || w.compWaiting(s)) {
				continue
			}
			r.noteWork(s)
			if err := r.stepTask(s, t, false, o.Fail); err != nil {
				return fail(err)
			}
		case "drain":
			s := r.slot(o.DB)
			if s == nil {
				continue
			}
			if w.tasksOf(s) > 0 {
				r.noteWork(s)
			}
			if err := r.drain(s, o.N, false); err != nil {
				return fail(err)
			}
		case "retain":
			s := r.slot(o.DB)
			if s == nil || len(o.IDs) == 0 {
				continue
			}
			kept := 0
			for _, id := range o.IDs {
				if s.ids[id] {
					kept++
				}
			}
			if kept == 0 {
				// the update names no checkpoint of this database (a late update of an earlier generation): RetainOnly refuses it with
				// a panic - and must leave the list and the pending removals exactly as they were
				if o.Fail != 0 || len(s.ckpts) > 0 {
					continue
				}
				var ro *readObs
				func() {
					defer func() {
						if p := recover(); p != nil {
							ro = &readObs{Outcome: 3, Msg: fmt.Sprint(p)}
						}
					}()
					if err := s.db.UpdateRetainedCheckpoints(o.IDs); err != nil {
						ro = &readObs{Outcome: 1, Msg: err.Error()}
					}
				}()
				w.log.take()
				ids := make([]string, len(o.IDs))
				for i, id := range o.IDs {
					ids[i] = fmt.Sprint(id)
				}
				r.tag("retain-refused")
				r.emit(stepOut{op: fmt.Sprintf("ORetain %d %s", s.idx, hx.CoqList(ids, "N")), read: ro})
				continue
			}
			var newest uint64
			for _, k := range o.IDs {
				newest = max(newest, k)
			}
			inflightDropped := false
			for id := range s.ckpts {
				listed := id > newest
				for _, k := range o.IDs {
					listed = listed || k == id
				}
				inflightDropped = inflightDropped || !listed
			}
			if inflightDropped {
				continue // dropping a checkpoint whose asynchronous part has not finished (its WAL file is still being written) is outside the histories considered: the job only drops completed checkpoints
			}
			for id := range s.ids {
				found := id > newest
				for _, k := range o.IDs {
					found = found || k == id
				}
				if !found {
					delete(s.ids, id)
				}
			}
			// the call panics when none of the ids is in the list: only issue retention updates that keep something
			var ro *readObs
			func() {
				defer func() {
					if p := recover(); p != nil {
						ro = &readObs{Outcome: 3, Msg: fmt.Sprint(p)}
					}
				}()
				if o.Fail == 1 {
					s.fs.armSave("ck")
				} else if o.Fail == 2 {
					s.fs.failDelete.Store(true)
				}
				defer s.fs.disarm()
				if err := s.db.UpdateRetainedCheckpoints(o.IDs); err != nil {
					ro = &readObs{Outcome: 1, Msg: err.Error()}
				}
			}()
			w.log.take()
			ids := make([]string, len(o.IDs))
			for i, id := range o.IDs {
				ids[i] = fmt.Sprint(id)
			}
			r.tag("retain")
			if o.Fail == 1 || o.Fail == 2 {
				r.tag(fmt.Sprintf("fault-retain-%d", o.Fail))
				r.emit(stepOut{op: fmt.Sprintf("ORetainF %d %s %d", s.idx, hx.CoqList(ids, "N"), o.Fail), read: ro})
			} else {
				r.emit(stepOut{op: fmt.Sprintf("ORetain %d %s", s.idx, hx.CoqList(ids, "N")), read: ro})
			}
		case "restore":
			if err := r.restore(o); err != nil {
				return fail(err)
			}
		case "race":
			if err := r.race(o); err != nil {
				return fail(err)
			}
		case "open":
			if len(w.slots) >= 7 {
				continue
			}
			if err := r.drainOthers(nil); err != nil {
				return fail(err)
			}
			s := r.newSlot(w.nextDir)
			w.nextDir++
			s.lo, s.hi = o.Lo, o.Hi // only a write filter: the operator of this database writes keys of its key groups
			s.db = dkv.Open(r.opts(s, nil), nil)
			w.slots = append(w.slots, s)
			r.tag("open-further-source")
			r.emit(stepOut{op: fmt.Sprintf("OOpen %d", s.idx)})
		case "crash":
			s := r.slot(o.DB)
			if s == nil {
				continue
			}
			if err := r.drainOthers(s); err != nil {
				return fail(err)
			}
			if s.state != "live" {
				continue
			}
			if w.tasksOf(s) > 0 {
				r.tag("crash-with-tasks-parked")
			}
			s.state = "crashed"
			r.voidTasks(s)
			s.db, s.waits = nil, nil
			s.undeploy()
			r.tag("crash")
			r.emit(stepOut{op: fmt.Sprintf("OCrash %d", s.idx)})
		case "drop":
			s := r.slot(o.DB)
			if s == nil {
				continue
			}
			if err := r.drainOthers(s); err != nil {
				return fail(err)
			}
			if err := r.drain(s, 0, false); err != nil {
				return fail(err)
			}
			if s.state != "live" {
				continue
			}
			s.state = "dropped"
			s.db, s.waits, s.op = nil, nil, nil
			r.tag("drop")
			r.emit(stepOut{op: fmt.Sprintf("ODrop %d", s.idx)})
		case "gc":
			so := r.gc()
			if len(so.gcDel) > 0 {
				r.tag("gc-collected-tables")
				r.nontr = true
			}
			if len(so.gcAsked) > 0 {
				r.tag("gc-asked-neighbour")
			}
			r.emit(so)
		case "read":
			s := r.slot(o.DB)
			if s == nil {
				continue
			}
			ro := w.readDB(s.db)
			r.emit(stepOut{op: fmt.Sprintf("ORead %d", s.idx), read: &ro})
		}
	}
	r.cleanup()
	var tags []string
	for t := range r.tags {
		tags = append(tags, t)
	}
	sort.Strings(tags)
	term := fmt.Sprintf("mkCase %d %d %s", w.memSize, w.walSize, hx.CoqList(r.terms, "op * obs"))
	return &hx.Result{Term: term, Nontrivial: r.nontr, Tags: tags, Observed: r.obs}, nil
}

// cleanup lets everything go so that the next case starts from a quiet process.
func (r *runner) cleanup() {
	w := r.w
	for _, s := range w.slots {
		r.voidTasks(s)
	}
	close(w.closed)
	for {
		select {
		case a := <-w.arrivals:
			_ = a
			continue
		case c := <-w.nbWait:
			close(c.done)
			continue
		default:
		}
		break
	}
	// the global task queues must be free again before the next case: wait for every database's tasks
	for _, s := range w.slots {
		if s.db != nil {
			_ = s.db.WaitOnTasks()
		}
		s.db, s.waits, s.op = nil, nil, nil
	}
	// no goroutine of an abandoned object may run into the next case
	for _, z := range w.zombies {
		_ = z.WaitOnTasks()
	}
	w.zombies = nil
	verifhook.Set(nil)
	cur.Store(nil)
	runtime.GC()
}

// ------------------------------------------------------------------ generation: see gen.go

func (eng) Execute(mode string, c *hx.Case) (*hx.Result, error) { return execute(c) }

func main() {
	// table files are deleted by runtime.AddCleanup functions: collection must happen only where the history says "gc"
	debug.SetGCPercent(-1)
	hx.Main(eng{})
}
