// engine align (property C02): a REAL operator.Operator in-process, K token-driven sender goroutines.
//
// The harness is the scheduler: one action at a time, chosen by the case (ops), executed on the real
// Operator, and synchronised only through signals of the real code:
//
//	gate s batch  sender s calls HandleEventBatch(batch) through the real rpc adapter (embedded client or connect
//	              handler), which calls HandleEvent per event; for the first event the harness waits for hook
//	              "operator.align.park" (the sender blocks on the in-progress checkpoint) or
//	              "operator.align.pass" (the sender is past waitOnAlignment(); the hook callback holds it there
//	              until "handle s"); every further event of the batch reaches its gate by itself right after the
//	              previous one was handled and is recorded as its own gate
//	wake s        a parked sender, after a checkpoint completion was reported, reaches "operator.align.pass"
//	handle s      the held sender is released, its closure runs on the event loop, HandleEvent returns
//	fire          the (manual) batch timer expires: its callback is now in flight
//	timeout       the oldest in-flight timer callback delivers its token to the event loop
//
// Observed: gate outcome, HandleEvent error/nil, every ProcessEventBatch call (entries, request watermark),
// every OperatorCheckpointComplete with the content of the reported DKV checkpoint (reopened with dkv.Open
// from the reported handle and scanned, inside the callback). No sleep is used as synchronisation; a
// watchdog only turns a hang of the implementation into an observed outcome (OStuck).
package main

import (
	"context"
	"encoding/binary"
	"encoding/json"
	"fmt"
	"io"
	"log/slog"
	"os"
	"path/filepath"
	"runtime"
	"sort"
	"sync"
	"sync/atomic"
	"time"

	"connectrpc.com/connect"
	"google.golang.org/protobuf/types/known/timestamppb"
	"reduction.dev/reduction-protocol/handlerpb"
	"reduction.dev/reduction/batching"
	"reduction.dev/reduction/dkv"
	"reduction.dev/reduction/dkv/recovery"
	"reduction.dev/reduction/dkv/storage"
	"reduction.dev/reduction/proto"
	"reduction.dev/reduction/proto/jobpb"
	"reduction.dev/reduction/proto/snapshotpb"
	"reduction.dev/reduction/proto/workerpb"
	"reduction.dev/reduction/rpc"
	"reduction.dev/reduction/util/verifhook"
	"reduction.dev/reduction/workers/operator"
	"verifharness/hx"
)

type eng struct{}

func (eng) Name() string { return "align" }
func (eng) CoqRequire(mode string) string {
	return "From RV Require Import Model.Align Corr.Check_align."
}
func (eng) CoqCaseType(mode string) string { return "Check_align.case" }
func (eng) CoqRun(mode string) string      { return "Check_align.run" }
func (eng) Rule(mode string) string {
	return "1..4 senders, 1..5 consecutive checkpoints, batch size 0(=1)..10, batch time-out on/off; every sender delivers HandleEventBatch calls through the real rpc adapters (rpc.OperatorEmbeddedClient, or rpc.OperatorConnectHandler with a connect.Request), one outstanding call per sender, batch boundaries drawn in four styles (single-event calls, short, long, cut at barriers: barrier first / in the middle / last, watermark or event right after a barrier in the same call); per-sender scripts of keyed events (unique ids, 3 subject keys, optional timer), per-sender increasing watermarks, barriers with increasing ids, occasional wrong-id barrier (alone in its call) while a checkpoint is in progress; in 40 % of the multi-runner cases some (never all) runners send SourceComplete at a random point and go on with watermarks and barriers only; in half of the cases the context of a parked call is cancelled (op cancel) while another runner's barrier is outstanding; in a third of the cases the sink (a connectors.SinkWriter wrapper; the handler emits one sink request per entry) fails its next Write at random points, and in a third the flush in front of db.Checkpoint fails (entries pending at the last barrier, nobody else with a call outstanding): either that sink write or the user handler's ProcessEventBatch call (op handlef); the barrier's reply must be the error, nothing may be cut, and the assembly is redeployed and delivers the checkpoint with the same id again; in a quarter of the multi-runner cases HandleDeploy is called on the live operator in the middle of an alignment (no call outstanding, batch empty; same runners, fresh storage) and the new assembly reuses the aborted checkpoint id; a third of the delivered time-out tokens meet a handler that fails its next ProcessEventBatch call (op timeoutfail: the flush of the timed-out partial batch fails; observed: the event loop is still there, or Start returned); schedules drawn from the enabled actions (gate/wake/handle/fire/timeout) with five biases (uniform, eager senders, sequential, one laggard sender, late wake-ups) plus probe handles of senders that must be parked, some cut short mid-checkpoint. Non-trivial: at least one checkpoint reported and (a sender parked, or entries pending in the batch when the last barrier arrived, or an event passed the gate before a checkpoint started and was handled during it); distinct by hash of parameters and ops."
}

// ---------- case format ----------

type op struct {
	Act  string `json:"act"` // gate | wake | handle | handlef | fire | timeout | timeoutfail | cancel | fault | redeploy
	S    int    `json:"s"`
	Kind string `json:"kind,omitempty"` // ev | wm | bar | done (gate only)
	ID   uint64 `json:"id,omitempty"`
	Key  uint64 `json:"key,omitempty"`
	Tm   uint64 `json:"tm,omitempty"`
	T    uint64 `json:"t,omitempty"`
	Cid  uint64 `json:"cid,omitempty"`
	// gate only: the further events of the same HandleEventBatch call, in order (the fields above are the first event)
	Rest []op `json:"rest,omitempty"`
}

func (o op) items() []op {
	first := o
	first.Rest = nil
	return append([]op{first}, o.Rest...)
}

func (o op) event() *workerpb.Event {
	switch o.Kind {
	case "ev":
		v := binary.BigEndian.AppendUint64(nil, o.ID)
		v = binary.BigEndian.AppendUint64(v, o.Tm)
		return &workerpb.Event{Event: &workerpb.Event_KeyedEvent{KeyedEvent: &handlerpb.KeyedEvent{Key: keyBytes(o.Key), Value: v}}}
	case "wm":
		return &workerpb.Event{Event: &workerpb.Event_Watermark{Watermark: &workerpb.Watermark{Timestamp: &timestamppb.Timestamp{Seconds: int64(o.T)}}}}
	case "bar":
		return &workerpb.Event{Event: &workerpb.Event_CheckpointBarrier{CheckpointBarrier: &workerpb.CheckpointBarrier{CheckpointId: o.Cid}}}
	case "done":
		return &workerpb.Event{Event: &workerpb.Event_SourceComplete{SourceComplete: &workerpb.SourceCompleteEvent{}}}
	}
	return nil
}

func (o op) itemCoq() string {
	switch o.Kind {
	case "ev":
		return fmt.Sprintf("(IEv %d %d %d)", o.ID, o.Key, o.Tm)
	case "wm":
		return fmt.Sprintf("(IWm %d)", o.T)
	case "done":
		return "IDone"
	default:
		return fmt.Sprintf("(IBar %d)", o.Cid)
	}
}

func pInt(c *hx.Case, name string, def int) int {
	if v, ok := c.Params[name]; ok {
		switch x := v.(type) {
		case float64:
			return int(x)
		case int:
			return x
		}
	}
	return def
}
func pBool(c *hx.Case, name string) bool {
	if v, ok := c.Params[name]; ok {
		if b, ok := v.(bool); ok {
			return b
		}
	}
	return false
}

// ---------- generator (a small mirror of the control state only guides the choice of enabled actions;
// the executor decides enabledness from what the implementation signalled) ----------

type gItem struct {
	o     op
	wrong bool
}

func genCase(r *hx.Rand, idx int, tier string) *hx.Case {
	n := hx.Pick(r, []int{1, 2, 2, 2, 3, 3, 4})
	maxSize := hx.Pick(r, []int{0, 1, 2, 3, 3, 4, 6, 10})
	delay := r.Chance(3, 5)
	nck := r.Range(1, 3)
	if tier == "thorough" {
		nck = r.Range(1, 5)
	}
	style := r.Intn(5)
	base := uint64(r.Range(1, 50))
	nextID := uint64(1)
	usedTm := map[uint64]bool{}
	scripts := make([][]gItem, n)
	for s := 0; s < n; s++ {
		wm := uint64(0)
		for e := 0; e <= nck; e++ {
			k := r.Intn(5)
			if e == nck {
				k = r.Intn(3)
			}
			for i := 0; i < k; i++ {
				if r.Chance(1, 4) {
					wm += uint64(r.Range(0, 6))
					scripts[s] = append(scripts[s], gItem{o: op{Act: "gate", S: s, Kind: "wm", T: wm}})
				} else {
					var tm uint64
					if r.Chance(2, 5) {
						tm = uint64(r.Range(1, 40))
						for usedTm[tm] {
							tm++
						}
						usedTm[tm] = true
					}
					scripts[s] = append(scripts[s], gItem{o: op{Act: "gate", S: s, Kind: "ev", ID: nextID, Key: uint64(r.Range(1, 3)), Tm: tm}})
					nextID++
				}
			}
			if e < nck {
				if r.Chance(1, 8) {
					scripts[s] = append(scripts[s], gItem{o: op{Act: "gate", S: s, Kind: "bar", Cid: base + uint64(e) + 1000}, wrong: true})
				}
				scripts[s] = append(scripts[s], gItem{o: op{Act: "gate", S: s, Kind: "bar", Cid: base + uint64(e)}})
			}
		}
	}
	// SourceComplete: some runners (never all) finish reading at some point and go on sending watermarks and barriers only
	if n >= 2 && r.Chance(2, 5) {
		k := r.Range(1, n-1)
		perm := make([]int, n)
		for i := range perm {
			perm[i] = i
		}
		hx.Shuffle(r, perm)
		for _, sd := range perm[:k] {
			p := r.Intn(len(scripts[sd]) + 1)
			var out []gItem
			out = append(out, scripts[sd][:p]...)
			out = append(out, gItem{o: op{Act: "gate", S: sd, Kind: "done"}})
			for _, it := range scripts[sd][p:] {
				if it.o.Kind != "ev" {
					out = append(out, it)
				}
			}
			scripts[sd] = out
		}
	}
	cancels := r.Chance(1, 2)
	faults := r.Chance(1, 3)              // sink write faults
	redeploys := n >= 2 && r.Chance(1, 4) // HandleDeploy in the middle of an alignment, the aborted id is reused
	if redeploys {                        // moments without an outstanding call and with an empty batch must be frequent
		style = 2
		maxSize = hx.Pick(r, []int{0, 1, 1, 2})
	}
	nRedeploy := 0
	tfCase, tfDone := delay && r.Chance(1, 4), false
	hfaults := r.Chance(1, 2) // handler failures on the flush in front of the cut
	// the generator's estimate of "the operator's batch is certainly empty" (same rule as the executor's)
	msz := maxSize
	if msz == 0 {
		msz = 1
	}
	gPend, gUnknown, gTimers := 0, false, false
	var curCid uint64
	// mirror
	const (
		mIdle = iota
		mParked
		mPassed
	)
	mode := make([]int, n)
	parkG := make([]int, n)
	inflight := make([]*gItem, n)
	queue := make([][]*gItem, n) // rest of the sender's current batch
	pos := make([]int, n)
	var missing map[int]bool
	done := 0
	laggard := r.Intn(n)
	bstyle := r.Intn(4) // 0: single-event batches, 1: short, 2: long, 3: batches cut right after / before barriers
	if redeploys && (bstyle == 1 || bstyle == 2) {
		bstyle = hx.Pick(r, []int{0, 3})
	}
	var ops []json.RawMessage
	emit := func(o op) { ops = append(ops, hx.Op(o)) }
	// the sender evaluates alignSender for its next event
	gateNext := func(s int, it *gItem) {
		if missing != nil && !missing[s] {
			mode[s], parkG[s] = mParked, done
		} else {
			mode[s] = mPassed
		}
		inflight[s] = it
	}
	// HandleDeploy on the live operator; the runners whose barrier of the aborted checkpoint was in deliver (some
	// events and) a barrier with the same id again
	doRedeploy := func() {
		emit(op{Act: "redeploy"})
		for i := 0; i < n; i++ {
			if missing != nil && missing[i] {
				continue
			}
			var ins []gItem
			for k := r.Intn(3); k > 0; k-- {
				ins = append(ins, gItem{o: op{Act: "gate", S: i, Kind: "ev", ID: nextID, Key: uint64(r.Range(1, 3))}})
				nextID++
			}
			ins = append(ins, gItem{o: op{Act: "gate", S: i, Kind: "bar", Cid: curCid}})
			scripts[i] = append(append(append([]gItem{}, scripts[i][:pos[i]]...), ins...), scripts[i][pos[i]:]...)
		}
		missing = nil
		gTimers = false
		gPend, gUnknown = 0, false
	}
	for steps := 0; steps < 2000; steps++ {
		type cand struct {
			kind string
			s    int
			w    int
		}
		var cs []cand
		for s := 0; s < n; s++ {
			switch mode[s] {
			case mIdle:
				if pos[s] < len(scripts[s]) {
					w := 4
					if style == 1 {
						w = 12
					}
					if style == 3 && s == laggard {
						w = 1
					}
					cs = append(cs, cand{"gate", s, w})
				}
			case mParked:
				if parkG[s] < done {
					w := 4
					if style == 4 {
						w = 1
					}
					cs = append(cs, cand{"wake", s, w})
				} else {
					// probe: "handle" of a sender that must still be parked; skipped by the executor unless the
					// implementation let the sender through (then its post-barrier event runs before the checkpoint)
					cs = append(cs, cand{"probe", s, 2})
					if cancels {
						// the parked call's context is cancelled (RPC deadline, client gone); the sender must stay parked
						cs = append(cs, cand{"cancel", s, 1})
					}
				}
			case mPassed:
				w := 4
				if style == 2 {
					w = 16
				}
				if style == 3 && s == laggard {
					w = 1
				}
				cs = append(cs, cand{"handle", s, w})
			}
		}
		if len(cs) == 0 {
			break
		}
		if delay && r.Chance(1, 10) {
			if r.Bool() {
				emit(op{Act: "fire"})
			} else if r.Chance(1, 3) {
				emit(op{Act: "timeoutfail"}) // a handler outage exactly on the time-out flush: the operator must stop
				gUnknown = true
			} else {
				emit(op{Act: "timeout"})
				gUnknown = true
			}
			continue
		}
		if tfCase && !tfDone && gPend > 0 && !gUnknown && r.Chance(1, 6) {
			// the time-out of the partial batch fires and the handler fails exactly on that flush
			emit(op{Act: "fire"})
			emit(op{Act: "timeoutfail"})
			tfDone, gUnknown = true, true
			continue
		}
		if faults && r.Chance(1, 60) {
			emit(op{Act: "fault"}) // hits whichever flush comes next: an error reply to that sender
			gUnknown = true
			continue
		}
		tot := 0
		for _, c := range cs {
			tot += c.w
		}
		x := r.Intn(tot)
		var ch cand
		for _, c := range cs {
			if x < c.w {
				ch = c
				break
			}
			x -= c.w
		}
		s := ch.s
		switch ch.kind {
		case "gate":
			it := &scripts[s][pos[s]]
			pos[s]++
			if it.wrong {
				// a wrong-id barrier travels alone and only while a checkpoint is in progress (its error reply aborts the batch)
				if missing == nil || !missing[s] {
					continue
				}
				emit(it.o)
				gateNext(s, it)
				continue
			}
			// one HandleEventBatch call: this event and some of the following ones
			want := 1
			switch bstyle {
			case 1:
				want = r.Range(1, 3)
			case 2:
				want = r.Range(2, 6)
			case 3:
				want = r.Range(1, 5)
			}
			batch := []*gItem{it}
			for len(batch) < want && pos[s] < len(scripts[s]) && !scripts[s][pos[s]].wrong {
				if bstyle == 3 && batch[len(batch)-1].o.Kind == "bar" && r.Bool() {
					break // barrier last
				}
				if bstyle == 3 && scripts[s][pos[s]].o.Kind == "bar" && len(batch) > 0 && r.Chance(1, 3) {
					break // barrier first in the next batch
				}
				batch = append(batch, &scripts[s][pos[s]])
				pos[s]++
			}
			o := it.o
			for _, b := range batch[1:] {
				o.Rest = append(o.Rest, b.o)
			}
			emit(o)
			queue[s] = batch[1:]
			gateNext(s, it)
		case "probe":
			emit(op{Act: "handle", S: s})
		case "cancel":
			emit(op{Act: "cancel", S: s})
		case "wake":
			emit(op{Act: "wake", S: s})
			mode[s] = mPassed
		case "handle":
			it := inflight[s]
			completes := it.o.Kind == "bar" && !it.wrong && ((missing == nil && n == 1) || (missing != nil && len(missing) == 1 && missing[s]))
			// the flush in front of db.Checkpoint fails (the handler, or the sink write): the barrier's reply is that error,
			// nothing is cut, the assembly is redeployed and delivers the checkpoint with the same id again. Scheduled
			// when entries are pending and nobody else has a call outstanding (the redeploy needs that).
			failCut := ""
			if completes && gPend > 0 && !gUnknown && (faults || hfaults) && r.Chance(1, 2) {
				othersIdle := true
				for i := 0; i < n; i++ {
					othersIdle = othersIdle && (i == s || (mode[i] == mIdle && len(queue[i]) == 0))
				}
				if othersIdle {
					failCut = "handler"
					if faults && (!hfaults || r.Chance(1, 3)) {
						failCut = "sink"
					}
				}
			}
			switch failCut {
			case "sink":
				emit(op{Act: "fault"})
				emit(op{Act: "handle", S: s})
			case "handler":
				emit(op{Act: "handlef", S: s})
			default:
				emit(op{Act: "handle", S: s})
			}
			mode[s] = mIdle
			if failCut != "" {
				if missing == nil {
					curCid = it.o.Cid
				}
				missing = map[int]bool{} // every barrier is registered, nothing was cut
				queue[s] = nil           // the error reply ends the sender's call
				doRedeploy()
				continue
			}
			switch it.o.Kind {
			case "ev":
				if it.o.Tm != 0 {
					gTimers = true
				}
				gPend++
				if gPend >= msz {
					gPend = 0
				}
			case "wm":
				if gTimers {
					gUnknown = true
				}
			case "done":
				gPend, gUnknown = 0, false
			}
			if it.o.Kind == "bar" && !it.wrong {
				if missing == nil {
					missing = map[int]bool{}
					for i := 0; i < n; i++ {
						missing[i] = true
					}
					curCid = it.o.Cid
				}
				delete(missing, s)
				if len(missing) == 0 {
					missing = nil
					done++
					gPend, gUnknown = 0, false
				}
			}
			// the adapter goes on with the next event of the batch: gated at once
			if len(queue[s]) > 0 {
				nx := queue[s][0]
				queue[s] = queue[s][1:]
				gateNext(s, nx)
			}
			// a redeploy in the middle of the alignment: no call outstanding, nothing pending. The runners that had
			// delivered their barrier deliver (some events and) a barrier with the SAME id again in the new assembly.
			if redeploys && missing != nil && nRedeploy < 2 && gPend == 0 && !gUnknown && r.Chance(3, 4) {
				idle := true
				for i := 0; i < n; i++ {
					idle = idle && mode[i] == mIdle && len(queue[i]) == 0
				}
				if idle {
					nRedeploy++
					doRedeploy()
				}
			}
		}
	}
	if delay && r.Chance(1, 2) {
		emit(op{Act: "fire"})
		emit(op{Act: "timeout"})
	}
	if r.Chance(1, 10) && len(ops) > 3 {
		ops = ops[:r.Range(2, len(ops)-1)]
	}
	return &hx.Case{Name: fmt.Sprintf("align-%d", idx), Params: map[string]any{"mode": "c02", "n": n, "max_size": maxSize, "delay": delay, "style": style,
		"bstyle": bstyle, "adapter": hx.Pick(r, []string{"embedded", "embedded", "connect"})}, Ops: ops}
}

func (eng) Generate(mode, tier string, r *hx.Rand) []*hx.Case {
	count := 500
	if tier == "thorough" {
		count = 6000
	}
	var cs []*hx.Case
	for i := 0; i < count; i++ {
		cs = append(cs, genCase(r.Fork(), i, tier))
	}
	return cs
}

// ---------- executor ----------

type manualTimer struct {
	mu       sync.Mutex
	armed    func()
	inflight []func()
}

func (t *manualTimer) Set(d time.Duration, do func()) { t.mu.Lock(); t.armed = do; t.mu.Unlock() }
func (t *manualTimer) Stop()                          { t.mu.Lock(); t.armed = nil; t.mu.Unlock() }
func (t *manualTimer) fire() bool {
	t.mu.Lock()
	defer t.mu.Unlock()
	if t.armed == nil {
		return false
	}
	t.inflight = append(t.inflight, t.armed)
	t.armed = nil
	return true
}
func (t *manualTimer) pop() func() {
	t.mu.Lock()
	defer t.mu.Unlock()
	if len(t.inflight) == 0 {
		return nil
	}
	f := t.inflight[0]
	t.inflight = t.inflight[1:]
	return f
}

// events observed on the event loop during one action
type evRec struct {
	term string // Gallina term of Check_align.ev
	j    any
	ck   bool
}
type recorder struct {
	mu  sync.Mutex
	evs []evRec
	ck  int // checkpoint completions reported so far
}

func (r *recorder) add(term string, j any, isCkpt bool) {
	r.mu.Lock()
	r.evs = append(r.evs, evRec{term, j, isCkpt})
	if isCkpt {
		r.ck++
	}
	r.mu.Unlock()
}
func (r *recorder) take() []evRec {
	r.mu.Lock()
	defer r.mu.Unlock()
	e := r.evs
	r.evs = nil
	return e
}
func evSplit(evs []evRec) (string, []any) {
	var t []string
	var j []any
	for _, e := range evs {
		t = append(t, e.term)
		j = append(j, e.j)
	}
	return hx.CoqList(t, "ev"), j
}
func (r *recorder) completions() int { r.mu.Lock(); defer r.mu.Unlock(); return r.ck }

type recHandler struct {
	rec      *recorder
	failNext atomic.Bool // the next ProcessEventBatch call fails (a handler outage)
}

func keyBytes(k uint64) []byte { return []byte(fmt.Sprintf("k%d", k)) }
func keyNum(b []byte) uint64 {
	var k uint64
	fmt.Sscanf(string(b), "k%d", &k)
	return k
}

func (h *recHandler) KeyEventBatch(ctx context.Context, events [][]byte) ([][]*handlerpb.KeyedEvent, error) {
	panic("unused by operators")
}

// every entry of the batch becomes a put under its own entry key, so that the content of a checkpoint
// reveals exactly which entries had been applied
func (h *recHandler) ProcessEventBatch(ctx context.Context, req *handlerpb.ProcessEventBatchRequest) (*handlerpb.ProcessEventBatchResponse, error) {
	if h.failNext.CompareAndSwap(true, false) {
		return nil, fmt.Errorf("injected handler failure")
	}
	var items []string
	var jitems []any
	resp := &handlerpb.ProcessEventBatchResponse{}
	put := func(key []byte, ns string, entry []byte, timers []*timestamppb.Timestamp) {
		resp.KeyResults = append(resp.KeyResults, &handlerpb.KeyResult{
			Key:       key,
			NewTimers: timers,
			StateMutationNamespaces: []*handlerpb.StateMutationNamespace{{
				Namespace: ns,
				Mutations: []*handlerpb.StateMutation{{Mutation: &handlerpb.StateMutation_Put{Put: &handlerpb.PutMutation{Key: entry, Value: []byte{1}}}}},
			}},
		})
	}
	for _, e := range req.Events {
		switch ev := e.Event.(type) {
		case *handlerpb.Event_KeyedEvent:
			v := ev.KeyedEvent.Value
			id, tm := binary.BigEndian.Uint64(v[0:8]), binary.BigEndian.Uint64(v[8:16])
			var timers []*timestamppb.Timestamp
			if tm != 0 {
				timers = append(timers, &timestamppb.Timestamp{Seconds: int64(tm)})
			}
			put(ev.KeyedEvent.Key, "e", v[0:8], timers)
			resp.SinkRequests = append(resp.SinkRequests, &handlerpb.SinkRequest{Id: "sink", Value: v[0:8]})
			items = append(items, fmt.Sprintf("AEv %d", id))
			jitems = append(jitems, map[string]any{"ev": id})
		case *handlerpb.Event_TimerExpired:
			ts := uint64(ev.TimerExpired.Timestamp.AsTime().Unix())
			entry := binary.BigEndian.AppendUint64(nil, ts)
			entry = append(entry, ev.TimerExpired.Key...)
			put(ev.TimerExpired.Key, "t", entry, nil)
			resp.SinkRequests = append(resp.SinkRequests, &handlerpb.SinkRequest{Id: "sink", Value: entry})
			items = append(items, fmt.Sprintf("ATm %d %d", keyNum(ev.TimerExpired.Key), ts))
			jitems = append(jitems, map[string]any{"timer_key": keyNum(ev.TimerExpired.Key), "ts": ts})
		}
	}
	var wm uint64
	if t := req.Watermark.AsTime().Unix(); t > 0 {
		wm = uint64(t)
	}
	h.rec.add(fmt.Sprintf("ECall %d %s", wm, hx.CoqList(items, "aitem")), map[string]any{"call": jitems, "wm": wm}, false)
	return resp, nil
}

// the sink handed to HandleDeploy: records nothing, fails its next Write when armed
type faultSink struct{ armed atomic.Bool }

func (f *faultSink) Write([]byte) error {
	if f.armed.CompareAndSwap(true, false) {
		return fmt.Errorf("injected sink write fault")
	}
	return nil
}

type recJob struct {
	proto.UnimplementedJob
	rec *recorder
	dir string
}

func (j *recJob) RegisterOperator(context.Context, *jobpb.NodeIdentity) error   { return nil }
func (j *recJob) DeregisterOperator(context.Context, *jobpb.NodeIdentity) error { return nil }

type pairNN struct{ a, b uint64 }

func pairsCoq(ps []pairNN) string {
	sort.Slice(ps, func(i, k int) bool { return ps[i].a < ps[k].a || (ps[i].a == ps[k].a && ps[i].b < ps[k].b) })
	items := make([]string, len(ps))
	for i, p := range ps {
		items[i] = fmt.Sprintf("(%d, %d)", p.a, p.b)
	}
	return hx.CoqList(items, "N * N")
}

// reopen the reported checkpoint and scan it
func (j *recJob) OperatorCheckpointComplete(ctx context.Context, req *snapshotpb.OperatorCheckpoint) (err error) {
	defer func() {
		if p := recover(); p != nil { // the reported checkpoint cannot be reopened: observed as an empty content
			j.rec.add(fmt.Sprintf("ECkpt %d %s %s %s", req.CheckpointId, hx.CoqList(nil, "N"), pairsCoq(nil), pairsCoq(nil)),
				map[string]any{"ckpt": req.CheckpointId, "unreadable": fmt.Sprint(p)}, true)
			err = nil
		}
	}()
	fs := storage.NewLocalFilesystem(filepath.Join(j.dir, req.OperatorId))
	db := dkv.Open(dkv.DBOptions{FileSystem: fs}, []recovery.CheckpointHandle{{CheckpointID: req.CheckpointId, URI: req.DkvFileUri}})
	var evids []uint64
	var tapp, pend []pairNN
	var scanErr error
	for e := range db.ScanPrefix([]byte{}, &scanErr) {
		k := e.Key()
		if sk, t, ok := operator.VerifTimerFromKey(k); ok {
			pend = append(pend, pairNN{uint64(t.Unix()), keyNum(sk)})
			continue
		}
		if !operator.VerifIsStateKey(k) {
			continue
		}
		ns, data := operator.VerifDecodeKey(k)
		switch string(ns) {
		case "e":
			evids = append(evids, binary.BigEndian.Uint64(data))
		case "t":
			tapp = append(tapp, pairNN{binary.BigEndian.Uint64(data[0:8]), keyNum(data[8:])})
		}
	}
	if scanErr != nil {
		return scanErr
	}
	sort.Slice(evids, func(a, b int) bool { return evids[a] < evids[b] })
	ids := make([]string, len(evids))
	for i, v := range evids {
		ids[i] = fmt.Sprint(v)
	}
	j.rec.add(fmt.Sprintf("ECkpt %d %s %s %s", req.CheckpointId, hx.CoqList(ids, "N"), pairsCoq(tapp), pairsCoq(pend)),
		map[string]any{"ckpt": req.CheckpointId, "event_ids": evids, "timers_applied": fmt.Sprint(tapp), "timers_pending": fmt.Sprint(pend)}, true)
	return nil
}

// which batch shapes a case exercised
func batchTags(tags map[string]bool, its []op) {
	if len(its) == 1 {
		tags["batch:single"] = true
		return
	}
	tags["batch:multi"] = true
	for i, it := range its {
		if it.Kind != "bar" {
			continue
		}
		switch {
		case i == 0:
			tags["batch:barrier-first"] = true
		case i == len(its)-1:
			tags["batch:barrier-last"] = true
		default:
			tags["batch:barrier-middle"] = true
		}
		if i+1 < len(its) {
			if its[i+1].Kind == "wm" {
				tags["batch:watermark-after-barrier"] = true
			} else if its[i+1].Kind == "ev" {
				tags["batch:event-after-barrier"] = true
			}
		}
	}
}

const (
	sigPark = 1
	sigPass = 2
)

type sender struct {
	id      string
	cmd     chan []*workerpb.Event
	ret     chan error
	sig     chan int
	release chan struct{}
	mode    int                                // 0 idle, 1 parked, 2 passed
	cur     op                                 // the item in flight
	queue   []op                               // the events of the current HandleEventBatch call that have not reached the gate yet
	cancel  atomic.Pointer[context.CancelFunc] // cancels the context of the outstanding call
	parkCk  int                                // completions seen when it parked
}

var (
	runMu      sync.RWMutex
	runSnd     map[string]*sender
	runQuit    chan struct{}
	caseSeq    atomic.Int64
	stuckCases atomic.Int64
)

func hook(name string, args ...any) {
	if len(args) == 0 {
		return
	}
	id, _ := args[0].(string)
	runMu.RLock()
	s, quit := runSnd[id], runQuit
	runMu.RUnlock()
	if s == nil {
		return
	}
	switch name {
	case "operator.align.park":
		s.sig <- sigPark
	case "operator.align.pass":
		s.sig <- sigPass
		select {
		case <-s.release:
		case <-quit:
			runtime.Goexit() // the case is over: the held sender never reaches the event loop
		}
	}
}

// Timing. Every step of a case synchronises on a signal of the code itself (hook point reached, HandleEventBatch
// returned, VerifSync returned, Start returned). The only verdict that depends on a clock is "the implementation hung":
// watchdog is far above anything scheduling delay can cause on a loaded machine (and below hx's 180 s no-progress
// detector, which would otherwise attribute the hang to the case anyway), and after ONE hang the rest of the run is
// not executed. The two short pauses below (300 us, 3 ms) never decide what is recorded on a correct operator: they
// only give a broken one time to show a premature release before the next step.
const watchdog = 90 * time.Second

func (eng) Execute(mode string, c *hx.Case) (*hx.Result, error) {
	if stuckCases.Load() >= 1 {
		// the implementation hung already (a hang leaves a spinning or blocked operator behind)
		return &hx.Result{Term: "AlignCase 1%nat 0 false [OStuck 9]", Tags: []string{"STUCK-skipped"}, Observed: "skipped after a hang"}, nil
	}
	n := pInt(c, "n", 2)
	maxSize := pInt(c, "max_size", 0)
	delay := pBool(c, "delay")
	if n < 1 || n > 8 {
		return nil, fmt.Errorf("n out of range")
	}
	base := "/dev/shm"
	if _, err := os.Stat(base); err != nil {
		base = os.TempDir()
	}
	dir, err := os.MkdirTemp(base, "verif-align-")
	if err != nil {
		return nil, err
	}
	keepDir := false // set when the operator may still be running at the end of the case: its storage is then left alone
	defer func() {
		if !keepDir {
			os.RemoveAll(dir)
		}
	}()

	seq := caseSeq.Add(1)
	rec := &recorder{}
	tm := &manualTimer{}
	bp := batching.EventBatcherParams{MaxSize: maxSize, Timer: tm}
	if delay {
		bp.MaxDelay = time.Hour
	}
	job := &recJob{rec: rec, dir: dir}
	sink := &faultSink{}
	handler := &recHandler{rec: rec}
	startReturned := false
	opr := operator.NewOperator(operator.NewOperatorParams{
		ID: "op0", Job: job, UserHandler: handler, EventBatching: bp,
	})
	ctx, cancel := context.WithCancel(context.Background())
	defer cancel()
	started := make(chan error, 1)
	go func() { started <- opr.Start(ctx) }()
	srIDs := make([]string, n)
	snd := make([]*sender, n)
	m := map[string]*sender{}
	for i := range snd {
		srIDs[i] = fmt.Sprintf("c%d-s%d", seq, i)
		snd[i] = &sender{id: srIDs[i], cmd: make(chan []*workerpb.Event), ret: make(chan error, 1), sig: make(chan int, 4), release: make(chan struct{})}
		m[srIDs[i]] = snd[i]
	}
	quit := make(chan struct{})
	runMu.Lock()
	runSnd, runQuit = m, quit
	runMu.Unlock()
	verifhook.Set(hook)
	if err := opr.HandleDeploy(ctx, &workerpb.DeployOperatorRequest{
		Operators: []*jobpb.NodeIdentity{{Id: "op0", Host: "h"}}, SourceRunnerIds: srIDs, KeyGroupCount: 8, StorageLocation: dir,
	}, sink); err != nil {
		return nil, err
	}
	var connectH *rpc.OperatorConnectHandler
	if a, _ := c.Params["adapter"].(string); a == "connect" {
		connectH = rpc.VerifOperatorConnectHandler(opr)
	}
	for _, s := range snd {
		s := s
		go func() {
			for {
				select {
				case batch := <-s.cmd:
					// the production path of a source runner: proto.Operator.HandleEventBatch through the rpc adapters,
					// every call with its own context (op "cancel" cancels it while the sender is parked)
					cctx, cancel := context.WithCancel(ctx)
					s.cancel.Store(&cancel)
					if connectH != nil {
						_, err := connectH.HandleEventBatch(cctx, connect.NewRequest(&workerpb.HandleEventBatchRequest{SenderId: s.id, Events: batch}))
						s.ret <- err
					} else {
						s.ret <- rpc.NewOperatorEmbeddedClient(rpc.NewOperatorEmbeddedClientParams{Operator: opr, SenderID: s.id, Host: "h", ID: "op0"}).HandleEventBatch(cctx, batch)
					}
					cancel()
				case <-quit:
					return
				}
			}
		}()
	}
	defer func() {
		opr.Stop()
		// the case's directory is removed only after the operator's own completion signal (Start returned: event loop
		// gone, DKV closed); if that does not come, the directory stays (sweepStale removes it much later)
		if !startReturned {
			select {
			case <-started:
			case <-time.After(watchdog):
				keepDir = true
			}
		}
		close(quit)
	}()

	var obs []string
	var jobs []any
	tags := map[string]bool{}
	stuck := func(what int, o op) {
		obs = append(obs, fmt.Sprintf("OStuck %d", what))
		jobs = append(jobs, map[string]any{"stuck": what, "op": o})
		tags["STUCK"] = true
		stuckCases.Add(1)
		keepDir = true
	}
	evTerm := func() (string, []any) { return evSplit(rec.take()) }
	nCk, nParkAtCk, nPendAtCk, nInflightAtCk, nWrong, nTimeoutFlush, nStale, nGate := 0, 0, 0, 0, 0, 0, 0, 0
	pend, pendUnknown, timersPossible := 0, false, false
	nDeploy := 0
	doneSent := make([]bool, n) // SourceComplete delivered by the sender
	nDone := 0
	ckStartedAtGate := make([]bool, n) // whether a checkpoint was in progress when the sender passed its gate
	inProgress := false
	lastWasBarrier := false
	aborted := false
	// a parked sender came through although no checkpoint completion was reported since it parked
	earlyWake := func(i int) {
		snd[i].mode = 2
		obs = append(obs, fmt.Sprintf("OEarlyWake %d%%nat", i))
		jobs = append(jobs, map[string]any{"early_wake": i})
		tags["EARLY-WAKE"] = true
	}
	// a parked call returned without its event ever passing the gate (the event is given up, with the rest of its batch)
	abandoned := func(i int, err error) {
		snd[i].mode, snd[i].queue = 0, nil
		obs = append(obs, fmt.Sprintf("OAbandon %d%%nat", i))
		jobs = append(jobs, map[string]any{"abandoned": i, "err": fmt.Sprint(err)})
		tags["ABANDONED-PARKED-CALL"] = true
	}
	// sender si signalled park / pass for the next event of its batch
	gated := func(si int, sg int) {
		s := snd[si]
		if len(s.queue) == 0 {
			return
		}
		s.cur, s.queue = s.queue[0], s.queue[1:]
		if sg == sigPark {
			s.mode, s.parkCk = 1, rec.completions()
			obs = append(obs, fmt.Sprintf("OGate %d%%nat %s GPark", si, s.cur.itemCoq()))
			jobs = append(jobs, map[string]any{"gate": s.cur, "res": "park"})
			tags["gate-park"] = true
		} else {
			s.mode = 2
			obs = append(obs, fmt.Sprintf("OGate %d%%nat %s GPass", si, s.cur.itemCoq()))
			jobs = append(jobs, map[string]any{"gate": s.cur, "res": "pass"})
			ckStartedAtGate[si] = inProgress
		}
		if s.cur.Kind == "bar" && s.cur.Cid >= 1000 {
			nWrong++
		}
	}
	// HandleEvent of sender si's current event returned
	faultWasArmed := false // at the start of the current action
	handleHF := false
	var lastErr error
	failedCut := false // a pre-checkpoint flush failed: only redeploy / fault / fire are executed until the redeploy
	handled := func(si int, err error, evs []evRec, before int) {
		s := snd[si]
		if err != nil && s.cur.Kind != "bar" {
			tags["sink-error-reply"] = true
		}
		et, ej := evSplit(evs)
		obs = append(obs, fmt.Sprintf("OHandle %s %d%%nat %s %s", hx.CoqBool(handleHF), si, hx.CoqBool(err == nil), et))
		lastErr = err
		if s.cur.Kind == "bar" && err != nil && faultWasArmed && !sink.armed.Load() {
			// the sink failed on the flush in front of the cut: the barrier's reply is that error, nothing was cut
			failedCut = true
			pend, pendUnknown = 0, false
			tags["sink-failure-at-pre-checkpoint-flush"] = true
		}
		var es any
		if err != nil {
			es = err.Error()
		}
		jobs = append(jobs, map[string]any{"handle": si, "err": es, "events": ej})
		if inProgress && !ckStartedAtGate[si] && s.cur.Kind != "bar" {
			nInflightAtCk++
		}
		completed := false
		for _, e := range evs {
			completed = completed || e.ck
		}
		if completed {
			if faultWasArmed && !sink.armed.Load() {
				tags["sink-fault-at-pre-checkpoint-flush"] = true
			}
			if nDone > 0 {
				tags["checkpoint-after-source-complete"] = true
			}
			nCk++
			inProgress = false
			for _, x := range snd {
				if x.mode == 1 {
					nParkAtCk++
				}
			}
			for _, e := range evs {
				if !e.ck {
					nPendAtCk++
				}
			}
		} else if s.cur.Kind == "bar" && err == nil {
			inProgress = true
		}
		lastWasBarrier = s.cur.Kind == "bar"
		_ = before
		// is the operator's batch certainly empty? (a redeploy is only executed then)
		calls := 0
		for _, e := range evs {
			if !e.ck {
				calls++
			}
		}
		switch s.cur.Kind {
		case "ev":
			if s.cur.Tm != 0 {
				timersPossible = true
			}
			if calls > 0 {
				pend, pendUnknown = 0, false
			} else {
				pend++
			}
		case "wm":
			if timersPossible {
				pendUnknown = true
			}
		case "bar":
			if completed {
				pend, pendUnknown = 0, false
			}
		case "done":
			pend, pendUnknown = 0, false
		}
	}
	for _, raw := range c.Ops {
		if aborted {
			break
		}
		var o op
		if err := json.Unmarshal(raw, &o); err != nil {
			return nil, err
		}
		if o.S < 0 || o.S >= n {
			continue
		}
		if failedCut && o.Act != "redeploy" && o.Act != "fault" && o.Act != "fire" {
			continue
		}
		// a sender released although no checkpoint completion was reported (never on a correct operator)
		anyParked := false
		for _, s := range snd {
			if s.mode == 1 && s.parkCk == rec.completions() {
				anyParked = true
			}
		}
		if anyParked && lastWasBarrier {
			// Not a synchronisation and no "absence" observation: if nothing shows up, NOTHING is recorded and the sender is
			// still considered parked (a later wake op waits for its signal). The pause only gives an operator that
			// releases a sender without completing the checkpoint the time to show it before the next step; a release
			// signal cannot exist on a correct operator here (the channel is closed only by the barrier that completes
			// the alignment, whose report - or failed cut - the harness has already seen when it gets here).
			time.Sleep(300 * time.Microsecond)
		}
		for i, s := range snd {
			if !failedCut && s.mode == 1 && s.parkCk == rec.completions() {
				select {
				case <-s.sig:
					earlyWake(i)
				case err := <-s.ret:
					abandoned(i, err)
				default:
				}
			}
		}
		lastWasBarrier = false
		faultWasArmed = sink.armed.Load()
		s := snd[o.S]
		switch o.Act {
		case "gate":
			if s.mode != 0 {
				continue
			}
			its := o.items()
			{ // at least one runner stays active (the operator stops itself when the last one completes)
				var keep []op
				for _, it := range its {
					if it.Kind == "done" {
						if doneSent[o.S] || nDone >= n-1 {
							continue
						}
						doneSent[o.S] = true
						nDone++
						tags["source-complete"] = true
					}
					keep = append(keep, it)
				}
				its = keep
			}
			if len(its) == 0 {
				continue
			}
			var batch []*workerpb.Event
			for _, it := range its {
				if ev := it.event(); ev != nil {
					batch = append(batch, ev)
				}
			}
			if len(batch) != len(its) {
				continue
			}
			for i := range its {
				its[i].S, its[i].Act = o.S, "gate"
			}
			s.queue = its
			batchTags(tags, its)
			s.cmd <- batch
			nGate++
			select {
			case sg := <-s.sig:
				gated(o.S, sg)
			case err := <-s.ret:
				return nil, fmt.Errorf("HandleEventBatch returned before alignment: %v", err)
			case <-time.After(watchdog):
				stuck(1, o)
				aborted = true
			}
		case "wake":
			if s.mode != 1 || s.parkCk >= rec.completions() {
				continue
			}
			select {
			case <-s.sig:
				s.mode = 2
				obs = append(obs, fmt.Sprintf("OWake %d%%nat", o.S))
				jobs = append(jobs, map[string]any{"wake": o.S})
			case <-time.After(watchdog):
				stuck(2, o)
				aborted = true
			}
		case "handle", "handlef":
			if s.mode != 2 {
				continue
			}
			// handlef: the user handler fails its next call if it comes while this barrier is handled, i.e. on the
			// flush in front of db.Checkpoint (for anything but a barrier handlef is a plain handle)
			hf := o.Act == "handlef" && s.cur.Kind == "bar"
			handleHF = hf
			if hf {
				handler.failNext.Store(true)
			}
			before := rec.completions()
			s.release <- struct{}{}
			select {
			case sg := <-s.sig:
				// the next event of the batch reached the gate, so HandleEvent of the current one returned nil
				handled(o.S, nil, rec.take(), before)
				gated(o.S, sg)
			case err := <-s.ret:
				evs := rec.take()
				rest := s.queue
				s.queue = nil
				if err != nil || len(rest) == 0 {
					handled(o.S, err, evs, before)
					s.mode = 0
					if len(rest) > 0 {
						tags["batch-aborted-by-error"] = true
					}
					break
				}
				// the call returned although events of the batch never reached the gate: the implementation handled them
				// without aligning each one. They are recorded as delivered and handled, in order; the loop's events are
				// attributed to them: a barrier takes everything up to the next checkpoint report, other events what
				// follows the last report.
				tags["UNGATED-BATCH-REST"] = true
				all := append([]op{s.cur}, rest...)
				for i, it := range all {
					var mine []evRec
					hasCk := false
					for _, e := range evs {
						hasCk = hasCk || e.ck
					}
					switch {
					case i == len(all)-1:
						mine, evs = evs, nil
					case it.Kind == "bar" && hasCk:
						k := 0
						for !evs[k].ck {
							k++
						}
						mine, evs = evs[:k+1], evs[k+1:]
					case it.Kind != "bar" && !hasCk:
						mine, evs = evs, nil
					}
					if i > 0 {
						s.cur = it
						obs = append(obs, fmt.Sprintf("OGate %d%%nat %s GPass", o.S, it.itemCoq()))
						jobs = append(jobs, map[string]any{"gate": it, "res": "not gated at all"})
					}
					handled(o.S, nil, mine, before)
					before = rec.completions()
				}
				s.mode = 0
			case <-time.After(watchdog):
				stuck(3, o)
				aborted = true
			}
			if hf && !handler.failNext.Swap(false) {
				pend, pendUnknown = 0, false
				if lastErr != nil {
					// the flush in front of the cut failed and the barrier's sender got the error: the assembly is torn
					// down; until the redeploy nothing else is scheduled
					failedCut = true
					tags["handler-failure-at-pre-checkpoint-flush"] = true
				} else {
					tags["HANDLER-FAILURE-AT-PRE-CHECKPOINT-FLUSH-IGNORED"] = true
				}
			}
			handleHF = false
		case "cancel":
			if failedCut {
				continue
			}
			// cancel the context of a parked call. The sender must stay parked: the grace period is not a
			// synchronisation, it only gives an implementation that lets the sender go the time to show it.
			if s.mode != 1 || s.parkCk < rec.completions() {
				continue
			}
			if cf := s.cancel.Load(); cf != nil {
				(*cf)()
			}
			obs = append(obs, fmt.Sprintf("OCancel %d%%nat", o.S))
			jobs = append(jobs, map[string]any{"cancel": o.S})
			tags["cancel-parked"] = true
			select {
			case <-s.sig:
				earlyWake(o.S)
			case err := <-s.ret:
				abandoned(o.S, err)
			case <-time.After(3 * time.Millisecond):
				// nothing showed up: nothing more is recorded (OCancel was recorded before the pause, whatever follows).
				// The sender is still considered parked; a release that shows up later is picked up by the poll at the
				// top of the loop (premature) or by the wake op (legitimate). So the expiry only makes the detection
				// of a broken operator later, it never changes the history of a correct one.
			}
		case "fire":
			if tm.fire() {
				obs = append(obs, "OTimerFire")
				jobs = append(jobs, "fire")
			}
		case "fault":
			if sink.armed.CompareAndSwap(false, true) {
				obs = append(obs, "OFault")
				jobs = append(jobs, "sink fault armed")
				tags["sink-fault"] = true
			}
		case "redeploy":
			// HandleDeploy on the live operator: same runners, fresh storage, nothing to restore; only while no call
			// is outstanding and the operator's batch is certainly empty
			idle := true
			for _, x := range snd {
				idle = idle && x.mode == 0
			}
			if !idle || pend > 0 || pendUnknown {
				continue
			}
			failedCut = false
			nDeploy++
			job.dir = filepath.Join(dir, fmt.Sprintf("d%d", nDeploy))
			if err := opr.HandleDeploy(ctx, &workerpb.DeployOperatorRequest{
				Operators: []*jobpb.NodeIdentity{{Id: "op0", Host: "h"}}, SourceRunnerIds: srIDs, KeyGroupCount: 8, StorageLocation: job.dir,
			}, sink); err != nil {
				return nil, err
			}
			obs = append(obs, "ODeploy")
			jobs = append(jobs, "redeploy")
			if inProgress {
				tags["redeploy-mid-alignment"] = true
			} else {
				tags["redeploy"] = true
			}
			inProgress, timersPossible, nDone = false, false, 0
			for i := range doneSent {
				doneSent[i], ckStartedAtGate[i] = false, false
			}
		case "timeoutfail":
			// the oldest in-flight time-out token is delivered while the handler fails its next call: if that token
			// flushes a batch, the flush fails. Either the event loop is still there afterwards (VerifSync returns)
			// or the operator has stopped (Start returned): both are signals of the code, no timing involved.
			if sink.armed.Load() {
				continue
			}
			f := tm.pop()
			if f == nil {
				continue
			}
			handler.failNext.Store(true)
			fin := make(chan struct{})
			go func() { f(); opr.VerifSync(); close(fin) }()
			stopped := false
			select {
			case <-fin:
			case <-started:
				stopped, startReturned = true, true
			case <-time.After(watchdog):
				stuck(5, o)
				aborted = true
				continue
			}
			consumed := !handler.failNext.Swap(false)
			et, ej := evTerm()
			obs = append(obs, fmt.Sprintf("OTimeoutFail %s %s", hx.CoqBool(stopped), et))
			jobs = append(jobs, map[string]any{"timeout_with_failing_handler": ej, "handler_failed": consumed, "operator_stopped": stopped})
			switch {
			case stopped:
				tags["timeout-flush-failed:operator-stopped"] = true
				aborted = true // nothing can be delivered to a stopped operator
			case consumed:
				tags["TIMEOUT-FLUSH-FAILED:OPERATOR-GOES-ON"] = true
				pend, pendUnknown = 0, false
			default:
				tags["timeout-fail-stale-or-empty"] = true
			}
		case "timeout":
			if sink.armed.Load() {
				continue // a failing time-out flush makes processEvents return: the operator would stop
			}
			f := tm.pop()
			if f == nil {
				continue
			}
			fin := make(chan struct{})
			go func() { f(); opr.VerifSync(); close(fin) }()
			select {
			case <-fin:
				et, ej := evTerm()
				obs = append(obs, fmt.Sprintf("OTimeout %s", et))
				jobs = append(jobs, map[string]any{"timeout": ej})
				if len(ej) > 0 {
					nTimeoutFlush++
					pend, pendUnknown = 0, false
				} else {
					nStale++
				}
			case <-time.After(watchdog):
				stuck(4, o)
				aborted = true
			}
		}
	}
	term := fmt.Sprintf("AlignCase %d%%nat %d %s %s", n, maxSize, hx.CoqBool(delay), hx.CoqList(obs, "obs"))
	tg := []string{fmt.Sprintf("n=%d", n), fmt.Sprintf("ckpts=%d", min(nCk, 4)), fmt.Sprintf("max_size=%d", maxSize), fmt.Sprintf("delay=%v", delay)}
	for t := range tags {
		tg = append(tg, t)
	}
	if nParkAtCk > 0 {
		tg = append(tg, "parked-at-completion")
	}
	if nPendAtCk > 0 {
		tg = append(tg, "batch-pending-at-completion")
	}
	if nInflightAtCk > 0 {
		tg = append(tg, "passed-before-ckpt-handled-after")
	}
	if nWrong > 0 {
		tg = append(tg, "wrong-id-barrier")
	}
	if nTimeoutFlush > 0 {
		tg = append(tg, "timeout-flush")
	}
	if nStale > 0 {
		tg = append(tg, "timeout-stale-or-empty")
	}
	sort.Strings(tg)
	return &hx.Result{Term: term, Nontrivial: nCk > 0 && (nParkAtCk > 0 || nPendAtCk > 0 || nInflightAtCk > 0), Tags: tg, Observed: jobs}, nil
}

// scratch directories of cases whose process was killed (hang / panic under a broken implementation) are never
// removed by their own defer: sweep the old ones
func sweepStale() {
	for _, base := range []string{"/dev/shm", os.TempDir()} {
		ms, _ := filepath.Glob(filepath.Join(base, "verif-align-*"))
		for _, m := range ms {
			if fi, err := os.Stat(m); err == nil && time.Since(fi.ModTime()) > 20*time.Minute {
				os.RemoveAll(m)
			}
		}
	}
}

func main() {
	sweepStale()
	slog.SetDefault(slog.New(slog.NewTextHandler(io.Discard, nil)))
	hx.Main(eng{})
}
