// engine wmark (property C11): watermarks are monotone; operators act on the minimum of their upstreams.
// mode c11, four kinds of cases, all on the REAL code:
//
//	wm   : wmark.Watermarker over a scripted AdvanceTime / CurrentWatermark history (timestamps pass through
//	       Timestamp.AsTime / timestamppb.New exactly as in the source runner)
//	pipe : the source runner's output stage (real sendOperatorEvent + real operator cluster) with recording operators
//	loop : the real processEvents loop scripted through stand-ins for the watermark ticker and the source read channel,
//	       the real output stage, operator batches larger than one and no time-out flush: several ticks and keyed events
//	       inside ONE operator batch, values compared as delivered
//	run  : a real sourcerunner.SourceRunner (Start, HandleDeploy, HandleAssignSplits) reading a scripted source to its
//	       end with a scripted KeyEventBatch handler and recording operators
//	reg  : operator.TimerRegistry over a real TimerStore on a real dkv.DB (memory filesystem)
//	op   : a real operator.Operator (memory:// storage) with a scripted recording handler
package main

import (
	"context"
	"encoding/binary"
	"encoding/json"
	"fmt"
	"io"
	"log/slog"
	"math"
	"sort"
	"strconv"
	"strings"
	"sync"
	"time"

	"google.golang.org/protobuf/types/known/timestamppb"
	"reduction.dev/reduction-protocol/handlerpb"
	"reduction.dev/reduction-protocol/jobconfigpb"
	"reduction.dev/reduction/batching"
	"reduction.dev/reduction/connectors"
	"reduction.dev/reduction/connectors/embedded"
	"reduction.dev/reduction/dkv"
	"reduction.dev/reduction/dkv/storage"
	"reduction.dev/reduction/partitioning"
	"reduction.dev/reduction/proto"
	"reduction.dev/reduction/proto/jobpb"
	"reduction.dev/reduction/proto/workerpb"
	"reduction.dev/reduction/util/size"
	"reduction.dev/reduction/workers/operator"
	"reduction.dev/reduction/workers/sourcerunner"
	"reduction.dev/reduction/workers/wmark"
	"reduction.dev/reduction/workers/workerstest"
	"verifharness/hx"
)

type eng struct{}

func (eng) Name() string                   { return "wmark" }
func (eng) CoqRequire(mode string) string  { return "From RV Require Import Model.Wmark Model.UpstreamWm Corr.Check_wmark.\nFrom Coq Require Import ZArith List.\nImport ListNotations." }
func (eng) CoqCaseType(mode string) string { return "Check_wmark.case" }
func (eng) CoqRun(mode string) string      { return "Check_wmark.run" }
func (eng) Rule(mode string) string {
	return "wm: real Watermarker over random AdvanceTime/CurrentWatermark histories (ordered, shuffled, duplicate, pre-epoch, zero-time, pre-year-1, nil and denormal protobuf timestamps; allowed lateness 0 / small / hours / MaxInt64 / negative). " +
		"pipe: real sendOperatorEvent + operator cluster, 1-4 recording operators, keyed placeholders with 0-3 events, watermark and barrier placeholders in random order. " +
		"loop: real processEvents + sendOperatorEvent + operator cluster, scripted ticker and source reads, key-event batch 1-3, operator batch 2-6 without time-out flush, 1-3 recording operators, ticks interleaved with reads of increasing timestamps; watermark values taken when the batch is delivered. " +
		"run: real SourceRunner (Start/HandleDeploy/HandleAssignSplits) reading a scripted source to its end through a slow scripted KeyEventBatch, 1-4 recording operators. " +
		"reg: real TimerRegistry on a real DKV (memory fs), 0-4 configured runners, random interleavings of AdvanceWatermark (known / unknown senders, regressing, nil, pre-epoch, zero-time watermarks; in a third of the cases the consumer stops after 1-2 timers) and SetTimer. " +
		"op: real Operator with a scripted recording handler, batch size 1-3, keyed events carrying timers, watermark messages from several senders and SourceComplete of some runners (one always stays active) after which the others go on reporting, and redeploys of the live operator (HandleDeploy again, mostly the same runners, empty batch) followed by events before the new deployment's first watermark; the handler FAILS on batches holding an expired timer of key 6 at an even second (stopping the due-timer iterator in the middle of an advance) and the history goes on without a new watermark. " +
		"Non-trivial: the history contains at least two watermark observations and (reg/op) at least two distinct senders or a fired timer; distinct by hash of the case."
}

// ---------- JSON forms ----------

type tsJ struct {
	S   int64 `json:"s"`
	N   int32 `json:"n"`
	Nil bool  `json:"nil,omitempty"`
}

func (t tsJ) pb() *timestamppb.Timestamp {
	if t.Nil {
		return nil
	}
	return &timestamppb.Timestamp{Seconds: t.S, Nanos: t.N}
}
func (t tsJ) coq() string {
	if t.Nil {
		return "(@None (Z * Z))"
	}
	return fmt.Sprintf("(Some (%s, %s))", hx.CoqZ(t.S), hx.CoqZ(int64(t.N)))
}

type evJ struct {
	Key string `json:"key"`
	ID  int    `json:"id"`
	Ts  tsJ    `json:"ts"`
}

type opJ struct {
	K      string `json:"k"` // adv cur | pk pw pb | rd tk | rb | radv rset | ev wm sc
	Ts     *tsJ   `json:"ts,omitempty"`
	Evs    []evJ  `json:"evs,omitempty"`
	S      int    `json:"s,omitempty"`
	Key    int    `json:"key,omitempty"`
	ID     int    `json:"id,omitempty"`
	Timers []tsJ  `json:"timers,omitempty"`
	Stop   int     `json:"stop,omitempty"` // radv: the consumer of the due-timer iterator stops after this many timers (0 = drains it)
	IDs    []int   `json:"ids,omitempty"` // dp: the redeployment's source runner ids (absent = unchanged)
	Raws   [][]evJ `json:"raws,omitempty"` // run: one ReadEvents batch; each raw event keys into these events
}

func coqTime(t time.Time) string { // instant as a Z expression, exact for any time.Time
	return fmt.Sprintf("(tm %s %s)", hx.CoqZ(t.Unix()), hx.CoqZ(int64(t.Nanosecond())))
}
func coqZZ(s int64, n int64) string { return fmt.Sprintf("(%s, %s)", hx.CoqZ(s), hx.CoqZ(n)) }
func coqNList(xs []int) string {
	it := make([]string, len(xs))
	for i, x := range xs {
		it[i] = hx.CoqN(uint64(x))
	}
	return hx.CoqList(it, "N")
}

func paramInt(c *hx.Case, k string, d int) int {
	switch v := c.Params[k].(type) {
	case float64:
		return int(v)
	case int:
		return v
	case string:
		if x, err := strconv.Atoi(v); err == nil {
			return x
		}
	}
	return d
}
func paramInts(c *hx.Case, k string) []int {
	var out []int
	switch v := c.Params[k].(type) {
	case []any:
		for _, x := range v {
			if f, ok := x.(float64); ok {
				out = append(out, int(f))
			}
		}
	case []int:
		out = v
	}
	return out
}
func decodeOps(c *hx.Case) ([]opJ, error) {
	ops := make([]opJ, len(c.Ops))
	for i, raw := range c.Ops {
		if err := json.Unmarshal(raw, &ops[i]); err != nil {
			return nil, err
		}
	}
	return ops, nil
}

// ---------- generators ----------

const zeroTimeSec = -62135596800 // time.Time{}.Unix()

// a timestamp regime shared by all kinds: base second + small spread so that values interact
func genTs(r *hx.Rand, base int64, spread int) tsJ {
	switch r.Intn(24) {
	case 0:
		return tsJ{Nil: true}
	case 1:
		return tsJ{S: 0, N: 0}
	case 2:
		return tsJ{S: zeroTimeSec, N: 0} // the zero time.Time exactly
	case 3:
		return tsJ{S: zeroTimeSec - int64(r.Intn(3)), N: int32(r.Intn(2)) * 999999999} // around year 1
	case 4:
		return tsJ{S: -int64(r.Intn(5000000000)), N: int32(r.Intn(1000000000))} // pre-epoch (back to ~1811)
	case 5:
		return tsJ{S: 253402300799 - int64(r.Intn(3)), N: 999999999} // end of the valid Timestamp range
	case 6:
		return tsJ{S: base + int64(r.Intn(spread+1)), N: int32(r.Range(-2000000000, 2000000000))} // denormal nanos
	case 7:
		return tsJ{S: -int64(r.Intn(3)), N: int32(r.Intn(3)) * 499999999} // just before the epoch
	default:
		n := int32(0)
		if r.Chance(1, 3) {
			n = int32(r.Intn(1000000000))
		} else if r.Chance(1, 4) {
			n = int32(r.Intn(3))
		}
		return tsJ{S: base + int64(r.Intn(spread+1)), N: n}
	}
}

func genWm(r *hx.Rand, i int) *hx.Case {
	var late int64
	switch r.Intn(10) {
	case 0, 1, 2, 3:
		late = 0
	case 4, 5:
		late = int64(r.Intn(5000))
	case 6:
		late = int64(r.Intn(100)) * int64(time.Second)
	case 7:
		late = int64(r.Intn(48)) * int64(time.Hour)
	case 8:
		late = math.MaxInt64 - int64(r.Intn(2))
	default:
		late = -int64(r.Intn(5)) // negative lateness: outside the theorems' hypothesis, model still exact
	}
	n := r.Range(1, 30)
	base := int64(r.Intn(2000000000))
	if r.Chance(1, 6) {
		base = -int64(r.Intn(100000))
	}
	style := r.Intn(4) // 0 increasing, 1 random in window, 2 duplicates, 3 decreasing
	cur := base
	var ops []json.RawMessage
	for k := 0; k < n; k++ {
		if r.Chance(2, 5) {
			ops = append(ops, hx.Op(opJ{K: "cur"}))
			continue
		}
		var t tsJ
		switch style {
		case 0:
			cur += int64(r.Intn(4))
			t = tsJ{S: cur, N: int32(r.Intn(1000000000))}
		case 1:
			t = genTs(r, base, 50)
		case 2:
			t = tsJ{S: base + int64(r.Intn(3)), N: int32(r.Intn(2))}
		default:
			cur -= int64(r.Intn(4))
			t = tsJ{S: cur, N: int32(r.Intn(1000000000))}
		}
		if style != 1 && r.Chance(1, 8) {
			t = genTs(r, base, 50)
		}
		ops = append(ops, hx.Op(opJ{K: "adv", Ts: &t}))
	}
	ops = append(ops, hx.Op(opJ{K: "cur"}))
	return &hx.Case{Name: fmt.Sprintf("wm-%d", i), Params: map[string]any{"mode": "c11", "kind": "wm", "late": strconv.FormatInt(late, 10)}, Ops: ops}
}

func genPipe(r *hx.Rand, i int) *hx.Case {
	nops := r.Range(1, 4)
	kgc := r.Range(nops, 64)
	bs := r.Range(1, 3)
	n := r.Range(1, 20)
	base := int64(r.Intn(2000000000))
	id := 0
	var ops []json.RawMessage
	for k := 0; k < n; k++ {
		switch r.Intn(7) {
		case 0, 1, 2:
			ops = append(ops, hx.Op(opJ{K: "pw"}))
		case 3:
			if r.Chance(1, 2) {
				ops = append(ops, hx.Op(opJ{K: "pb"}))
				continue
			}
			fallthrough
		default:
			ne := r.Intn(4)
			evs := []evJ{}
			for e := 0; e < ne; e++ {
				id++
				evs = append(evs, evJ{Key: fmt.Sprintf("key-%d", r.Intn(12)), ID: id, Ts: genTs(r, base, 30)})
			}
			ops = append(ops, hx.Op(opJ{K: "pk", Evs: evs}))
		}
	}
	ops = append(ops, hx.Op(opJ{K: "pw"}))
	return &hx.Case{Name: fmt.Sprintf("pipe-%d", i), Params: map[string]any{"mode": "c11", "kind": "pipe", "nops": nops, "kgc": kgc, "bs": bs}, Ops: ops}
}

func genIDs(r *hx.Rand) []int {
	k := r.Intn(5)
	ids := []int{}
	for i := 0; i < k; i++ {
		ids = append(ids, i)
	}
	if k > 1 && r.Chance(1, 10) {
		ids = append(ids, ids[0]) // a duplicated id in the deploy request
	}
	return ids
}

// timers stay inside the int64-nanosecond range (1677..2262) except for a rare out-of-range one
func genTimer(r *hx.Rand, base int64, spread int) tsJ {
	switch r.Intn(16) {
	case 0:
		return tsJ{S: -int64(r.Intn(1000)), N: int32(r.Intn(2)) * 500000000} // pre-epoch, in range
	case 1:
		return tsJ{S: 0, N: int32(r.Intn(2))}
	case 2:
		if r.Chance(1, 3) {
			return tsJ{S: zeroTimeSec + int64(r.Intn(100)), N: 0} // out of the int64-ns range: UnixNano wraps
		}
		return tsJ{S: base + int64(r.Intn(spread+1)), N: int32(r.Intn(1000000000))}
	default:
		return tsJ{S: base + int64(r.Intn(spread+1)), N: int32(r.Intn(2)) * int32(r.Intn(1000000000))}
	}
}

func genSender(r *hx.Rand, ids []int) int {
	k := len(ids)
	if k == 0 || r.Chance(1, 12) {
		return 5 + r.Intn(2) // a sender the deploy request did not list
	}
	return r.Intn(k)
}

func genWmMsg(r *hx.Rand, base int64, spread int) tsJ {
	if r.Chance(1, 5) {
		return genTs(r, base, spread)
	}
	n := int32(999999999) // what a runner really sends: max - 1ns
	if r.Chance(1, 3) {
		n = int32(r.Intn(1000000000))
	}
	return tsJ{S: base + int64(r.Intn(spread+1)), N: n}
}

func genReg(r *hx.Rand, i int) *hx.Case {
	ids := genIDs(r)
	n := r.Range(1, 28)
	base := int64(r.Intn(3)) * int64(r.Intn(1000000))
	spread := r.Range(3, 40)
	// a third of the cases stop the consumer of the due-timer iterator early now and then (what a handler error in the
	// middle of an advance does) and go on WITHOUT a new watermark; there timers of different keys never share a
	// timestamp (which of two equal ones was handed out before the stop is not fixed by the code)
	withStops := r.Chance(1, 3)
	var ops []json.RawMessage
	for k := 0; k < n; k++ {
		if r.Chance(1, 2) {
			key := r.Intn(6)
			t := genTimer(r, base, spread)
			if withStops {
				t.N = t.N - t.N%8 + int32(key)
			}
			ops = append(ops, hx.Op(opJ{K: "rset", Key: key, Ts: &t}))
		} else {
			t := genWmMsg(r, base, spread)
			stop := 0
			if withStops && r.Chance(1, 2) {
				stop = r.Range(1, 2)
			}
			ops = append(ops, hx.Op(opJ{K: "radv", S: genSender(r, ids), Ts: &t, Stop: stop}))
		}
	}
	return &hx.Case{Name: fmt.Sprintf("reg-%d", i), Params: map[string]any{"mode": "c11", "kind": "reg", "ids": ids}, Ops: ops}
}

func genOp(r *hx.Rand, i int) *hx.Case {
	ids := genIDs(r)
	ids0 := append([]int{}, ids...)
	n := r.Range(1, 22)
	base := int64(r.Intn(3)) * int64(r.Intn(1000000))
	spread := r.Range(3, 30)
	m := r.Range(1, 3)
	id := 0
	var ops []json.RawMessage
	active := map[int]bool{}
	for _, x := range ids {
		active[x] = true
	}
	for k := 0; k < n; k++ {
		// redeploy of the live operator (recovery / new assembly): only with an empty batch (batch size 1, or right
		// after a SourceComplete which flushes it); mostly the same runners; often followed by events BEFORE the new
		// deployment's first watermark message
		if r.Chance(1, 9) && (m == 1 || len(active) >= 2) {
			if m > 1 {
				var act []int
				for x := range active {
					act = append(act, x)
				}
				sort.Ints(act)
				ops = append(ops, hx.Op(opJ{K: "sc", S: hx.Pick(r, act)}))
			}
			if r.Chance(1, 4) {
				ids = genIDs(r)
			}
			ops = append(ops, hx.Op(opJ{K: "dp", IDs: append([]int{}, ids...)}))
			active = map[int]bool{}
			for _, x := range ids {
				active[x] = true
			}
			ne := r.Intn(3)
			for j := 0; j < ne; j++ {
				id++
				key := r.Intn(7)
				timers := []tsJ{}
				for q := r.Intn(3); q > 0; q-- {
					t := genTimer(r, base, spread)
					t.N = t.N - t.N%8 + int32(key)
					timers = append(timers, t)
				}
				ops = append(ops, hx.Op(opJ{K: "ev", S: genSender(r, ids), ID: id, Key: key, Timers: timers}))
			}
			continue
		}
		// a runner finishes (SourceComplete) while at least one other configured runner stays active - otherwise
		// the operator stops itself; the others go on reporting
		if len(active) >= 2 && r.Chance(1, 7) {
			var act []int
			for x := range active {
				act = append(act, x)
			}
			sort.Ints(act)
			sdone := hx.Pick(r, act)
			delete(active, sdone)
			if r.Chance(1, 2) { // often with a final watermark below the others just before
				t := tsJ{S: base + int64(r.Intn(3)), N: 999999999}
				ops = append(ops, hx.Op(opJ{K: "wm", S: sdone, Ts: &t}))
			}
			ops = append(ops, hx.Op(opJ{K: "sc", S: sdone}))
			continue
		}
		if r.Chance(1, 2) {
			id++
			nt := r.Intn(4)
			key := r.Intn(7)
			if r.Chance(1, 5) {
				key = 6 // the key whose expired timers at even seconds make the handler fail
			}
			timers := []tsJ{}
			for j := 0; j < nt; j++ {
				// Timers of different keys never share a timestamp (nanos = key mod 8): the order in which equal
				// timestamps fire is not fixed by the code, and with batches > 1 it would decide which expired
				// timer is still waiting in the batch - an observable the property does not speak about.
				t := genTimer(r, base, spread)
				t.N = t.N - t.N%8 + int32(key)
				if key == 6 && r.Chance(1, 2) {
					t.S -= ((t.S % 2) + 2) % 2
				}
				timers = append(timers, t)
			}
			ops = append(ops, hx.Op(opJ{K: "ev", S: genSender(r, ids), ID: id, Key: key, Timers: timers}))
		} else {
			t := genWmMsg(r, base, spread)
			ops = append(ops, hx.Op(opJ{K: "wm", S: genSender(r, ids), Ts: &t}))
		}
	}
	return &hx.Case{Name: fmt.Sprintf("op-%d", i), Params: map[string]any{"mode": "c11", "kind": "op", "ids": ids0, "m": m}, Ops: ops}
}

func genLoop(r *hx.Rand, i int) *hx.Case {
	nops := r.Range(1, 3)
	kgc := r.Range(nops, 32)
	kb := r.Range(1, 3)
	ob := r.Range(2, 6)
	n := r.Range(4, 20)
	base := int64(r.Intn(2000000000))
	cur := base
	id := 0
	var ops []json.RawMessage
	ops = append(ops, hx.Op(opJ{K: "as"})) // the initial split assignment
	for k := 0; k < n; k++ {
		if r.Chance(2, 5) {
			ops = append(ops, hx.Op(opJ{K: "tk"}))
			continue
		}
		if r.Chance(1, 6) { // further splits are handed to the running runner (discovery / rebalancing), often right before a tick
			ops = append(ops, hx.Op(opJ{K: "as"}))
			if r.Chance(1, 2) {
				ops = append(ops, hx.Op(opJ{K: "tk"}))
			}
			continue
		}
		nraw := 1
		if r.Chance(1, 4) {
			nraw = r.Range(0, 3)
		}
		raws := [][]evJ{}
		for q := 0; q < nraw; q++ {
			ne := 1
			if r.Chance(1, 4) {
				ne = r.Intn(3)
			}
			evs := []evJ{}
			for e := 0; e < ne; e++ {
				id++
				cur += int64(r.Range(1, 10))
				t := tsJ{S: cur, N: int32(r.Intn(2)) * int32(r.Intn(1000000000))}
				if r.Chance(1, 8) {
					t = genTs(r, base, 30)
				}
				key := fmt.Sprintf("key-%d", r.Intn(12))
				if nops > 1 && r.Chance(1, 2) {
					key = "key-0" // keep most events on one operator so that its batch holds events and ticks
				}
				evs = append(evs, evJ{Key: key, ID: id, Ts: t})
			}
			raws = append(raws, evs)
		}
		ops = append(ops, hx.Op(opJ{K: "rd", Raws: raws}))
	}
	ops = append(ops, hx.Op(opJ{K: "tk"}))
	return &hx.Case{Name: fmt.Sprintf("loop-%d", i), Params: map[string]any{"mode": "c11", "kind": "loop", "nops": nops, "kgc": kgc, "kb": kb, "ob": ob}, Ops: ops}
}

func genRun(r *hx.Rand, i int) *hx.Case {
	nops := r.Range(1, 4)
	kgc := r.Range(nops, 64)
	bs := r.Range(1, 3)
	nb := r.Range(7, 11) // x 30 ms per read: the source is still producing at the first 200 ms watermark tick
	base := int64(r.Intn(2000000000))
	cur := base
	id := 0
	var ops []json.RawMessage
	for b := 0; b < nb; b++ {
		nraw := r.Range(1, 4)
		raws := [][]evJ{}
		for k := 0; k < nraw; k++ {
			ne := 1
			if r.Chance(1, 3) {
				ne = r.Intn(3)
			}
			evs := []evJ{}
			for e := 0; e < ne; e++ {
				id++
				cur += int64(r.Intn(5))
				t := tsJ{S: cur, N: int32(r.Intn(1000000000))}
				if r.Chance(1, 5) {
					t = genTs(r, base, 30) // out of order / pre-epoch / nil
				}
				evs = append(evs, evJ{Key: fmt.Sprintf("key-%d", r.Intn(12)), ID: id, Ts: t})
			}
			raws = append(raws, evs)
		}
		ops = append(ops, hx.Op(opJ{K: "rb", Raws: raws}))
	}
	if r.Chance(1, 2) {
		// a tail of LATE records (timestamps below everything before): the watermark must stay where it was, also when
		// a further split assignment was handled in between
		for b := 0; b < 3; b++ {
			id++
			t := tsJ{S: base - int64(r.Range(1, 50)), N: int32(r.Intn(1000000000))}
			ops = append(ops, hx.Op(opJ{K: "rb", Raws: [][]evJ{{{Key: fmt.Sprintf("key-%d", r.Intn(12)), ID: id, Ts: t}}}}))
		}
	}
	return &hx.Case{Name: fmt.Sprintf("run-%d", i), Params: map[string]any{"mode": "c11", "kind": "run", "nops": nops, "kgc": kgc, "bs": bs}, Ops: ops}
}

func (eng) Generate(mode, tier string, r *hx.Rand) []*hx.Case {
	nwm, npipe, nreg, nop, nrun, nloop := 500, 200, 500, 150, 12, 200
	if tier == "thorough" {
		nwm, npipe, nreg, nop, nrun, nloop = 6000, 2500, 6000, 2000, 80, 2500
	}
	var cs []*hx.Case
	for i := 0; i < nwm; i++ {
		cs = append(cs, genWm(r, i))
	}
	for i := 0; i < npipe; i++ {
		cs = append(cs, genPipe(r, i))
	}
	for i := 0; i < nreg; i++ {
		cs = append(cs, genReg(r, i))
	}
	for i := 0; i < nop; i++ {
		cs = append(cs, genOp(r, i))
	}
	for i := 0; i < nloop; i++ {
		cs = append(cs, genLoop(r, i))
	}
	for i := 0; i < nrun; i++ {
		cs = append(cs, genRun(r, i))
	}
	return cs
}

// ---------- execution ----------

func (e eng) Execute(mode string, c *hx.Case) (*hx.Result, error) {
	ops, err := decodeOps(c)
	if err != nil {
		return nil, err
	}
	kind, _ := c.Params["kind"].(string)
	var f func(*hx.Case, []opJ) (*hx.Result, error)
	switch kind {
	case "wm":
		f = execWm
	case "pipe":
		f = execPipe
	case "reg":
		f = execReg
	case "op":
		f = execOp
	case "run":
		f = execRun
	case "loop":
		f = execLoop
	default:
		return nil, fmt.Errorf("unknown kind %q", kind)
	}
	// No deadline of our own: hx runs Execute in a supervised child process and attributes a hang (180 s without
	// progress) or a panic in any goroutine to this case.
	return f(c, ops)
}

func tsTags(t tsJ, tags map[string]bool) {
	switch {
	case t.Nil:
		tags["ts_nil"] = true
	case t.S == zeroTimeSec && t.N == 0:
		tags["ts_zero_time"] = true
	case t.S < zeroTimeSec:
		tags["ts_before_year1"] = true
	case t.S < 0:
		tags["ts_pre_epoch"] = true
	}
	if !t.Nil && (t.N < 0 || t.N >= 1000000000) {
		tags["ts_denormal_nanos"] = true
	}
}
func tagList(kind string, tags map[string]bool) []string {
	out := []string{"kind_" + kind}
	for k := range tags {
		out = append(out, kind+"_"+k)
	}
	sort.Strings(out)
	return out
}

func execWm(c *hx.Case, ops []opJ) (*hx.Result, error) {
	lateS, _ := c.Params["late"].(string)
	late, err := strconv.ParseInt(lateS, 10, 64)
	if err != nil {
		return nil, fmt.Errorf("late: %v", err)
	}
	w := wmark.VerifNewWatermarker(time.Duration(late))
	tags := map[string]bool{}
	switch {
	case late == 0:
		tags["late_0"] = true
	case late < 0:
		tags["late_negative"] = true
	case late >= math.MaxInt64-1:
		tags["late_maxint"] = true
	default:
		tags["late_pos"] = true
	}
	var terms []string
	var obs []any
	ncur := 0
	var prev *time.Time
	for _, o := range ops {
		switch o.K {
		case "adv":
			if o.Ts == nil {
				return nil, fmt.Errorf("adv without ts")
			}
			tsTags(*o.Ts, tags)
			t := o.Ts.pb().AsTime()
			if prev != nil {
				if t.Before(*prev) {
					tags["out_of_order"] = true
				} else if t.Equal(*prev) {
					tags["duplicate"] = true
				}
			}
			prev = &t
			w.AdvanceTime(t)
			terms = append(terms, "WAdvO "+o.Ts.coq())
		case "cur":
			p := timestamppb.New(w.CurrentWatermark())
			ncur++
			obs = append(obs, []int64{p.Seconds, int64(p.Nanos)})
			terms = append(terms, fmt.Sprintf("WCurO %s %s", hx.CoqZ(p.Seconds), hx.CoqZ(int64(p.Nanos))))
		default:
			return nil, fmt.Errorf("bad op %q for kind wm", o.K)
		}
	}
	term := fmt.Sprintf("WmC %s %s", hx.CoqZ(late), hx.CoqList(terms, "wobs"))
	return &hx.Result{Term: term, Nontrivial: ncur >= 2 && len(ops) > ncur, Tags: tagList("wm", tags), Observed: obs}, nil
}

// recording operator for the runner's output stage
type recOp struct {
	proto.UnimplementedOperator
	mu     sync.Mutex
	events []string // Gallina sev terms
	raw    []string
	complete int
	twoWmOneBatch bool // a delivered batch held watermark, keyed event, watermark
	lastW  time.Time // latest delivered watermark
	hasW   bool
}

func (o *recOp) HandleEventBatch(ctx context.Context, batch []*workerpb.Event) error {
	o.mu.Lock()
	defer o.mu.Unlock()
	st := 0
	for _, e := range batch {
		switch e.Event.(type) {
		case *workerpb.Event_Watermark:
			if st == 2 {
				o.twoWmOneBatch = true
			}
			st = 1
		case *workerpb.Event_KeyedEvent:
			if st >= 1 {
				st = 2
			}
		}
	}
	for _, e := range batch {
		switch ev := e.Event.(type) {
		case *workerpb.Event_KeyedEvent:
			id := uint64(0)
			if len(ev.KeyedEvent.Value) == 8 {
				id = binary.BigEndian.Uint64(ev.KeyedEvent.Value)
			}
			p := "(@None (Z * Z))"
			if ts := ev.KeyedEvent.Timestamp; ts != nil {
				p = fmt.Sprintf("(Some %s)", coqZZ(ts.Seconds, int64(ts.Nanos)))
			}
			o.events = append(o.events, fmt.Sprintf("SK %s %s", hx.CoqN(id), p))
			o.raw = append(o.raw, fmt.Sprintf("K%d", id))
		case *workerpb.Event_Watermark:
			ts := ev.Watermark.GetTimestamp()
			// a missing stamp is reported as an impossible value so that the check flags it
			s, n := int64(0), int64(-1)
			if ts != nil {
				s, n = ts.Seconds, int64(ts.Nanos)
			}
			if ts != nil {
				o.lastW, o.hasW = ts.AsTime(), true
			}
			o.events = append(o.events, "SW "+coqZZ(s, n))
			o.raw = append(o.raw, fmt.Sprintf("W%d.%09d", s, n))
		case *workerpb.Event_CheckpointBarrier:
			o.events = append(o.events, "SB")
			o.raw = append(o.raw, "B")
		case *workerpb.Event_SourceComplete:
			o.events = append(o.events, "SB")
			o.raw = append(o.raw, "C")
			o.complete++
		default:
			o.events = append(o.events, "SB")
			o.raw = append(o.raw, "?")
		}
	}
	return nil
}

func execPipe(c *hx.Case, ops []opJ) (*hx.Result, error) {
	nops := paramInt(c, "nops", 1)
	kgc := paramInt(c, "kgc", 8)
	bs := paramInt(c, "bs", 1)
	if nops < 1 || kgc < nops {
		return nil, fmt.Errorf("bad pipe params")
	}
	recs := make([]*recOp, nops)
	pops := make([]proto.Operator, nops)
	for i := range recs {
		recs[i] = &recOp{}
		pops[i] = recs[i]
	}
	errChan := make(chan error, 16)
	pipe := sourcerunner.VerifNewPipe(kgc, pops, bs, errChan)
	defer pipe.Close()
	ks := partitioning.NewKeySpace(kgc, nops)
	tags := map[string]bool{fmt.Sprintf("nops_%d", nops): true}
	var terms []string
	nw, nk := 0, 0
	for _, o := range ops {
		switch o.K {
		case "pk":
			evs := make([]*handlerpb.KeyedEvent, len(o.Evs))
			items := make([]string, len(o.Evs))
			for i, e := range o.Evs {
				val := make([]byte, 8)
				binary.BigEndian.PutUint64(val, uint64(e.ID))
				evs[i] = &handlerpb.KeyedEvent{Key: []byte(e.Key), Value: val, Timestamp: e.Ts.pb()}
				tsTags(e.Ts, tags)
				items[i] = fmt.Sprintf("(%s, %s, %s)", hx.CoqN(uint64(ks.RangeIndex([]byte(e.Key)))), hx.CoqN(uint64(e.ID)), e.Ts.coq())
				nk++
			}
			if len(evs) == 0 {
				tags["empty_async_result"] = true
			}
			pipe.Keyed <- evs
			if err := pipe.Send(&workerpb.Event{Event: &workerpb.Event_KeyedEvent{}}); err != nil {
				return nil, err
			}
			terms = append(terms, "PK "+hx.CoqList(items, "N * N * pbts"))
		case "pw":
			nw++
			if err := pipe.Send(&workerpb.Event{Event: &workerpb.Event_Watermark{Watermark: &workerpb.Watermark{}}}); err != nil {
				return nil, err
			}
			terms = append(terms, "PW")
		case "pb":
			if err := pipe.Send(&workerpb.Event{Event: &workerpb.Event_CheckpointBarrier{CheckpointBarrier: &workerpb.CheckpointBarrier{CheckpointId: 1}}}); err != nil {
				return nil, err
			}
			terms = append(terms, "PB")
		default:
			return nil, fmt.Errorf("bad op %q for kind pipe", o.K)
		}
	}
	// two flushes: the second returns only after every operator goroutine finished delivering the first
	pipe.Flush()
	pipe.Flush()
	select {
	case err := <-errChan:
		return nil, fmt.Errorf("pipe error: %v", err)
	default:
	}
	streams := make([]string, nops)
	var obs []any
	for i, rc := range recs {
		rc.mu.Lock()
		streams[i] = hx.CoqList(rc.events, "sev")
		obs = append(obs, strings.Join(rc.raw, " "))
		rc.mu.Unlock()
	}
	term := fmt.Sprintf("PipeC %s %s %s", hx.CoqN(uint64(nops)), hx.CoqList(terms, "pop"), hx.CoqList(streams, "list sev"))
	return &hx.Result{Term: term, Nontrivial: nw >= 2 && nk >= 1, Tags: tagList("pipe", tags), Observed: obs}, nil
}

// scripted source reader / keying handler for a real SourceRunner
type scriptReader struct {
	connectors.UnimplementedSourceReader
	mu      sync.Mutex
	batches [][][]byte
	next    int
}

func (s *scriptReader) ReadEvents() ([][]byte, error) {
	// Pacing only (timing class a): makes the source outlast the runner's first 200 ms watermark tick so that ticks fall
	// between reads. If the machine is slow the run just has more ticks; nothing that is compared depends on it.
	time.Sleep(30 * time.Millisecond)
	s.mu.Lock()
	defer s.mu.Unlock()
	if s.next >= len(s.batches) {
		return nil, connectors.ErrEndOfInput
	}
	b := s.batches[s.next]
	s.next++
	if s.next == len(s.batches) {
		return b, connectors.ErrEndOfInput // the last batch comes with the end-of-input error
	}
	return b, nil
}
func (s *scriptReader) AssignSplits(splits []*workerpb.SourceSplit) error { return nil }
func (s *scriptReader) Checkpoint() [][]byte                              { return nil }

type keyingHandler struct{}

func (keyingHandler) ProcessEventBatch(ctx context.Context, req *handlerpb.ProcessEventBatchRequest) (*handlerpb.ProcessEventBatchResponse, error) {
	return nil, fmt.Errorf("not used")
}

// KeyEventBatch is slow on purpose: results arrive after the runner has already queued later placeholders
// (among them a ticker watermark), which is the regime where the stamping point matters.
func (keyingHandler) KeyEventBatch(ctx context.Context, events [][]byte) ([][]*handlerpb.KeyedEvent, error) {
	time.Sleep(25 * time.Millisecond) // pacing only (timing class a): sharpens detection, never changes what is compared
	out := make([][]*handlerpb.KeyedEvent, len(events))
	for i, raw := range events {
		var evs []evJ
		if err := json.Unmarshal(raw, &evs); err != nil {
			return nil, err
		}
		for _, e := range evs {
			val := make([]byte, 8)
			binary.BigEndian.PutUint64(val, uint64(e.ID))
			out[i] = append(out[i], &handlerpb.KeyedEvent{Key: []byte(e.Key), Value: val, Timestamp: e.Ts.pb()})
		}
	}
	return out, nil
}

func execRun(c *hx.Case, ops []opJ) (*hx.Result, error) {
	nops := paramInt(c, "nops", 1)
	kgc := paramInt(c, "kgc", 8)
	bs := paramInt(c, "bs", 1)
	if nops < 1 || kgc < nops {
		return nil, fmt.Errorf("bad run params")
	}
	ks := partitioning.NewKeySpace(kgc, nops)
	tags := map[string]bool{fmt.Sprintf("nops_%d", nops): true, fmt.Sprintf("batch_%d", bs): true}
	reader := &scriptReader{}
	var routed []string
	nk := 0
	for _, o := range ops {
		if o.K != "rb" {
			return nil, fmt.Errorf("bad op %q for kind run", o.K)
		}
		batch := [][]byte{}
		for _, evs := range o.Raws {
			if evs == nil {
				evs = []evJ{}
			}
			raw, _ := json.Marshal(evs)
			batch = append(batch, raw)
			for _, e := range evs {
				tsTags(e.Ts, tags)
				routed = append(routed, fmt.Sprintf("(%s, %s, %s)", hx.CoqN(uint64(ks.RangeIndex([]byte(e.Key)))), hx.CoqN(uint64(e.ID)), e.Ts.coq()))
				nk++
			}
		}
		reader.batches = append(reader.batches, batch)
	}
	recs := map[string]*recOp{}
	var nodes []*jobpb.NodeIdentity
	var order []*recOp
	for i := 0; i < nops; i++ {
		id := fmt.Sprintf("op%d", i)
		rc := &recOp{}
		recs[id] = rc
		order = append(order, rc)
		nodes = append(nodes, &jobpb.NodeIdentity{Id: id, Host: "h"})
	}
	sr := sourcerunner.New(sourcerunner.NewParams{
		Host:                "h",
		UserHandler:         keyingHandler{},
		Job:                 &workerstest.DummyJob{},
		OperatorFactory:     func(senderID string, node *jobpb.NodeIdentity) proto.Operator { return recs[node.Id] },
		SourceReaderFactory: func(*jobconfigpb.Source) connectors.SourceReader { return reader },
		EventBatching:       batching.EventBatcherParams{MaxSize: bs, MaxDelay: time.Millisecond},
	})
	ctx, cancel := context.WithCancel(context.Background())
	defer cancel()
	done := make(chan error, 1)
	go func() { done <- sr.Start(ctx) }()
	if err := sr.HandleDeploy(ctx, &workerpb.DeploySourceRunnerRequest{Operators: nodes, KeyGroupCount: int32(kgc), Sources: []*jobconfigpb.Source{{}}}); err != nil {
		return nil, err
	}
	if err := sr.HandleAssignSplits([]*workerpb.SourceSplit{{SplitId: "s0", SourceId: "src"}}); err != nil {
		return nil, err
	}
	// Watermarks come from the runner's 200 ms wall-clock ticker.  Wait for a quiescent snapshot: every keyed
	// event delivered, every operator's stream ends with a watermark, every operator saw the same number (> minW) of them.
	streams := make([]string, nops)
	var obs []any
	nw := 0
	// What the property obliges the runner to do, and nothing else, is waited for: every keyed event is delivered, and
	// the latest watermark each operator holds has caught up with what was forwarded (a watermark delivered after the
	// operator's last keyed event, or one that already is >= max(forwarded) - 1 ns).  Never a COUNT of ticks: an idle
	// runner owes nothing (it may skip ticks whose watermark would repeat).  The snapshot is a consistent cut (all
	// locks held, the same number of watermarks everywhere, i.e. no broadcast half delivered).
	owed := time.Time{}
	for _, o := range ops {
		for _, evs := range o.Raws {
			for _, e := range evs {
				if t := e.Ts.pb().AsTime(); t.After(owed) {
					owed = t
				}
			}
		}
	}
	owed = owed.Add(-time.Nanosecond)
	started := time.Now()
	reassigned := false
	snapshot := func() bool {
		// poll until true; 150 s only for a truly wedged runner (execution error, never an observation)
		deadline := time.Now().Add(150 * time.Second)
		for {
			total, ok, anyW := 0, true, false
			counts := make([]int, nops)
			for _, rc := range order {
				rc.mu.Lock()
			}
			for i, rc := range order {
				for _, e := range rc.raw {
					if strings.HasPrefix(e, "K") {
						total++
					} else if strings.HasPrefix(e, "W") {
						counts[i]++
					}
				}
				if counts[i] != counts[0] {
					ok = false
				}
				if rc.hasW {
					anyW = true
				}
				if nk > 0 {
					endsWithW := len(rc.raw) > 0 && strings.HasPrefix(rc.raw[len(rc.raw)-1], "W")
					if !(rc.hasW && (endsWithW || !rc.lastW.Before(owed))) {
						ok = false
					}
				}
			}
			if nk == 0 && time.Since(started) < 300*time.Millisecond {
				ok = false // nothing is owed without records: just give the first tick a chance (detection only)
			}
			done := ok && total == nk
			if done {
				obs = nil
				for i, rc := range order {
					streams[i] = hx.CoqList(rc.events, "sev")
					obs = append(obs, strings.Join(rc.raw, " "))
				}
				nw = counts[0]
			}
			for _, rc := range order {
				rc.mu.Unlock()
			}
			if anyW && !reassigned {
				// a further split assignment on the running runner (split discovery / rebalancing) as soon as a first
				// watermark was announced - usually while the source is still producing; the runner's watermark must not
				// fall back.  When exactly the loop handles it only matters for detection power.
				reassigned = true
				if err := sr.HandleAssignSplits([]*workerpb.SourceSplit{{SplitId: "s1", SourceId: "src"}}); err == nil {
					tags["reassign_after_watermark"] = true
				}
			}
			if done {
				return true
			}
			if time.Now().After(deadline) {
				return false
			}
			time.Sleep(500 * time.Microsecond) // poll pacing
		}
	}
	stopRunner := func() {
		sr.Stop()
		<-done // the runner's own completion signal; no deadline (hx's hang detector covers a runner that never stops)
	}
	if !snapshot() {
		stopRunner()
		return nil, fmt.Errorf("source runner wedged: within 150 s not every keyed event was delivered with a watermark that caught up with them")
	}
	stopRunner()
	if nw > 1 {
		tags["several_watermarks"] = true
	}
	term := fmt.Sprintf("RunC %s %s %s", hx.CoqN(uint64(nops)), hx.CoqList(routed, "N * N * pbts"), hx.CoqList(streams, "list sev"))
	return &hx.Result{Term: term, Nontrivial: nk >= 2, Tags: tagList("run", tags), Observed: obs}, nil
}

func keyJSONRecords(ctx context.Context, records [][]byte) ([][]*handlerpb.KeyedEvent, error) {
	out := make([][]*handlerpb.KeyedEvent, len(records))
	for i, raw := range records {
		var evs []evJ
		if err := json.Unmarshal(raw, &evs); err != nil {
			return nil, err
		}
		for _, e := range evs {
			val := make([]byte, 8)
			binary.BigEndian.PutUint64(val, uint64(e.ID))
			out[i] = append(out[i], &handlerpb.KeyedEvent{Key: []byte(e.Key), Value: val, Timestamp: e.Ts.pb()})
		}
	}
	return out, nil
}

// execLoop: the real processEvents loop and output stage, scripted; what matters is the value every Watermark
// event carries when its operator batch is DELIVERED (the event objects sit in the batch until then).
func execLoop(c *hx.Case, ops []opJ) (*hx.Result, error) {
	nops := paramInt(c, "nops", 1)
	kgc := paramInt(c, "kgc", 8)
	kb := paramInt(c, "kb", 1)
	ob := paramInt(c, "ob", 2)
	if nops < 1 || kgc < nops || kb < 1 || ob < 1 {
		return nil, fmt.Errorf("bad loop params")
	}
	recs := make([]*recOp, nops)
	pops := make([]proto.Operator, nops)
	for i := range recs {
		recs[i] = &recOp{}
		pops[i] = recs[i]
	}
	errChan := make(chan error, 64)
	loop := sourcerunner.VerifNewLoop(kgc, pops, kb, ob, keyJSONRecords, errChan)
	defer loop.Close()
	ks := partitioning.NewKeySpace(kgc, nops)
	tags := map[string]bool{fmt.Sprintf("nops_%d", nops): true, fmt.Sprintf("opbatch_%d", ob): true, fmt.Sprintf("keybatch_%d", kb): true}
	var terms []string
	nw, nk, nas := 0, 0, 0
	// everything the loop has queued so far is fully handled by the output stage: rendezvous through a marker queued
	// behind it (how many placeholders the loop chose to queue for the ticks is not assumed)
	drain := func() error {
		loop.Sync()
		loop.FlushKeyEvents()
		loop.Drain()
		if _, errs := loop.Sent(); len(errs) > 0 {
			return fmt.Errorf("sendOperatorEvent: %v", errs[0])
		}
		select {
		case err := <-errChan:
			return fmt.Errorf("runner error: %v", err)
		default:
		}
		return nil
	}
	for _, o := range ops {
		switch o.K {
		case "rd":
			records := [][]byte{}
			for _, evs := range o.Raws {
				if evs == nil {
					evs = []evJ{}
				}
				raw, _ := json.Marshal(evs)
				records = append(records, raw)
				items := make([]string, len(evs))
				for i, e := range evs {
					tsTags(e.Ts, tags)
					items[i] = fmt.Sprintf("(%s, %s, %s)", hx.CoqN(uint64(ks.RangeIndex([]byte(e.Key)))), hx.CoqN(uint64(e.ID)), e.Ts.coq())
					nk++
				}
				terms = append(terms, "PK "+hx.CoqList(items, "N * N * pbts"))
			}
			loop.Read(records)
		case "tk":
			loop.Tick()
			terms = append(terms, "PW")
			nw++
		case "as":
			nas++
			if nas > 1 {
				// everything queued so far is forwarded / stamped before the further assignment is handed over, so
				// that what the next tick announces does not depend on the timing of the output stage
				if err := drain(); err != nil {
					return nil, err
				}
			}
			if err := loop.AssignSplits(fmt.Sprintf("split-%d", nas)); err != nil {
				return nil, err
			}
			if nw > 0 && nk > 0 {
				tags["reassign_after_watermark"] = true
			}
			terms = append(terms, "PA")
		default:
			return nil, fmt.Errorf("bad op %q for kind loop", o.K)
		}
	}
	if err := drain(); err != nil { // the loop has queued everything, the key-event batch is resolved, the output stage is done
		return nil, err
	}
	// two flushes: the second returns only after every operator goroutine finished delivering the first
	loop.FlushOperators()
	loop.FlushOperators()
	streams := make([]string, nops)
	var obs []any
	for i, rc := range recs {
		rc.mu.Lock()
		streams[i] = hx.CoqList(rc.events, "sev")
		obs = append(obs, strings.Join(rc.raw, " "))
		if rc.twoWmOneBatch {
			tags["two_watermarks_around_event_in_one_batch"] = true
		}
		rc.mu.Unlock()
	}
	term := fmt.Sprintf("LoopC %s %s %s", hx.CoqN(uint64(nops)), hx.CoqList(terms, "pop"), hx.CoqList(streams, "list sev"))
	return &hx.Result{Term: term, Nontrivial: nw >= 2 && nk >= 1, Tags: tagList("loop", tags), Observed: obs}, nil
}

func srName(i int) string  { return fmt.Sprintf("sr%d", i) }
func keyName(i int) string { return fmt.Sprintf("k%d", i) }
func keyID(b []byte) uint64 {
	s := string(b)
	if strings.HasPrefix(s, "k") {
		if x, err := strconv.Atoi(s[1:]); err == nil {
			return uint64(x)
		}
	}
	return 999
}

func execReg(c *hx.Case, ops []opJ) (*hx.Result, error) {
	ids := paramInts(c, "ids")
	var srIDs []string
	for _, i := range ids {
		srIDs = append(srIDs, srName(i))
	}
	db := dkv.Open(dkv.DBOptions{FileSystem: storage.NewMemoryFilesystem()}, nil)
	defer db.Close()
	ks := partitioning.NewKeySpace(16, 1)
	store := operator.NewTimerStore(db, ks, ks.KeyGroupRanges()[0], 16*size.MB)
	reg := operator.NewTimerRegistry(store, srIDs)
	tags := map[string]bool{fmt.Sprintf("runners_%d", len(ids)): true}
	wm0 := reg.VerifWatermark()
	var terms []string
	var obs []any
	nadv, nfired := 0, 0
	senders := map[int]bool{}
	last := map[int]time.Time{}
	for _, o := range ops {
		if o.Ts == nil {
			return nil, fmt.Errorf("op without ts")
		}
		switch o.K {
		case "radv":
			nadv++
			senders[o.S] = true
			known := false
			for _, i := range ids {
				if i == o.S {
					known = true
				}
			}
			if !known {
				tags["unknown_sender"] = true
			}
			tsTags(*o.Ts, tags)
			t := o.Ts.pb().AsTime()
			if p, ok := last[o.S]; ok && t.Before(p) {
				tags["regressing_wm"] = true
			}
			last[o.S] = t
			var fired []string
			var fobs []any
			got := 0
			for k, ft := range reg.AdvanceWatermark(srName(o.S), &workerpb.Watermark{Timestamp: o.Ts.pb()}) {
				fired = append(fired, fmt.Sprintf("(%s, %s)", hx.CoqZ(ft.UnixNano()), hx.CoqN(keyID(k))))
				fobs = append(fobs, []any{ft.UnixNano(), string(k)})
				nfired++
				got++
				if o.Stop > 0 && got >= o.Stop {
					tags["consumer_stopped_early"] = true
					break // the consumer stops: yield returns false
				}
			}
			w := reg.VerifWatermark()
			obs = append(obs, map[string]any{"fired": fobs, "wm": []int64{w.Unix(), int64(w.Nanosecond())}})
			if o.Stop > 0 {
				terms = append(terms, fmt.Sprintf("RAdvStopO %s %s %s %s %s", hx.CoqN(uint64(o.S)), o.Ts.coq(), hx.CoqNat(o.Stop), hx.CoqList(fired, "Z * N"), coqTime(w)))
			} else {
				terms = append(terms, fmt.Sprintf("RAdvO %s %s %s %s", hx.CoqN(uint64(o.S)), o.Ts.coq(), hx.CoqList(fired, "Z * N"), coqTime(w)))
			}
		case "rset":
			t := o.Ts.pb().AsTime()
			if t.Unix() < -9223372036 || t.Unix() > 9223372035 {
				tags["timer_out_of_int64ns"] = true
			} else if t.Unix() < 0 {
				tags["timer_pre_epoch"] = true
			}
			if !reg.VerifWatermark().Before(t) {
				tags["timer_at_or_before_wm"] = true
			}
			reg.SetTimer([]byte(keyName(o.Key)), t)
			terms = append(terms, fmt.Sprintf("RSetO %s %s", hx.CoqN(uint64(o.Key)), coqTime(t)))
		default:
			return nil, fmt.Errorf("bad op %q for kind reg", o.K)
		}
	}
	if nfired > 0 {
		tags["fired"] = true
	}
	term := fmt.Sprintf("RegC %s %s %s", coqNList(ids), coqTime(wm0), hx.CoqList(terms, "robs"))
	return &hx.Result{Term: term, Nontrivial: nadv >= 2 && (len(senders) >= 2 || nfired > 0), Tags: tagList("reg", tags), Observed: obs}, nil
}

// scripted recording handler for the real operator
type scriptPayload struct {
	ID     int   `json:"id"`
	Timers []tsJ `json:"timers"`
}
type recHandler struct {
	mu    sync.Mutex
	calls []string // Gallina ocall terms since the last drain
	raw   []any
	ntimer int
	nfail  int
}

func floorMod(x, n int64) int64 { return ((x % n) + n) % n }

func (h *recHandler) ProcessEventBatch(ctx context.Context, req *handlerpb.ProcessEventBatchRequest) (*handlerpb.ProcessEventBatchResponse, error) {
	h.mu.Lock()
	defer h.mu.Unlock()
	resp := &handlerpb.ProcessEventBatchResponse{}
	var evs []string
	var rawEvs []string
	poison := false
	for _, e := range req.Events {
		if te, ok := e.Event.(*handlerpb.Event_TimerExpired); ok && keyID(te.TimerExpired.Key) == 6 && floorMod(te.TimerExpired.Timestamp.GetSeconds(), 2) == 0 {
			poison = true // this batch makes the handler fail (after the call has been recorded)
		}
	}
	for _, e := range req.Events {
		switch ev := e.Event.(type) {
		case *handlerpb.Event_KeyedEvent:
			var p scriptPayload
			if err := json.Unmarshal(ev.KeyedEvent.Value, &p); err != nil {
				return nil, err
			}
			kr := &handlerpb.KeyResult{Key: ev.KeyedEvent.Key}
			for _, t := range p.Timers {
				kr.NewTimers = append(kr.NewTimers, t.pb())
			}
			resp.KeyResults = append(resp.KeyResults, kr)
			evs = append(evs, "EK "+hx.CoqN(uint64(p.ID)))
			rawEvs = append(rawEvs, fmt.Sprintf("K%d", p.ID))
		case *handlerpb.Event_TimerExpired:
			h.ntimer++
			ts := ev.TimerExpired.Timestamp
			kid := keyID(ev.TimerExpired.Key)
			kr := &handlerpb.KeyResult{Key: ev.TimerExpired.Key}
			if kid >= 4 && floorMod(ts.GetSeconds(), 10) < 2 { // chains end after two steps (0->2, 0->9, 1->3, 1->0)
				kr.NewTimers = append(kr.NewTimers,
					&timestamppb.Timestamp{Seconds: ts.GetSeconds() + 2, Nanos: ts.GetNanos()},
					&timestamppb.Timestamp{Seconds: ts.GetSeconds() - 1, Nanos: ts.GetNanos()})
			}
			resp.KeyResults = append(resp.KeyResults, kr)
			evs = append(evs, fmt.Sprintf("ET %s (tm %s %s)", hx.CoqN(kid), hx.CoqZ(ts.GetSeconds()), hx.CoqZ(int64(ts.GetNanos()))))
			rawEvs = append(rawEvs, fmt.Sprintf("T%s@%d.%09d", ev.TimerExpired.Key, ts.GetSeconds(), ts.GetNanos()))
		}
	}
	wmS, wmN := int64(0), int64(-1) // missing Watermark field -> impossible value
	if req.Watermark != nil {
		wmS, wmN = req.Watermark.Seconds, int64(req.Watermark.Nanos)
	}
	h.calls = append(h.calls, fmt.Sprintf("(%s, %s)", coqZZ(wmS, wmN), hx.CoqList(evs, "oev")))
	h.raw = append(h.raw, map[string]any{"watermark": []int64{wmS, wmN}, "events": rawEvs, "failed": poison})
	if poison {
		h.nfail++
		return nil, fmt.Errorf("scripted handler failure")
	}
	return resp, nil
}
func (h *recHandler) KeyEventBatch(ctx context.Context, events [][]byte) ([][]*handlerpb.KeyedEvent, error) {
	return nil, fmt.Errorf("not used")
}
func (h *recHandler) drain() (string, []any) {
	h.mu.Lock()
	defer h.mu.Unlock()
	s := hx.CoqList(h.calls, "ocall")
	raw := h.raw
	h.calls, h.raw = nil, nil
	return s, raw
}

func execOp(c *hx.Case, ops []opJ) (*hx.Result, error) {
	ids := paramInts(c, "ids")
	ids0 := append([]int{}, ids...) // the first deployment's runners (ids follows redeploys)
	m := paramInt(c, "m", 1)
	var srIDs []string
	for _, i := range ids {
		srIDs = append(srIDs, srName(i))
	}
	h := &recHandler{}
	op := operator.NewOperator(operator.NewOperatorParams{
		ID:            "op1",
		UserHandler:   h,
		Job:           &workerstest.DummyJob{},
		EventBatching: batching.EventBatcherParams{MaxSize: m}, // MaxDelay 0: a batch is processed exactly when full
	})
	ctx, cancel := context.WithCancel(context.Background())
	defer cancel()
	done := make(chan error, 1)
	go func() { done <- op.Start(ctx) }()
	deploy := func(cur []int) error {
		var sr []string
		for _, i := range cur {
			sr = append(sr, srName(i))
		}
		return op.HandleDeploy(ctx, &workerpb.DeployOperatorRequest{
			Operators:       []*jobpb.NodeIdentity{{Id: "op1", Host: "h"}},
			SourceRunnerIds: sr,
			KeyGroupCount:   16,
			StorageLocation: "memory:///c11",
		}, &embedded.RecordingSink{})
	}
	if err := deploy(ids); err != nil {
		return nil, err
	}
	tags := map[string]bool{fmt.Sprintf("runners_%d", len(ids)): true, fmt.Sprintf("batch_%d", m): true}
	var terms, calls []string
	var obs []any
	nwm, ncalls := 0, 0
	senders := map[int]bool{}
	completed := map[int]bool{}
	wmAboveEpoch, staleArmed, failArmed := false, false, false
	latest := map[int]time.Time{}
	for _, i := range ids {
		latest[i] = time.Unix(0, 0)
	}
	for _, o := range ops {
		var ev *workerpb.Event
		switch o.K {
		case "ev":
			timers := o.Timers
			if timers == nil {
				timers = []tsJ{}
			}
			val, _ := json.Marshal(scriptPayload{ID: o.ID, Timers: timers})
			ev = &workerpb.Event{Event: &workerpb.Event_KeyedEvent{KeyedEvent: &handlerpb.KeyedEvent{Key: []byte(keyName(o.Key)), Value: val}}}
			items := make([]string, len(timers))
			for i, t := range timers {
				items[i] = t.coq()
			}
			terms = append(terms, fmt.Sprintf("OEv %s %s %s %s", hx.CoqN(uint64(o.S)), hx.CoqN(uint64(o.ID)), hx.CoqN(uint64(o.Key)), hx.CoqList(items, "pbts")))
		case "wm":
			if o.Ts == nil {
				return nil, fmt.Errorf("wm without ts")
			}
			nwm++
			senders[o.S] = true
			tsTags(*o.Ts, tags)
			ev = &workerpb.Event{Event: &workerpb.Event_Watermark{Watermark: &workerpb.Watermark{Timestamp: o.Ts.pb()}}}
			terms = append(terms, fmt.Sprintf("OWm %s %s", hx.CoqN(uint64(o.S)), o.Ts.coq()))
			latest[o.S] = o.Ts.pb().AsTime()
			if len(completed) > 0 && !completed[o.S] {
				// does a finished runner alone hold the minimum now?
				minDone, minLive := time.Time{}, time.Time{}
				haveDone, haveLive := false, false
				for sid, t := range latest {
					if completed[sid] {
						if !haveDone || t.Before(minDone) {
							minDone, haveDone = t, true
						}
					} else if !haveLive || t.Before(minLive) {
						minLive, haveLive = t, true
					}
				}
				if haveDone && haveLive && minDone.Before(minLive) {
					tags["finished_runner_holds_min"] = true
				}
			}
		case "dp":
			// redeploy of the live operator: no call outstanding (the engine is sequential)
			if o.IDs != nil {
				ids = o.IDs
			}
			if err := deploy(ids); err != nil {
				return nil, fmt.Errorf("redeploy: %v", err)
			}
			tags["redeploy"] = true
			if wmAboveEpoch {
				staleArmed = true // the previous deployment had advanced beyond the epoch
			}
			wmAboveEpoch = false
			completed = map[int]bool{}
			latest = map[int]time.Time{}
			for _, i := range ids {
				latest[i] = time.Unix(0, 0)
			}
			terms = append(terms, "ODeploy "+coqNList(ids))
			sd, rawd := h.drain()
			if len(rawd) > 0 {
				return nil, fmt.Errorf("handler called during HandleDeploy")
			}
			calls = append(calls, sd)
			obs = append(obs, rawd)
			continue
		case "sc":
			// only legal while another configured runner stays active (the operator stops itself otherwise)
			stillActive := 0
			for _, i := range ids {
				if i != o.S && !completed[i] {
					stillActive++
				}
			}
			if stillActive == 0 {
				return nil, fmt.Errorf("case would complete the last active runner")
			}
			completed[o.S] = true
			tags["source_complete"] = true
			ev = &workerpb.Event{Event: &workerpb.Event_SourceComplete{SourceComplete: &workerpb.SourceCompleteEvent{}}}
			terms = append(terms, fmt.Sprintf("OComplete %s", hx.CoqN(uint64(o.S))))
		default:
			return nil, fmt.Errorf("bad op %q for kind op", o.K)
		}
		// HandleEvent returns after the operator's event loop has fully processed the event
		var err error
		for {
			// "not ready" cannot occur here (HandleDeploy returned, status is Ready); retried without a bound anyway
			err = op.HandleEvent(ctx, srName(o.S), ev)
			if err == nil || !strings.Contains(err.Error(), "not ready") {
				break
			}
			time.Sleep(time.Millisecond)
		}
		if err != nil {
			if !strings.Contains(err.Error(), "scripted handler failure") {
				return nil, fmt.Errorf("HandleEvent: %v", err)
			}
			// expected: the handler failed on a batch; the operator hands the error back to the sender and goes on
			if o.K == "wm" {
				tags["handler_error_mid_advance"] = true
				failArmed = true
			}
		}
		s, raw := h.drain()
		if o.K == "wm" && err == nil {
			failArmed = false
		} else if o.K != "wm" && failArmed && len(raw) > 0 {
			tags["call_after_handler_error_before_next_wm"] = true
		}
		ncalls += len(raw)
		if o.K == "wm" {
			staleArmed = false
			if w := op.VerifTimerRegistry().VerifWatermark(); w.After(time.Unix(0, 0)) {
				wmAboveEpoch = true
			}
		} else if staleArmed && len(raw) > 0 {
			tags["call_after_redeploy_before_first_wm"] = true
		}
		if nwm == 0 && len(raw) > 0 {
			tags["call_before_first_wm"] = true
		}
		calls = append(calls, s)
		obs = append(obs, raw)
	}
	// Stop through the context as well (op.Stop is a no-op until Start has installed its cancel function) and wait
	// for Start's own return: no goroutine of the operator touches its storage after that. No deadline.
	op.Stop()
	cancel()
	<-done
	if h.ntimer > 0 {
		tags["timer_expired"] = true
	}
	term := fmt.Sprintf("OpC %s %s %s %s", coqNList(ids0), hx.CoqN(uint64(m)), hx.CoqList(terms, "oop"), hx.CoqList(calls, "list ocall"))
	return &hx.Result{Term: term, Nontrivial: nwm >= 2 && ncalls >= 1 && (len(senders) >= 2 || h.ntimer > 0), Tags: tagList("op", tags), Observed: obs}, nil
}

func main() {
	slog.SetDefault(slog.New(slog.NewTextHandler(io.Discard, nil)))
	hx.Main(eng{})
}
