// engine splits (property C16): source positions vs the barrier cut, and split assignment.
//
//	mode runnerpos: the real SourceRunner with a scripted SourceReader (cursor = records read per split), recording
//	                fake operators and a recording fake job; generated read batches, split assignments and
//	                StartCheckpoint timings; the scripted reader gates every ReadEvents call so that the order of
//	                reads / assignments / checkpoints inside the event loop is the scripted one.
//	mode tracker:   the real kinesis.SplitTracker under random op sequences.
//	mode kinesis:   the real kinesis.SourceSplitter against kinesisfake: split / merge histories, discovery ticks,
//	                finished shards, checkpoints and restores at random points; the discovery ticker is replaced by a
//	                harness channel and the assignment goroutine is parked at a verifhook point between rounds.
//	mode static:    embedded and httpapi splitters for every (split count, runner count).
package main

import (
	"context"
	"encoding/json"
	"flag"
	"fmt"
	"io"
	"iter"
	"log/slog"
	"math/big"
	"os"
	"sort"
	"strconv"
	"strings"
	"sync"
	"time"

	awskinesis "github.com/aws/aws-sdk-go-v2/service/kinesis"
	kinesistypes "github.com/aws/aws-sdk-go-v2/service/kinesis/types"
	gproto "google.golang.org/protobuf/proto"
	"google.golang.org/protobuf/types/known/timestamppb"
	"reduction.dev/reduction-protocol/handlerpb"
	"reduction.dev/reduction-protocol/jobconfigpb"
	protocolkinesis "reduction.dev/reduction-protocol/kinesispb"
	"reduction.dev/reduction/batching"
	"reduction.dev/reduction/connectors"
	"reduction.dev/reduction/connectors/embedded"
	"reduction.dev/reduction/connectors/httpapi"
	"reduction.dev/reduction/connectors/httpapi/httpapitest"
	"reduction.dev/reduction/connectors/kinesis"
	"reduction.dev/reduction/connectors/kinesis/kinesisfake"
	"reduction.dev/reduction/connectors/kinesis/kinesispb"
	"reduction.dev/reduction/dkv"
	"reduction.dev/reduction/proto"
	"reduction.dev/reduction/proto/jobpb"
	"reduction.dev/reduction/proto/snapshotpb"
	"reduction.dev/reduction/proto/workerpb"
	"reduction.dev/reduction/storage/locations"
	"reduction.dev/reduction/storage/snapshots"
	"reduction.dev/reduction/util/verifhook"
	"reduction.dev/reduction/workers/sourcerunner"
	"verifharness/clusterlib"
	"verifharness/hx"
)

type eng struct{}

func (eng) Name() string { return "splits" }
func (eng) CoqRequire(mode string) string {
	return "From Coq Require Import List NArith. Import ListNotations.\nFrom RV Require Import Model.SplitTracker Model.Splitters Model.RunnerLoop Model.HttpReader Model.KinReader Corr.Check_splits."
}
func (eng) CoqCaseType(mode string) string { return "Check_splits.case" }
func (eng) CoqRun(mode string) string      { return "Check_splits.run" }
func (eng) Rule(mode string) string {
	switch mode {
	case "runnerpos":
		return "histories of assign / read / checkpoint steps on a real SourceRunner: 1..4 splits (some assigned mid-run, some with a resumed cursor), read batches of 0..6 records per split, 1..4 operators, batching MaxSize 1..4, checkpoints after every prefix incl. back to back and before the first read, with and without waiting for the pipeline to drain. Non-trivial: at least one checkpoint with records both ahead of and behind its barrier."
	case "tracker":
		return "random op sequences (load/add/track/remove/available/assigned) on the real SplitTracker over 8 shard ids with parent links. Non-trivial: some AvailableSplits call withheld a child."
	case "kinesis":
		return "split/merge lineage histories on kinesisfake with discovery ticks, finished shards (single and pairs), checkpoints and restores at random points, 1..4 runners. Non-trivial: at least one reshard and one restore or one withheld child."
	case "jobrestore":
		return "the real jobs.Job with real operators and source runners (harness/clusterlib): records, checkpoint N published, more records, checkpoint N+1 fully acknowledged with its file write held, a worker crash and re-deployment; the held write finishes before / during (inside Assembly.Deploy) / after the re-deployment. Non-trivial: the write finished during the deployment, after the job had read checkpoint N."
	case "kinread":
		return "the real kinesis SourceReader against kinesisfake: 1..3 shards with records, GetRecords limit 1..3 (one shard polled per read, round robin), random put / read / Checkpoint / recovery-from-last-checkpoint sequences incl. chains of recoveries with a checkpoint before every shard was polled again, shards closed by a split. Non-trivial: a checkpoint taken after a recovery before every held shard was polled again."
	case "httpread":
		return "the real httpapi SourceReader against the httpapitest server: bounded topics of 0..12 records, server page size 0 (all) ..4, random sequences of ReadEvents / Checkpoint / restore-from-last-checkpoint, always continued past end of input. Non-trivial: the last page carries records together with eoi and a checkpoint is taken after it."
	default:
		return "embedded: every (split count 0..12, runner count 1..6) and a restore; httpapi: runner counts 0..4 with random split states."
	}
}

func must(err error) {
	if err != nil {
		panic(err)
	}
}

// =====================================================================================================
// mode runnerpos
// =====================================================================================================

type rop struct {
	Kind   string     `json:"kind"` // assign | read | ckpt | settle
	Splits [][2]int   `json:"splits,omitempty"`
	Batch  [][2]int   `json:"batch,omitempty"`
	Rounds [][][2]int `json:"rounds,omitempty"` // burst: assignment rounds issued while a read is parked at the gate
}

type ssplit struct{ id, cursor int }

type sreader struct {
	splits      []*ssplit
	atRead      chan struct{}
	cmd         chan [][2]int
	closed      chan struct{}
	assigned    chan struct{}
	atCkpt      chan struct{}
	ckptRelease chan struct{}
	log         *[]string // Gallina steps, appended on the loop goroutine only
	nread       *int
}

func recBytes(s, i int) []byte { return []byte(fmt.Sprintf("%d:%d", s, i)) }
func parseRec(b []byte) (int, int) {
	p := strings.SplitN(string(b), ":", 2)
	s, _ := strconv.Atoi(p[0])
	i, _ := strconv.Atoi(p[1])
	return s, i
}

func (r *sreader) find(id int) *ssplit {
	for _, s := range r.splits {
		if s.id == id {
			return s
		}
	}
	return nil
}

func (r *sreader) ReadEvents() ([][]byte, error) {
	select {
	case r.atRead <- struct{}{}:
	case <-r.closed:
		return [][]byte{}, nil
	}
	var batch [][2]int
	select {
	case batch = <-r.cmd:
	case <-r.closed:
		return [][]byte{}, nil
	}
	var evs [][]byte
	var eff []string
	for _, b := range batch {
		sp := r.find(b[0])
		if sp == nil {
			continue
		}
		for k := 0; k < b[1]; k++ {
			evs = append(evs, recBytes(sp.id, sp.cursor))
			sp.cursor++
		}
		eff = append(eff, hx.CoqPair(hx.CoqN(uint64(b[0])), hx.CoqN(uint64(b[1]))))
	}
	if len(eff) > 0 {
		*r.log = append(*r.log, "SRead "+hx.CoqList(eff, "N * N"))
		*r.nread += len(evs)
	}
	return evs, nil
}

func (r *sreader) AssignSplits(splits []*workerpb.SourceSplit) error {
	var items []string
	for _, sp := range splits {
		id, _ := strconv.Atoi(sp.SplitId)
		c := 0
		if len(sp.Cursor) > 0 {
			c, _ = strconv.Atoi(string(sp.Cursor))
		}
		r.splits = append(r.splits, &ssplit{id, c})
		items = append(items, hx.CoqPair(hx.CoqN(uint64(id)), hx.CoqN(uint64(c))))
	}
	*r.log = append(*r.log, "SAssign "+hx.CoqList(items, "N * N"))
	r.assigned <- struct{}{}
	return nil
}

// Checkpoint parks at a gate first: the harness keeps it there for a moment and offers a read meanwhile. The
// event loop of the real runner is blocked in this very call, so no read can happen; a runner that takes the
// snapshot off the loop goroutine would read on and report positions beyond its barrier.
func (r *sreader) Checkpoint() [][]byte {
	select {
	case r.atCkpt <- struct{}{}:
		select {
		case <-r.ckptRelease:
		case <-r.closed:
		}
	case <-r.closed:
	}
	out := make([][]byte, len(r.splits))
	for i, s := range r.splits {
		out[i] = recBytes(s.id, s.cursor)
	}
	return out
}

type rjob struct {
	proto.NoopJob
	log     *[]string
	reports *[]string
	done    chan struct{}
}

func (j *rjob) OnSourceRunnerCheckpointComplete(ctx context.Context, req *jobpb.SourceRunnerCheckpointCompleteRequest) error {
	var st []string
	for _, b := range req.SplitStates {
		s, c := parseRec(b)
		st = append(st, hx.CoqPair(hx.CoqN(uint64(s)), hx.CoqN(uint64(c))))
	}
	*j.log = append(*j.log, "SCkpt "+hx.CoqN(req.CheckpointId))
	*j.reports = append(*j.reports, hx.CoqPair(hx.CoqN(req.CheckpointId), hx.CoqList(st, "N * N")))
	j.done <- struct{}{}
	return nil
}
func (j *rjob) RegisterSourceRunner(context.Context, *jobpb.NodeIdentity) error   { return nil }
func (j *rjob) DeregisterSourceRunner(context.Context, *jobpb.NodeIdentity) error { return nil }
func (j *rjob) NotifySplitsFinished(context.Context, string, []string) error      { return nil }

type rhandler struct{ salt int }

func (h *rhandler) ProcessEventBatch(context.Context, *handlerpb.ProcessEventBatchRequest) (*handlerpb.ProcessEventBatchResponse, error) {
	return &handlerpb.ProcessEventBatchResponse{}, nil
}
func (h *rhandler) KeyEventBatch(ctx context.Context, events [][]byte) ([][]*handlerpb.KeyedEvent, error) {
	out := make([][]*handlerpb.KeyedEvent, len(events))
	for i, e := range events {
		s, idx := parseRec(e)
		key := []byte(fmt.Sprintf("k%d", (s*7+idx*13+h.salt)%11))
		out[i] = []*handlerpb.KeyedEvent{{Key: key, Value: e, Timestamp: timestamppb.New(time.Unix(int64(1000+idx), 0))}}
	}
	return out, nil
}

type recop struct {
	proto.UnimplementedOperator
	id    string
	mu    *sync.Mutex
	cond  *sync.Cond
	evs   []string // Gallina ev terms
	nrec  *int
	final uint64
	gotF  bool
	bars  map[uint64]bool
	befF  int // records seen by this operator
}

func (o *recop) ID() string   { return o.id }
func (o *recop) Host() string { return "h" }
func (o *recop) HandleEventBatch(ctx context.Context, batch []*workerpb.Event) error {
	o.mu.Lock()
	defer o.mu.Unlock()
	for _, e := range batch {
		switch t := e.Event.(type) {
		case *workerpb.Event_KeyedEvent:
			s, i := parseRec(t.KeyedEvent.Value)
			o.evs = append(o.evs, fmt.Sprintf("Rec %d %d", s, i))
			*o.nrec++
		case *workerpb.Event_CheckpointBarrier:
			o.evs = append(o.evs, fmt.Sprintf("Bar %d", t.CheckpointBarrier.CheckpointId))
			if o.bars == nil {
				o.bars = map[uint64]bool{}
			}
			o.bars[t.CheckpointBarrier.CheckpointId] = true
			if t.CheckpointBarrier.CheckpointId == o.final {
				o.gotF = true
			}
		}
	}
	o.cond.Broadcast()
	return nil
}

const finalCkpt = 1000000

// Every wait of mode runnerpos is on an event of the real runner (a reader / job / operator callback). waitLimit only
// bounds how long a WEDGED runner is waited for: 90 s (far above anything a loaded machine needs for a handful of
// channel hand-overs; hx's own no-progress detector is 180 s). Its expiry marks the case incomplete (spec code 12), i.e.
// the run already fails; only AFTER such a stall are later waits shortened, so that a build of /repo that wedges the
// pipeline in every case does not take hours. A shortened wait can therefore never turn a passing run into a failing one.
var stalls int

func waitLimit() time.Duration {
	if stalls >= 1 {
		return 3 * time.Second
	}
	return 90 * time.Second
}

func genRunner(r *hx.Rand, tier string) *hx.Case {
	nsplits := r.Range(1, 7)
	nops := r.Range(1, 4)
	p := map[string]any{"mode": "runnerpos", "operators": nops, "kg": r.Range(nops, 16), "max_size": r.Range(1, 4), "delay_ms": r.Range(1, 3), "salt": r.Intn(11)}
	var ops []json.RawMessage
	assigned := []int{}
	pending := []int{}
	for s := 1; s <= nsplits; s++ {
		pending = append(pending, s)
	}
	assign := func(k int) {
		var sp [][2]int
		for i := 0; i < k && len(pending) > 0; i++ {
			c := 0
			if r.Chance(1, 3) {
				c = r.Range(1, 50)
			}
			sp = append(sp, [2]int{pending[0], c})
			assigned = append(assigned, pending[0])
			pending = pending[1:]
		}
		ops = append(ops, hx.Op(rop{Kind: "assign", Splits: sp}))
	}
	if r.Chance(1, 8) {
		ops = append(ops, hx.Op(rop{Kind: "ckpt"})) // checkpoint before anything is assigned
	}
	assign(r.Range(1, (nsplits+1)/2))
	n := r.Range(3, 14)
	if tier == "thorough" {
		n = r.Range(3, 30)
	}
	for i := 0; i < n; i++ {
		switch x := r.Intn(10); {
		case x < 5:
			var b [][2]int
			for _, s := range assigned {
				if r.Chance(3, 4) {
					b = append(b, [2]int{s, r.Intn(7)})
				}
			}
			hx.Shuffle(r, b)
			ops = append(ops, hx.Op(rop{Kind: "read", Batch: b}))
		case x < 7:
			ops = append(ops, hx.Op(rop{Kind: "ckpt"}))
		case x < 8:
			ops = append(ops, hx.Op(rop{Kind: "settle"}))
		case x < 9:
			if len(pending) > 0 {
				assign(1)
			} else {
				ops = append(ops, hx.Op(rop{Kind: "ckpt"}))
			}
		default:
			// two or three assignment rounds (as discovery ticks of a splitter produce) while a read is in progress
			if len(pending) >= 2 {
				var rounds [][][2]int
				for k := r.Range(2, 3); k > 0 && len(pending) > 0; k-- {
					c := 0
					if r.Chance(1, 3) {
						c = r.Range(1, 50)
					}
					rounds = append(rounds, [][2]int{{pending[0], c}})
					assigned = append(assigned, pending[0])
					pending = pending[1:]
				}
				var b [][2]int
				for _, s := range assigned {
					if r.Chance(1, 2) {
						b = append(b, [2]int{s, r.Intn(4)})
					}
				}
				ops = append(ops, hx.Op(rop{Kind: "burst", Rounds: rounds, Batch: b}))
			} else {
				ops = append(ops, hx.Op(rop{Kind: "ckpt"}))
			}
		}
	}
	return &hx.Case{Name: "runnerpos", Params: p, Ops: ops}
}

func pint(c *hx.Case, k string, def int) int {
	if v, ok := c.Params[k]; ok {
		switch t := v.(type) {
		case float64:
			return int(t)
		case int:
			return t
		}
	}
	return def
}

func execRunner(c *hx.Case) (*hx.Result, error) {
	nops := pint(c, "operators", 2)
	kg := pint(c, "kg", 8)
	var log, reports []string
	nread, nrec := 0, 0
	rd := &sreader{atRead: make(chan struct{}), cmd: make(chan [][2]int), closed: make(chan struct{}), assigned: make(chan struct{}, 64), atCkpt: make(chan struct{}), ckptRelease: make(chan struct{}), log: &log, nread: &nread}
	job := &rjob{log: &log, reports: &reports, done: make(chan struct{}, 4)}
	mu := &sync.Mutex{}
	cond := sync.NewCond(mu)
	opsById := map[string]*recop{}
	var oplist []*recop
	var nodes []*jobpb.NodeIdentity
	for i := 0; i < nops; i++ {
		id := fmt.Sprintf("op%d", i)
		o := &recop{id: id, mu: mu, cond: cond, nrec: &nrec, final: finalCkpt}
		opsById[id] = o
		oplist = append(oplist, o)
		nodes = append(nodes, &jobpb.NodeIdentity{Id: id, Host: "h"})
	}
	sr := sourcerunner.New(sourcerunner.NewParams{
		Host: "h", UserHandler: &rhandler{salt: pint(c, "salt", 0)}, Job: job,
		OperatorFactory:     func(senderID string, node *jobpb.NodeIdentity) proto.Operator { return opsById[node.Id] },
		SourceReaderFactory: func(*jobconfigpb.Source) connectors.SourceReader { return rd },
		EventBatching:       batching.EventBatcherParams{MaxSize: pint(c, "max_size", 2), MaxDelay: time.Duration(pint(c, "delay_ms", 1)) * time.Millisecond},
	})
	sr.Logger = slog.New(slog.NewTextHandler(io.Discard, nil))
	ctx, cancel := context.WithCancel(context.Background())
	startDone := make(chan struct{})
	go func() { sr.Start(ctx); close(startDone) }()
	must(sr.HandleDeploy(ctx, &workerpb.DeploySourceRunnerRequest{Sources: []*jobconfigpb.Source{{}}, Operators: nodes, KeyGroupCount: int32(kg)}))
	defer func() {
		close(rd.closed)
		cancel()
		<-startDone
	}()

	started := false
	ckid := uint64(0)
	timeout := func() <-chan time.Time { return time.After(waitLimit()) }
	complete := true
	// waitFor feeds empty read results until the loop has taken the awaited select case
	waitFor := func(ch chan struct{}) bool {
		to := timeout()
		for {
			select {
			case <-rd.atRead:
				rd.cmd <- nil
			case <-ch:
				return true
			case <-to:
				return false
			}
		}
	}
	waitOps := func(pred func() bool) bool {
		done := make(chan struct{})
		stop := false
		go func() {
			mu.Lock()
			for !pred() && !stop {
				cond.Wait()
			}
			mu.Unlock()
			close(done)
		}()
		select {
		case <-done:
			return true
		case <-timeout():
			mu.Lock()
			stop = true
			cond.Broadcast()
			mu.Unlock()
			<-done
			return false
		}
	}
	doCkpt := func(id uint64) bool {
		called := make(chan struct{}, 1)
		go func() { sr.HandleStartCheckpoint(ctx, id); called <- struct{}{} }()
		// feed empty reads until the snapshot is requested; hold it at the gate and offer one record per
		// assigned split to a loop that is (wrongly) still reading; then let the snapshot proceed
		to := timeout()
	gate:
		for {
			select {
			case <-rd.atRead:
				rd.cmd <- nil
			case <-rd.atCkpt:
				break gate
			case <-to:
				return false
			}
		}
		select {
		case <-rd.atRead:
			var probe [][2]int
			for _, sp := range rd.splits {
				probe = append(probe, [2]int{sp.id, 1})
			}
			rd.cmd <- probe
		case <-time.After(1500 * time.Microsecond):
			// bounded wait that only sharpens detection: the real loop is parked in Checkpoint() and CANNOT read, so
			// nothing is concluded from the expiry; a runner that snapshots off the loop gets the chance to read on
		}
		rd.ckptRelease <- struct{}{}
		return waitFor(job.done) && waitFor(called)
	}
	nck, nreadsWithData := 0, 0
	var acked []string
	nAckedRounds, nDelivered, nbursts := 0, 0, 0
	for _, raw := range c.Ops {
		var op rop
		if err := json.Unmarshal(raw, &op); err != nil {
			return nil, err
		}
		switch op.Kind {
		case "assign":
			var sp []*workerpb.SourceSplit
			for _, s := range op.Splits {
				if rd.find(s[0]) != nil {
					continue
				}
				var cur []byte
				if s[1] > 0 {
					cur = []byte(strconv.Itoa(s[1]))
				}
				sp = append(sp, &workerpb.SourceSplit{SplitId: strconv.Itoa(s[0]), SourceId: "x", Cursor: cur})
			}
			if len(sp) == 0 {
				continue
			}
			must(sr.HandleAssignSplits(sp))
			for _, x := range sp {
				c := 0
				if len(x.Cursor) > 0 {
					c, _ = strconv.Atoi(string(x.Cursor))
				}
				id, _ := strconv.Atoi(x.SplitId)
				acked = append(acked, hx.CoqPair(hx.CoqN(uint64(id)), hx.CoqN(uint64(c))))
			}
			nAckedRounds++
			if !waitFor(rd.assigned) {
				complete = false
			} else {
				nDelivered++
			}
			started = true
		case "burst":
			// several assignment rounds for this runner while its loop is inside a (slow) read: the first fills the
			// one-slot channel, the others are issued from goroutines (the real blocking send parks them until the
			// loop takes the slot); then the read returns its batch and the loop works the rounds off.
			var rounds [][]*workerpb.SourceSplit
			var roundTerms [][]string
			seenInBurst := map[int]bool{}
			for _, rd0 := range op.Rounds {
				var sp []*workerpb.SourceSplit
				var tm []string
				for _, x := range rd0 {
					if rd.find(x[0]) != nil || seenInBurst[x[0]] {
						continue
					}
					seenInBurst[x[0]] = true
					var cur []byte
					if x[1] > 0 {
						cur = []byte(strconv.Itoa(x[1]))
					}
					sp = append(sp, &workerpb.SourceSplit{SplitId: strconv.Itoa(x[0]), SourceId: "x", Cursor: cur})
					tm = append(tm, hx.CoqPair(hx.CoqN(uint64(x[0])), hx.CoqN(uint64(x[1]))))
				}
				if len(sp) > 0 {
					rounds = append(rounds, sp)
					roundTerms = append(roundTerms, tm)
				}
			}
			if len(rounds) == 0 {
				continue
			}
			parked := false
			if started {
				select {
				case <-rd.atRead:
					parked = true
				case <-timeout():
					complete = false
				}
			}
			if !complete {
				break
			}
			ackCh := make(chan int, len(rounds))
			pendingAcks := 0
			for i, sp := range rounds {
				about := make(chan struct{})
				pendingAcks++
				go func() {
					close(about)
					if err := sr.HandleAssignSplits(sp); err == nil {
						ackCh <- i
					} else {
						ackCh <- -1
					}
				}()
				<-about
				// give the call the moment it needs to either return or park in its channel send (a bounded wait
				// that only sharpens the regime; no verdict depends on it)
				select {
				case j := <-ackCh:
					pendingAcks--
					if j >= 0 {
						acked = append(acked, roundTerms[j]...)
						nAckedRounds++
					}
				case <-time.After(300 * time.Microsecond):
				}
			}
			if parked {
				rd.cmd <- op.Batch
				nreadsWithData++
			}
			got, empties := 0, 0
			to := timeout()
		drain:
			for got < nAckedRounds-nDelivered || pendingAcks > 0 {
				select {
				case <-rd.assigned:
					got++
				case j := <-ackCh:
					pendingAcks--
					if j >= 0 {
						acked = append(acked, roundTerms[j]...)
						nAckedRounds++
					}
				case <-rd.atRead:
					rd.cmd <- nil
					if pendingAcks == 0 {
						// the loop picks between a full assignment slot and the next read at random: 64 reads in a
						// row with a round still waiting do not happen unless the round was dropped
						if empties++; empties > 64 {
							break drain
						}
					}
				case <-to:
					complete = false
					break drain
				}
			}
			nDelivered += got
			nbursts++
			started = true
		case "read":
			if !started {
				continue
			}
			select {
			case <-rd.atRead:
				rd.cmd <- op.Batch
				nreadsWithData++
			case <-timeout():
				complete = false
			}
		case "ckpt":
			ckid++
			nck++
			if !doCkpt(ckid) {
				complete = false
			}
		case "settle":
			// drain the pipeline: a checkpoint whose barrier has reached every operator is behind everything read so
			// far (FIFO), whether or not a record was lost on the way - the wait is on the barrier, not on a count
			ckid++
			nck++
			id := ckid
			if !doCkpt(id) {
				complete = false
			} else if !waitOps(func() bool {
				for _, o := range oplist {
					if !o.bars[id] {
						return false
					}
				}
				return true
			}) {
				complete = false
			}
		}
		if !complete {
			break
		}
	}
	if complete {
		if !doCkpt(finalCkpt) {
			complete = false
		} else if !waitOps(func() bool {
			for _, o := range oplist {
				if !o.gotF {
					return false
				}
			}
			return true
		}) {
			complete = false
		}
	}
	if !complete {
		stalls++
	}
	mu.Lock()
	var streams []string
	cutBoth := false
	for _, o := range oplist {
		streams = append(streams, hx.CoqList(o.evs, "ev"))
		// a barrier (not the final one) with records on both sides
		seenRec, seenBarAfterRec := false, false
		for _, e := range o.evs {
			if strings.HasPrefix(e, "Rec") {
				if seenBarAfterRec {
					cutBoth = true
				}
				seenRec = true
			} else if seenRec && !strings.HasSuffix(e, fmt.Sprint(finalCkpt)) {
				seenBarAfterRec = true
			}
		}
	}
	mu.Unlock()
	term := fmt.Sprintf("CRunner %s %s %s %s %s", hx.CoqList(log, "step"), hx.CoqList(reports, "N * list (N * N)"), hx.CoqList(streams, "list ev"), hx.CoqBool(complete), hx.CoqList(acked, "N * N"))
	tags := []string{fmt.Sprintf("operators=%d", nops), fmt.Sprintf("ckpts=%d", min(nck, 6)), fmt.Sprintf("records<=%d", (nread/10+1)*10), fmt.Sprintf("max_size=%d", pint(c, "max_size", 2))}
	if cutBoth {
		tags = append(tags, "cut_with_records_both_sides")
	}
	if nbursts > 0 {
		tags = append(tags, "assignment_burst_during_read")
	}
	if !complete {
		tags = append(tags, "incomplete")
	}
	return &hx.Result{Term: "(" + term + ")", Nontrivial: cutBoth, Tags: tags, Observed: map[string]any{"steps": log, "reports": reports, "streams": streams, "complete": complete, "acked": acked}}, nil
}

// =====================================================================================================
// mode tracker
// =====================================================================================================

type top struct {
	Kind   string  `json:"kind"`             // load | add | track | remove | avail | assigned | last
	Shards [][]int `json:"shards,omitempty"` // id, parents...
	Ids    []int   `json:"ids,omitempty"`
	Last   int     `json:"last,omitempty"`
}

func tid(i int) string {
	if i == 0 {
		return ""
	}
	return fmt.Sprintf("s%04d", i)
}
func tnum(s string) uint64 {
	if s == "" {
		return 0
	}
	n, _ := strconv.Atoi(strings.TrimPrefix(s, "s"))
	return uint64(n)
}

func coqShard(id uint64, parents []uint64, lo, hi string) string {
	var ps []string
	for _, p := range parents {
		ps = append(ps, hx.CoqN(p))
	}
	return fmt.Sprintf("(mkShard %d %s %s %s)", id, hx.CoqList(ps, "N"), lo, hi)
}

func genTracker(r *hx.Rand, tier string) *hx.Case {
	n := r.Range(6, 24)
	if tier == "thorough" {
		n = r.Range(6, 60)
	}
	parents := map[int][]int{}
	for i := 1; i <= 8; i++ {
		if i > 1 && r.Chance(1, 2) {
			parents[i] = append(parents[i], r.Range(1, i-1))
			if r.Chance(1, 4) {
				parents[i] = append(parents[i], r.Range(1, i-1))
			}
		}
	}
	sh := func() [][]int {
		var out [][]int
		k := r.Range(0, 3)
		for j := 0; j < k; j++ {
			id := r.Range(1, 8)
			ps := parents[id]
			if r.Chance(1, 10) { // a redefinition with other parents (Set overwrites)
				ps = nil
			}
			out = append(out, append([]int{id}, ps...))
		}
		return out
	}
	var ops []json.RawMessage
	for i := 0; i < n; i++ {
		switch x := r.Intn(12); {
		case x < 3:
			ops = append(ops, hx.Op(top{Kind: "add", Shards: sh()}))
		case x < 5:
			ops = append(ops, hx.Op(top{Kind: "track", Shards: sh()}))
		case x < 7:
			var ids []int
			for j := r.Range(0, 2); j > 0; j-- {
				ids = append(ids, r.Range(1, 8))
			}
			ops = append(ops, hx.Op(top{Kind: "remove", Ids: ids}))
		case x < 8:
			if i < 3 {
				ops = append(ops, hx.Op(top{Kind: "load", Shards: sh(), Last: r.Range(0, 8)}))
			} else {
				ops = append(ops, hx.Op(top{Kind: "last"}))
			}
		case x < 11:
			ops = append(ops, hx.Op(top{Kind: "avail"}))
		default:
			ops = append(ops, hx.Op(top{Kind: "assigned"}))
		}
	}
	ops = append(ops, hx.Op(top{Kind: "avail"}), hx.Op(top{Kind: "assigned"}), hx.Op(top{Kind: "last"}))
	return &hx.Case{Name: "tracker", Params: map[string]any{"mode": "tracker"}, Ops: ops}
}

func execTracker(c *hx.Case) (*hx.Result, error) {
	t := kinesis.NewSplitTracker()
	mk := func(sh [][]int) ([]kinesis.SourceSplitterShard, string) {
		var out []kinesis.SourceSplitterShard
		var terms []string
		for _, s := range sh {
			if len(s) == 0 {
				continue
			}
			var ps []string
			var pn []uint64
			for _, p := range s[1:] {
				ps = append(ps, tid(p))
				pn = append(pn, uint64(p))
			}
			out = append(out, kinesis.SourceSplitterShard{ShardID: tid(s[0]), ParentIDs: ps})
			terms = append(terms, coqShard(uint64(s[0]), pn, "0", "0"))
		}
		return out, hx.CoqList(terms, "shard")
	}
	obs := func(sh []kinesis.SourceSplitterShard) string {
		var terms []string
		for _, s := range sh {
			var pn []uint64
			for _, p := range s.ParentIDs {
				pn = append(pn, tnum(p))
			}
			terms = append(terms, coqShard(tnum(s.ShardID), pn, "0", "0"))
		}
		return hx.CoqList(terms, "shard")
	}
	var terms []string
	withheld := false
	known := map[string]bool{}
	for _, raw := range c.Ops {
		var op top
		if err := json.Unmarshal(raw, &op); err != nil {
			return nil, err
		}
		switch op.Kind {
		case "load":
			sh, tm := mk(op.Shards)
			t.LoadSplits(sh, tid(op.Last))
			for _, s := range sh {
				known[s.ShardID] = true
			}
			terms = append(terms, fmt.Sprintf("TLoad %s %d", tm, op.Last))
		case "add":
			sh, tm := mk(op.Shards)
			t.AddSplits(sh)
			for _, s := range sh {
				known[s.ShardID] = true
			}
			terms = append(terms, "TAdd "+tm)
		case "track":
			sh, tm := mk(op.Shards)
			t.TrackAssigned(sh)
			terms = append(terms, "TTrack "+tm)
		case "remove":
			var ids []string
			var ns []string
			for _, i := range op.Ids {
				ids = append(ids, tid(i))
				ns = append(ns, hx.CoqN(uint64(i)))
				delete(known, tid(i))
			}
			t.RemoveSplits(ids)
			terms = append(terms, "TRemove "+hx.CoqList(ns, "N"))
		case "avail":
			a := t.AvailableSplits()
			if len(a) < len(known) {
				withheld = true
			}
			terms = append(terms, "TAvail "+obs(a))
		case "assigned":
			terms = append(terms, "TAssigned "+obs(t.AssignedSplits()))
		case "last":
			terms = append(terms, fmt.Sprintf("TLast %d", tnum(t.LastAssignedSplitID)))
		}
	}
	tags := []string{fmt.Sprintf("ops<=%d", (len(terms)/10+1)*10)}
	if withheld {
		tags = append(tags, "withheld")
	}
	return &hx.Result{Term: "(CTracker " + hx.CoqList(terms, "top") + ")", Nontrivial: withheld, Tags: tags, Observed: terms}, nil
}

// =====================================================================================================
// mode kinesis
// =====================================================================================================

type kop struct {
	Kind string `json:"kind"` // split | merge | tick | finish | finish2 | ckpt | restore
	K    int    `json:"k,omitempty"`
	Frac int    `json:"frac,omitempty"` // split point in 1/1000 of the range
}

type park struct {
	parked  chan struct{}
	release chan struct{}
}

var parks sync.Map

// one kinesisfake server for the whole run, one stream per case
var (
	fakeOnce   sync.Once
	fakeClient *awskinesis.Client
	fakeCtl    *kinesisfake.Fake
	streamSeq  int
)

func init() {
	verifhook.Set(func(name string, args ...any) {
		if name != "kinesis.splitter.loop" || len(args) == 0 {
			return
		}
		if p, ok := parks.Load(args[0]); ok {
			pk := p.(*park)
			pk.parked <- struct{}{}
			<-pk.release
		}
	})
}

func sidNum(s string) uint64 {
	if s == "" {
		return 0
	}
	n, err := strconv.Atoi(strings.TrimPrefix(s, "shardId-"))
	if err != nil {
		return 999999
	}
	return uint64(n) + 1
}
func sidStr(n uint64) string { return fmt.Sprintf("shardId-%012d", n-1) }

type kshard struct {
	id      uint64
	parents []uint64
	lo, hi  *big.Int
	closed  bool
}

func genKinesis(r *hx.Rand, tier string) *hx.Case {
	n := r.Range(4, 22)
	if tier == "thorough" {
		n = r.Range(4, 45)
	}
	var ops []json.RawMessage
	for i := 0; i < n; i++ {
		switch x := r.Intn(20); {
		case x < 4:
			ops = append(ops, hx.Op(kop{Kind: "split", K: r.Intn(8), Frac: hx.Pick(r, []int{500, 500, 250, 750, 1, 999, r.Range(1, 999)})}))
		case x < 6:
			ops = append(ops, hx.Op(kop{Kind: "merge", K: r.Intn(8)}))
		case x < 10:
			ops = append(ops, hx.Op(kop{Kind: "tick"}))
		case x < 14:
			ops = append(ops, hx.Op(kop{Kind: "finish", K: r.Intn(8)}))
		case x < 15:
			ops = append(ops, hx.Op(kop{Kind: "finish2", K: r.Intn(8)}))
		case x < 18:
			ops = append(ops, hx.Op(kop{Kind: "ckpt", K: r.Intn(4)}))
		default:
			ops = append(ops, hx.Op(kop{Kind: "restore"}))
		}
	}
	ops = append(ops, hx.Op(kop{Kind: "tick"}))
	return &hx.Case{Name: "kinesis", Params: map[string]any{"mode": "kinesis", "runners": r.Range(1, 4), "shards": r.Range(1, 4)}, Ops: ops}
}

// memLoc is an in-memory storage location for the real snapshots.Store.
type memLoc struct {
	mu    sync.Mutex
	files map[string][]byte
}

func (m *memLoc) Write(path string, r io.Reader) (string, error) {
	data, err := io.ReadAll(r)
	if err != nil {
		return "", err
	}
	m.mu.Lock()
	defer m.mu.Unlock()
	m.files[path] = data
	return path, nil
}
func (m *memLoc) Read(path string) ([]byte, error) {
	m.mu.Lock()
	defer m.mu.Unlock()
	if d, ok := m.files[path]; ok {
		return d, nil
	}
	return nil, locations.ErrNotFound
}
func (m *memLoc) List() iter.Seq2[string, error] {
	m.mu.Lock()
	var names []string
	for n := range m.files {
		names = append(names, n)
	}
	m.mu.Unlock()
	sort.Strings(names)
	return func(yield func(string, error) bool) {
		for _, n := range names {
			if !yield(n, nil) {
				return
			}
		}
	}
}
func (m *memLoc) URI(path string) (string, error) { return path, nil }
func (m *memLoc) Copy(src, dst string) error {
	d, err := m.Read(src)
	if err != nil {
		return err
	}
	m.mu.Lock()
	defer m.mu.Unlock()
	m.files[dst] = d
	return nil
}
func (m *memLoc) Remove(paths ...string) error {
	m.mu.Lock()
	defer m.mu.Unlock()
	for _, p := range paths {
		delete(m.files, p)
	}
	return nil
}

func sharedFake() *awskinesis.Client {
	fakeOnce.Do(func() {
		srv, fk := kinesisfake.StartFake()
		fakeClient = kinesis.NewLocalClient(srv.URL)
		fakeCtl = fk
	})
	return fakeClient
}

// transient marks a failure of the local HTTP plumbing between the AWS SDK and kinesisfake (seen under
// heavy machine load: "use of closed network connection" while reading a 200 response); the case is then
// executed again from scratch on a fresh stream.
type transient struct{ err string }

func isTransient(msg string) bool {
	return strings.Contains(msg, "use of closed network connection") || strings.Contains(msg, "connection reset") ||
		strings.Contains(msg, "EOF") || strings.Contains(msg, "broken pipe")
}

func execKinesis(c *hx.Case) (*hx.Result, error) { return retryTransient(c, execKinesisOnce) }

func retryTransient(c *hx.Case, once func(*hx.Case) (*hx.Result, error)) (res *hx.Result, err error) {
	for attempt := 0; ; attempt++ {
		retry := false
		func() {
			defer func() {
				if p := recover(); p != nil {
					msg := fmt.Sprint(p)
					if t, ok := p.(transient); ok {
						msg = t.err
					}
					if attempt < 4 && isTransient(msg) {
						retry = true
						return
					}
					panic(p)
				}
			}()
			res, err = once(c)
		}()
		if !retry {
			return res, err
		}
	}
}

func execKinesisOnce(c *hx.Case) (*hx.Result, error) {
	nr := pint(c, "runners", 2)
	nshards := pint(c, "shards", 2)
	client := sharedFake()
	bg := context.Background()
	streamSeq++
	name := fmt.Sprintf("s%d", streamSeq)
	n32 := int32(nshards)
	_, err := client.CreateStream(bg, &awskinesis.CreateStreamInput{StreamName: &name, ShardCount: &n32})
	must(err)
	d, err := client.DescribeStream(bg, &awskinesis.DescribeStreamInput{StreamName: &name})
	must(err)
	arn := *d.StreamDescription.StreamARN
	cfg := kinesis.SourceConfig{StreamARN: arn, Client: client, ShardDiscoveryInterval: time.Hour}
	var runners []string
	for i := 0; i < nr; i++ {
		runners = append(runners, fmt.Sprintf("r%d", i))
	}

	var stream []*kshard
	var terms []string
	// refresh lists the whole stream (what ListShards offers the splitter) and reports the new shards
	refresh := func() {
		var next *string
		var all []*kshard
		for {
			in := &awskinesis.ListShardsInput{StreamName: &name}
			if next != nil {
				in = &awskinesis.ListShardsInput{NextToken: next}
			}
			out, err := client.ListShards(bg, in)
			must(err)
			for _, s := range out.Shards {
				k := &kshard{id: sidNum(*s.ShardId), lo: new(big.Int), hi: new(big.Int)}
				k.lo.SetString(*s.HashKeyRange.StartingHashKey, 10)
				k.hi.SetString(*s.HashKeyRange.EndingHashKey, 10)
				if s.ParentShardId != nil && *s.ParentShardId != "" {
					k.parents = append(k.parents, sidNum(*s.ParentShardId))
				}
				if s.AdjacentParentShardId != nil && *s.AdjacentParentShardId != "" {
					k.parents = append(k.parents, sidNum(*s.AdjacentParentShardId))
				}
				all = append(all, k)
			}
			if out.NextToken == nil {
				break
			}
			next = out.NextToken
		}
		var nw []string
		for i := len(stream); i < len(all); i++ {
			k := all[i]
			for _, p := range k.parents {
				if int(p) <= len(all) {
					all[p-1].closed = true
				}
			}
			nw = append(nw, coqShard(k.id, k.parents, k.lo.String(), k.hi.String()))
		}
		for i := range stream {
			all[i].closed = all[i].closed || stream[i].closed
		}
		stream = all
		if len(nw) > 0 {
			terms = append(terms, "KAppend "+hx.CoqList(nw, "shard"))
		}
	}

	var mu sync.Mutex
	var cur []string // assignments observed in the current round
	epoch := map[uint64]bool{}
	fin := map[uint64]bool{}
	hooks := connectors.SourceSplitterHooks{AssignSplits: func(a map[string][]*workerpb.SourceSplit) {
		mu.Lock()
		defer mu.Unlock()
		for ri, rid := range runners {
			for _, sp := range a[rid] {
				cu := uint64(0)
				if len(sp.Cursor) > 0 {
					x, err := strconv.ParseUint(string(sp.Cursor), 10, 64)
					if err != nil {
						x = 888888
					}
					cu = x
				}
				cur = append(cur, fmt.Sprintf("(%d, %d, %d)", ri, sidNum(sp.SplitId), cu))
				epoch[sidNum(sp.SplitId)] = true
			}
		}
		for rid, sps := range a {
			known := false
			for _, x := range runners {
				known = known || x == rid
			}
			if !known {
				for _, sp := range sps {
					cur = append(cur, fmt.Sprintf("(999, %d, 0)", sidNum(sp.SplitId)))
				}
			}
		}
	}}
	take := func() string {
		mu.Lock()
		defer mu.Unlock()
		s := hx.CoqList(cur, "N * N * N")
		cur = nil
		return s
	}

	// the job's snapshot store lives as long as the job process: checkpoints are taken THROUGH it (the splitter
	// state of a published job checkpoint is what the store asked the registered splitter for)
	ckEvents := make(chan string, 8)
	storeErr := make(chan error, 8)
	store := snapshots.NewStore(&snapshots.NewStoreParams{FileStore: &memLoc{files: map[string][]byte{}}, SavepointsPath: "savepoints",
		CheckpointsPath: "checkpoints", CheckpointEvents: ckEvents, ErrChan: storeErr})
	var sp *kinesis.SourceSplitter
	var pk *park
	var tickCh chan time.Time
	var errCh chan error
	start := func(ck *snapshotpb.SourceCheckpoint) {
		errCh = make(chan error, 4)
		sp = kinesis.NewSourceSplitter(cfg, runners, hooks, errCh)
		store.RegisterSourceSplitter(sp) // Job.start: every assembly registers its splitter with the snapshot store
		pk = &park{parked: make(chan struct{}), release: make(chan struct{})}
		parks.Store(sp, pk)
		must(sp.Start(ck))
		<-pk.parked
		tickCh = make(chan time.Time, 1)
		sp.VerifSetDiscoveryTicker(tickCh)
	}
	stop := func() {
		sp.Close()
		pk.release <- struct{}{}
		parks.Delete(sp)
	}
	round := func() {
		pk.release <- struct{}{}
		select {
		case <-pk.parked:
		case e := <-errCh:
			// the assignment goroutine has given up after a failed ListShards
			parks.Delete(sp)
			panic(transient{e.Error()})
			// no deadline of our own: the round ends with the goroutine parked again or with its error; a wedged
			// splitter is hx's no-progress detector's business
		}
	}

	refresh()
	start(nil)
	terms = append(terms, fmt.Sprintf("KStart false %s 0 %s %s", hx.CoqList(nil, "shard"), hx.CoqList(nil, "N * N"), take()))

	// last checkpoint taken
	var ckBytes []byte
	var ckStates [][]byte
	var ckAssignedTerm, ckStatesTerm string
	var ckLast uint64
	var ckFin map[uint64]bool
	haveCk := false
	nresh, nrestore, nck, nstale := 0, 0, 0, 0
	withheld, lostClass := false, false

	openShards := func() []*kshard {
		var o []*kshard
		for _, s := range stream {
			if !s.closed {
				o = append(o, s)
			}
		}
		sort.Slice(o, func(i, j int) bool { return o[i].lo.Cmp(o[j].lo) < 0 })
		return o
	}
	finishable := func() []uint64 {
		var o []uint64
		for _, s := range stream {
			if s.closed && epoch[s.id] && !fin[s.id] {
				o = append(o, s.id)
			}
		}
		return o
	}
	for _, raw := range c.Ops {
		var op kop
		if err := json.Unmarshal(raw, &op); err != nil {
			return nil, err
		}
		switch op.Kind {
		case "split":
			o := openShards()
			if len(o) == 0 || len(stream) > 40 {
				continue
			}
			s := o[op.K%len(o)]
			w := new(big.Int).Sub(s.hi, s.lo)
			w.Mul(w, big.NewInt(int64(op.Frac)))
			w.Div(w, big.NewInt(1000))
			key := new(big.Int).Add(s.lo, w)
			if key.Cmp(s.lo) <= 0 || key.Cmp(s.hi) >= 0 {
				continue
			}
			id, ks := sidStr(s.id), key.String()
			if _, err := client.SplitShard(bg, &awskinesis.SplitShardInput{StreamName: &name, ShardToSplit: &id, NewStartingHashKey: &ks}); err != nil {
				continue
			}
			nresh++
			refresh()
		case "merge":
			o := openShards()
			if len(o) < 2 || len(stream) > 40 {
				continue
			}
			i := op.K % (len(o) - 1)
			a, b := sidStr(o[i].id), sidStr(o[i+1].id)
			if _, err := client.MergeShards(bg, &awskinesis.MergeShardsInput{StreamName: &name, ShardToMerge: &a, AdjacentShardToMerge: &b}); err != nil {
				continue
			}
			nresh++
			refresh()
		case "tick":
			tickCh <- time.Now()
			round()
			terms = append(terms, "KTick "+take())
		case "finish", "finish2":
			f := finishable()
			if len(f) == 0 {
				continue
			}
			ids := []uint64{f[op.K%len(f)]}
			if op.Kind == "finish2" && len(f) > 1 {
				ids = append(ids, f[(op.K+1)%len(f)])
			}
			var ss, ns []string
			for _, i := range ids {
				ss = append(ss, sidStr(i))
				ns = append(ns, hx.CoqN(i))
				fin[i] = true
			}
			sp.NotifySplitsFinished("r0", ss)
			round()
			terms = append(terms, fmt.Sprintf("KFinish %s %s", hx.CoqList(ns, "N"), take()))
		case "ckpt":
			// reader split states: one per shard assigned in this epoch and not finished
			var states [][]byte
			var stt []string
			nck++
			for _, s := range stream {
				if epoch[s.id] && !fin[s.id] {
					cu := uint64(0)
					if (int(s.id)+op.K)%4 != 0 {
						cu = uint64(nck)*1000 + s.id
					}
					cs := ""
					if cu > 0 {
						cs = strconv.FormatUint(cu, 10)
					}
					b, err := gproto.Marshal(&kinesispb.Shard{ShardId: sidStr(s.id), Cursor: cs})
					must(err)
					states = append(states, b)
					stt = append(stt, hx.CoqPair(hx.CoqN(s.id), hx.CoqN(cu)))
				}
			}
			// a job checkpoint: every source runner acknowledges, the store asks the registered splitter for its
			// state and publishes; the splitter is restored from the published checkpoint
			cid, err := store.CreateCheckpoint(nil, runners)
			must(err)
			if op.K%3 == 1 {
				// a reassembly aborts checkpoint cid while it is in flight; the next checkpoint starts; then the
				// LATE report of a surviving runner for the aborted checkpoint arrives (positions of the old barrier)
				nstale++
				var stale [][]byte
				for _, s := range stream {
					if epoch[s.id] && !fin[s.id] {
						b, err := gproto.Marshal(&kinesispb.Shard{ShardId: sidStr(s.id), Cursor: strconv.FormatUint(500000+s.id, 10)})
						must(err)
						stale = append(stale, b)
					}
				}
				store.AbortPendingCheckpoint()
				old := cid
				cid, err = store.CreateCheckpoint(nil, runners)
				must(err)
				_ = store.AddSourceSnapshot(&jobpb.SourceRunnerCheckpointCompleteRequest{CheckpointId: old, SourceRunnerId: runners[0], SplitStates: stale})
			}
			for ri, rid := range runners {
				var st [][]byte
				if ri == 0 {
					st = states
				}
				// a refusal of the genuine report shows in the published positions
				_ = store.AddSourceSnapshot(&jobpb.SourceRunnerCheckpointCompleteRequest{CheckpointId: cid, SourceRunnerId: rid, SplitStates: st})
			}
			select {
			case <-ckEvents:
			case e := <-storeErr:
				panic("snapshot store: " + e.Error())
				// no deadline of our own: the store either publishes or reports the failure
			}
			pub := store.CurrentCheckpoint()
			if pub == nil || pub.Id != cid || len(pub.SourceCheckpoints) != 1 {
				panic("snapshot store: published checkpoint is not the one just completed")
			}
			ckBytes = pub.SourceCheckpoints[0].SplitterState
			ckStates = pub.SourceCheckpoints[0].SplitStates
			var st kinesispb.SplitterState
			must(gproto.Unmarshal(ckBytes, &st))
			var at []string
			inCk := map[uint64]bool{}
			for _, s := range st.AssignedShards {
				var ps []uint64
				for _, p := range s.ParentShardIds {
					if p != "" {
						ps = append(ps, sidNum(p))
					}
				}
				lo, hi := new(big.Int), new(big.Int)
				if s.HashKeyRange != nil {
					lo.SetBytes(s.HashKeyRange.Start)
					hi.SetBytes(s.HashKeyRange.End)
				}
				at = append(at, coqShard(sidNum(s.ShardId), ps, lo.String(), hi.String()))
				inCk[sidNum(s.ShardId)] = true
			}
			ckAssignedTerm = hx.CoqList(at, "shard")
			ckLast = sidNum(st.LastAssignedShardId)
			var pubt []string
			for _, b := range ckStates {
				var sh kinesispb.Shard
				must(gproto.Unmarshal(b, &sh))
				cu := uint64(0)
				if sh.Cursor != "" {
					x, err := strconv.ParseUint(sh.Cursor, 10, 64)
					if err != nil {
						x = 888888
					}
					cu = x
				}
				pubt = append(pubt, hx.CoqPair(hx.CoqN(sidNum(sh.ShardId)), hx.CoqN(cu)))
			}
			terms = append(terms, fmt.Sprintf("KCkpt %s %d %s %s", ckAssignedTerm, ckLast, hx.CoqList(stt, "N * N"), hx.CoqList(pubt, "N * N")))
			stt = pubt // the splitter is restored from what was published
			ckStatesTerm = hx.CoqList(stt, "N * N")
			ckFin = map[uint64]bool{}
			for k := range fin {
				ckFin[k] = true
			}
			for _, s := range stream {
				if s.id < ckLast && !inCk[s.id] && !fin[s.id] {
					lostClass = true
				}
			}
			haveCk = true
		case "restore":
			stop()
			epoch = map[uint64]bool{}
			nrestore++
			if haveCk {
				fin = map[uint64]bool{}
				for k := range ckFin {
					fin[k] = true
				}
				start(&snapshotpb.SourceCheckpoint{SplitterState: ckBytes, SplitStates: ckStates})
				terms = append(terms, fmt.Sprintf("KStart true %s %d %s %s", ckAssignedTerm, ckLast, ckStatesTerm, take()))
			} else {
				fin = map[uint64]bool{}
				start(nil)
				terms = append(terms, fmt.Sprintf("KStart false %s 0 %s %s", hx.CoqList(nil, "shard"), hx.CoqList(nil, "N * N"), take()))
			}
		}
		for _, s := range stream {
			if !epoch[s.id] && !fin[s.id] {
				withheld = true
			}
		}
	}
	stop()
	tags := []string{fmt.Sprintf("runners=%d", nr), fmt.Sprintf("reshards=%d", min(nresh, 5)), fmt.Sprintf("restores=%d", min(nrestore, 3)), fmt.Sprintf("stream<=%d", (len(stream)/5+1)*5)}
	if withheld {
		tags = append(tags, "withheld_child")
	}
	if lostClass {
		tags = append(tags, "ckpt_with_unassigned_below_last")
	}
	if nrestore > 0 && haveCk {
		tags = append(tags, "restored_from_ckpt")
	}
	if nstale > 0 {
		tags = append(tags, "late_report_for_aborted_ckpt")
	}
	nt := nresh > 0 && (nrestore > 0 || withheld)
	return &hx.Result{Term: fmt.Sprintf("(CKinesis %d %s)", nr, hx.CoqList(terms, "kev")), Nontrivial: nt, Tags: tags, Observed: terms}, nil
}

// =====================================================================================================
// mode static
// =====================================================================================================

type sop struct {
	Kind    string   `json:"kind"` // embedded | embedded_restore | http
	Splits  int      `json:"splits,omitempty"`
	Runners int      `json:"runners"`
	States  [][]byte `json:"states,omitempty"`
	Cursors [][2]int `json:"cursors,omitempty"` // embedded_restore: (split, cursor) reader states
}

func genStatic(r *hx.Rand, tier string) []*hx.Case {
	var cs []*hx.Case
	mk := func(o sop) {
		cs = append(cs, &hx.Case{Name: o.Kind, Params: map[string]any{"mode": "static"}, Ops: []json.RawMessage{hx.Op(o)}})
	}
	maxS, maxR := 12, 6
	if tier == "thorough" {
		maxS, maxR = 40, 12
	}
	for s := 0; s <= maxS; s++ {
		for n := 1; n <= maxR; n++ {
			mk(sop{Kind: "embedded", Splits: s, Runners: n})
		}
	}
	for k := 0; k < 12; k++ {
		sp := r.Range(0, 6)
		var cu [][2]int
		for j := r.Range(0, sp+1); j > 0; j-- {
			cu = append(cu, [2]int{r.Intn(sp + 2), r.Intn(500)})
		}
		mk(sop{Kind: "embedded_restore", Splits: sp, Runners: r.Range(1, 3), Cursors: cu})
	}
	for n := 0; n <= 4; n++ {
		mk(sop{Kind: "http", Runners: n})
		for k := 0; k < 4; k++ {
			var st [][]byte
			for j := r.Range(1, 3); j > 0; j-- {
				if r.Chance(1, 3) {
					st = append(st, []byte{})
				} else {
					st = append(st, r.Bytes(r.Range(1, 6)))
				}
			}
			mk(sop{Kind: "http", Runners: n, States: st})
		}
	}
	return cs
}

func execStatic(c *hx.Case) (*hx.Result, error) {
	if len(c.Ops) == 0 {
		return nil, fmt.Errorf("empty case")
	}
	var op sop
	if err := json.Unmarshal(c.Ops[0], &op); err != nil {
		return nil, err
	}
	var runners []string
	for i := 0; i < op.Runners; i++ {
		runners = append(runners, fmt.Sprintf("r%d", i))
	}
	var got map[string][]*workerpb.SourceSplit
	hooks := connectors.SourceSplitterHooks{AssignSplits: func(a map[string][]*workerpb.SourceSplit) { got = a }}
	groups := func() string {
		var gs []string
		for _, rid := range runners {
			var ids []string
			for _, sp := range got[rid] {
				n, err := strconv.Atoi(sp.SplitId)
				if err != nil {
					n = 999999
				}
				ids = append(ids, hx.CoqN(uint64(n)))
			}
			gs = append(gs, hx.CoqList(ids, "N"))
		}
		return hx.CoqList(gs, "list N")
	}
	switch op.Kind {
	case "embedded":
		sp := embedded.NewSourceSplitter(embedded.SourceConfig{SplitCount: op.Splits}, runners, hooks)
		must(sp.Start(nil))
		return &hx.Result{Term: fmt.Sprintf("(CEmbedded %d %d %s)", op.Splits, op.Runners, groups()), Nontrivial: op.Splits > 1 && op.Runners > 1,
			Tags: []string{"embedded"}, Observed: groups()}, nil
	case "embedded_restore":
		sp := embedded.NewSourceSplitter(embedded.SourceConfig{SplitCount: op.Splits}, runners, hooks)
		panicked := false
		var states [][]byte
		var stt []string
		for _, c := range op.Cursors {
			states = append(states, []byte(fmt.Sprintf(`{"Cursor":%d,"SplitID":"%d"}`, c[1], c[0])))
			stt = append(stt, hx.CoqPair(hx.CoqN(uint64(c[0])), hx.CoqN(uint64(c[1]))))
		}
		func() {
			defer func() {
				if p := recover(); p != nil {
					panicked = true
				}
			}()
			must(sp.Start(&snapshotpb.SourceCheckpoint{SplitStates: states}))
		}()
		var oc []string
		for _, rid := range runners {
			for _, x := range got[rid] {
				n, err := strconv.Atoi(x.SplitId)
				if err != nil {
					n = 999999
				}
				cu := "None"
				if len(x.Cursor) == 8 {
					cu = fmt.Sprintf("(Some %d)", new(big.Int).SetBytes(x.Cursor).Uint64())
				} else if len(x.Cursor) != 0 {
					cu = "(Some 999999999)"
				}
				oc = append(oc, fmt.Sprintf("(%d, %s)", n, cu))
			}
		}
		return &hx.Result{Term: fmt.Sprintf("(CEmbeddedRestore %d %d %s %s %s %s)", op.Splits, op.Runners, hx.CoqBool(panicked), hx.CoqList(stt, "N * N"), groups(), hx.CoqList(oc, "N * option N")), Nontrivial: len(op.Cursors) > 0,
			Tags: []string{"embedded_restore", fmt.Sprintf("panicked=%v", panicked)}, Observed: map[string]any{"panicked": panicked, "cursors": oc}}, nil
	case "http":
		sp := httpapi.NewSourceSplitter(httpapi.SourceConfig{}, runners, hooks, make(chan error, 1))
		var ck *snapshotpb.SourceCheckpoint
		if op.States != nil {
			ck = &snapshotpb.SourceCheckpoint{SplitStates: op.States}
		}
		must(sp.Start(ck))
		var sts, out []string
		for _, s := range op.States {
			sts = append(sts, hx.CoqBytes(s))
		}
		for ri, rid := range runners {
			for _, x := range got[rid] {
				out = append(out, hx.CoqPair(hx.CoqN(uint64(ri)), hx.CoqBytes(x.Cursor)))
			}
		}
		return &hx.Result{Term: fmt.Sprintf("(CHttp %d %s %s)", op.Runners, hx.CoqList(sts, "list N"), hx.CoqList(out, "N * list N")), Nontrivial: op.Runners > 1,
			Tags: []string{"http"}, Observed: out}, nil
	}
	return nil, fmt.Errorf("unknown static op %q", op.Kind)
}

// =====================================================================================================
// mode jobrestore: the real jobs.Job (through clusterlib) re-deploying after a worker failure while a fully
// acknowledged checkpoint is still being written: which checkpoint do the operators and the source splitter get?
// =====================================================================================================

type jop struct {
	Kind    string `json:"kind"`    // only "recover": feed, checkpoint N, feed, checkpoint N+1 (publication held), crash, redeploy
	Release string `json:"release"` // when the held write of N+1 finishes: before | deploy | after (the re-deployment)
	Feed1   int    `json:"feed1"`
	Feed2   int    `json:"feed2"`
	Victim  int    `json:"victim"`
}

var (
	jobRoot string
	jobSeq  int
)

func genJobRestore(r *hx.Rand, tier string) []*hx.Case {
	var cs []*hx.Case
	n := 10
	if tier == "thorough" {
		n = 40
	}
	for i := 0; i < n; i++ {
		rel := []string{"deploy", "deploy", "after", "before"}[i%4]
		cs = append(cs, &hx.Case{Name: "jobrestore", Params: map[string]any{"mode": "jobrestore", "workers": r.Range(2, 3), "splits": r.Range(1, 3), "read_batch": r.Range(1, 3)},
			Ops: []json.RawMessage{hx.Op(jop{Kind: "recover", Release: rel, Feed1: r.Range(2, 6), Feed2: r.Range(2, 6), Victim: r.Intn(3)})}})
	}
	return cs
}

func execJobRestore(c *hx.Case) (*hx.Result, error) {
	if len(c.Ops) == 0 {
		return nil, fmt.Errorf("empty case")
	}
	var op jop
	if err := json.Unmarshal(c.Ops[0], &op); err != nil {
		return nil, err
	}
	w, nsplits := pint(c, "workers", 2), pint(c, "splits", 2)
	// The directories of the clusters are never removed by this process: a halted operator may still be writing. They live
	// under the engine's -out directory, which bin/check removes with its scratch after the engine process has ended.
	if jobRoot == "" {
		base := "/var/tmp"
		if f := flag.Lookup("out"); f != nil && f.Value.String() != "" {
			base = f.Value.String()
		}
		root, err := os.MkdirTemp(base, "c16-job-")
		if err != nil {
			return nil, err
		}
		jobRoot = root
	}
	jobSeq++
	dir := fmt.Sprintf("%s/%d", jobRoot, jobSeq)
	if err := os.MkdirAll(dir, 0o755); err != nil {
		return nil, err
	}
	splits := make([][]clusterlib.Record, nsplits)
	id := uint32(0)
	for s := range splits {
		for k := 0; k < 16; k++ {
			id++
			splits[s] = append(splits[s], clusterlib.Record{ID: id, Key: []byte(fmt.Sprintf("k%d", id%5))})
		}
	}
	sc := clusterlib.NewScript(splits)
	var hook func(first bool)
	var hookMu sync.Mutex
	cl, err := clusterlib.New(clusterlib.Options{Dir: dir, Workers: w, KeyGroups: 8, OpBatch: 1, SrBatch: 1, ReadBatch: pint(c, "read_batch", 2), Script: sc,
		// state storage is not this property's subject: memtables large enough that nothing is flushed or compacted in the background
		DKV: &dkv.VerifDBTuning{MemTableSize: 64 << 20, TargetFileSize: 64 << 20, MaxWALSize: 64 << 20, L0TableNumCompactionTrigger: 1000,
			MaxSizeAmplificationPercent: 1000, SmallestLevelSize: 64 << 20, LevelSizeMultiplier: 10},
		Hooks: clusterlib.Hooks{OnDeploy: func(gen int64, opID string, first bool) {
			hookMu.Lock()
			h := hook
			hookMu.Unlock()
			if h != nil {
				h(first)
			}
		}}})
	if err != nil {
		return nil, err
	}
	defer func() {
		cl.AwaitFlushed(5 * time.Second) // pacing only: nothing is removed afterwards
		cl.Close()
	}()
	// every wait below is on a logged observation of the cluster; tmo only bounds how long a WEDGED cluster is waited for
	// (reported as an execution error); it is far above anything a loaded machine needs
	const tmo = 120 * time.Second
	all := cl.StartWorkers(w)
	if !cl.AwaitRunning(0, tmo) {
		return nil, fmt.Errorf("cluster did not start: %v", cl.Log().Errors)
	}
	emitted := func(l *clusterlib.Log) int {
		n := 0
		for _, e := range l.Emissions {
			n += len(e.IDs)
		}
		return n
	}
	feed := func(k int) error {
		want := 0
		for s := 0; s < nsplits; s++ {
			sc.Allow(s, sc.Allowed(s)+k)
			want += sc.Allowed(s)
		}
		sc.Poke()
		if !cl.Await(func(l *clusterlib.Log) bool { return emitted(l) >= want }, tmo) {
			return fmt.Errorf("records were not read")
		}
		return nil
	}
	published := func(id uint64, done bool) func(l *clusterlib.Log) bool {
		return func(l *clusterlib.Log) bool {
			for _, p := range l.Published {
				if p.ID == id && p.Done == done {
					return true
				}
			}
			return false
		}
	}
	checkpoint := func() (uint64, error) {
		before := len(cl.Log().Started)
		if err := cl.TriggerCheckpoint(); err != nil {
			return 0, err
		}
		l := cl.Log()
		if len(l.Started) == before {
			return 0, fmt.Errorf("checkpoint refused")
		}
		return l.Started[len(l.Started)-1], nil
	}
	if err := feed(op.Feed1); err != nil {
		return nil, err
	}
	n1, err := checkpoint()
	if err != nil {
		return nil, err
	}
	if !cl.AwaitPublished(n1, tmo) || !cl.AwaitCurrent(n1, tmo) {
		return nil, fmt.Errorf("checkpoint %d not published", n1)
	}
	if err := feed(op.Feed2); err != nil {
		return nil, err
	}
	cl.HoldPublication()
	n2, err := checkpoint()
	if err != nil {
		cl.ReleasePublication()
		return nil, err
	}
	if !cl.Await(published(n2, false), tmo) { // every acknowledgement is in; the file write is held
		cl.ReleasePublication()
		return nil, fmt.Errorf("checkpoint %d not complete", n2)
	}
	// finish lets the held write of checkpoint n2 complete and waits until the store has made it its current checkpoint
	finish := func() bool {
		cl.ReleasePublication()
		return cl.AwaitNoFlush(published(n2, true), tmo) && cl.AwaitCurrent(n2, tmo)
	}
	finishedInHook := make(chan bool, 4)
	switch op.Release {
	case "before":
		if !finish() {
			return nil, fmt.Errorf("checkpoint %d was not published", n2)
		}
	case "deploy":
		hookMu.Lock()
		hook = func(first bool) {
			if first {
				finishedInHook <- finish() // the write finishes while the job is inside Assembly.Deploy
			}
		}
		hookMu.Unlock()
	}
	genBefore := cl.Generation()
	live := cl.LiveWorkers()
	v := live[op.Victim%len(live)]
	cl.Kill(v)
	cl.AwaitStopped([]int{v}, tmo)
	cl.Deregister(v)
	gone := map[int]bool{v: true}
	all = append(all, cl.StartWorkers(1)...)
	// a surviving runner that was sending to the dead operator stops with an error (as the real process would): it
	// is replaced too, like a supervisor restarting the process
	ok := false
	deadline := time.Now().Add(tmo)
	for !ok && time.Now().Before(deadline) {
		// 1.5 s is only the pace at which stopped survivors are looked for; the recovery itself is waited for until tmo
		if ok = cl.AwaitRunning(genBefore, 1500*time.Millisecond); ok {
			break
		}
		liveNow := map[int]bool{}
		for _, x := range cl.LiveWorkers() {
			liveNow[x] = true
		}
		for _, x := range all {
			if !liveNow[x] && !gone[x] {
				gone[x] = true
				cl.Deregister(x)
				all = append(all, cl.StartWorkers(1)...)
			}
		}
	}
	hookMu.Lock()
	hook = nil
	hookMu.Unlock()
	cl.ReleasePublication()
	if !ok {
		return nil, fmt.Errorf("cluster did not recover: %v", cl.Log().Errors)
	}
	select {
	case fin := <-finishedInHook:
		if !fin {
			return nil, fmt.Errorf("checkpoint %d was not published inside the deployment", n2)
		}
	default:
	}
	l := cl.Log()
	gen := cl.Generation()
	var dstart uint64
	for _, d := range l.DeployStarts {
		if d.Gen == gen {
			dstart = d.Seq
		}
	}
	// the checkpoint that was current when the job chose what to deploy from
	cur := uint64(0)
	for _, p := range l.Published {
		if p.Done && p.Seq < dstart && p.ID > cur {
			cur = p.ID
		}
	}
	var rs, prevRs *clusterlib.Restore
	for i := range l.Restores {
		if l.Restores[i].Gen == gen {
			rs = &l.Restores[i]
		} else {
			prevRs = &l.Restores[i]
		}
	}
	if rs == nil {
		return nil, fmt.Errorf("no splitter start observed for generation %d", gen)
	}
	// the operators of the assembly that was started: the last w Deploy calls before the splitter start (a deployment
	// attempt that failed half-way - another worker stopped meanwhile - is retried by the job and comes earlier)
	var since []clusterlib.DeployedFrom
	for _, d := range l.DeployedFrom {
		if d.Seq < rs.Seq && (prevRs == nil || d.Seq > prevRs.Seq) {
			since = append(since, d)
		}
	}
	retried := len(since) > w
	if len(since) > w {
		since = since[len(since)-w:]
	}
	var opsFrom []string
	for _, d := range since {
		for _, x := range d.CheckpointIDs {
			opsFrom = append(opsFrom, hx.CoqN(x))
			if retried {
				cur = x // which checkpoint was current when the retry chose is not observed
			}
		}
		if len(d.CheckpointIDs) == 0 {
			opsFrom = append(opsFrom, "0")
		}
	}
	posOf := func(id uint64) []string {
		var out []string
		for _, p := range l.Published {
			if p.ID == id {
				out = nil
				for _, x := range p.Positions {
					if x < 0 {
						x = 0
					}
					out = append(out, hx.CoqN(uint64(x)))
				}
			}
		}
		return out
	}
	var handed []string
	for _, x := range rs.Positions {
		handed = append(handed, hx.CoqN(uint64(x)))
	}
	sfrom := uint64(0)
	if rs.HasCheckpoint {
		sfrom = rs.CheckpointID
	}
	term := fmt.Sprintf("(CJobRestore %d %d %s %d %s %s %s)", cur, n2, hx.CoqList(opsFrom, "N"), sfrom, hx.CoqList(handed, "N"),
		hx.CoqList(posOf(n1), "N"), hx.CoqList(posOf(n2), "N"))
	overlap := op.Release == "deploy" && cur == n1
	tags := []string{"release=" + op.Release}
	if retried {
		tags = append(tags, "deployment_retried")
	}
	if overlap {
		tags = append(tags, "publication_finished_during_deploy")
	}
	return &hx.Result{Term: term, Nontrivial: overlap, Tags: tags, Observed: map[string]any{"current_at_read": cur, "n1": n1, "n2": n2, "operators_from": opsFrom, "splitter_from": sfrom, "positions": handed}}, nil
}

// =====================================================================================================
// mode kinread: the real kinesis SourceReader against kinesisfake
// =====================================================================================================

type krop struct {
	Kind  string `json:"kind"` // put | close | read | ckpt | restore
	Count int    `json:"count,omitempty"`
	K     int    `json:"k,omitempty"`
}

func genKinRead(r *hx.Rand, tier string) *hx.Case {
	var ops []json.RawMessage
	ops = append(ops, hx.Op(krop{Kind: "put", Count: r.Range(3, 9), K: r.Intn(1000)}))
	n := r.Range(6, 22)
	if tier == "thorough" {
		n = r.Range(6, 40)
	}
	for i := 0; i < n; i++ {
		switch x := r.Intn(20); {
		case x < 9:
			ops = append(ops, hx.Op(krop{Kind: "read"}))
		case x < 12:
			ops = append(ops, hx.Op(krop{Kind: "ckpt"}))
		case x < 14:
			ops = append(ops, hx.Op(krop{Kind: "restore"}))
		case x < 16:
			// a recovery, a barrier before every shard was polled again, and the next recovery
			ops = append(ops, hx.Op(krop{Kind: "restore"}))
			for j := r.Intn(2); j > 0; j-- {
				ops = append(ops, hx.Op(krop{Kind: "read"}))
			}
			ops = append(ops, hx.Op(krop{Kind: "ckpt"}), hx.Op(krop{Kind: "restore"}))
		case x < 19:
			ops = append(ops, hx.Op(krop{Kind: "put", Count: r.Range(1, 4), K: r.Intn(1000)}))
		default:
			ops = append(ops, hx.Op(krop{Kind: "close", K: r.Intn(3)}))
		}
	}
	ops = append(ops, hx.Op(krop{Kind: "ckpt"}))
	return &hx.Case{Name: "kinread", Params: map[string]any{"mode": "kinread", "shards": r.Range(1, 3), "limit": r.Range(1, 3)}, Ops: ops}
}

func execKinRead(c *hx.Case) (*hx.Result, error) { return retryTransient(c, execKinReadOnce) }

func execKinReadOnce(c *hx.Case) (*hx.Result, error) {
	nshards, limit := pint(c, "shards", 2), pint(c, "limit", 2)
	client := sharedFake()
	chk := func(err error) {
		if err != nil {
			panic(transient{err.Error()})
		}
	}
	bg := context.Background()
	streamSeq++
	name := fmt.Sprintf("s%d", streamSeq)
	n32 := int32(nshards)
	_, err := client.CreateStream(bg, &awskinesis.CreateStreamInput{StreamName: &name, ShardCount: &n32})
	chk(err)
	d, err := client.DescribeStream(bg, &awskinesis.DescribeStreamInput{StreamName: &name})
	chk(err)
	arn := *d.StreamDescription.StreamARN
	fakeCtl.SetGetRecordsLimit(limit)
	defer fakeCtl.SetGetRecordsLimit(10000)
	cfg := kinesis.SourceConfig{StreamARN: arn, Client: client}

	where := map[string][2]uint64{} // record data -> (shard, position)
	have := map[uint64]int{}        // shard -> records known
	var terms []string
	seq := 0
	// truth reads every initial shard from the start with its own iterator (explicit limit)
	truth := func() {
		for i := 0; i < nshards; i++ {
			id := sidStr(uint64(i + 1))
			it, err := client.GetShardIterator(bg, &awskinesis.GetShardIteratorInput{StreamARN: &arn, ShardId: &id, ShardIteratorType: "TRIM_HORIZON"})
			chk(err)
			lim := int32(10000)
			out, err := client.GetRecords(bg, &awskinesis.GetRecordsInput{StreamARN: &arn, ShardIterator: it.ShardIterator, Limit: &lim})
			chk(err)
			for p, rec := range out.Records {
				where[string(rec.Data)] = [2]uint64{uint64(i + 1), uint64(p)}
			}
			if delta := len(out.Records) - have[uint64(i+1)]; delta > 0 {
				terms = append(terms, fmt.Sprintf("RPut %d %d", i+1, delta))
				have[uint64(i+1)] = len(out.Records)
			}
		}
	}
	var finished []uint64
	closed := map[uint64]bool{}
	gone := map[uint64]bool{} // shards the reader reported finished
	newReader := func() connectors.SourceReader {
		return kinesis.NewSourceReader(cfg, connectors.SourceReaderHooks{NotifySplitsFinished: func(ids []string) {
			for _, id := range ids {
				finished = append(finished, sidNum(id))
			}
		}})
	}
	assign := func(rd connectors.SourceReader, fresh bool, sp [][2]uint64, cursors map[uint64]string) {
		var splits []*workerpb.SourceSplit
		var tm []string
		for _, x := range sp {
			cur := cursors[x[0]]
			pos := uint64(0)
			if cur != "" {
				v, _ := strconv.ParseUint(cur, 10, 64)
				pos = v + 1
			}
			splits = append(splits, &workerpb.SourceSplit{SplitId: sidStr(x[0]), SourceId: "x", Cursor: []byte(cur)})
			tm = append(tm, hx.CoqPair(hx.CoqN(x[0]), hx.CoqN(pos)))
		}
		must(rd.AssignSplits(splits))
		terms = append(terms, fmt.Sprintf("RAssign %s %s", hx.CoqBool(fresh), hx.CoqList(tm, "N * N")))
	}
	rd := newReader()
	var all [][2]uint64
	for i := 0; i < nshards; i++ {
		all = append(all, [2]uint64{uint64(i + 1), 0})
	}
	assign(rd, true, all, nil)
	// last checkpoint: shards held and their cursors, as the job would restore them (splitter state lists the shard,
	// the cursor comes from the reader's split state; a shard without a split state starts from TRIM_HORIZON)
	var ckHeld [][2]uint64
	ckCursors := map[uint64]string{}
	haveCk := false
	held := func() [][2]uint64 {
		var h [][2]uint64
		for i := 0; i < nshards; i++ {
			if !gone[uint64(i+1)] {
				h = append(h, [2]uint64{uint64(i + 1), 0})
			}
		}
		return h
	}
	nrestore, ckRightAfterRestore, sinceRestore := 0, false, -1
	for _, raw := range c.Ops {
		var op krop
		if err := json.Unmarshal(raw, &op); err != nil {
			return nil, err
		}
		switch op.Kind {
		case "put":
			var entries []kinesistypes.PutRecordsRequestEntry
			for i := 0; i < op.Count; i++ {
				seq++
				key := fmt.Sprintf("k%d-%d", op.K, seq)
				entries = append(entries, kinesistypes.PutRecordsRequestEntry{Data: []byte(fmt.Sprintf("d%d", seq)), PartitionKey: &key})
			}
			if _, err := client.PutRecords(bg, &awskinesis.PutRecordsInput{StreamARN: &arn, Records: entries}); err != nil {
				if isTransient(err.Error()) {
					chk(err)
				}
				continue // no open shard left
			}
			truth()
		case "close":
			id := uint64(op.K%nshards + 1)
			if closed[id] {
				continue
			}
			var lo, hi *big.Int
			out, err := client.ListShards(bg, &awskinesis.ListShardsInput{StreamName: &name})
			chk(err)
			for _, sh := range out.Shards {
				if sidNum(*sh.ShardId) == id {
					lo, _ = new(big.Int).SetString(*sh.HashKeyRange.StartingHashKey, 10)
					hi, _ = new(big.Int).SetString(*sh.HashKeyRange.EndingHashKey, 10)
				}
			}
			mid := new(big.Int).Add(lo, hi)
			mid.Div(mid, big.NewInt(2))
			ids, ms := sidStr(id), mid.String()
			if _, err := client.SplitShard(bg, &awskinesis.SplitShardInput{StreamName: &name, ShardToSplit: &ids, NewStartingHashKey: &ms}); err != nil {
				if isTransient(err.Error()) {
					chk(err)
				}
				continue
			}
			closed[id] = true
			terms = append(terms, fmt.Sprintf("RClose %d", id))
		case "read":
			finished = nil
			evs, err := rd.ReadEvents()
			if err != nil {
				panic(transient{err.Error()})
			}
			var recs []string
			for _, e := range evs {
				var pr protocolkinesis.Record
				must(gproto.Unmarshal(e, &pr))
				w, ok := where[string(pr.Data)]
				if !ok {
					w = [2]uint64{999, 999}
				}
				recs = append(recs, hx.CoqPair(hx.CoqN(w[0]), hx.CoqN(w[1])))
			}
			var fs []string
			for _, f := range finished {
				fs = append(fs, hx.CoqN(f))
				gone[f] = true
			}
			if sinceRestore >= 0 {
				sinceRestore++
			}
			terms = append(terms, fmt.Sprintf("RRead %s %s", hx.CoqList(recs, "N * N"), hx.CoqList(fs, "N")))
		case "ckpt":
			st := rd.Checkpoint()
			var tm []string
			ckCursors = map[uint64]string{}
			for _, b := range st {
				var sh kinesispb.Shard
				must(gproto.Unmarshal(b, &sh))
				pos := uint64(0)
				if sh.Cursor != "" {
					v, err := strconv.ParseUint(sh.Cursor, 10, 64)
					if err != nil {
						v = 888887
					}
					pos = v + 1
				}
				ckCursors[sidNum(sh.ShardId)] = sh.Cursor
				tm = append(tm, hx.CoqPair(hx.CoqN(sidNum(sh.ShardId)), hx.CoqN(pos)))
			}
			ckHeld = held()
			haveCk = true
			if sinceRestore >= 0 && sinceRestore < len(ckHeld) && len(ckHeld) > 1 {
				ckRightAfterRestore = true
			}
			terms = append(terms, "RCkpt "+hx.CoqList(tm, "N * N"))
		case "restore":
			rd = newReader()
			nrestore++
			sinceRestore = 0
			if haveCk {
				// finished-after-the-checkpoint shards are read again from the checkpoint
				for _, x := range ckHeld {
					delete(gone, x[0])
				}
				assign(rd, true, ckHeld, ckCursors)
			} else {
				gone = map[uint64]bool{}
				assign(rd, true, all, nil)
			}
		}
	}
	tags := []string{fmt.Sprintf("shards=%d", nshards), fmt.Sprintf("limit=%d", limit), fmt.Sprintf("restores=%d", min(nrestore, 4))}
	if ckRightAfterRestore {
		tags = append(tags, "ckpt_before_all_shards_polled_again")
	}
	return &hx.Result{Term: fmt.Sprintf("(CKinRead %d %s)", limit, hx.CoqList(terms, "krop")), Nontrivial: ckRightAfterRestore, Tags: tags, Observed: terms}, nil
}

// =====================================================================================================
// mode httpread: the real httpapi SourceReader against the httpapitest server
// =====================================================================================================

type hop struct {
	Kind string `json:"kind"` // read | ckpt | restore
}

var (
	httpSrvMu  sync.Mutex
	httpSrv    = map[int]*httpapitest.SinkServer{} // one server per page size, one topic per case
	httpTopics int
)

func genHTTPRead(r *hx.Rand, tier string) *hx.Case {
	n := r.Range(0, 12)
	b := r.Range(0, 4)
	var ops []json.RawMessage
	k := r.Range(3, 12)
	for i := 0; i < k; i++ {
		switch x := r.Intn(20); {
		case x < 12:
			ops = append(ops, hx.Op(hop{Kind: "read"}))
		case x < 17:
			ops = append(ops, hx.Op(hop{Kind: "ckpt"}))
		default:
			ops = append(ops, hx.Op(hop{Kind: "restore"}))
		}
	}
	// always continue past end of input: checkpoint after the last page, recover from it, read again
	pages := 1
	if b > 0 {
		pages = n/b + 1
	}
	for i := 0; i < pages; i++ {
		ops = append(ops, hx.Op(hop{Kind: "read"}))
	}
	ops = append(ops, hx.Op(hop{Kind: "ckpt"}), hx.Op(hop{Kind: "restore"}), hx.Op(hop{Kind: "read"}), hx.Op(hop{Kind: "ckpt"}))
	return &hx.Case{Name: "httpread", Params: map[string]any{"mode": "httpread", "n": n, "b": b}, Ops: ops}
}

func execHTTPRead(c *hx.Case) (*hx.Result, error) {
	n, b := pint(c, "n", 3), pint(c, "b", 2)
	httpSrvMu.Lock()
	srv := httpSrv[b]
	if srv == nil {
		srv = httpapitest.StartServer(httpapitest.WithReadBatchSize(b))
		httpSrv[b] = srv
	}
	httpTopics++
	topic := fmt.Sprintf("t%d", httpTopics)
	httpSrvMu.Unlock()
	for i := 0; i < n; i++ {
		srv.Write(topic, []byte(strconv.Itoa(i)))
	}
	newReader := func(cursor []byte) connectors.SourceReader {
		rd := httpapi.NewSourceReader(httpapi.SourceConfig{Addr: srv.URL(), Topics: []string{topic}})
		must(rd.AssignSplits([]*workerpb.SourceSplit{{SplitId: "only", SourceId: "x", Cursor: cursor}}))
		return rd
	}
	rd := newReader(nil)
	var lastCk []byte
	var terms []string
	emitted := 0
	lastPageWithRecords, ckptAfterEOI, sawEOI := false, false, false
	for _, raw := range c.Ops {
		var op hop
		if err := json.Unmarshal(raw, &op); err != nil {
			return nil, err
		}
		switch op.Kind {
		case "read":
			evs, err := rd.ReadEvents()
			eoi := false
			if err != nil {
				if err != connectors.ErrEndOfInput {
					return nil, fmt.Errorf("ReadEvents: %w", err)
				}
				eoi = true
			}
			var ids []string
			for _, e := range evs {
				x, perr := strconv.Atoi(string(e))
				if perr != nil {
					x = 999999
				}
				ids = append(ids, hx.CoqN(uint64(x)))
			}
			if eoi && len(evs) > 0 {
				lastPageWithRecords = true
			}
			sawEOI = sawEOI || eoi
			emitted += len(evs)
			terms = append(terms, fmt.Sprintf("HRead %s %s", hx.CoqList(ids, "N"), hx.CoqBool(eoi)))
		case "ckpt":
			st := rd.Checkpoint()
			if len(st) != 1 || len(st[0]) != 8 {
				return nil, fmt.Errorf("Checkpoint: unexpected split states %v", st)
			}
			lastCk = st[0]
			if sawEOI {
				ckptAfterEOI = true
			}
			terms = append(terms, fmt.Sprintf("HCkpt %d", new(big.Int).SetBytes(st[0]).Uint64()))
		case "restore":
			rd = newReader(lastCk)
			sawEOI = false
			terms = append(terms, "HRestore")
		}
	}
	tags := []string{fmt.Sprintf("page=%d", b)}
	if lastPageWithRecords {
		tags = append(tags, "last_page_with_records_and_eoi")
	}
	if ckptAfterEOI {
		tags = append(tags, "ckpt_after_eoi")
	}
	return &hx.Result{Term: fmt.Sprintf("(CHttpRead %d %d %s)", n, b, hx.CoqList(terms, "hop")), Nontrivial: lastPageWithRecords && ckptAfterEOI, Tags: tags, Observed: terms}, nil
}

// =====================================================================================================

func (eng) Generate(mode, tier string, r *hx.Rand) []*hx.Case {
	var cs []*hx.Case
	n := map[string]int{"runnerpos": 160, "tracker": 400, "kinesis": 300}[mode]
	if tier == "thorough" {
		n *= 8
	}
	switch mode {
	case "runnerpos":
		for i := 0; i < n; i++ {
			cs = append(cs, genRunner(r.Fork(), tier))
		}
	case "tracker":
		for i := 0; i < n; i++ {
			cs = append(cs, genTracker(r.Fork(), tier))
		}
	case "kinesis":
		for i := 0; i < n; i++ {
			cs = append(cs, genKinesis(r.Fork(), tier))
		}
	case "static":
		cs = genStatic(r, tier)
	case "jobrestore":
		cs = genJobRestore(r, tier)
	case "kinread":
		k := 150
		if tier == "thorough" {
			k = 1200
		}
		for i := 0; i < k; i++ {
			cs = append(cs, genKinRead(r.Fork(), tier))
		}
	case "httpread":
		k := 150
		if tier == "thorough" {
			k = 1200
		}
		for i := 0; i < k; i++ {
			cs = append(cs, genHTTPRead(r.Fork(), tier))
		}
	}
	return cs
}

func (eng) Execute(mode string, c *hx.Case) (*hx.Result, error) {
	switch mode {
	case "runnerpos":
		return execRunner(c)
	case "tracker":
		return execTracker(c)
	case "kinesis":
		return execKinesis(c)
	case "static":
		return execStatic(c)
	case "httpread":
		return execHTTPRead(c)
	case "kinread":
		return execKinRead(c)
	case "jobrestore":
		return execJobRestore(c)
	}
	return nil, fmt.Errorf("unknown mode %q", mode)
}

func main() {
	slog.SetDefault(slog.New(slog.NewTextHandler(io.Discard, nil)))
	hx.Main(eng{})
}
