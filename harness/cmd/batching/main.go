// engine batching (property C20): the real batching.EventBatcher driven through clocks.FakeTimer, and the real
// batching.ReorderFetcher whose FetchBatch blocks on per-batch channels released by the harness.
//
// Three kinds of case (params.kind):
//
//	batcher  sequential history of Add / IsFull / Flush(token) / timer expiry on one EventBatcher (every method runs under
//	         the batcher's mutex, so a sequential history is one linearisation); observed: every result.
//	reorder  a schedule of stimuli for a ReorderFetcher: adder calls (Add/Flush on one adder goroutine), timer expiries (served by
//	         the fetcher's own time-out goroutine), gates that hold one flusher at the hook point between batcher.Flush and
//	         buffer.Reserve, fetch completions in a generated order. After every stimulus the harness waits until every goroutine
//	         of the process except itself is blocked (quiescence read from runtime.Stack, never a sleep), so the state in which the
//	         next stimulus is applied - and therefore the whole outcome - is determined by the case alone.
//	hammer   several goroutines Add tagged items while others Flush/IsFull concurrently (real scheduler); only order-independent
//	         facts are checked (nothing lost or duplicated; every batch holds contiguous runs of each adder's items).
package main

import (
	"context"
	"encoding/json"
	"fmt"
	"regexp"
	"runtime"
	"runtime/debug"
	"sort"
	"strconv"
	"strings"
	"sync"
	"time"

	"reduction.dev/reduction/batching"
	"reduction.dev/reduction/clocks"
	"reduction.dev/reduction/util/verifhook"
	"verifharness/hx"
)

type eng struct{}

func (eng) Name() string { return "batching" }
func (eng) CoqRequire(mode string) string {
	return "From Coq Require Import List NArith ZArith. Import ListNotations. From RV Require Import Model.Batcher Model.Reorder Corr.Check_batching."
}
func (eng) CoqCaseType(mode string) string { return "Check_batching.case" }
func (eng) CoqRun(mode string) string      { return "Check_batching.run" }
func (eng) Rule(mode string) string {
	return "batcher cases: random histories of Add/IsFull/Flush(CurrentBatch | current, stale, future, negative token | the token received last)/timer expiry/late callbacks (expiry committed, the batch handed out and the next one started before the old callback sends its token), sizes 0..5, with and without delay, flush results read back only at the end of the history (aliasing); reorder cases: stimuli add/flush/fire/hold-adder/hold-timeout/release/complete-k/read over max sizes 0..4, buffer sizes 0..4, including the pattern 'time-out flusher held between Flush and Reserve while the adder fills and flushes the next batch', completions in generated order, fetches that return an error with no / half / all of their results while other batches are in flight or follow, calls made with an already cancelled context (a FetchBatch that ignores it, or one that answers it with an error), a second caller goroutine (incl. one caller's flush waiting for a slot or parked at the gate while the other adds an item whose timer expires), settled at the end; hammer cases: 2..4 adders x 20..60 items against 1..2 concurrent flushers. Non-trivial: at least two non-empty batches were handed out (batcher: two non-empty Flush results; reorder: two fetches; hammer: two batches); distinct by hash of the case."
}

type op struct {
	K string `json:"k"`
	X int    `json:"x,omitempty"`
	C int    `json:"c,omitempty"` // add / flush of the reorder cases: 1 = the call is made with an already cancelled context
	Y int    `json:"y,omitempty"` // fail: what comes back with the error (0 nothing, 1 the first half of the results, 2 all of them)
}

// fetchErr is the error a failed fetch returns; it names the batch by its first item.
type fetchErr struct{ first int }

func (e fetchErr) Error() string {
	return fmt.Sprintf("fetch of the batch starting with item %d failed", e.first)
}

const fetchOffset = 1000 // result of fetching item x is x+fetchOffset

// ------------------------------------------------------------------ helpers

var goidRe = regexp.MustCompile(`^goroutine (\d+) \[`)

func goid() int64 {
	var buf [64]byte
	n := runtime.Stack(buf[:], false)
	m := goidRe.FindSubmatch(buf[:n])
	if m == nil {
		return -1
	}
	id, _ := strconv.ParseInt(string(m[1]), 10, 64)
	return id
}

var stackBuf = make([]byte, 1<<18)
var lastDump string // the goroutine dump of the last quiescent point

const timeoutCreator = "created by reduction.dev/reduction/batching.NewReorderFetcher"

// timeoutGoroutines lists the goroutines started by NewReorderFetcher (its time-out loop) in the last quiescent dump:
// id -> true when the goroutine waits in its select (idle), false when it is inside flush.
func timeoutGoroutines() map[int64]bool {
	res := map[int64]bool{}
	for _, blk := range strings.Split(lastDump, "\n\n") {
		if !strings.Contains(blk, timeoutCreator) {
			continue
		}
		lines := strings.Split(strings.TrimSpace(blk), "\n")
		m := goidRe.FindStringSubmatch(lines[0])
		if m == nil || len(lines) < 2 {
			continue
		}
		id, _ := strconv.ParseInt(m[1], 10, 64)
		res[id] = strings.Contains(lines[0], "[select") && strings.Contains(lines[1], "batching.NewReorderFetcher")
	}
	return res
}

// waitQuiescent returns when every goroutine except the caller is blocked (channel, mutex, select, idle runtime worker).
// Nothing in the system under test uses real timers or I/O, so from then on nothing moves until the caller acts.
//
// Timing: there is NO deadline here. The loop polls the goroutine states until the condition holds, however long the machine
// takes to schedule the other goroutines; a goroutine that is merely starved shows as runnable/running and keeps the loop
// waiting. Every observation of a reorder case ("adder call unfinished", "parked at the gate", fetches running, |Output|,
// settled, items fetched at the rest point) is read only after this returned, so none of them depends on elapsed time.
// A system that never comes to rest (a livelock; a deadlock IS rest) is left to hx's per-case no-progress detector (180 s).
func waitQuiescent() error {
	self := goid()
	confirmed := 0
	for {
		runtime.Gosched()
		n := runtime.Stack(stackBuf, true)
		if n == len(stackBuf) {
			stackBuf = make([]byte, 2*len(stackBuf))
			continue
		}
		if allBlocked(stackBuf[:n], self) {
			// The garbage collector is switched off while cases run (see main), so no goroutine can be parked inside the
			// runtime on the way to a collection; two consecutive all-blocked dumps are required all the same.
			if confirmed++; confirmed < 2 {
				continue
			}
			lastDump = string(stackBuf[:n])
			return nil
		}
		confirmed = 0
	}
}

func allBlocked(dump []byte, self int64) bool {
	for _, line := range strings.Split(string(dump), "\n") {
		if !strings.HasPrefix(line, "goroutine ") {
			continue
		}
		rest := line[len("goroutine "):]
		sp := strings.IndexByte(rest, ' ')
		if sp < 0 {
			continue
		}
		id, err := strconv.ParseInt(rest[:sp], 10, 64)
		if err != nil || id == self {
			continue
		}
		lb := strings.IndexByte(rest, '[')
		if lb < 0 {
			continue
		}
		st := rest[lb+1:]
		for _, active := range []string{"running", "runnable", "syscall", "preempted", "copystack", "idle]", "idle,", "GC assist"} {
			if strings.HasPrefix(st, active) {
				return false
			}
		}
	}
	return true
}

// recTimer is clocks.FakeTimer plus a record of whether a callback is set (FakeTimer.Trigger on an unset timer would call nil).
// It also keeps the callback it was last given, so that the harness can commit an expiry now and let the callback run later
// ("late callback": with time.AfterFunc a callback already started or queued still runs after Stop returned false).
type lateCallback struct {
	do     func()
	armGen int // number of non-empty batches handed out when the callback was set
}

type recTimer struct {
	clocks.FakeTimer
	mu        sync.Mutex
	armed     bool
	cur       lateCallback
	gen       *int // harness counter of non-empty batches handed out (batcher cases only)
	committed []lateCallback
}

func (t *recTimer) Set(d time.Duration, do func()) {
	t.mu.Lock()
	t.armed = true
	t.cur = lateCallback{do: do}
	if t.gen != nil {
		t.cur.armGen = *t.gen
	}
	t.mu.Unlock()
	t.FakeTimer.Set(d, do)
}
func (t *recTimer) Stop() {
	t.mu.Lock()
	t.armed = false
	t.mu.Unlock()
	t.FakeTimer.Stop()
}

// commit: the timer has expired and the callback now set is going to run, whatever Stop does afterwards.
func (t *recTimer) commit() bool {
	t.mu.Lock()
	defer t.mu.Unlock()
	if !t.armed {
		return false
	}
	t.committed = append(t.committed, t.cur)
	return true
}
func (t *recTimer) isArmed() bool { t.mu.Lock(); defer t.mu.Unlock(); return t.armed }

func coqNList(xs []int) string {
	if len(xs) == 0 {
		return "(@nil N)"
	}
	s := make([]string, len(xs))
	for i, x := range xs {
		s[i] = strconv.Itoa(x)
	}
	return "[" + strings.Join(s, ";") + "]%N"
}

func paramInt(c *hx.Case, k string, def int) int {
	if v, ok := c.Params[k]; ok {
		switch t := v.(type) {
		case float64:
			return int(t)
		case int:
			return t
		}
	}
	return def
}

func decodeOps(c *hx.Case) ([]op, error) {
	ops := make([]op, len(c.Ops))
	for i, raw := range c.Ops {
		if err := json.Unmarshal(raw, &ops[i]); err != nil {
			return nil, err
		}
	}
	return ops, nil
}

func delayOf(d int) time.Duration {
	if d > 0 {
		return time.Second
	}
	return 0
}

// ------------------------------------------------------------------ batcher kind

func execBatcher(c *hx.Case) (*hx.Result, error) {
	ops, err := decodeOps(c)
	if err != nil {
		return nil, err
	}
	maxSize, delay := paramInt(c, "max", 2), paramInt(c, "delay", 1)
	ctx, cancel := context.WithCancel(context.Background())
	defer cancel()
	flushes := 0
	timer := &recTimer{gen: &flushes}
	b := batching.NewEventBatcher[int](ctx, batching.EventBatcherParams{MaxDelay: delayOf(delay), MaxSize: maxSize, Timer: timer})
	type rec struct {
		op     op
		full   bool
		res    []int // kept by reference and read at the end: a batch handed out must not change afterwards
		fired  *int64
		tok    int64 // token passed to Flush
		armed  bool  // expire: a callback was set
		idx    int   // deliver: which committed callback
		armGen int
	}
	lastTok, haveTok, late := int64(0), false, 0
	var recs []*rec
	nonEmpty, fired, staleTok := 0, 0, 0
	// the history always ends with a Flush(CurrentBatch) so the remainder becomes observable
	ops = append(append([]op{}, ops...), op{K: "flush"})
	for _, o := range ops {
		r := &rec{op: o, tok: int64(o.X)}
		switch o.K {
		case "add":
			b.Add(o.X)
		case "full":
			r.full = b.IsFull()
		case "flush":
			r.res = b.Flush(batching.CurrentBatch)
		case "flushtok":
			r.res = b.Flush(batching.BatchToken(o.X))
			if o.X != -1 && o.X != flushes {
				staleTok++
			}
		case "flushlast": // the consumer's move: Flush with the token it received last
			if !haveTok {
				continue
			}
			r.op.K, r.tok = "flushtok", lastTok
			r.res = b.Flush(batching.BatchToken(lastTok))
			if lastTok != int64(flushes) {
				staleTok++
			}
		case "fire":
			if timer.isArmed() {
				go timer.Trigger()
				tok := int64(<-b.BatchTimedOut)
				r.fired = &tok
				fired++
				lastTok, haveTok = tok, true
			}
		case "expire":
			r.armed = timer.commit()
		case "deliver":
			if len(timer.committed) == 0 {
				continue
			}
			r.idx = o.X % len(timer.committed)
			cb := timer.committed[r.idx]
			timer.committed = append(timer.committed[:r.idx:r.idx], timer.committed[r.idx+1:]...)
			r.armGen = cb.armGen
			go cb.do() // the real closure EventBatcher.Add gave to the timer
			tok := int64(<-b.BatchTimedOut)
			r.fired = &tok
			lastTok, haveTok = tok, true
			if cb.armGen < flushes {
				late++
			}
		default:
			return nil, fmt.Errorf("unknown batcher op %q", o.K)
		}
		if len(r.res) > 0 {
			nonEmpty++
			flushes++
		}
		recs = append(recs, r)
	}
	var items []string
	var obs []any
	for _, r := range recs {
		switch r.op.K {
		case "add":
			items = append(items, fmt.Sprintf("OAdd %d", r.op.X))
		case "full":
			items = append(items, "OFull "+hx.CoqBool(r.full))
			obs = append(obs, r.full)
		case "flush":
			items = append(items, fmt.Sprintf("OFlush (-1)%%Z %s", coqNList(r.res)))
			obs = append(obs, append([]int{}, r.res...))
		case "flushtok":
			items = append(items, fmt.Sprintf("OFlush %s %s", hx.CoqZ(r.tok), coqNList(r.res)))
			obs = append(obs, map[string]any{"flush_token": r.tok, "got": append([]int{}, r.res...)})
		case "expire":
			items = append(items, "OExpire "+hx.CoqBool(r.armed))
			obs = append(obs, map[string]any{"expire_armed": r.armed})
		case "deliver":
			items = append(items, fmt.Sprintf("ODeliver %d %d %s", r.idx, r.armGen, hx.CoqZ(*r.fired)))
			obs = append(obs, map[string]any{"late_callback_set_in_generation": r.armGen, "delivered_token": *r.fired})
		case "fire":
			if r.fired == nil {
				items = append(items, "OFire None")
				obs = append(obs, nil)
			} else {
				items = append(items, fmt.Sprintf("OFire (Some %s)", hx.CoqZ(*r.fired)))
				obs = append(obs, *r.fired)
			}
		}
	}
	term := fmt.Sprintf("BCase %d %s %s", maxSize, hx.CoqBool(delay > 0), hx.CoqList(items, "bobs"))
	tags := []string{"kind=batcher", fmt.Sprintf("b.max=%d", maxSize), fmt.Sprintf("b.delay=%d", delay)}
	if fired > 0 {
		tags = append(tags, "b.timer-fired")
	}
	if staleTok > 0 {
		tags = append(tags, "b.stale-or-foreign-token")
	}
	if late > 0 {
		tags = append(tags, "b.late-callback-of-flushed-batch")
	}
	if nonEmpty >= 2 {
		tags = append(tags, "b.batches>=2")
	}
	return &hx.Result{Term: term, Nontrivial: nonEmpty >= 2, Tags: tags, Observed: obs}, nil
}

// ------------------------------------------------------------------ reorder kind

type fetchRec struct {
	events   []int
	ch       chan struct{}
	released bool
	failMode int  // -1: the fetch succeeds
	ctxGone  bool // the context FetchBatch received was already cancelled
}

type rsys struct {
	mu       sync.Mutex
	fetches  []*fetchRec
	out      []int
	errs     []int // first items of the batches whose fetch error arrived on ErrChan, in order
	busy     bool
	busyB    bool  // a call of the second caller goroutine is unfinished
	bGid     int64 // the second caller goroutine
	holdA    bool
	holdT    bool
	heldA    bool
	heldT    bool
	relA     chan struct{}
	relT     chan struct{}
	adderGid int64
}

var cur *rsys
var curMu sync.Mutex

func hook(name string, args ...any) {
	if name != "reorder.flush.between" {
		return
	}
	curMu.Lock()
	s := cur
	curMu.Unlock()
	if s == nil {
		return
	}
	gid := goid()
	var ch chan struct{}
	s.mu.Lock()
	if gid == s.bGid {
		// the second caller is never parked at the gate
	} else if gid == s.adderGid {
		if s.holdA {
			s.holdA, s.heldA = false, true
			ch = make(chan struct{})
			s.relA = ch
		}
	} else if s.holdT {
		s.holdT, s.heldT = false, true
		ch = make(chan struct{})
		s.relT = ch
	}
	s.mu.Unlock()
	if ch != nil {
		<-ch
	}
}

func (s *rsys) outstanding() []*fetchRec {
	var o []*fetchRec
	for _, f := range s.fetches {
		if !f.released {
			o = append(o, f)
		}
	}
	sort.SliceStable(o, func(i, j int) bool { return first(o[i].events) < first(o[j].events) })
	return o
}
func first(xs []int) int {
	if len(xs) == 0 {
		return -1
	}
	return xs[0]
}

func execReorder(c *hx.Case) (*hx.Result, error) {
	ops, err := decodeOps(c)
	if err != nil {
		return nil, err
	}
	maxSize, delay, bufSize := paramInt(c, "max", 2), paramInt(c, "delay", 1), paramInt(c, "buf", 2)
	ctx, cancel := context.WithCancel(context.Background())
	s := &rsys{}
	curMu.Lock()
	cur = s
	curMu.Unlock()
	verifhook.Set(hook)
	defer func() {
		curMu.Lock()
		cur = nil
		curMu.Unlock()
	}()
	timer := &recTimer{}
	errChan := make(chan error) // unbuffered; the harness keeps receiving from it, like from Output
	if err := waitQuiescent(); err != nil {
		cancel()
		return nil, err
	}
	before := map[int64]bool{}
	for id := range timeoutGoroutines() {
		before[id] = true
	}
	rf := batching.NewReorderFetcher(ctx, batching.NewReorderFetcherParams[int, int]{
		Batcher: batching.NewEventBatcher[int](ctx, batching.EventBatcherParams{MaxDelay: delayOf(delay), MaxSize: maxSize, Timer: timer}),
		FetchBatch: func(ctx context.Context, events []int) ([]int, error) {
			rec := &fetchRec{events: append([]int{}, events...), ch: make(chan struct{}), failMode: -1, ctxGone: ctx.Err() != nil}
			s.mu.Lock()
			s.fetches = append(s.fetches, rec)
			s.mu.Unlock()
			<-rec.ch
			res := make([]int, len(events))
			for i, e := range events { // read the batch again at completion time: it must not have changed
				res[i] = e + fetchOffset
			}
			switch rec.failMode { // set by the harness before it closed rec.ch
			case 0:
				return nil, fetchErr{rec.events[0]}
			case 1:
				return res[:len(res)/2], fetchErr{rec.events[0]}
			case 2:
				return res, fetchErr{rec.events[0]}
			}
			return res, nil
		},
		ErrChan:    errChan,
		BufferSize: bufSize,
	})
	done := make(chan struct{})
	go func() { // consumer of Output: always willing
		for {
			select {
			case v := <-rf.Output:
				s.mu.Lock()
				s.out = append(s.out, v)
				s.mu.Unlock()
			case e := <-errChan: // consumer of ErrChan: always willing
				s.mu.Lock()
				if fe, ok := e.(fetchErr); ok {
					s.errs = append(s.errs, fe.first)
				} else {
					s.errs = append(s.errs, -1)
				}
				s.mu.Unlock()
			case <-done:
				return
			}
		}
	}()
	liveCtx, stopLive := context.WithCancel(context.Background())
	defer stopLive()
	goneCtx, cancelGone := context.WithCancel(context.Background())
	cancelGone()
	cancelFail := paramInt(c, "cancelfail", 0) == 1 // FetchBatch answers a cancelled context with an error and no results
	adderOps := make(chan op)
	ready := make(chan struct{})
	go func() {
		s.adderGid = goid()
		close(ready)
		for o := range adderOps {
			// every call has its own (request scoped) context: live, or already cancelled when it reaches the fetcher
			callCtx := liveCtx
			if o.C == 1 {
				callCtx = goneCtx
			}
			switch o.K {
			case "add":
				rf.Add(callCtx, o.X)
			case "flush":
				rf.Flush(callCtx)
			}
			s.mu.Lock()
			s.busy = false
			s.mu.Unlock()
		}
	}()
	<-ready
	// a second goroutine calling Add / Flush (ops addB / flushB): callers of the fetcher need not be one goroutine
	bOps := make(chan op)
	readyB := make(chan struct{})
	go func() {
		s.bGid = goid()
		close(readyB)
		for o := range bOps {
			callCtx := liveCtx
			if o.C == 1 {
				callCtx = goneCtx
			}
			switch o.K {
			case "addB":
				rf.Add(callCtx, o.X)
			case "flushB":
				rf.Flush(callCtx)
			}
			s.mu.Lock()
			s.busyB = false
			s.mu.Unlock()
		}
	}()
	<-readyB
	twoCallers := false
	if err := waitQuiescent(); err != nil {
		cancel()
		return nil, err
	}
	var tGid int64 = -1
	for id := range timeoutGoroutines() {
		if !before[id] {
			tGid = id
		}
	}
	if tGid < 0 {
		cancel()
		return nil, fmt.Errorf("cannot locate the time-out goroutine of NewReorderFetcher in the goroutine dump")
	}

	var steps []string
	var obsLog []any
	var added []int
	var fails []string
	tags := map[string]bool{"kind=reorder": true}
	tags[fmt.Sprintf("r.max=%d", maxSize)] = true
	tags[fmt.Sprintf("r.buf=%d", bufSize)] = true
	nextItem := 0
	apply := func(o op) error {
		var stim string
		s.mu.Lock()
		switch o.K {
		case "add", "flush":
			if s.busy {
				s.mu.Unlock()
				tags["r.adder-call-skipped-busy"] = true
				return nil
			}
			s.busy = true
			s.mu.Unlock()
			if o.K == "add" {
				nextItem++
				o.X = nextItem // items are numbered in the order they are added: input order is numeric order
				added = append(added, o.X)
				stim = fmt.Sprintf("SAdd %d %s", o.X, hx.CoqBool(o.C == 1))
			} else {
				stim = "SFlush " + hx.CoqBool(o.C == 1)
			}
			if o.C == 1 {
				tags["r.call-with-cancelled-context"] = true
			}
			adderOps <- o
		case "addB", "flushB":
			if s.busyB {
				s.mu.Unlock()
				tags["r.second-caller-call-skipped-busy"] = true
				return nil
			}
			s.busyB = true
			if s.busy || s.heldA || s.heldT {
				tags["r.second-caller-while-a-flush-is-in-progress"] = true
			}
			s.mu.Unlock()
			twoCallers = true
			tags["r.two-callers"] = true
			if o.K == "addB" {
				nextItem++
				o.X = nextItem
				added = append(added, o.X)
				stim = fmt.Sprintf("SAddB %d %s", o.X, hx.CoqBool(o.C == 1))
			} else {
				stim = "SFlushB " + hx.CoqBool(o.C == 1)
			}
			bOps <- o
		case "fire":
			s.mu.Unlock()
			if !timer.isArmed() {
				stim = "SFire false"
			} else if !timeoutGoroutines()[tGid] {
				// the time-out goroutine is inside flush (held, or blocked): a second expiry now would race with it
				tags["r.fire-skipped-timeout-flusher-busy"] = true
				return nil
			} else {
				stim = "SFire true"
				tags["r.timer-fired"] = true
				go timer.Trigger()
			}
		case "holdA":
			s.holdA = true
			s.mu.Unlock()
			stim = "SHoldA"
		case "holdT":
			s.holdT = true
			s.mu.Unlock()
			stim = "SHoldT"
		case "release":
			s.holdA, s.holdT = false, false // also disarms gates nobody has reached
			if s.heldA {
				close(s.relA)
				s.heldA = false
			}
			if s.heldT {
				close(s.relT)
				s.heldT = false
			}
			s.mu.Unlock()
			stim = "SRelease"
		case "complete", "fail":
			o2 := s.outstanding()
			if len(o2) == 0 {
				s.mu.Unlock()
				return nil
			}
			k := o.X % len(o2)
			if k > 0 {
				tags["r.completion-out-of-order"] = true
			}
			stim = fmt.Sprintf("SComplete %d", k)
			if o.K == "complete" && cancelFail && o2[k].ctxGone {
				o.K, o.Y = "fail", 0 // this FetchBatch gives up on a cancelled context: error, no results
				tags["r.fetch-gave-up-on-cancelled-context"] = true
			}
			if o.K == "fail" {
				mode := ((o.Y % 3) + 3) % 3
				o2[k].failMode = mode
				fails = append(fails, fmt.Sprintf("(%d, %d)", o2[k].events[0], mode))
				tags["r.fetch-error"] = true
				tags[fmt.Sprintf("r.fetch-error-mode=%d", mode)] = true
				if len(o2) > 1 || k < len(o2)-1 {
					tags["r.fetch-error-while-other-fetches-run"] = true
				}
				stim = fmt.Sprintf("SFail %d %d", k, mode)
			}
			o2[k].released = true
			close(o2[k].ch)
			s.mu.Unlock()
		case "read":
			s.mu.Unlock()
			stim = "SRead"
		default:
			s.mu.Unlock()
			return fmt.Errorf("unknown reorder op %q", o.K)
		}
		if err := waitQuiescent(); err != nil {
			return err
		}
		s.mu.Lock()
		nOut := len(s.outstanding())
		if s.heldT && s.busy {
			tags["r.adder-blocked-while-timeout-flusher-held"] = true
		}
		if s.heldT {
			tags["r.timeout-flusher-held"] = true
		}
		if s.heldA {
			tags["r.adder-held"] = true
		}
		if s.busy && !s.heldA && !s.heldT {
			tags["r.adder-blocked-buffer-full"] = true
		}
		steps = append(steps, fmt.Sprintf("(%s, (%s, %s, %s, %d, %d))", stim, hx.CoqBool(s.busy), hx.CoqBool(s.heldA), hx.CoqBool(s.heldT), nOut, len(s.out)))
		obsLog = append(obsLog, map[string]any{"stim": stim, "busy": s.busy, "heldA": s.heldA, "heldT": s.heldT, "outstanding": nOut, "out_len": len(s.out)})
		s.mu.Unlock()
		return nil
	}
	fail := func(err error) (*hx.Result, error) {
		cancel()
		return nil, err
	}
	for _, o := range ops {
		if err := apply(o); err != nil {
			return fail(err)
		}
	}
	// settle: release gates, complete every fetch (oldest first), flush the remainder, complete again
	drainAll := func() error {
		for i := 0; i < 10000; i++ {
			s.mu.Lock()
			n := len(s.outstanding())
			s.mu.Unlock()
			if n == 0 {
				return nil
			}
			if err := apply(op{K: "complete", X: 0}); err != nil {
				return err
			}
		}
		return nil
	}
	if err := apply(op{K: "release"}); err != nil {
		return fail(err)
	}
	if err := drainAll(); err != nil {
		return fail(err)
	}
	// Q: every gate released, every fetch completed, every goroutine at rest - before the final explicit Flush.
	// Whatever was accepted before the last timer expiry served must have been handed to FetchBatch by now.
	s.mu.Lock()
	fetchedAtQ := 0
	for _, f := range s.fetches {
		fetchedAtQ += len(f.events)
	}
	s.mu.Unlock()
	if err := apply(op{K: "flush"}); err != nil {
		return fail(err)
	}
	if err := drainAll(); err != nil {
		return fail(err)
	}
	if err := apply(op{K: "read"}); err != nil {
		return fail(err)
	}
	s.mu.Lock()
	settled := !s.busy && !s.busyB && !s.heldA && !s.heldT && len(s.outstanding()) == 0
	out := append([]int{}, s.out...)
	errs := append([]int{}, s.errs...)
	var batches [][]int
	fs := append([]*fetchRec{}, s.fetches...)
	sort.SliceStable(fs, func(i, j int) bool { return first(fs[i].events) < first(fs[j].events) })
	var ctxs []string
	for _, f := range fs {
		batches = append(batches, f.events)
		ctxs = append(ctxs, fmt.Sprintf("(%d, %s)", first(f.events), hx.CoqBool(f.ctxGone)))
		if f.ctxGone {
			tags["r.batch-fetched-with-cancelled-context"] = true
		}
	}
	busy, busyB := s.busy, s.busyB
	s.mu.Unlock()
	if !busyB {
		close(bOps)
	}
	sort.SliceStable(batches, func(i, j int) bool { return first(batches[i]) < first(batches[j]) })
	// shut down: the time-out goroutine leaves on ctx.Done, the adder and consumer goroutines on their channels
	cancel()
	if !busy {
		close(adderOps)
	}
	close(done)
	bs := make([]string, len(batches))
	for i, b := range batches {
		bs[i] = coqNList(b)
	}
	term := fmt.Sprintf("RCase %d %s %d %s %s %s %s %s %s %s %s %d %s", maxSize, hx.CoqBool(delay > 0), bufSize,
		hx.CoqList(steps, "rstep"), coqNList(added), coqNList(out), hx.CoqList(bs, "list N"),
		hx.CoqList(fails, "N * N"), coqNList(errs), hx.CoqList(ctxs, "N * bool"), hx.CoqBool(twoCallers), fetchedAtQ, hx.CoqBool(settled))
	var tl []string
	for t := range tags {
		tl = append(tl, t)
	}
	sort.Strings(tl)
	if len(batches) >= 2 {
		tl = append(tl, "r.batches>=2")
	}
	return &hx.Result{Term: term, Nontrivial: len(batches) >= 2, Tags: tl,
		Observed: map[string]any{"added": added, "output": out, "fetched_batches": batches, "failed_fetches": fails, "errors_received": errs, "fetch_contexts_cancelled": ctxs, "two_callers": twoCallers, "items_fetched_before_final_flush": fetchedAtQ, "settled": settled, "steps": obsLog}}, nil
}

// ------------------------------------------------------------------ hammer kind

func execHammer(c *hx.Case) (*hx.Result, error) {
	nAdders, perAdder, nFlushers, maxSize := paramInt(c, "adders", 3), paramInt(c, "items", 40), paramInt(c, "flushers", 1), paramInt(c, "max", 4)
	ctx, cancel := context.WithCancel(context.Background())
	defer cancel()
	b := batching.NewEventBatcher[[2]int](ctx, batching.EventBatcherParams{MaxDelay: 0, MaxSize: maxSize})
	var wg sync.WaitGroup
	var mu sync.Mutex
	var batches [][][2]int
	stop := make(chan struct{})
	var fwg sync.WaitGroup
	for f := 0; f < nFlushers; f++ {
		fwg.Add(1)
		go func() {
			defer fwg.Done()
			for {
				select {
				case <-stop:
					return
				default:
				}
				if b.IsFull() {
					if r := b.Flush(batching.CurrentBatch); len(r) > 0 {
						mu.Lock()
						batches = append(batches, r)
						mu.Unlock()
					}
				} else {
					runtime.Gosched()
				}
			}
		}()
	}
	for a := 0; a < nAdders; a++ {
		wg.Add(1)
		go func(a int) {
			defer wg.Done()
			for i := 0; i < perAdder; i++ {
				b.Add([2]int{a, i})
				if i%7 == 3 {
					if r := b.Flush(batching.CurrentBatch); len(r) > 0 {
						mu.Lock()
						batches = append(batches, r)
						mu.Unlock()
					}
				}
			}
		}(a)
	}
	wg.Wait()
	close(stop)
	fwg.Wait()
	if r := b.Flush(batching.CurrentBatch); len(r) > 0 {
		batches = append(batches, r)
	}
	bs := make([]string, len(batches))
	for i, bt := range batches {
		ps := make([]string, len(bt))
		for j, p := range bt {
			ps[j] = fmt.Sprintf("(%d,%d)", p[0], p[1])
		}
		bs[i] = hx.CoqList(ps, "N * N")
	}
	term := fmt.Sprintf("HCase %d %d %s", nAdders, perAdder, hx.CoqList(bs, "list (N * N)"))
	return &hx.Result{Term: term, Nontrivial: len(batches) >= 2, Tags: []string{"kind=hammer", fmt.Sprintf("h.adders=%d", nAdders)},
		Observed: map[string]any{"batches": len(batches)}}, nil
}

// ------------------------------------------------------------------ generation

func mkCase(kind string, params map[string]any, ops []op) *hx.Case {
	params["mode"] = "c20"
	params["kind"] = kind
	raw := make([]json.RawMessage, len(ops))
	for i, o := range ops {
		raw[i] = hx.Op(o)
	}
	return &hx.Case{Name: kind, Params: params, Ops: raw}
}

func genBatcher(r *hx.Rand) *hx.Case {
	maxSize := r.Intn(6)
	delay := 1
	if r.Chance(1, 5) {
		delay = 0
	}
	n := r.Range(1, 30)
	var ops []op
	item := 0
	// light simulation only to aim tokens at the interesting values (current, stale, future)
	blen, tok := 0, 0
	var delivered []int
	for i := 0; i < n; i++ {
		switch x := r.Intn(100); {
		case x < 45:
			item++
			ops = append(ops, op{K: "add", X: item})
			blen++
		case x < 55:
			ops = append(ops, op{K: "full"})
		case x < 67:
			ops = append(ops, op{K: "flush"})
			if blen > 0 {
				blen, tok = 0, tok+1
			}
		case x < 82:
			var t int
			switch y := r.Intn(10); {
			case y < 3 && len(delivered) > 0:
				t = delivered[r.Intn(len(delivered))] // a token the timer really delivered (often stale by now)
			case y < 5:
				t = tok
			case y < 7:
				t = tok - 1 - r.Intn(2)
			case y < 8:
				t = tok + 1 + r.Intn(2)
			case y < 9:
				t = -1 - r.Intn(2)
			default:
				t = r.Intn(6)
			}
			ops = append(ops, op{K: "flushtok", X: t})
			if blen > 0 && (t == -1 || t == tok) {
				blen, tok = 0, tok+1
			}
		case x < 90:
			ops = append(ops, op{K: "fire"})
			if blen > 0 && delay > 0 {
				delivered = append(delivered, tok)
			}
		case x < 94:
			ops = append(ops, op{K: "expire"})
		case x < 97:
			ops = append(ops, op{K: "deliver", X: r.Intn(4)})
		default:
			ops = append(ops, op{K: "flushlast"})
		}
		if r.Chance(1, 12) {
			// the late callback: the timer of this batch expires, the batch is handed out anyway (size / explicit flush),
			// the next batch is started, and only then the old callback gets to send its token
			item++
			ops = append(ops, op{K: "add", X: item}, op{K: "expire"}, op{K: "flush"})
			if blen+1 > 0 {
				blen, tok = 0, tok+1
			}
			for k := r.Intn(3); k >= 0; k-- {
				item++
				ops = append(ops, op{K: "add", X: item})
				blen++
			}
			ops = append(ops, op{K: "deliver", X: r.Intn(3)}, op{K: "flushlast"})
		}
	}
	return mkCase("batcher", map[string]any{"max": maxSize, "delay": delay}, ops)
}

func genReorder(r *hx.Rand) *hx.Case {
	maxSize := r.Intn(5)
	bufSize := r.Intn(5)
	delay := 1
	if r.Chance(1, 8) {
		delay = 0
	}
	var ops []op
	if r.Chance(2, 5) {
		// the window the property names: the time-out flusher is held between Flush and Reserve while the adder goes on
		if maxSize == 0 {
			maxSize = 1
		}
		pre := r.Intn(2 * maxSize)
		for i := 0; i < pre; i++ {
			ops = append(ops, op{K: "add"})
			if r.Chance(1, 4) {
				ops = append(ops, op{K: "complete", X: r.Intn(3)})
			}
		}
		ops = append(ops, op{K: "add"})
		if r.Chance(1, 2) {
			ops = append(ops, op{K: "holdT"}, op{K: "fire"})
		} else {
			ops = append(ops, op{K: "fire"}, op{K: "holdT"}, op{K: "fire"})
		}
		more := r.Range(1, 2*maxSize+1)
		for i := 0; i < more; i++ {
			ops = append(ops, op{K: "add"})
			if r.Chance(1, 5) {
				ops = append(ops, op{K: "complete", X: r.Intn(3)})
			}
		}
		if r.Chance(1, 3) {
			ops = append(ops, op{K: "flush"})
		}
		ops = append(ops, op{K: "read"}, op{K: "release"})
		tail := r.Intn(6)
		for i := 0; i < tail; i++ {
			switch r.Intn(4) {
			case 0:
				ops = append(ops, op{K: "add"})
			case 1:
				ops = append(ops, op{K: "fire"})
			default:
				if r.Chance(1, 4) {
					ops = append(ops, op{K: "fail", X: r.Intn(4), Y: r.Intn(3)})
				} else {
					ops = append(ops, op{K: "complete", X: r.Intn(4)})
				}
			}
		}
	} else {
		n := r.Range(3, 35)
		for i := 0; i < n; i++ {
			switch x := r.Intn(100); {
			case x < 40:
				ops = append(ops, op{K: "add"})
			case x < 46:
				ops = append(ops, op{K: "flush"})
			case x < 58:
				ops = append(ops, op{K: "fire"})
			case x < 63:
				ops = append(ops, op{K: "holdT"})
			case x < 67:
				ops = append(ops, op{K: "holdA"})
			case x < 75:
				ops = append(ops, op{K: "release"})
			case x < 90:
				ops = append(ops, op{K: "complete", X: r.Intn(5)})
			case x < 95:
				ops = append(ops, op{K: "fail", X: r.Intn(5), Y: r.Intn(3)})
			default:
				ops = append(ops, op{K: "read"})
			}
		}
	}
	// a second caller goroutine: in a third of the schedules some calls come from it; plus the pattern
	// "one caller's flush waits (for a slot / at the gate) while the other adds an item whose timer expires"
	if r.Chance(1, 3) {
		for i := range ops {
			if ops[i].K == "add" && r.Chance(1, 3) {
				ops[i].K = "addB"
			} else if ops[i].K == "flush" && r.Chance(1, 2) {
				ops[i].K = "flushB"
			}
		}
		if r.Chance(1, 2) {
			var pat []op
			if maxSize < 2 {
				maxSize = r.Range(2, 4) // the second caller's item must stay pending
			}
			delay = 1
			if r.Chance(1, 2) {
				bufSize = r.Intn(2)
				for i := 0; i < 2*(maxSize+1); i++ { // fill the buffer until the first caller's flush waits for a slot
					pat = append(pat, op{K: "add"})
				}
			} else {
				pat = append(pat, op{K: "holdA"})
				for i := 0; i <= maxSize; i++ {
					pat = append(pat, op{K: "add"})
				}
			}
			pat = append(pat, op{K: "addB"}, op{K: "fire"}, op{K: "read"}, op{K: "release"}, op{K: "complete", X: r.Intn(3)})
			if r.Chance(1, 2) {
				ops = pat // nothing afterwards that would flush the pending item anyway
			} else {
				ops = append(pat, ops...)
			}
		}
	}
	// per-call contexts: some calls arrive with a context that is already cancelled
	cancelFail := 0
	if r.Chance(1, 2) {
		cancelFail = 1
	}
	if r.Chance(1, 2) {
		for i := range ops {
			if (ops[i].K == "add" || ops[i].K == "flush" || ops[i].K == "addB" || ops[i].K == "flushB") && r.Chance(1, 4) {
				ops[i].C = 1
			}
		}
	}
	return mkCase("reorder", map[string]any{"max": maxSize, "delay": delay, "buf": bufSize, "cancelfail": cancelFail}, ops)
}

func (eng) Generate(mode, tier string, r *hx.Rand) []*hx.Case {
	nb, nr, nh := 700, 900, 12
	if tier == "thorough" {
		nb, nr, nh = 6000, 9000, 80
	}
	var cs []*hx.Case
	for i := 0; i < nb; i++ {
		cs = append(cs, genBatcher(r))
	}
	for i := 0; i < nr; i++ {
		cs = append(cs, genReorder(r))
	}
	for i := 0; i < nh; i++ {
		cs = append(cs, mkCase("hammer", map[string]any{"adders": r.Range(2, 4), "items": r.Range(20, 60), "flushers": r.Range(1, 2), "max": r.Range(1, 6)}, nil))
	}
	return cs
}

var executed int

func (eng) Execute(mode string, c *hx.Case) (*hx.Result, error) {
	// Collections happen only here, between cases, when no goroutine of a case is running: a goroutine that starts a collection
	// parks inside the runtime (worldsema), which a goroutine dump cannot tell from being blocked.
	if executed++; executed%20 == 0 {
		runtime.GC()
	}
	kind, _ := c.Params["kind"].(string)
	switch kind {
	case "batcher":
		return execBatcher(c)
	case "reorder":
		return execReorder(c)
	case "hammer":
		return execHammer(c)
	}
	return nil, fmt.Errorf("unknown kind %q", kind)
}

func main() {
	debug.SetGCPercent(-1)
	hx.Main(eng{})
}
