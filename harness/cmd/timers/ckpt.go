// mode c10op, cases with params.batch > 1: a real Operator with event batches of 2..4 events (no batching time-out),
// operator checkpoints (barriers from every source runner) and crashes (Halt; a NEW Operator deployed from the checkpoint
// the job was told about), driven synchronously.
//
// The scripted handler numbers every event it processes and marks it, under the event's key, in the keyed state
// (namespace "seen", entry key = the sequence number). After a restore the engine probes every key: the marks found in the
// restored state say which pre-crash events are part of the checkpoint restored from, i.e. of the recovered timeline.
// Observed: the handler calls (request watermark + events) of every incarnation, the restored marks of the last crash and
// the final composite watermark. Checked in Coq against the pending-set specification (Check_timers.tl_check): in the
// recovered timeline every registered timer with t <= final watermark is delivered to the handler exactly once.
package main

import (
	"context"
	"encoding/binary"
	"encoding/json"
	"fmt"
	"math"
	"os"
	"path/filepath"
	"runtime"
	"runtime/debug"
	"sort"
	"strings"
	"sync"
	"time"

	"google.golang.org/protobuf/types/known/timestamppb"
	"reduction.dev/reduction-protocol/handlerpb"
	"reduction.dev/reduction/batching"
	"reduction.dev/reduction/connectors/embedded"
	"reduction.dev/reduction/dkv"
	"reduction.dev/reduction/proto/jobpb"
	"reduction.dev/reduction/proto/snapshotpb"
	"reduction.dev/reduction/proto/workerpb"
	"reduction.dev/reduction/util/verifhook"
	"reduction.dev/reduction/workers/operator"
	"reduction.dev/reduction/workers/workerstest"
	"verifharness/hx"
)

// ---------- generation ----------

func genCkCases(tier string, r *hx.Rand) []*hx.Case {
	n := 150
	if tier == "thorough" {
		n = 1200
	}
	a, b := r.U64(), r.U64()
	r = hx.NewRand(a*0x2545F4914F6CDD1D ^ (b >> 11) ^ (b << 29) ^ 0x636b)
	var cs []*hx.Case
	for i := 0; i < n; i++ {
		rr := r.Fork()
		nkeys := 1 + rr.Intn(5)
		keys := make([][]byte, nkeys)
		for j := range keys {
			keys[j] = []byte(fmt.Sprintf("k%d", rr.Intn(30)))
		}
		nsr := 1 + rr.Intn(3)
		srids := make([]int, nsr)
		for j := range srids {
			srids[j] = j
		}
		unit := hx.Pick(rr, []int64{1, 1_000_000_000})
		wm := make([]int64, nsr) // per runner, non-decreasing inside one incarnation
		cur := int64(0)          // a lower bound of what has been sent
		var ops []json.RawMessage
		emit := func(o opJ) { ops = append(ops, hx.Op(o)) }
		set := func() {
			o := opJ{Op: "set", Key: hx.Pick(rr, keys), T: cur + int64(rr.Intn(12))*unit}
			if rr.Chance(1, 4) {
				o.More = []int64{cur + int64(1+rr.Intn(12))*unit}
			}
			if rr.Chance(1, 12) {
				o.N = 1 // the handler fails if this event completes a batch
			}
			emit(o)
		}
		advOp := func(s int) {
			o := opJ{Op: "adv", Sr: s, T: wm[s]}
			if rr.Chance(1, 4) {
				o.N = 1 + rr.Intn(2) // the handler fails on the N-th call made while this watermark is handled
			}
			emit(o)
		}
		adv := func(all bool) {
			cur += int64(rr.Intn(5)) * unit
			if all {
				for s := range wm {
					if cur > wm[s] {
						wm[s] = cur
					}
					advOp(s)
				}
			} else {
				s := rr.Intn(nsr)
				if cur > wm[s] {
					wm[s] = cur
				}
				advOp(s)
			}
		}
		ckpts := 0
		nops := 10 + rr.Intn(30)
		for len(ops) < nops {
			switch x := rr.Intn(100); {
			case x < 45:
				for j := 1 + rr.Intn(4); j > 0; j-- {
					set()
				}
			case x < 65:
				adv(rr.Chance(1, 2))
			case x < 80: // timers fire into a partly filled batch, then the checkpoint, then (often) the crash
				adv(true)
				emit(opJ{Op: "barrier"})
				ckpts++
				if rr.Chance(2, 3) {
					emit(opJ{Op: "crash", Batch: 1 + rr.Intn(3)})
					for s := range wm {
						wm[s] = 0
					}
				}
			case x < 90:
				emit(opJ{Op: "barrier"})
				ckpts++
			default:
				if ckpts > 0 {
					emit(opJ{Op: "crash", Batch: 1 + rr.Intn(3)})
					for s := range wm {
						wm[s] = 0
					}
				}
			}
		}
		for s := range wm {
			emit(opJ{Op: "adv", Sr: s, T: math.MaxInt64})
		}
		cs = append(cs, &hx.Case{
			Name: fmt.Sprintf("timers-ck-%d", i),
			Params: map[string]any{"mode": "c10op", "batch": 2 + rr.Intn(3), "cache": hx.Pick(rr, []int{0, 14, 30, 60, 100000})*16 + rr.Intn(16),
				"memtable": hx.Pick(rr, []uint64{128, 1024, 1 << 20}), "srids": srids},
			Ops: ops,
		})
	}
	return cs
}

// ---------- the scripted handler ----------

type hevJ struct {
	Seq  uint64  `json:"seq"`
	Kind string  `json:"kind"` // set | fired | probe
	Key  []byte  `json:"key"`
	Ts   []int64 `json:"ts,omitempty"`
	T    int64   `json:"t,omitempty"`
}
type hcallJ struct {
	W      int64  `json:"w"`
	Events []hevJ `json:"events"`
}
type ckPayload struct {
	Ts    []int64 `json:"ts,omitempty"`
	Probe bool    `json:"probe,omitempty"`
}

type ckHandler struct {
	mu       sync.Mutex
	failAt   int  // fail the failAt-th call since the engine armed it (0: never)
	callsArm int  // calls since armed
	failed   bool // the injected failure happened
	seq      uint64
	calls    []hcallJ
	seen     map[uint64]bool // marks found in the key states of the requests since the last reset
}

func (h *ckHandler) KeyEventBatch(ctx context.Context, events [][]byte) ([][]*handlerpb.KeyedEvent, error) {
	return nil, fmt.Errorf("not used")
}

func mark(key []byte, seq uint64) *handlerpb.StateMutationNamespace {
	return &handlerpb.StateMutationNamespace{Namespace: "seen", Mutations: []*handlerpb.StateMutation{{
		Mutation: &handlerpb.StateMutation_Put{Put: &handlerpb.PutMutation{Key: binary.BigEndian.AppendUint64(nil, seq), Value: []byte{1}}},
	}}}
}

func (h *ckHandler) ProcessEventBatch(ctx context.Context, req *handlerpb.ProcessEventBatchRequest) (*handlerpb.ProcessEventBatchResponse, error) {
	h.mu.Lock()
	defer h.mu.Unlock()
	if h.failAt > 0 {
		h.callsArm++
		if h.callsArm == h.failAt {
			h.failed = true
			return nil, fmt.Errorf("injected handler failure")
		}
	}
	for _, ks := range req.KeyStates {
		for _, ns := range ks.StateEntryNamespaces {
			if ns.Namespace != "seen" {
				continue
			}
			for _, e := range ns.Entries {
				if len(e.Key) == 8 {
					h.seen[binary.BigEndian.Uint64(e.Key)] = true
				}
			}
		}
	}
	call := hcallJ{W: req.Watermark.AsTime().UnixNano()}
	resp := &handlerpb.ProcessEventBatchResponse{}
	for _, e := range req.Events {
		h.seq++
		switch ev := e.Event.(type) {
		case *handlerpb.Event_KeyedEvent:
			var p ckPayload
			if err := json.Unmarshal(ev.KeyedEvent.Value, &p); err != nil {
				return nil, err
			}
			key := append([]byte{}, ev.KeyedEvent.Key...)
			kr := &handlerpb.KeyResult{Key: key, StateMutationNamespaces: []*handlerpb.StateMutationNamespace{mark(key, h.seq)}}
			if p.Probe {
				call.Events = append(call.Events, hevJ{Seq: h.seq, Kind: "probe", Key: key})
			} else {
				for _, t := range p.Ts {
					kr.NewTimers = append(kr.NewTimers, timestamppb.New(time.Unix(0, t)))
				}
				call.Events = append(call.Events, hevJ{Seq: h.seq, Kind: "set", Key: key, Ts: p.Ts})
			}
			resp.KeyResults = append(resp.KeyResults, kr)
		case *handlerpb.Event_TimerExpired:
			key := append([]byte{}, ev.TimerExpired.Key...)
			call.Events = append(call.Events, hevJ{Seq: h.seq, Kind: "fired", Key: key, T: ev.TimerExpired.Timestamp.AsTime().UnixNano()})
			resp.KeyResults = append(resp.KeyResults, &handlerpb.KeyResult{Key: key, StateMutationNamespaces: []*handlerpb.StateMutationNamespace{mark(key, h.seq)}})
		}
	}
	h.calls = append(h.calls, call)
	return resp, nil
}

func coqCalls(calls []hcallJ) string {
	var cs []string
	for _, c := range calls {
		var evs []string
		for _, e := range c.Events {
			switch e.Kind {
			case "set":
				ts := make([]string, len(e.Ts))
				for i, t := range e.Ts {
					ts[i] = hx.CoqZ(t)
				}
				evs = append(evs, fmt.Sprintf("HSet %s %s %s", hx.CoqN(e.Seq), hx.CoqBytes(e.Key), hx.CoqList(ts, "Z")))
			case "fired":
				evs = append(evs, fmt.Sprintf("HFired %s %s %s", hx.CoqN(e.Seq), hx.CoqBytes(e.Key), hx.CoqZ(e.T)))
			}
		}
		cs = append(cs, fmt.Sprintf("(%s, %s)", hx.CoqZ(c.W), hx.CoqList(evs, "hev")))
	}
	return hx.CoqList(cs, "hcall")
}

// ---------- execution ----------

type incarnationT struct {
	op      *operator.Operator
	cancel  context.CancelFunc
	stopped chan struct{}
}

func (eng) executeCk(c *hx.Case) (*hx.Result, error) {
	cf := cfgOf(c)
	batch := getInt(c.Params, "batch", 2)
	verifhook.SetTuning("timer_cache_bytes", cf.Cache)
	verifhook.SetTuning("dkv", dkv.VerifDBTuning{MemTableSize: cf.MemTable})
	defer verifhook.SetTuning("timer_cache_bytes", nil)
	defer verifhook.SetTuning("dkv", nil)
	// A crash kills the process; here the crashed incarnation's objects stay in this process. Table objects that its
	// compactions replaced delete their files BY NAME when they are garbage collected, and the restored DB re-uses those
	// names (it numbers its tables after the checkpoint's): no collection while the case runs (DESIGN D8/D11, C09's subject).
	defer debug.SetGCPercent(debug.SetGCPercent(-1))
	if stale, _ := filepath.Glob("/var/tmp/verif-C10-ck-*"); len(stale) > 0 { // left behind by a worker that died
		for _, d := range stale {
			if st, err := os.Stat(d); err == nil && time.Since(st.ModTime()) > 15*time.Minute {
				os.RemoveAll(d)
			}
		}
	}
	dir, err := os.MkdirTemp("/var/tmp", "verif-C10-ck-")
	if err != nil {
		return nil, err
	}
	var all []*incarnationT
	// nothing of the code under test may still touch the directory when it is removed (also on error paths): every
	// incarnation is stopped and its DKV's background tasks are awaited first; a late panic would be attributed to the next case
	defer func() {
		for _, inc := range all {
			inc.op.Halt()
			inc.cancel()
			<-inc.stopped
			if db := inc.op.VerifDKV(); db != nil {
				db.WaitOnTasks()
			}
		}
		os.RemoveAll(dir)
	}()
	srNames := make([]string, len(cf.SrIDs))
	for i, id := range cf.SrIDs {
		srNames[i] = srName(id)
	}
	if len(srNames) == 0 {
		return nil, fmt.Errorf("no source runners")
	}
	ctx := context.Background()
	h := &ckHandler{seen: map[uint64]bool{}}
	job := &workerstest.DummyJob{}

	type incarnation = incarnationT
	start := func(m int, ckpts ...*snapshotpb.OperatorCheckpoint) (*incarnation, error) {
		op := operator.NewOperator(operator.NewOperatorParams{
			ID: "op1", UserHandler: h, Job: job,
			EventBatching: batching.EventBatcherParams{MaxSize: m}, // MaxDelay 0: a batch is processed exactly when full
		})
		op.Logger = quiet
		ictx, cancel := context.WithCancel(ctx)
		inc := &incarnation{op: op, cancel: cancel, stopped: make(chan struct{})}
		go func() { defer close(inc.stopped); op.Start(ictx) }()
		all = append(all, inc)
		if err := op.HandleDeploy(ctx, &workerpb.DeployOperatorRequest{
			Operators:       []*jobpb.NodeIdentity{{Id: "op1", Host: "h"}},
			SourceRunnerIds: srNames,
			KeyGroupCount:   16,
			StorageLocation: dir,
			Checkpoints:     ckpts,
		}, &embedded.RecordingSink{}); err != nil {
			return nil, err
		}
		return inc, nil
	}
	// see executeOp: no give-up deadline, the sleep only paces the polling
	send := func(inc *incarnation, sender string, ev *workerpb.Event) error {
		for {
			err := inc.op.HandleEvent(ctx, sender, ev)
			if err == nil || !strings.Contains(err.Error(), "not ready") {
				return err
			}
			time.Sleep(time.Millisecond)
		}
	}
	// a crash kills the process: nothing of the old incarnation runs on. Here the old Operator lives in the same process,
	// so its DKV's background flushes / compactions are awaited before anything else touches the storage directory.
	halt := func(inc *incarnation) error {
		// Halt (no deregistration), then the cancellation of the context Start runs under: Start returns whether or not it
		// had already installed its own stop function. Waited for without a deadline (hx's hang detector is the only clock).
		inc.op.Halt()
		inc.cancel()
		<-inc.stopped
		if db := inc.op.VerifDKV(); db != nil {
			if err := db.WaitOnTasks(); err != nil {
				return fmt.Errorf("old incarnation's DKV tasks: %v", err)
			}
		}
		return nil
	}
	ckptID := uint64(0)
	barrier := func(inc *incarnation) error {
		ckptID++
		for _, s := range srNames {
			if err := send(inc, s, &workerpb.Event{Event: &workerpb.Event_CheckpointBarrier{CheckpointBarrier: &workerpb.CheckpointBarrier{CheckpointId: ckptID}}}); err != nil {
				return fmt.Errorf("barrier %d from %s: %v", ckptID, s, err)
			}
		}
		if job.OperatorCheckpoint == nil || job.OperatorCheckpoint.CheckpointId != ckptID {
			return fmt.Errorf("checkpoint %d was not reported to the job", ckptID)
		}
		return nil
	}
	keyed := func(inc *incarnation, key []byte, p ckPayload) error {
		val, _ := json.Marshal(p)
		return send(inc, srNames[0], &workerpb.Event{Event: &workerpb.Event_KeyedEvent{KeyedEvent: &handlerpb.KeyedEvent{Key: key, Value: val}}})
	}

	inc, err := start(batch)
	if err != nil {
		return nil, err
	}
	// every incarnation stays reachable until the case is over: a collected Operator's DB deletes table files that the
	// operator re-deployed from its checkpoint in the same process still reads (DESIGN D11, property C09's subject)
	keep := []*incarnation{inc}
	defer func() { runtime.KeepAlive(keep) }()
	keysUsed := map[string][]byte{}
	lastWm := map[string]int64{}
	var pre []hcallJ
	var marks []uint64
	nCrash, nFiredIntoBatch := 0, 0
	tags := map[string]bool{fmt.Sprintf("batch-%d", batch): true}
	// crash: the incarnation stops, a new Operator (event batch size mNew) is deployed from the checkpoint the job was told
	// about last; every key is probed to learn which events are part of that checkpoint
	crash := func(i int, mNew int) error {
		if err := halt(inc); err != nil {
			return fmt.Errorf("op %d: %v", i, err)
		}
		h.mu.Lock()
		pre = append([]hcallJ{}, h.calls...)
		h.seen = map[uint64]bool{}
		h.mu.Unlock()
		m := mNew
		if m < 1 {
			m = 1
		}
		if inc, err = start(m, job.OperatorCheckpoint); err != nil {
			return fmt.Errorf("op %d: redeploy: %v", i, err)
		}
		keep = append(keep, inc)
		lastWm = map[string]int64{}
		// probe every key, flush with a checkpoint: the key states of these requests are the restored state
		ks := make([]string, 0, len(keysUsed))
		for k := range keysUsed {
			ks = append(ks, k)
		}
		sort.Strings(ks)
		for _, k := range ks {
			if err := keyed(inc, keysUsed[k], ckPayload{Probe: true}); err != nil {
				return fmt.Errorf("op %d: probe: %v", i, err)
			}
		}
		if err := barrier(inc); err != nil {
			return fmt.Errorf("op %d: %v", i, err)
		}
		h.mu.Lock()
		marks = marks[:0]
		for s := range h.seen {
			marks = append(marks, s)
		}
		sort.Slice(marks, func(a, b int) bool { return marks[a] < marks[b] })
		h.mu.Unlock()
		nCrash++
		tags[fmt.Sprintf("restored-batch-%d", m)] = true
		return nil
	}
	// the first checkpoint (of the empty state) exists before anything can fail
	if err := barrier(inc); err != nil {
		return nil, err
	}
	// an operation during which the handler is told to fail its n-th call: the current code reports the failure to the
	// sender (HandleEvent returns the error), the worker fails and the job restarts it from the last checkpoint
	guarded := func(i, n int, f func() error) error {
		h.mu.Lock()
		h.failAt, h.callsArm, h.failed = n, 0, false
		h.mu.Unlock()
		err := f()
		h.mu.Lock()
		failed := h.failed
		h.failAt = 0
		h.mu.Unlock()
		switch {
		case err != nil && failed:
			tags["handler-failure-reported"] = true
			return crash(i, 1+i%3)
		case err != nil:
			return fmt.Errorf("op %d: %v", i, err)
		case failed:
			tags["handler-failure-not-reported"] = true // the check decides what that means for the timers
		}
		return nil
	}
	for i, raw := range c.Ops {
		var o opJ
		if err := json.Unmarshal(raw, &o); err != nil {
			return nil, fmt.Errorf("op %d: %v", i, err)
		}
		switch o.Op {
		case "set":
			keysUsed[string(o.Key)] = o.Key
			if err := guarded(i, o.N, func() error { return keyed(inc, o.Key, ckPayload{Ts: append([]int64{o.T}, o.More...)}) }); err != nil {
				return nil, err
			}
		case "adv":
			if o.Sr < 0 || o.Sr >= len(srNames) {
				continue
			}
			crashesBefore := nCrash
			if err := guarded(i, o.N, func() error {
				return send(inc, srNames[o.Sr], &workerpb.Event{Event: &workerpb.Event_Watermark{Watermark: &workerpb.Watermark{Timestamp: timestamppb.New(time.Unix(0, o.T))}}})
			}); err != nil {
				return nil, err
			}
			if nCrash == crashesBefore {
				lastWm[srNames[o.Sr]] = o.T
			}
		case "barrier":
			h.mu.Lock()
			before := len(h.calls)
			h.mu.Unlock()
			if err := barrier(inc); err != nil {
				return nil, fmt.Errorf("op %d: %v", i, err)
			}
			h.mu.Lock()
			for _, cl := range h.calls[before:] { // the batch the barrier flushed
				for _, e := range cl.Events {
					if e.Kind == "fired" {
						nFiredIntoBatch++
						tags["expiry-flushed-by-barrier"] = true
					}
				}
			}
			h.mu.Unlock()
		case "crash":
			if err := crash(i, o.Batch); err != nil {
				return nil, err
			}
		default:
			return nil, fmt.Errorf("op %d: op %q is not available with checkpoints", i, o.Op)
		}
	}
	if err := barrier(inc); err != nil { // final flush
		return nil, err
	}
	if err := halt(inc); err != nil {
		return nil, err
	}
	wfinal := int64(math.MaxInt64)
	for _, s := range srNames {
		if lastWm[s] < wfinal {
			wfinal = lastWm[s] // 0 for a runner that sent no watermark since the last restore
		}
	}
	h.mu.Lock()
	post := append([]hcallJ{}, h.calls[len(pre):]...)
	h.mu.Unlock()
	ms := make([]string, len(marks))
	for i, m := range marks {
		ms[i] = hx.CoqN(m)
	}
	term := fmt.Sprintf("TB %s\n  %s\n  %s %s", coqCalls(pre), hx.CoqList(ms, "N"), coqCalls(post), hx.CoqZ(wfinal))
	nFiredPre, nFiredPost := 0, 0
	for _, cl := range pre {
		for _, e := range cl.Events {
			if e.Kind == "fired" {
				nFiredPre++
			}
		}
	}
	for _, cl := range post {
		for _, e := range cl.Events {
			if e.Kind == "fired" {
				nFiredPost++
			}
		}
	}
	tags[fmt.Sprintf("crashes-%d", min(nCrash, 3))] = true
	if nFiredPre > 0 {
		tags["fired-before-last-crash"] = true
	}
	if nFiredPost > 0 {
		tags["fired-after-last-restore"] = true
	}
	var tl []string
	for t := range tags {
		tl = append(tl, t)
	}
	sort.Strings(tl)
	return &hx.Result{Term: term, Nontrivial: nCrash > 0 && nFiredIntoBatch > 0 && nFiredPost > 0, Tags: tl,
		Observed: map[string]any{"pre": pre, "marks": marks, "post": post, "wfinal": wfinal}}, nil
}
