// mode c10, cases with params.scalein: a SCALE-IN restore. Two operators own the two halves of the key-group space, each
// with its own dkv.DB (own working directory on one memory file system), TimerStore and TimerRegistry. Every SetTimer goes
// to the operator that owns the key, every AdvanceWatermark to both (their outputs are merged by timestamp: the two
// registries together behave like one registry over the whole key-group space, which is what the model runs). At the op
// restore/how=scalein both databases are checkpointed and ONE new DB is opened from the two checkpoint handles, with one
// TimerStore over the whole range (in the model: Restore). Later restores re-open that DB from its own checkpoint.
package main

import (
	"encoding/json"
	"fmt"
	"math"
	"runtime"
	"sort"
	"time"

	"google.golang.org/protobuf/types/known/timestamppb"
	"reduction.dev/reduction/dkv"
	"reduction.dev/reduction/dkv/recovery"
	"reduction.dev/reduction/dkv/storage"
	"reduction.dev/reduction/partitioning"
	"reduction.dev/reduction/proto/workerpb"
	"reduction.dev/reduction/workers/operator"
	"verifharness/hx"
)

func genScaleInCases(tier string, r *hx.Rand) []*hx.Case {
	n := 100
	if tier == "thorough" {
		n = 800
	}
	a, b := r.U64(), r.U64()
	r = hx.NewRand(a*0x2545F4914F6CDD1D ^ (b >> 11) ^ (b << 29) ^ 0x7363)
	var cs []*hx.Case
	for i := 0; i < n; i++ {
		rr := r.Fork()
		count := hx.Pick(rr, []int{2, 2, 4, 8})
		ks2 := partitioning.NewKeySpace(count, 2)
		// keys of both halves
		var keysA, keysB [][]byte
		for j := 0; (len(keysA) < 10 || len(keysB) < 6) && j < 400; j++ {
			k := []byte(fmt.Sprintf("k%03d", j))
			if ks2.RangeIndex(k) == 0 {
				if len(keysA) < 10 {
					keysA = append(keysA, k)
				}
			} else if len(keysB) < 6 {
				keysB = append(keysB, k)
			}
		}
		if len(keysA) == 0 || len(keysB) == 0 {
			continue
		}
		if rr.Chance(1, 2) { // which operator is the busy one
			keysA, keysB = keysB, keysA
		}
		unit := hx.Pick(rr, []int64{1, 1_000_000_000})
		var ops []json.RawMessage
		emit := func(o opJ) { ops = append(ops, hx.Op(o)) }
		// the busy operator: many registrations, the late ones with the early timestamps, flushed and compacted
		na := 6 + rr.Intn(10)
		for j := 0; j < na; j++ {
			t := int64(na-j) * unit
			if rr.Chance(1, 4) {
				t = int64(1+rr.Intn(na)) * unit
			}
			emit(opJ{Op: "set", Key: keysA[j%len(keysA)], T: t})
		}
		// the quiet operator: a few later timers
		nb := 1 + rr.Intn(6)
		for j := 0; j < nb; j++ {
			emit(opJ{Op: "set", Key: keysB[j%len(keysB)], T: int64(na+1+rr.Intn(6)) * unit})
		}
		if rr.Chance(1, 3) {
			hx.Shuffle(rr, ops)
		}
		// some of the busy operator's timers fire before the checkpoint
		fire := int64(1+rr.Intn(na)) * unit
		emit(opJ{Op: "adv", Sr: 0, T: fire})
		if rr.Chance(1, 3) {
			emit(opJ{Op: "set", Key: hx.Pick(rr, keysA), T: fire + int64(1+rr.Intn(5))*unit})
			emit(opJ{Op: "adv", Sr: 0, T: fire + int64(rr.Intn(3))*unit})
		}
		emit(opJ{Op: "restore", How: "scalein"})
		for j := rr.Intn(4); j > 0; j-- {
			switch rr.Intn(3) {
			case 0:
				emit(opJ{Op: "set", Key: hx.Pick(rr, append(append([][]byte{}, keysA...), keysB...)), T: int64(1+rr.Intn(2*na)) * unit})
			case 1:
				emit(opJ{Op: "adv", Sr: 0, T: int64(rr.Intn(2*na)) * unit})
			default:
				emit(opJ{Op: "restore", How: "ckpt"})
			}
		}
		emit(opJ{Op: "adv", Sr: 0, T: math.MaxInt64})
		cs = append(cs, &hx.Case{
			Name: fmt.Sprintf("timers-scalein-%d", i),
			Params: map[string]any{"mode": "c10", "scalein": 1, "count": count, "cache": hx.Pick(rr, []int{0, 30, 100, 1 << 20}),
				"memtable": hx.Pick(rr, []uint64{64, 100, 127, 127, 160, 256}), "srids": []int{0}},
			Ops: ops,
		})
	}
	return cs
}

func (eng) executeScaleIn(c *hx.Case) (*hx.Result, error) {
	cf := cfgOf(c)
	if cf.Count < 2 {
		cf.Count = 2
	}
	ks2 := partitioning.NewKeySpace(cf.Count, 2)
	ks1 := partitioning.NewKeySpace(cf.Count, 1)
	ranges := ks2.KeyGroupRanges()
	whole := ks1.KeyGroupRanges()[0]
	mfs := storage.NewMemoryFilesystem()
	open := func(dir string, hs []recovery.CheckpointHandle) *dkv.DB {
		return dkv.Open(dkv.DBOptions{FileSystem: mfs.WithWorkingDir(dir), MemTableSize: cf.MemTable, Logger: quiet}, hs)
	}
	srNames := make([]string, len(cf.SrIDs))
	for i, id := range cf.SrIDs {
		srNames[i] = srName(id)
	}
	dbs := []*dkv.DB{open("opA", nil), open("opB", nil)}
	keep := append([]*dkv.DB{}, dbs...)
	defer func() { runtime.KeepAlive(keep) }()
	regs := []*operator.TimerRegistry{
		operator.NewTimerRegistry(operator.NewTimerStore(dbs[0], ks2, ranges[0], cf.Cache), srNames),
		operator.NewTimerRegistry(operator.NewTimerStore(dbs[1], ks2, ranges[1], cf.Cache), srNames),
	}
	merged := false
	ckptID := uint64(0)
	nSets, nRestore, nYielding, firedBefore := 0, 0, 0, 0
	var coqOps []string
	var observed [][]firedJ
	tags := map[string]bool{}
	wait := func() error {
		for _, db := range dbs {
			if err := db.WaitOnTasks(); err != nil {
				return err
			}
		}
		return nil
	}
	for i, raw := range c.Ops {
		var o opJ
		if err := json.Unmarshal(raw, &o); err != nil {
			return nil, fmt.Errorf("op %d: %v", i, err)
		}
		switch o.Op {
		case "set":
			nSets++
			reg := regs[0]
			if !merged {
				reg = regs[ks2.RangeIndex(o.Key)]
			}
			reg.SetTimer(o.Key, time.Unix(0, o.T))
			coqOps = append(coqOps, fmt.Sprintf("SetTimer %s %s", hx.CoqBytes(o.Key), hx.CoqZ(o.T)))
		case "adv", "advp":
			var out []firedJ
			for _, reg := range regs {
				n := 0
				for k, ts := range reg.AdvanceWatermark(srName(o.Sr), &workerpb.Watermark{Timestamp: timestamppb.New(time.Unix(0, o.T))}) {
					if n > nSets+4 {
						panic(fmt.Sprintf("op %d: AdvanceWatermark yielded %d timers although only %d were ever set", i, n+1, nSets))
					}
					n++
					out = append(out, firedJ{K: append([]byte{}, k...), T: ts.UnixNano()})
				}
			}
			if !merged { // two sorted outputs: merge by timestamp
				sort.SliceStable(out, func(a, b int) bool { return out[a].T < out[b].T })
				firedBefore += len(out)
			}
			if len(out) > 0 {
				nYielding++
			}
			observed = append(observed, out)
			coqOps = append(coqOps, fmt.Sprintf("Advance %s %s", hx.CoqN(uint64(o.Sr)), hx.CoqZ(o.T)))
		case "restore":
			if err := wait(); err != nil {
				return nil, fmt.Errorf("op %d: WaitOnTasks: %v", i, err)
			}
			ckptID++
			var hs []recovery.CheckpointHandle
			for _, db := range dbs {
				h, err := db.Checkpoint(ckptID)()
				if err != nil {
					return nil, fmt.Errorf("op %d: checkpoint: %v", i, err)
				}
				hs = append(hs, h)
			}
			if err := wait(); err != nil {
				return nil, fmt.Errorf("op %d: WaitOnTasks: %v", i, err)
			}
			if !merged {
				tags["scale-in"] = true
				if hasTables.MatchString(dbs[0].Diagnostics()) && hasTables.MatchString(dbs[1].Diagnostics()) {
					tags["both-with-tables"] = true
				}
			}
			db := open(fmt.Sprintf("opC%d", ckptID), hs)
			keep = append(keep, db)
			dbs = []*dkv.DB{db}
			regs = []*operator.TimerRegistry{operator.NewTimerRegistry(operator.NewTimerStore(db, ks1, whole, cf.Cache), srNames)}
			merged = true
			nRestore++
			coqOps = append(coqOps, "Restore")
		default:
			continue // not available in scale-in cases
		}
		if err := wait(); err != nil {
			return nil, fmt.Errorf("op %d: WaitOnTasks: %v", i, err)
		}
	}
	var obs []string
	for _, out := range observed {
		fs := make([]string, len(out))
		for i, f := range out {
			fs[i] = coqFired(f)
		}
		obs = append(obs, hx.CoqList(fs, "bytes * Z"))
	}
	srs := make([]string, len(cf.SrIDs))
	for i, id := range cf.SrIDs {
		srs[i] = hx.CoqN(uint64(id))
	}
	term := fmt.Sprintf("TC %s 0%%N %s %s %s\n  %s\n  %s",
		hx.CoqN(uint64(cf.Count)), hx.CoqN(uint64(cf.Count)), hx.CoqN(cf.Cache),
		hx.CoqList(srs, "N"), hx.CoqList(coqOps, "op"), hx.CoqList(obs, "list (bytes * Z)"))
	if firedBefore > 0 {
		tags["fired-before-scale-in"] = true
	}
	var tl []string
	for t := range tags {
		tl = append(tl, t)
	}
	sort.Strings(tl)
	return &hx.Result{Term: term, Nontrivial: merged && firedBefore > 0 && nYielding >= 2, Tags: tl, Observed: observed}, nil
}
