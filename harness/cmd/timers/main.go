// engine timers (property C10): event-time timers fire exactly once, in order, and survive recovery.
//
// One case = a configuration (key-group count, the operator's key-group range, timer cache bytes, memtable bytes,
// source-runner ids) and a history of
//
//	set     TimerRegistry.SetTimer(key, t)
//	adv     TimerRegistry.AdvanceWatermark(sender, wm), drained; optionally SetTimer calls between two yields
//	        (what the operator does when its event batch fills up while timers are firing)
//	restore a new TimerStore + TimerRegistry over the same dkv.DB ("same"), or over a DB re-opened from a DKV
//	        checkpoint taken at this point ("ckpt")
//
// executed on the REAL operator.TimerRegistry / operator.TimerStore over a REAL dkv.DB on a memory filesystem whose
// memtable is tiny, so that timer puts and deletes are spread over memtables, sealed memtables and sstables.
// Observed: the (key, UnixNano) sequence every advance yields.
package main

import (
	"context"
	"encoding/json"
	"errors"
	"fmt"
	"io"
	"log/slog"
	"math"
	"os"
	"regexp"
	"runtime"
	"sort"
	"strings"
	"sync"
	"time"

	"google.golang.org/protobuf/types/known/timestamppb"
	"reduction.dev/reduction-protocol/handlerpb"
	"reduction.dev/reduction/batching"
	"reduction.dev/reduction/connectors/embedded"
	"reduction.dev/reduction/dkv"
	"reduction.dev/reduction/dkv/recovery"
	"reduction.dev/reduction/dkv/storage"
	"reduction.dev/reduction/partitioning"
	"reduction.dev/reduction/proto/jobpb"
	"reduction.dev/reduction/proto/workerpb"
	"reduction.dev/reduction/util/verifhook"
	"reduction.dev/reduction/workers/operator"
	"reduction.dev/reduction/workers/workerstest"
	"verifharness/hx"
)

type eng struct{}

func (eng) Name() string { return "timers" }
func (eng) CoqRequire(mode string) string {
	return "From RV Require Import Base.Bytes Model.TimerStore Model.TimerRegistry Corr.Check_timers."
}
func (eng) CoqCaseType(mode string) string { return "Check_timers.case" }
func (eng) CoqRun(mode string) string      { return "Check_timers.run" }
func (eng) Rule(mode string) string {
	if mode == "c10op" {
		return "a real operator.Operator (memory:// storage, 16 key groups, event batch size 1, DKV memtable and timer cache re-tuned through the verif hooks to 64 B..1 MB / 0..100000 B) " +
			"with a scripted handler: keyed events whose handler result registers timers (operator.go processEventBatch -> SetTimer), watermark messages from 1-3 source runners " +
			"(handleWatermark -> AdvanceWatermark), and handler results to TimerExpired events that register further timers while the advance is still firing. " +
			"Observed: the TimerExpired (key, timestamp) events the handler receives per watermark message. Non-trivial: some group's pending timers exceeded its cache budget and at least two messages fired timers. " +
			"Cases with params.batch > 1: event batches of 2-4 events without time-out, operator checkpoints (barriers from every runner) and crashes (Halt, a new Operator deployed from the reported checkpoint, local-disk storage), " +
			"watermarks that fire timers into a partly filled batch right before the checkpoint; the handler marks every processed event in the keyed state, the marks found after the restore define the recovered timeline; " +
			"checked: in the recovered timeline every timer the handler registered with t <= final watermark reaches the handler exactly once. Non-trivial there: a crash, an expiry flushed by a barrier and a firing after the last restore."
	}
	return "real TimerRegistry+TimerStore over a real dkv.DB (memory fs, memtable 64 B .. 1 MB so that flushes and compactions happen); " +
		"key-group counts 1..16 split over 1..3 operators (one operator's range is driven), 1-8 subject keys of 1-6 bytes placed in that range, " +
		"per-group cache budgets 0 / 1 / one entry / two entries / a few / more than the whole timer set, " +
		"timestamps from a small domain (so identical registrations repeat) in units of 1 ns / 1 s / 2^40 ns plus 0 and MaxInt64, " +
		"histories of 8-70 operations: SetTimer (fresh, repeated, at/below the watermark), AdvanceWatermark by one runner or by all runners " +
		"(monotone, sometimes regressing, sometimes an unknown sender), SetTimer between two yields of an advance, " +
		"consumers that break out of the range loop after k = 0..3 items, " +
		"storage read faults (table reads fail from the n-th one on) while fresh or drained caches reload: the reload survives or fails loudly (then the store and registry are rebuilt), " +
		"scale-in cases (params.scalein): two operators with their own DBs own the two halves of the key groups, one busy (flushed and compacted), one quiet; after timers fired ONE DB is opened from both checkpoint handles, " +
		"Restore over the same DB or over a DB re-opened from a checkpoint, and a final advance of every upstream to MaxInt64 (pending set). " +
		"Non-trivial: some group's pending timers exceeded its cache budget at some moment, at least one restore, and at least two advances yielded timers; distinct by hash of the case."
}

// ---------- JSON forms ----------

type opJ struct {
	Op     string  `json:"op"`              // set | adv | advp | restore | barrier | crash
	N      int     `json:"n,omitempty"`     // peekfault: table reads fail from the n-th one on; adv/set through the operator with checkpoints: fail the n-th handler call of this op
	K      int     `json:"k,omitempty"`     // advp: the consumer breaks out of the range loop in the body of the k-th item (0: never iterates)
	Key    []byte  `json:"key,omitempty"`   // set
	T      int64   `json:"t,omitempty"`     // set: UnixNano; adv: watermark UnixNano
	More   []int64 `json:"more,omitempty"`  // set: further timestamps registered for the same key by the same handler result
	Sr     int     `json:"sr,omitempty"`    // adv: sender number
	How    string  `json:"how,omitempty"`   // restore: same | ckpt
	Batch  int     `json:"batch,omitempty"` // crash (c10op with checkpoints): event batch size of the new incarnation
	During []durJ  `json:"during,omitempty"`
}
type durJ struct {
	After int    `json:"after"` // after the After-th yield (1-based)
	Key   []byte `json:"key"`
	T     int64  `json:"t"`
}

type cfgJ struct {
	Count    int // key groups
	NRanges  int // operators
	Range    int // index of the driven operator
	Cache    uint64
	MemTable uint64
	SrIDs    []int
}

func getInt(p map[string]any, k string, def int) int {
	if v, ok := p[k]; ok {
		switch x := v.(type) {
		case float64:
			return int(x)
		case int:
			return x
		case int64:
			return int(x)
		case uint64:
			return int(x)
		case json.Number:
			n, _ := x.Int64()
			return int(n)
		}
	}
	return def
}

func cfgOf(c *hx.Case) cfgJ {
	p := c.Params
	cf := cfgJ{
		Count: getInt(p, "count", 1), NRanges: getInt(p, "nranges", 1), Range: getInt(p, "range", 0),
		Cache: uint64(getInt(p, "cache", 0)), MemTable: uint64(getInt(p, "memtable", 1<<20)),
	}
	if v, ok := p["srids"]; ok {
		switch xs := v.(type) {
		case []any:
			for _, x := range xs {
				if f, ok := x.(float64); ok {
					cf.SrIDs = append(cf.SrIDs, int(f))
				}
			}
		case []int:
			cf.SrIDs = xs
		}
	}
	if cf.Count < 1 {
		cf.Count = 1
	}
	if cf.NRanges < 1 {
		cf.NRanges = 1
	}
	if cf.NRanges > cf.Count {
		cf.NRanges = cf.Count
	}
	if cf.Range < 0 || cf.Range >= cf.NRanges {
		cf.Range = 0
	}
	return cf
}

func srName(i int) string { return fmt.Sprintf("sr%d", i) }

// ---------- generation ----------

type genState struct {
	r        *hx.Rand
	ks       *partitioning.KeySpace
	rng      partitioning.KeyGroupRange
	keys     [][]byte
	unit     int64
	dom      int
	distinct bool // two different keys never share a timestamp
	srids    []int
	known    map[int]bool // upstream map entries since the last restore
	wmOf     map[int]int64
	ops      []json.RawMessage
}

// with [distinct] two different keys never share a timestamp (no heap-layout dependent ties: the model comparison
// stays exact also when a consumer stops part-way)
func (g *genState) fix(key []byte, t int64) int64 {
	if !g.distinct {
		return t
	}
	idx := 0
	for i, k := range g.keys {
		if string(k) == string(key) {
			idx = i
		}
	}
	if t > math.MaxInt64-64 {
		t = math.MaxInt64 - 64
	}
	return t - t%16 + int64(idx)
}

func (g *genState) ts() int64 {
	switch g.r.Intn(24) {
	case 0:
		return 0
	case 1:
		return math.MaxInt64
	case 2:
		return math.MaxInt64 - int64(g.r.Intn(3))
	}
	return int64(g.r.Intn(g.dom)) * g.unit
}

func (g *genState) compositeGuess() int64 {
	m := int64(math.MaxInt64)
	for id := range g.known {
		if g.wmOf[id] < m {
			m = g.wmOf[id]
		}
	}
	return m
}

func (g *genState) genSet() opJ {
	k := hx.Pick(g.r, g.keys)
	t := g.ts()
	if g.r.Chance(1, 3) { // above the composite watermark so that it is accepted
		cw := g.compositeGuess()
		if cw < math.MaxInt64-int64(g.dom)*g.unit-10 && cw >= 0 {
			t = cw + int64(1+g.r.Intn(g.dom))*g.unit
			if g.r.Chance(1, 6) {
				t = cw + 1
			}
		}
	}
	return opJ{Op: "set", Key: k, T: g.fix(k, t)}
}

func (g *genState) emit(o opJ) { g.ops = append(g.ops, hx.Op(o)) }

func (g *genState) genAdv(all bool) {
	var wm int64
	base := g.compositeGuess()
	if base == math.MaxInt64 || base < 0 {
		base = 0
	}
	switch g.r.Intn(10) {
	case 0: // regress
		wm = int64(g.r.Intn(g.dom)) * g.unit
	case 1: // far jump
		wm = int64(g.dom) * g.unit
	default:
		wm = base + int64(g.r.Intn(g.dom/3+2))*g.unit
		if wm < 0 {
			wm = math.MaxInt64
		}
	}
	senders := []int{hx.Pick(g.r, g.srids)}
	if all {
		senders = append([]int{}, g.srids...)
		hx.Shuffle(g.r, senders)
	} else if g.r.Chance(1, 25) {
		senders = []int{7 + g.r.Intn(2)} // an id the registry was not configured with
	}
	for _, s := range senders {
		o := opJ{Op: "adv", Sr: s, T: wm}
		if g.r.Chance(1, 4) {
			n := 1 + g.r.Intn(3)
			for i := 0; i < n; i++ {
				s2 := g.genSet()
				o.During = append(o.During, durJ{After: 1 + g.r.Intn(3), Key: s2.Key, T: s2.T})
			}
		}
		if g.r.Chance(1, 3) { // the consumer stops part-way
			o.Op = "advp"
			o.K = g.r.Intn(4)
		}
		g.known[s] = true
		g.wmOf[s] = wm
		g.emit(o)
	}
}

func (g *genState) restore() {
	how := "same"
	if g.r.Chance(1, 2) {
		how = "ckpt"
	}
	g.emit(opJ{Op: "restore", How: how})
	if g.r.Chance(1, 3) { // a read fault while the fresh caches are loaded
		g.emit(opJ{Op: "peekfault", N: g.r.Intn(3)})
	}
	g.known = map[int]bool{}
	g.wmOf = map[int]int64{}
	for _, s := range g.srids {
		g.known[s] = true
		g.wmOf[s] = 0
	}
}

func (g *genState) finalDrain() {
	ids := make([]int, 0, len(g.known))
	for id := range g.known {
		ids = append(ids, id)
	}
	sort.Ints(ids)
	for _, id := range ids {
		g.emit(opJ{Op: "adv", Sr: id, T: math.MaxInt64})
	}
}

func genCase(r *hx.Rand, idx int, tier string) *hx.Case {
	count := hx.Pick(r, []int{1, 1, 2, 3, 4, 8, 16})
	nr := 1 + r.Intn(3)
	if nr > count {
		nr = count
	}
	ks := partitioning.NewKeySpace(count, nr)
	ri := r.Intn(nr)
	rng := ks.KeyGroupRanges()[ri]
	// subject keys inside the operator's range
	nkeys := 1 + r.Intn(8)
	var keys [][]byte
	for tries := 0; len(keys) < nkeys && tries < 4000; tries++ {
		var k []byte
		if r.Chance(1, 2) {
			k = []byte(fmt.Sprintf("k%d", r.Intn(50)))
		} else {
			k = r.Bytes(1 + r.Intn(6))
		}
		if rng.IncludesKeyGroup(ks.KeyGroup(k)) {
			dup := false
			for _, x := range keys {
				if string(x) == string(k) {
					dup = true
				}
			}
			if !dup {
				keys = append(keys, k)
			}
		}
	}
	if len(keys) == 0 {
		return nil
	}
	size := rng.Size()
	perGroup := hx.Pick(r, []int{0, 1, 11, 12, 13, 14, 24, 26, 30, 40, 40, 60, 100, 100000})
	cache := uint64(perGroup*size + r.Intn(size))
	mem := hx.Pick(r, []uint64{64, 100, 128, 256, 256, 1024, 1 << 20})
	nsr := 1 + r.Intn(3)
	srids := make([]int, nsr)
	for i := range srids {
		srids[i] = i
	}
	g := &genState{r: r, ks: ks, rng: rng, keys: keys, srids: srids,
		unit: hx.Pick(r, []int64{1, 1, 1_000_000_000, 1 << 40}), dom: hx.Pick(r, []int{6, 12, 30, 60}), distinct: r.Chance(1, 2),
		known: map[int]bool{}, wmOf: map[int]int64{}}
	for _, s := range srids {
		g.known[s] = true
		g.wmOf[s] = 0
	}
	n := 8 + r.Intn(40)
	if tier == "thorough" {
		n = 8 + r.Intn(63)
	}
	// phases: bursts of registrations make caches overflow
	for len(g.ops) < n {
		switch x := r.Intn(100); {
		case x < 55:
			b := 1
			if r.Chance(1, 4) {
				b = 2 + r.Intn(8)
			}
			for i := 0; i < b; i++ {
				o := g.genSet()
				g.emit(o)
				if r.Chance(1, 8) { // the identical registration again
					g.emit(o)
				}
			}
		case x < 75:
			g.genAdv(false)
		case x < 88:
			g.genAdv(true)
		case x < 91:
			g.emit(opJ{Op: "peekfault", N: r.Intn(3)})
		default:
			g.restore()
		}
	}
	g.finalDrain()
	return &hx.Case{
		Name:   fmt.Sprintf("timers-%d", idx),
		Params: map[string]any{"mode": "c10", "count": count, "nranges": nr, "range": ri, "cache": cache, "memtable": mem, "srids": srids},
		Ops:    g.ops,
	}
}

func (eng) Generate(mode, tier string, r *hx.Rand) []*hx.Case {
	if mode == "c10op" {
		return append(genOpCases(tier, r), genCkCases(tier, r)...)
	}
	n := 700
	if tier == "thorough" {
		n = 6000
	}
	var cs []*hx.Case
	// consecutive seeds of hx.Rand are shifted copies of one sequence: mix two outputs so that seeds give unrelated case sets
	a, b := r.U64(), r.U64()
	r = hx.NewRand(a*0x2545F4914F6CDD1D ^ (b >> 11) ^ (b << 29))
	for i := 0; len(cs) < n; i++ {
		if c := genCase(r.Fork(), i, tier); c != nil {
			cs = append(cs, c)
		}
	}
	return append(cs, genScaleInCases(tier, r)...)
}

// ---------- execution ----------

type firedJ struct {
	K []byte `json:"k"`
	T int64  `json:"t"`
}

func coqFired(f firedJ) string { return hx.CoqPair(hx.CoqBytes(f.K), hx.CoqZ(f.T)) }

var debugDump = os.Getenv("TIMERS_DEBUG") != ""

var hasTables = regexp.MustCompile(`, tables [1-9]`)

var quiet = slog.New(slog.NewTextHandler(io.Discard, nil))

// Execute: no deadline of its own. A loop of the implementation that does not terminate is found by hx's supervisor (no
// progress for 180 s in the child process), an advance that yields more timers than were ever set by the deterministic
// guard in the advance loops; a wall-clock watchdog here could turn a slow run on a loaded machine into a false alarm.
func (e eng) Execute(mode string, c *hx.Case) (*hx.Result, error) {
	switch {
	case mode == "c10op" && getInt(c.Params, "batch", 1) > 1:
		return e.executeCk(c)
	case mode == "c10op":
		return e.executeOp(c)
	case getInt(c.Params, "scalein", 0) > 0:
		return e.executeScaleIn(c)
	}
	return e.execute(mode, c)
}

func (eng) execute(mode string, c *hx.Case) (*hx.Result, error) {
	cf := cfgOf(c)
	ks := partitioning.NewKeySpace(cf.Count, cf.NRanges)
	rng := ks.KeyGroupRanges()[cf.Range]
	fault := &readFault{from: -1}
	fs := faultFS{FileSystem: storage.NewMemoryFilesystem(), f: fault}
	opts := dkv.DBOptions{FileSystem: fs, MemTableSize: cf.MemTable, Logger: quiet}
	db := dkv.Open(opts, nil)
	// every DB object stays reachable until the case is over: a collected DB deletes table files that a DB re-opened
	// from its checkpoint on the same file system still reads (DESIGN D11, property C09's subject)
	keep := []*dkv.DB{db}
	defer func() { runtime.KeepAlive(keep) }()

	srNames := make([]string, len(cf.SrIDs))
	for i, id := range cf.SrIDs {
		srNames[i] = srName(id)
	}
	var store *operator.TimerStore
	newReg := func() *operator.TimerRegistry {
		store = operator.NewTimerStore(db, ks, rng, cf.Cache)
		return operator.NewTimerRegistry(store, srNames)
	}
	reg := newReg()

	var coqOps []string
	var observed [][]firedJ
	tags := map[string]bool{}
	// plain bookkeeping for the distribution tags only
	pending := map[string]firedJ{}
	groupBytes := func() map[int]int {
		m := map[int]int{}
		for _, f := range pending {
			m[int(ks.KeyGroup(f.K))] += 11 + len(f.K)
		}
		return m
	}
	perGroup := int(cf.Cache / uint64(rng.Size()))
	overflow := false
	nRestore, nYielding, ckptID := 0, 0, uint64(0)
	noteOverflow := func() {
		for _, b := range groupBytes() {
			if b > perGroup {
				overflow = true
			}
		}
	}
	nSets := 0
	setTimer := func(key []byte, t int64) {
		nSets++
		reg.SetTimer(key, time.Unix(0, t))
		pending[fmt.Sprintf("%x/%d", key, t)] = firedJ{K: key, T: t} // over-approximation (ignores the guard); tags only
		noteOverflow()
	}

	for i, raw := range c.Ops {
		var o opJ
		if err := json.Unmarshal(raw, &o); err != nil {
			return nil, fmt.Errorf("op %d: %v", i, err)
		}
		switch o.Op {
		case "set":
			if !rng.IncludesKeyGroup(ks.KeyGroup(o.Key)) {
				continue // not this operator's key: the operator never sees it
			}
			if o.T < 0 {
				tags["pre-epoch"] = true
			}
			for _, t := range append([]int64{o.T}, o.More...) {
				if t < 0 {
					tags["pre-epoch"] = true
				}
				setTimer(o.Key, t)
				coqOps = append(coqOps, fmt.Sprintf("SetTimer %s %s", hx.CoqBytes(o.Key), hx.CoqZ(t)))
			}
		case "adv", "advp":
			var out []firedJ
			var dur []string
			n := 0
			seq := reg.AdvanceWatermark(srName(o.Sr), &workerpb.Watermark{Timestamp: timestamppb.New(time.Unix(0, o.T))})
			if o.Op == "advp" && o.K <= 0 {
				seq = func(yield func([]byte, time.Time) bool) {} // the returned iterator is never run
			}
			for k, ts := range seq {
				if o.Op == "advp" && n >= o.K {
					panic(fmt.Sprintf("op %d: the iterator yielded again after the consumer stopped", i))
				}
				if n > nSets+4 {
					panic(fmt.Sprintf("op %d: AdvanceWatermark yielded %d timers although only %d were ever set", i, n+1, nSets))
				}
				out = append(out, firedJ{K: append([]byte{}, k...), T: ts.UnixNano()})
				delete(pending, fmt.Sprintf("%x/%d", k, ts.UnixNano()))
				n++
				for _, d := range o.During {
					if d.After == n && rng.IncludesKeyGroup(ks.KeyGroup(d.Key)) {
						setTimer(d.Key, d.T)
						tags["set-during-advance"] = true
					}
				}
				if o.Op == "advp" && n == o.K {
					tags["consumer-stopped"] = true
					break
				}
			}
			for _, d := range o.During {
				if rng.IncludesKeyGroup(ks.KeyGroup(d.Key)) {
					dur = append(dur, fmt.Sprintf("(%s, %s, %s)", hx.CoqNat(d.After), hx.CoqBytes(d.Key), hx.CoqZ(d.T)))
				}
			}
			if len(out) > 0 {
				nYielding++
			}
			observed = append(observed, out)
			if o.Op == "advp" {
				coqOps = append(coqOps, fmt.Sprintf("AdvancePartial %s %s %s %s", hx.CoqN(uint64(o.Sr)), hx.CoqZ(o.T), hx.CoqNat(max(o.K, 0)), hx.CoqList(dur, "nat * bytes * Z")))
			} else if len(dur) == 0 {
				coqOps = append(coqOps, fmt.Sprintf("Advance %s %s", hx.CoqN(uint64(o.Sr)), hx.CoqZ(o.T)))
			} else {
				coqOps = append(coqOps, fmt.Sprintf("AdvanceSet %s %s %s", hx.CoqN(uint64(o.Sr)), hx.CoqZ(o.T), hx.CoqList(dur, "nat * bytes * Z")))
			}
		case "peekfault":
			// a storage read fault while the timer caches are (re)loaded: table reads fail from the n-th one on during a
			// read-only GetEarliest. The reload either survives (then nothing may be missing later) or fails loudly
			// (panic: the operator would crash and be restarted on its database = a new store and registry).
			failed := false
			fault.arm(int64(max(o.N, 0)))
			func() {
				defer func() {
					if p := recover(); p != nil {
						failed = true
					}
				}()
				store.GetEarliest()
			}()
			hit := fault.disarm()
			if failed {
				reg = newReg()
				nRestore++
				coqOps = append(coqOps, "Restore")
				tags["reload-failed-loudly"] = true
			} else if hit {
				tags["reload-survived-read-fault"] = true
			}
		case "restore":
			if err := db.WaitOnTasks(); err != nil {
				return nil, fmt.Errorf("op %d: WaitOnTasks: %v", i, err)
			}
			if o.How == "ckpt" {
				ckptID++
				h, err := db.Checkpoint(ckptID)()
				if err != nil {
					return nil, fmt.Errorf("op %d: checkpoint: %v", i, err)
				}
				db = dkv.Open(opts, []recovery.CheckpointHandle{h})
				keep = append(keep, db)
				tags["restore-ckpt"] = true
			} else {
				tags["restore-same"] = true
			}
			reg = newReg()
			nRestore++
			coqOps = append(coqOps, "Restore")
		default:
			return nil, fmt.Errorf("op %d: unknown op %q", i, o.Op)
		}
		if err := db.WaitOnTasks(); err != nil {
			return nil, fmt.Errorf("op %d: WaitOnTasks: %v", i, err)
		}
		if debugDump {
			var err error
			var ks []string
			for e := range db.ScanPrefix(nil, &err) {
				ks = append(ks, fmt.Sprintf("%x", e.Key()))
			}
			fmt.Fprintf(os.Stderr, "op %d %s -> db %v err=%v\n", i, string(raw), ks, err)
		}
		if !tags["sstables"] && hasTables.MatchString(db.Diagnostics()) {
			tags["sstables"] = true
		}
	}

	var obs []string
	for _, out := range observed {
		fs := make([]string, len(out))
		for i, f := range out {
			fs[i] = coqFired(f)
		}
		obs = append(obs, hx.CoqList(fs, "bytes * Z"))
	}
	srs := make([]string, len(cf.SrIDs))
	for i, id := range cf.SrIDs {
		srs[i] = hx.CoqN(uint64(id))
	}
	term := fmt.Sprintf("TC %s %s %s %s %s\n  %s\n  %s",
		hx.CoqN(uint64(cf.Count)), hx.CoqN(uint64(rng.Start)), hx.CoqN(uint64(rng.Size())), hx.CoqN(cf.Cache),
		hx.CoqList(srs, "N"), hx.CoqList(coqOps, "op"), hx.CoqList(obs, "list (bytes * Z)"))

	if overflow {
		tags["cache-overflow"] = true
	}
	if perGroup == 0 {
		tags["cache-0"] = true
	}
	if nRestore > 0 {
		tags["restored"] = true
	}
	tags[fmt.Sprintf("groups-%d", min(rng.Size(), 4))] = true
	tags[fmt.Sprintf("yielding-advances-%d", min(nYielding, 3))] = true
	var tl []string
	for t := range tags {
		tl = append(tl, t)
	}
	sort.Strings(tl)
	return &hx.Result{Term: term, Nontrivial: overflow && nRestore > 0 && nYielding >= 2, Tags: tl, Observed: observed}, nil
}

// ---------- mode c10op: the same histories through a real Operator ----------

func genOpCases(tier string, r *hx.Rand) []*hx.Case {
	n := 120
	if tier == "thorough" {
		n = 900
	}
	a, b := r.U64(), r.U64()
	r = hx.NewRand(a*0x2545F4914F6CDD1D ^ (b >> 11) ^ (b << 29) ^ 0x6f70)
	ks := partitioning.NewKeySpace(16, 1)
	rng := ks.KeyGroupRanges()[0]
	var cs []*hx.Case
	for i := 0; len(cs) < n; i++ {
		rr := r.Fork()
		nkeys := 1 + rr.Intn(6)
		var keys [][]byte
		for len(keys) < nkeys {
			keys = append(keys, []byte(fmt.Sprintf("k%d", rr.Intn(40))))
		}
		nsr := 1 + rr.Intn(3)
		srids := make([]int, nsr)
		for j := range srids {
			srids[j] = j
		}
		perGroup := hx.Pick(rr, []int{0, 1, 13, 14, 26, 30, 40, 60, 100000})
		g := &genState{r: rr, ks: ks, rng: rng, keys: keys, srids: srids,
			unit: hx.Pick(rr, []int64{1, 1_000_000_000, 1 << 40}), dom: hx.Pick(rr, []int{6, 12, 30}),
			known: map[int]bool{}, wmOf: map[int]int64{}}
		for _, s := range srids {
			g.known[s] = true
			g.wmOf[s] = 0
		}
		nops := 8 + rr.Intn(30)
		for len(g.ops) < nops {
			switch x := rr.Intn(100); {
			case x < 60:
				bn := 1
				if rr.Chance(1, 3) {
					bn = 2 + rr.Intn(8)
				}
				for j := 0; j < bn; j++ {
					o := g.genSet()
					if rr.Chance(1, 3) {
						for m := 1 + rr.Intn(3); m > 0; m-- {
							o.More = append(o.More, g.genSet().T)
						}
					}
					g.emit(o)
				}
			case x < 80:
				g.genAdv(false)
			default:
				g.genAdv(true)
			}
		}
		// known senders only (an unknown sender is rejected by the operator before it reaches the registry)
		var ops []json.RawMessage
		for _, raw := range g.ops {
			var o opJ
			json.Unmarshal(raw, &o)
			if (o.Op == "adv" || o.Op == "advp") && o.Sr >= nsr {
				continue
			}
			if o.Op == "advp" { // the operator drains every advance
				o.Op, o.K = "adv", 0
				raw = hx.Op(o)
			}
			ops = append(ops, raw)
		}
		g.ops = ops
		g.known = map[int]bool{}
		for _, s := range srids {
			g.known[s] = true
		}
		g.finalDrain()
		cs = append(cs, &hx.Case{
			Name:   fmt.Sprintf("timers-op-%d", i),
			Params: map[string]any{"mode": "c10op", "cache": perGroup*16 + rr.Intn(16), "memtable": hx.Pick(rr, []uint64{64, 128, 256, 1024, 1 << 20}), "srids": srids},
			Ops:    g.ops,
		})
	}
	return cs
}

// scripted handler: a keyed event's value is the JSON list of timers to register for its key; the answer to the n-th
// TimerExpired event of the current watermark message registers the timers scripted for "after yield n".
type opHandler struct {
	mu     sync.Mutex
	during []durJ
	n      int
	fired  []firedJ
}

func (h *opHandler) ProcessEventBatch(ctx context.Context, req *handlerpb.ProcessEventBatchRequest) (*handlerpb.ProcessEventBatchResponse, error) {
	h.mu.Lock()
	defer h.mu.Unlock()
	resp := &handlerpb.ProcessEventBatchResponse{}
	for _, e := range req.Events {
		switch ev := e.Event.(type) {
		case *handlerpb.Event_KeyedEvent:
			var ts []int64
			if err := json.Unmarshal(ev.KeyedEvent.Value, &ts); err != nil {
				return nil, err
			}
			kr := &handlerpb.KeyResult{Key: ev.KeyedEvent.Key}
			for _, t := range ts {
				kr.NewTimers = append(kr.NewTimers, timestamppb.New(time.Unix(0, t)))
			}
			resp.KeyResults = append(resp.KeyResults, kr)
		case *handlerpb.Event_TimerExpired:
			h.n++
			h.fired = append(h.fired, firedJ{K: append([]byte{}, ev.TimerExpired.Key...), T: ev.TimerExpired.Timestamp.AsTime().UnixNano()})
			for _, d := range h.during {
				if d.After == h.n {
					resp.KeyResults = append(resp.KeyResults, &handlerpb.KeyResult{Key: d.Key, NewTimers: []*timestamppb.Timestamp{timestamppb.New(time.Unix(0, d.T))}})
				}
			}
		}
	}
	return resp, nil
}
func (h *opHandler) KeyEventBatch(ctx context.Context, events [][]byte) ([][]*handlerpb.KeyedEvent, error) {
	return nil, fmt.Errorf("not used")
}

var opSeq int

func (eng) executeOp(c *hx.Case) (*hx.Result, error) {
	cf := cfgOf(c)
	verifhook.SetTuning("timer_cache_bytes", cf.Cache)
	verifhook.SetTuning("dkv", dkv.VerifDBTuning{MemTableSize: cf.MemTable})
	defer verifhook.SetTuning("timer_cache_bytes", nil)
	defer verifhook.SetTuning("dkv", nil)
	srNames := make([]string, len(cf.SrIDs))
	for i, id := range cf.SrIDs {
		srNames[i] = srName(id)
	}
	h := &opHandler{}
	op := operator.NewOperator(operator.NewOperatorParams{
		ID:            "op1",
		UserHandler:   h,
		Job:           &workerstest.DummyJob{},
		EventBatching: batching.EventBatcherParams{MaxSize: 1}, // every event is handled as soon as it is added
	})
	op.Logger = quiet
	ctx, cancel := context.WithCancel(context.Background())
	done := make(chan struct{})
	go func() { defer close(done); op.Start(ctx) }()
	// on every path the operator has stopped before the case is over (Start returns when its context is cancelled,
	// whether or not it already ran); waited for without a deadline: hx's hang detector is the only clock
	defer func() { cancel(); <-done }()
	opSeq++
	if err := op.HandleDeploy(ctx, &workerpb.DeployOperatorRequest{
		Operators:       []*jobpb.NodeIdentity{{Id: "op1", Host: "h"}},
		SourceRunnerIds: srNames,
		KeyGroupCount:   16,
		StorageLocation: fmt.Sprintf("memory:///c10-%d", opSeq),
	}, &embedded.RecordingSink{}); err != nil {
		return nil, err
	}
	// HandleEvent returns after the operator's event loop has processed the event. "not ready" cannot occur after a
	// successful HandleDeploy; should it, the send is repeated until it is accepted (the sleep only paces the polling,
	// there is no give-up deadline that could drop a step the model still assumes).
	send := func(sender string, ev *workerpb.Event) error {
		for {
			err := op.HandleEvent(ctx, sender, ev)
			if err == nil || !strings.Contains(err.Error(), "not ready") {
				return err
			}
			time.Sleep(time.Millisecond)
		}
	}
	ks := partitioning.NewKeySpace(16, 1)
	var coqOps []string
	var observed [][]firedJ
	pendingBytes := map[int]int{}
	overflow := false
	nYielding := 0
	tags := map[string]bool{}
	for i, raw := range c.Ops {
		var o opJ
		if err := json.Unmarshal(raw, &o); err != nil {
			return nil, fmt.Errorf("op %d: %v", i, err)
		}
		switch o.Op {
		case "set":
			val, _ := json.Marshal(append([]int64{o.T}, o.More...))
			ev := &workerpb.Event{Event: &workerpb.Event_KeyedEvent{KeyedEvent: &handlerpb.KeyedEvent{Key: o.Key, Value: val}}}
			if err := send(srNames[0], ev); err != nil {
				return nil, fmt.Errorf("op %d: HandleEvent: %v", i, err)
			}
			pendingBytes[int(ks.KeyGroup(o.Key))] += 11 + len(o.Key)
			if pendingBytes[int(ks.KeyGroup(o.Key))] > int(cf.Cache/16) {
				overflow = true
			}
			for _, t := range append([]int64{o.T}, o.More...) {
				coqOps = append(coqOps, fmt.Sprintf("SetTimer %s %s", hx.CoqBytes(o.Key), hx.CoqZ(t)))
			}
			if len(o.More) > 0 {
				tags["several-timers-in-one-result"] = true
			}
		case "adv":
			h.mu.Lock()
			h.during, h.n, h.fired = o.During, 0, nil
			h.mu.Unlock()
			ev := &workerpb.Event{Event: &workerpb.Event_Watermark{Watermark: &workerpb.Watermark{Timestamp: timestamppb.New(time.Unix(0, o.T))}}}
			if err := send(srName(o.Sr), ev); err != nil {
				return nil, fmt.Errorf("op %d: HandleEvent: %v", i, err)
			}
			h.mu.Lock()
			out := h.fired
			h.during, h.fired = nil, nil
			h.mu.Unlock()
			for _, f := range out {
				pendingBytes[int(ks.KeyGroup(f.K))] -= 11 + len(f.K)
			}
			if len(out) > 0 {
				nYielding++
			}
			observed = append(observed, out)
			var dur []string
			for _, d := range o.During {
				dur = append(dur, fmt.Sprintf("(%s, %s, %s)", hx.CoqNat(d.After), hx.CoqBytes(d.Key), hx.CoqZ(d.T)))
				if d.After <= len(out) {
					tags["set-during-advance"] = true
				}
			}
			if len(dur) == 0 {
				coqOps = append(coqOps, fmt.Sprintf("Advance %s %s", hx.CoqN(uint64(o.Sr)), hx.CoqZ(o.T)))
			} else {
				coqOps = append(coqOps, fmt.Sprintf("AdvanceSet %s %s %s", hx.CoqN(uint64(o.Sr)), hx.CoqZ(o.T), hx.CoqList(dur, "nat * bytes * Z")))
			}
		default:
			return nil, fmt.Errorf("op %d: op %q is not available through the operator", i, o.Op)
		}
	}
	op.Stop()
	var obs []string
	for _, out := range observed {
		fs := make([]string, len(out))
		for i, f := range out {
			fs[i] = coqFired(f)
		}
		obs = append(obs, hx.CoqList(fs, "bytes * Z"))
	}
	srs := make([]string, len(cf.SrIDs))
	for i, id := range cf.SrIDs {
		srs[i] = hx.CoqN(uint64(id))
	}
	term := fmt.Sprintf("TC 16%%N 0%%N 16%%N %s %s\n  %s\n  %s", hx.CoqN(cf.Cache), hx.CoqList(srs, "N"), hx.CoqList(coqOps, "op"), hx.CoqList(obs, "list (bytes * Z)"))
	if overflow {
		tags["cache-overflow"] = true
	}
	tags[fmt.Sprintf("yielding-messages-%d", min(nYielding, 3))] = true
	var tl []string
	for t := range tags {
		tl = append(tl, t)
	}
	sort.Strings(tl)
	return &hx.Result{Term: term, Nontrivial: overflow && nYielding >= 2, Tags: tl, Observed: observed}, nil
}

// ---------- storage read faults ----------

// readFault: while armed, ReadAt on a table file fails from the from-th read on
type readFault struct {
	mu    sync.Mutex
	from  int64 // -1: not armed
	reads int64
	hit   bool
}

func (f *readFault) arm(from int64) {
	f.mu.Lock()
	f.from, f.reads, f.hit = from, 0, false
	f.mu.Unlock()
}
func (f *readFault) disarm() (hit bool) {
	f.mu.Lock()
	defer f.mu.Unlock()
	f.from = -1
	return f.hit
}
func (f *readFault) fails() bool {
	f.mu.Lock()
	defer f.mu.Unlock()
	if f.from < 0 {
		return false
	}
	f.reads++
	if f.reads > f.from {
		f.hit = true
		return true
	}
	return false
}

type faultFS struct {
	storage.FileSystem
	f *readFault
}

func (fs faultFS) New(path string) storage.File {
	return faultFile{File: fs.FileSystem.New(path), f: fs.f}
}
func (fs faultFS) Open(path string) storage.File {
	return faultFile{File: fs.FileSystem.Open(path), f: fs.f}
}

type faultFile struct {
	storage.File
	f *readFault
}

func (f faultFile) ReadAt(p []byte, off int64) (int, error) {
	if strings.HasSuffix(f.Name(), ".sst") && f.f.fails() {
		return 0, errors.New("injected read fault")
	}
	return f.File.ReadAt(p, off)
}

func main() { hx.Main(eng{}) }
